import Lean.Data.Json
import DT
open Lean Py

namespace A
open PyAst

def atomOfJson (j : Json) : Atom :=
  match j with
  | Json.null => .none
  | Json.str s => .str s
  | Json.bool b => .bool b
  | Json.num n => if n.exponent == 0 then .int n.mantissa else .other (toString n)
  | Json.obj _ => match j.getObjValAs? String "o" with | .ok r => .other r | _ => .other "?"
  | _ => .other "?"

def atomToJson : Atom → Json
  | .none => Json.null
  | .str s => Json.str s
  | .bool b => Json.bool b
  | .int i => Json.num (JsonNumber.fromInt i)
  | .other r => Json.mkObj [("o", Json.str r)]

partial def nodeOfJson (j : Json) : Node :=
  let kind := (j.getObjValAs? String "k").toOption.getD "?"
  let fields : List (String × Field) := match j.getObjVal? "f" with
    | .ok (Json.arr a) => a.toList.filterMap fun kv =>
      match kv with
      | Json.arr #[Json.str k, v] =>
        some (k, match v.getObjVal? "n" with
          | .ok nj => Field.node (nodeOfJson nj)
          | _ => match v.getObjVal? "l" with
            | .ok (Json.arr items) => Field.list (items.toList.map fun it =>
                match it.getObjVal? "n" with
                | .ok nj => Item.node (nodeOfJson nj)
                | _ => Item.atom (atomOfJson ((it.getObjVal? "a").toOption.getD Json.null)))
            | _ => match v.getObjVal? "a" with
              | .ok a => Field.atom (atomOfJson a)
              | _ => Field.missing)
      | _ => none
    | _ => []
  .mk kind fields none none none

mutual
partial def nodeToJson (n : Node) : Json :=
  Json.mkObj [("k", Json.str n.kind), ("f", Json.arr (n.fields.map fun (k, f) => Json.arr #[Json.str k, fieldToJson f]).toArray)]
partial def fieldToJson : Field → Json
  | .atom a => Json.mkObj [("a", atomToJson a)]
  | .node m => Json.mkObj [("n", nodeToJson m)]
  | .list l => Json.mkObj [("l", Json.arr (l.map itemToJson).toArray)]
  | .missing => Json.mkObj [("m", Json.null)]
partial def itemToJson : Item → Json
  | .node m => Json.mkObj [("n", nodeToJson m)]
  | .atom a => Json.mkObj [("a", atomToJson a)]
end

def searchOfJson (j : Json) : List Atom :=
  match j with | Json.arr a => a.toList.map atomOfJson | _ => []

end A

def valToJson : Val → Json
  | .none => Json.mkObj [("t", "none")]
  | .bool b => Json.mkObj [("t", "bool"), ("v", Json.bool b)]
  | .int n d => Json.mkObj [("t", "int"), ("v", Json.str (String.ofList (signed n d)))]
  | .float t => Json.mkObj [("t", "float"), ("v", Json.str (String.ofList t))]
  | .str s => Json.mkObj [("t", "str"), ("v", Json.str (String.ofList s))]

def valOfJson (j : Json) : Except String Val := do
  let t ← j.getObjValAs? String "t"
  match t with
  | "none" => pure .none
  | "bool" => pure (.bool (← j.getObjValAs? Bool "v"))
  | "int" =>
    let v ← j.getObjValAs? String "v"
    match v.toList with
    | '-' :: d => pure (.int true d)
    | d => pure (.int false d)
  | "float" => pure (.float (← j.getObjValAs? String "v").toList)
  | "str" => pure (.str (← j.getObjValAs? String "v").toList)
  | _ => throw "bad val"

def optStr (j : Json) (k : String) : Option Str :=
  match j.getObjVal? k with
  | .ok (Json.str s) => some s.toList
  | _ => none

def resJson {α} (r : Res α) (f : α → Json) : Json :=
  match r with
  | .ok a => Json.mkObj [("ok", f a)]
  | .raises k => Json.mkObj [("raises", k)]
  | .unmodelled w => Json.mkObj [("unmodelled", w)]

def paramOfJson (j : Json) : Param :=
  { doc := optStr j "doc", typ := optStr j "typ",
    default := match j.getObjVal? "default" with
      | .ok dj => (valOfJson dj).toOption
      | _ => none }

def paramToJson (p : Param) : Json :=
  Json.mkObj ((match p.doc with | some s => [("doc", Json.str (String.ofList s))] | none => [])
    ++ (match p.typ with | some s => [("typ", Json.str (String.ofList s))] | none => [])
    ++ (match p.default with | some v => [("default", valToJson v)] | none => []))

def irOfJson (j : Json) : IR :=
  let params : ODict Param := match j.getObjVal? "params" with
    | .ok (Json.arr a) => a.toList.filterMap fun kv =>
        match kv with
        | Json.arr #[Json.str k, pj] => some (k.toList, paramOfJson pj)
        | _ => none
    | _ => []
  { doc := (optStr j "doc").getD [], params := params,
    returns := match j.getObjVal? "returns" with
      | .ok Json.null => none
      | .ok rj => some (paramOfJson rj)
      | _ => none }

def irToJson (ir : IR) : Json :=
  Json.mkObj [("doc", Json.str (String.ofList ir.doc)),
    ("params", Json.arr (ir.params.map fun (k, p) => Json.arr #[Json.str (String.ofList k), paramToJson p]).toArray),
    ("returns", match ir.returns with | some r => paramToJson r | none => Json.null)]

def addArgToJson (a : ArgAttr.AddArg) : Json :=
  let os (x : Option Str) : Json := match x with | some s => Json.str (String.ofList s) | none => Json.null
  Json.mkObj [("type", os a.typ),
    ("choices", match a.choices with | some ms => Json.arr (ms.map fun m => Json.str (String.ofList m)).toArray | none => Json.null),
    ("action", os a.action), ("help", os a.help), ("required", Json.bool a.required),
    ("default", match a.default with | some v => valToJson v | none => Json.null)]

def addArgOfJson (j : Json) : ArgAttr.AddArg :=
  { typ := optStr j "type",
    choices := match j.getObjVal? "choices" with
      | .ok (Json.arr a) => some (a.toList.filterMap fun x => match x with | Json.str s => some s.toList | _ => none)
      | _ => none,
    action := optStr j "action", help := optStr j "help",
    required := (j.getObjValAs? Bool "required").toOption.getD false,
    default := match j.getObjVal? "default" with | .ok dj => (valOfJson dj).toOption | _ => none }

def step (line : String) : String :=
  match Json.parse line with
  | .error e => "{\"bad\":\"" ++ e ++ "\"}"
  | .ok j =>
    match j.getObjValAs? String "op" with
    | .ok "extract" =>
      let l := (optStr j "line").getD []
      let emit := (j.getObjValAs? Bool "emit").toOption.getD true
      (resJson (extractDefault l (optStr j "typ") emit) fun e =>
        Json.mkObj [("doc", Json.str (String.ofList e.doc)),
                    ("default", match e.default with | some v => valToJson v | none => Json.null)]).compress
    | .ok "setdoc" =>
      let emit := (j.getObjValAs? Bool "emit").toOption.getD true
      let d : Option Val := match j.getObjVal? "default" with
        | .ok dj => (valOfJson dj).toOption
        | _ => none
      let p : Param := { doc := optStr j "doc", typ := optStr j "typ", default := d }
      (resJson (setDefaultDoc ((optStr j "name").getD []) p emit) fun p =>
        Json.mkObj [("doc", match p.doc with | some s => Json.str (String.ofList s) | none => Json.null),
                    ("default", match p.default with | some v => valToJson v | none => Json.null)]).compress
    | .ok "interp" =>
      let emit := (j.getObjValAs? Bool "emit").toOption.getD true
      let p : Param := { doc := optStr j "doc", typ := optStr j "typ", default := none }
      (resJson (interpolateDefaults p emit) fun p =>
        Json.mkObj [("doc", match p.doc with | some s => Json.str (String.ofList s) | none => Json.null),
                    ("default", match p.default with | some v => valToJson v | none => Json.null)]).compress
    | .ok "emit_rest" =>
      let emit := (j.getObjValAs? Bool "emit").toOption.getD true
      let ir := match j.getObjVal? "ir" with | .ok i => irOfJson i | _ => {}
      (resJson (emitDocstringRest ir emit) fun t => Json.str (String.ofList t)).compress
    | .ok "parse_rest" =>
      let emit := (j.getObjValAs? Bool "emit").toOption.getD true
      let t := (optStr j "text").getD []
      if !isRestStyle t && !t.isEmpty then "{\"skip\":\"not rest\"}" else
      (resJson (parseDocstringRest t emit) irToJson).compress
    | .ok "find" =>
      let m := A.nodeOfJson ((j.getObjVal? "module").toOption.getD Json.null)
      let search := A.searchOfJson ((j.getObjVal? "search").toOption.getD Json.null)
      let m := if (j.getObjValAs? Bool "annotate").toOption.getD true then PyAst.annotate m else m
      (match PyAst.findTotal 1000000 search m with
       | .node n => Json.mkObj [("ok", A.nodeToJson n),
            ("loc", match n.loc with | some l => Json.arr (l.map A.atomToJson).toArray | none => Json.null),
            ("default", match n.dflt with | some it => A.itemToJson it | none => Json.null)]
       | .none => Json.mkObj [("ok", Json.null)]
       | .raises k => Json.mkObj [("raises", k)]).compress
    | .ok "rewrite" =>
      let m := PyAst.annotate (A.nodeOfJson ((j.getObjVal? "module").toOption.getD Json.null))
      let search := A.searchOfJson ((j.getObjVal? "search").toOption.getD Json.null)
      let repl := A.nodeOfJson ((j.getObjVal? "repl").toOption.getD Json.null)
      let (st, out) := PyAst.visit { search := search, repl := repl } m
      (match st.err with
       | some e => Json.mkObj [("raises", e)]
       | none => Json.mkObj [("ok", A.nodeToJson out), ("replaced", Json.bool st.replaced)]).compress
    | .ok "cli_sync" =>
      let kindArgs (k : String) : Cli.KindArgs :=
        match j.getObjVal? k with
        | .ok kj =>
          { files := match kj.getObjVal? "files" with
              | .ok (Json.arr a) => some (a.toList.map fun b => (b.getBool?).toOption.getD false)
              | _ => none,
            named := (kj.getObjValAs? Bool "named").toOption.getD false }
        | _ => {}
      let truth : Cli.Kind := match (j.getObjValAs? String "truth").toOption.getD "" with
        | "argparse_function" => .argparse | "class" => .cls | _ => .func
      let x : Cli.SyncArgs := { truth := truth, a := kindArgs "a", c := kindArgs "c", f := kindArgs "f" }
      let show_ : Cli.Decision → String
        | .usageError => "usage-error" | .accept => "accept" | .internalError => "internal-error"
      (Json.mkObj [("ok", Json.str (show_ (Cli.syncDecide x))), ("old", Json.str (show_ (Cli.syncDecideOld x)))]).compress
    | .ok "pair_args" =>
      let strs (k : String) : List String := match j.getObjVal? k with
        | .ok (Json.arr a) => a.toList.filterMap fun x => match x with | Json.str s => some s | _ => none
        | _ => []
      let opts (k : String) : List (Option String) := match j.getObjVal? k with
        | .ok (Json.arr a) => a.toList.map fun x => match x with | Json.str s => some s | _ => none
        | _ => []
      let out := Sig.pairArgs (strs "args") (opts "defaults") ++ Sig.pairArgs (strs "kwonly") (opts "kw_defaults")
      (Json.mkObj [("ok", Json.arr (out.map fun (n, d) =>
        Json.arr #[Json.str n, match d with | some t => Json.str t | none => Json.null]).toArray)]).compress
    | .ok "param2argparse" =>
      let pr := paramOfJson ((j.getObjVal? "param").toOption.getD Json.null)
      let nm := (optStr j "name").getD []
      let emit := (j.getObjValAs? Bool "emit").toOption.getD true
      (resJson (ArgAttr.param2argparse nm pr emit) addArgToJson).compress
    | .ok "argparse_params" =>
      let ir := match j.getObjVal? "ir" with | .ok i => irOfJson i | _ => {}
      let emit := (j.getObjValAs? Bool "emit").toOption.getD true
      (resJson (ArgAttr.argparseParams emit ir.params false) fun qs =>
        Json.arr (qs.map fun (k, p) => Json.arr #[Json.str (String.ofList k), paramToJson p]).toArray).compress
    | .ok "parse_out_param" =>
      let a := addArgOfJson ((j.getObjVal? "call").toOption.getD Json.null)
      let emit := (j.getObjValAs? Bool "emit").toOption.getD false
      let rd := (j.getObjValAs? Bool "require_default").toOption.getD false
      (resJson (ArgAttr.parseOutParam a rd emit) paramToJson).compress
    | .ok "func_attr" =>
      let pr := paramOfJson ((j.getObjVal? "param").toOption.getD Json.null)
      (resJson (FuncAttr.funcRT pr) fun r =>
        Json.mkObj ((match r.typ with | some t => [("typ", Json.str (String.ofList t))] | none => []) ++
          (match r.default with | some v => [("default", valToJson v)] | none => []))).compress
    | .ok "parse_doc" =>
      let t := (optStr j "text").getD []
      let emit := (j.getObjValAs? Bool "emit").toOption.getD true
      let st : DocEmit.Style := if (j.getObjValAs? String "style").toOption.getD "" == "google" then .google else .numpydoc
      (resJson (DocParse.parseDocstring st t emit) irToJson).compress
    | .ok "scan_doc" =>
      let t := (optStr j "text").getD []
      let st : DocEmit.Style := if (j.getObjValAs? String "style").toOption.getD "" == "google" then .google else .numpydoc
      let strs (l : List (List Char)) : Json := Json.arr (l.map fun x => Json.str (String.ofList x)).toArray
      (resJson (DocScan.scanPhase st t) fun sc =>
        Json.mkObj [("doc", Json.str (String.ofList sc.doc)),
          ("args", Json.arr (sc.args.map strs).toArray),
          ("rets", match sc.rets with | .lines l => strs l | .units u => Json.arr (u.map strs).toArray),
          ("afterward", match sc.afterward with | some a => strs a | none => Json.null)]).compress
    | .ok "emit_docstring" =>
      let emit := (j.getObjValAs? Bool "emit").toOption.getD true
      let ir := match j.getObjVal? "ir" with | .ok i => irOfJson i | _ => {}
      let st : DocEmit.Style := if (j.getObjValAs? String "style").toOption.getD "" == "google" then .google else .numpydoc
      (resJson (DocEmit.emitDocstring st ir emit) fun t => Json.str (String.ofList t)).compress
    | .ok "emit_param_str" =>
      let pr := paramOfJson ((j.getObjVal? "param").toOption.getD Json.null)
      let nm := (optStr j "name").getD []
      let emit := (j.getObjValAs? Bool "emit").toOption.getD true
      let r : Res Str := match (j.getObjValAs? String "style").toOption.getD "" with
        | "numpydoc" => DocEmit.emitParamStrNumpy nm pr emit
        | "google" => DocEmit.emitParamStrGoogle nm pr emit
        | _ => (emitParamStrRest nm pr emit).bind fun x => .ok x.1
      (resJson r fun t => Json.str (String.ofList t)).compress
    | .ok "param2ast" =>
      let pr := paramOfJson ((j.getObjVal? "param").toOption.getD Json.null)
      (resJson (ClassAttr.param2ast pr) fun a =>
        Json.mkObj [("ann", Json.str (String.ofList a.ann)),
          ("value", match a.value with
            | .const v => Json.mkObj [("const", valToJson v)]
            | .expr src => Json.mkObj [("expr", Json.str (String.ofList src))]
            | .dict => Json.str "dict")]).compress
    | .ok "class_attr" =>
      -- `name: ann = value` read by parse.class_ (no docstring): typ and default of the entry
      let ann := (optStr j "ann").getD []
      let value : ClassAttr.AVal := match j.getObjVal? "const" with
        | .ok cj => .const ((valOfJson cj).toOption.getD .none)
        | _ => match optStr j "expr" with | some src => .expr src | none => .dict
      (resJson ((ClassAttr.attrParse ⟨ann, value⟩).bind fun td => ClassAttr.inferDefault (some td.1) td.2) fun r =>
        Json.mkObj ((match r.1 with | some t => [("typ", Json.str (String.ofList t))] | none => []) ++ [("default", valToJson r.2)])).compress
    | .ok "norm" =>
      let ir := match j.getObjVal? "ir" with | .ok i => irOfJson i | _ => {}
      let inl := (j.getObjValAs? Bool "inline").toOption.getD false
      let k : Kinds.Kind := match (j.getObjValAs? String "kind").toOption.getD "" with
        | "class" => .cls | "argparse" => .argparse | _ => .func inl
      if Kinds.dom k ir then (Json.mkObj [("ok", irToJson (Kinds.norm k ir))]).compress
      else "{\"unmodelled\":\"outside the regular domain of this kind\"}"
    | .ok "norm_chain" =>
      let ir := match j.getObjVal? "ir" with | .ok i => irOfJson i | _ => {}
      let ks : List Kinds.Kind := match j.getObjVal? "kinds" with
        | .ok (Json.arr a) => a.toList.map fun kj =>
          let inl := (kj.getObjValAs? Bool "inline").toOption.getD false
          match (kj.getObjValAs? String "kind").toOption.getD "" with
          | "class" => .cls | "argparse" => .argparse
          | "rest" => .doc .rest | "numpydoc" => .doc .numpydoc | "google" => .doc .google
          | _ => .func inl
        | _ => []
      (match Kinds.chain ks ir with
       | some out => (Json.mkObj [("ok", irToJson out)]).compress
       | none => "{\"unmodelled\":\"a description on the chain leaves the regular domain of the next kind\"}")
    | .ok "fill" =>
      let t := (optStr j "text").getD []
      let w := (j.getObjValAs? Nat "width").toOption.getD 100
      let words := splitOnChar ' ' t
      let simple := !t.isEmpty && !t.any (fun c => c == '\t' || c == '\n' || c == '-' || c == '\r' || c == '\x0b' || c == '\x0c')
        && words.all (fun x => !x.isEmpty && x.length ≤ w) && t.all (fun c => c.toNat < 128)
      if simple then (Json.mkObj [("ok", Json.str (String.ofList (Wrap.fillSimple w t)))]).compress
      else "{\"unmodelled\":\"text outside the simple class of textwrap.fill\"}"
    | .ok "to_docstring" =>
      let ir := match j.getObjVal? "ir" with | .ok i => irOfJson i | _ => {}
      let emit := (j.getObjValAs? Bool "emit").toOption.getD true
      let level := (j.getObjValAs? Nat "indent_level").toOption.getD 2
      let et := (j.getObjValAs? Bool "emit_types").toOption.getD false
      let st := (j.getObjValAs? Bool "emit_separating_tab").toOption.getD true
      (resJson (ToDocstring.toDocstring ir emit level et st) fun t => Json.str (String.ofList t)).compress
    | .ok "func_doc_rt" =>
      let ir := match j.getObjVal? "ir" with | .ok i => irOfJson i | _ => {}
      let emit := (j.getObjValAs? Bool "emit").toOption.getD true
      let level := (j.getObjValAs? Nat "indent_level").toOption.getD 2
      let et := (j.getObjValAs? Bool "emit_types").toOption.getD false
      let st := (j.getObjValAs? Bool "emit_separating_tab").toOption.getD true
      (resJson (FuncDoc.funcDocRT ir emit level et st) irToJson).compress
    | .ok "cleandoc" =>
      let t := (optStr j "text").getD []
      (resJson (FuncDoc.cleandoc t) fun x => Json.str (String.ofList x)).compress
    | .ok "func_kind" =>
      let ir := match j.getObjVal? "ir" with | .ok i => irOfJson i | _ => {}
      let emit := (j.getObjValAs? Bool "emit").toOption.getD true
      let inl := (j.getObjValAs? Bool "inline").toOption.getD false
      let level := (j.getObjValAs? Nat "indent_level").toOption.getD 2
      let st := (j.getObjValAs? Bool "emit_separating_tab").toOption.getD true
      (resJson (FuncKind.funcKindRT ir inl emit level st) irToJson).compress
    | .ok "class_kind" =>
      let ir := match j.getObjVal? "ir" with | .ok i => irOfJson i | _ => {}
      let emit := (j.getObjValAs? Bool "emit").toOption.getD true
      (resJson (ClassKind.classKindRT ir emit) irToJson).compress
    | .ok "stmt_chain" =>
      let ir := match j.getObjVal? "ir" with | .ok i => irOfJson i | _ => {}
      let emit := (j.getObjValAs? Bool "emit").toOption.getD true
      let inl := (j.getObjValAs? Bool "inline").toOption.getD false
      let hops : List StmtChain.Hop := match j.getObjVal? "chain" with
        | .ok (Json.arr a) => a.toList.filterMap fun kj => match kj with
          | Json.str "rest" => some .rest | Json.str "numpydoc" => some .numpydoc | Json.str "google" => some .google
          | Json.str "class" => some .cls | Json.str "function" => some (.func inl) | Json.str "method" => some (.func inl)
          | Json.str "argparse" => some .argparse | _ => none
        | _ => []
      (resJson (StmtChain.chain emit hops ir) irToJson).compress
    | .ok "unwrap" =>
      -- what `_set_name_and_type` (word_wrap on) reads back from wrapped, indented prose
      let t := (optStr j "text").getD []
      (Json.mkObj [("ok", Json.str (String.ofList (unwrapProse t)))]).compress
    | .ok "effect" =>
      -- the caller's description after an emitter ran on it (fix 79e7812: unchanged); "old": emit.class_ before the fix
      let ir := match j.getObjVal? "ir" with | .ok i => irOfJson i | _ => {}
      let old := (j.getObjValAs? Bool "old").toOption.getD false
      let post := if old then (Shared.emitClassOld ir).2 else (Shared.emitPure ir).2
      (Json.mkObj [("ok", irToJson post)]).compress
    | .ok "rewrite_names" =>
      let t := A.nodeOfJson ((j.getObjVal? "tree").toOption.getD Json.null)
      let ps := A.searchOfJson ((j.getObjVal? "names").toOption.getD Json.null)
      (Json.mkObj [("ok", A.nodeToJson (PyAst.Body.rwNode ps t))]).compress
    | .ok "emit_body" =>
      let items (k : String) : List PyAst.Item := match j.getObjVal? k with
        | .ok (Json.arr a) => a.toList.map fun it => PyAst.Item.node (A.nodeOfJson it)
        | _ => []
      let doc : PyAst.Item := .node (A.nodeOfJson ((j.getObjVal? "doc").toOption.getD Json.null))
      let ret : Option PyAst.Item := match j.getObjVal? "ret" with
        | .ok Json.null => none
        | .ok r => some (.node (A.nodeOfJson r))
        | _ => none
      let body := PyAst.Body.parseBody (items "stmts")
      let out := PyAst.Body.emitBody doc body ret
      (Json.mkObj [("ok", Json.arr (out.map A.itemToJson).toArray)]).compress
    | .ok "view" =>
      let ir := match j.getObjVal? "ir" with | .ok i => irOfJson i | _ => {}
      let inl := (j.getObjValAs? Bool "inline").toOption.getD false
      let kwo := (j.getObjValAs? Bool "kwonly").toOption.getD false
      let ostr (o : Option (List Char)) : Json := match o with | some s => Json.str (String.ofList s) | none => Json.null
      (match (j.getObjValAs? String "kind").toOption.getD "" with
       | "class" =>
         if !Kinds.dom .cls ir then "{\"unmodelled\":\"outside the class domain\"}" else
         (Json.mkObj [("ok", Json.arr ((Views.classView ir).map fun a =>
            Json.mkObj [("name", Json.str (String.ofList a.name)), ("annotation", ostr a.annotation), ("value", valToJson a.value)]).toArray)]).compress
       | "argparse" =>
         if !Kinds.dom .argparse ir then "{\"unmodelled\":\"outside the argparse domain\"}" else
         (Json.mkObj [("ok", Json.arr ((Views.argView ir).map fun a =>
            Json.mkObj [("dest", Json.str (String.ofList a.dest)), ("type", ostr a.typeName), ("choices", Json.bool a.choices),
              ("append", Json.bool a.append), ("required", Json.bool a.required),
              ("default", match a.default with | some v => valToJson v | none => Json.null)]).toArray)]).compress
       | _ =>
         if !Kinds.dom (.func inl) ir then "{\"unmodelled\":\"outside the function domain\"}" else
         let ftOf (k : String) : Option Views.FType := match (j.getObjValAs? String k).toOption with
           | some "static" => some .static | some "self" => some .self | some "cls" => some .cls | _ => none
         let sg := Views.sigView inl kwo ir (Views.effectiveType (ftOf "function_type") ((ftOf "ir_type").getD .static))
         (Json.mkObj [("ok", Json.mkObj [
            ("receiver", ostr sg.receiver),
            ("params", Json.arr (sg.params.map fun p => Json.mkObj [("name", Json.str (String.ofList p.name)), ("kwonly", Json.bool p.kwOnly),
                ("annotation", ostr p.annotation), ("default", valToJson p.default)]).toArray),
            ("var_kw", Json.bool sg.hasVarKw), ("return", ostr sg.returnAnnotation)])]).compress)
    | .ok "ir_merge" =>
      let plist (k : String) : ODict Param := match j.getObjVal? k with
        | .ok (Json.arr a) => a.toList.filterMap fun kv => match kv with
          | Json.arr #[Json.str n, pj] => some (n.toList, paramOfJson pj)
          | _ => none
        | _ => []
      let sigma : List Str := match j.getObjVal? "sigma" with
        | .ok (Json.arr a) => a.toList.filterMap fun x => match x with | Json.str s => some s.toList | _ => none
        | _ => []
      let out := irMergeParams (plist "target") (plist "other") sigma
      (Json.mkObj [("ok", Json.arr (out.map fun (k, p) => Json.arr #[Json.str (String.ofList k), paramToJson p]).toArray)]).compress
    | .ok "sync_props" =>
      -- sync_property for each (input location, output location) pair, without wrap / eval
      let inp := PyAst.annotate (A.nodeOfJson ((j.getObjVal? "input").toOption.getD Json.null))
      let out0 := PyAst.annotate (A.nodeOfJson ((j.getObjVal? "output").toOption.getD Json.null))
      let pairs : List (List PyAst.Atom × List PyAst.Atom) := match j.getObjVal? "pairs" with
        | .ok (Json.arr a) => a.toList.filterMap fun p => match p with
          | Json.arr #[i, o] => some (A.searchOfJson i, A.searchOfJson o)
          | _ => none
        | _ => []
      let step (acc : Except String PyAst.Node) (pr : List PyAst.Atom × List PyAst.Atom) : Except String PyAst.Node :=
        match acc with
        | .error e => .error e
        | .ok out =>
          match PyAst.findTotal 1000000 pr.1 inp with
          | .raises k => .error k
          | .none => .error "AssertionError"
          | .node repl =>
            let (st, out') := PyAst.visit { search := pr.2, repl := repl } out
            match st.err with
            | some e => .error e
            | none => if st.replaced then .ok out' else .error "AssertionError"
      (match pairs.foldl step (.ok out0) with
       | .ok t => (Json.mkObj [("ok", A.nodeToJson t)]).compress
       | .error e => (Json.mkObj [("raises", Json.str e)]).compress)
    | .ok "gen_hoist" =>
      -- stmts: [["imp", future:bool, text] | ["other", name|null, text]] in production order
      let stmts : List Gen.GStmt := match j.getObjVal? "stmts" with
        | .ok (Json.arr a) => a.toList.filterMap fun x => match x with
          | Json.arr #[Json.str "imp", Json.bool f, Json.str t] => some (.imp f t.toList)
          | Json.arr #[Json.str "other", Json.null, Json.str t] => some (.other none t.toList)
          | Json.arr #[Json.str "other", Json.str n, Json.str t] => some (.other (some n.toList) t.toList)
          | _ => none
        | _ => []
      (Json.mkObj [("ok", Json.arr ((Gen.hoistSorted stmts).map fun g => match g with
          | .imp f t => Json.arr #[Json.str "imp", Json.bool f, Json.str (String.ofList t)]
          | .other none t => Json.arr #[Json.str "other", Json.null, Json.str (String.ofList t)]
          | .other (some n) t => Json.arr #[Json.str "other", Json.str (String.ofList n), Json.str (String.ofList t)]).toArray)]).compress
    | .ok "conform" =>
      let b (k : String) := (j.getObjValAs? Bool k).toOption.getD false
      let o : Conform.Obs := { fileExists := b "exists", found := b "found", cmpEq := b "cmp_eq",
                               replaced := b "replaced", sameProgram := b "same_program" }
      let show_ : Conform.Action → String
        | .create => "create" | .append => "append" | .rewrite => "rewrite" | .none => "none"
      let d := Conform.decide o
      (Json.mkObj [("ok", Json.mkObj [("action", Json.str (show_ d.1)), ("report", Json.bool d.2)])]).compress
    | .ok "report" =>
      -- `effect[filename] = effect.get(filename, False) or modified` over all `_conform_filename` calls of one sync
      let calls : List (String × Bool) := match j.getObjValAs? (Array Json) "calls" with
        | .ok a => a.toList.filterMap fun x => match x with
          | Json.arr #[Json.str f, Json.bool b] => some (f, b)
          | _ => none
        | _ => []
      (Json.mkObj [("ok", Json.arr ((FsSync.GroundTruth.report calls).map fun fb => Json.arr #[Json.str fb.1, Json.bool fb.2]).toArray)]).compress
    | .ok "cli_other" =>
      let b (k : String) := (j.getObjValAs? Bool k).toOption.getD false
      let sp := match Cli.syncPropsDecide (b "input_exists") (b "output_exists") with
        | .usageError => "usage-error" | .accept => "accept" | .internalError => "internal-error"
      let g := match Cli.genDecide (b "output_exists") with | .refuse => "refuse" | .accept => "accept"
      (Json.mkObj [("ok", Json.mkObj [("sync_properties", Json.str sp), ("gen", Json.str g)])]).compress
    | .ok "fs_targets" =>
      -- files: [[pathId, content|null]], targets: [{p, tmp, a, b}], fault: null | [k, i]
      let files : List (Nat × Option (List Char)) := match j.getObjVal? "files" with
        | .ok (Json.arr a) => a.toList.filterMap fun kv => match kv with
          | Json.arr #[Json.num n, Json.str c] => some (n.mantissa.toNat, some c.toList)
          | Json.arr #[Json.num n, Json.null] => some (n.mantissa.toNat, none)
          | _ => none
        | _ => []
      let fs0 : FsSync.FS := fun q => ((files.find? (·.1 == q)).map (·.2)).getD none
      let nat (o : Json) (k : String) : Nat := (o.getObjValAs? Nat k).toOption.getD 0
      let str (o : Json) (k : String) : List Char := ((o.getObjValAs? String k).toOption.getD "").toList
      let ts : List FsSync.Target := match j.getObjVal? "targets" with
        | .ok (Json.arr a) => a.toList.map fun o => { tmp := nat o "tmp", p := nat o "p", a := str o "a", b := str o "b" }
        | _ => []
      let fault : Option (Nat × Nat) := match j.getObjVal? "fault" with
        | .ok (Json.arr #[Json.num k, Json.num i]) => some (k.mantissa.toNat, i.mantissa.toNat)
        | _ => none
      let fs' := FsSync.runTargets fs0 ts fault
      let paths := (files.map (·.1) ++ ts.flatMap fun t => [t.p, t.tmp]).eraseDups
      (Json.mkObj [("ok", Json.arr (paths.map fun q => Json.arr #[Json.num (JsonNumber.fromNat q),
          match fs' q with | some c => Json.str (String.ofList c) | none => Json.null]).toArray)]).compress
    | .ok "fs_buffered" =>
      -- one write of `emit.file` with buffered I/O: old: content|null, src: text, fault: null | [i, k] -> [target, tmp]
      let old : Option (List Char) := match j.getObjVal? "old" with
        | .ok (Json.str c) => some c.toList
        | _ => none
      let src : List Char := ((j.getObjValAs? String "src").toOption.getD "").toList
      let fault : Option (Nat × Nat) := match j.getObjVal? "fault" with
        | .ok (Json.arr #[Json.num i, Json.num k]) => some (i.mantissa.toNat, k.mantissa.toNat)
        | _ => none
      let fs0 : FsSync.FS := fun q => if q = 1 then old else none
      let st := FsSync.Buffered.brun { fs := fs0 } (FsSync.Buffered.atomicB 0 1 src) fault
      let out : FsSync.FS := match fault with
        | some f => if f.1 < 4 then FsSync.Buffered.cleanup st 0 else st.fs
        | none => st.fs
      let show_ (o : Option (List Char)) : Json := match o with | some c => Json.str (String.ofList c) | none => Json.null
      (Json.mkObj [("ok", Json.arr #[show_ (out 1), show_ (out 0)])]).compress
    | _ => "{\"bad\":\"op\"}"

partial def loop (h : IO.FS.Stream) : IO Unit := do
  let line ← h.getLine
  if line.isEmpty then return ()
  IO.println (step line)
  loop h
def main : IO Unit := do loop (← IO.getStdin)
