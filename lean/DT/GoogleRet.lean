import DT.GoogleRT
import DT.NumpyRet
/-! `GoogleRT` with a return entry: the google round trip through the `Returns:` section - the dedent that ends `Args:`
    finds the return token on the next line (`viaNextLine`), the indented lines after it become the return lines, the
    parse phase reads `  type:` / `   prose` back. Same domain as `C01_google_nodefault_partial`, plus a typed,
    described, default-free return entry. -/
namespace Py
namespace GoogleRT
open DocEmit DocScan DocParse NumpyRT

def sRetG : Str := ['R', 'e', 't', 'u', 'r', 'n', 's', ':']
theorem retTokG_eq : returnToken .google = sRetG := by decide

def rtLine (tr : Str) : Str := [' ', ' '] ++ tr ++ [':']
def rdLine (dr : Str) : Str := [' ', ' ', ' '] ++ dr
def retLinesG (tr dr : Str) : List Str := [[], sRetG, rtLine tr, rdLine dr]

def textGR (D : Str) (ts : List Triple) (dr tr : Str) : Str :=
  preN D ++ argToken .google ++ ['\n'] ++ joinWith ['\n'] (ts.map lineG ++ retLinesG tr dr) ++ ['\n']

theorem emitRetG_ok (dr tr : Str) (hd : NDoc dr) (ht : TypOK tr) (e : Bool) :
    emitParamStrGoogle retName (mkParam dr tr) e = .ok (rtLine tr ++ ['\n'] ++ rdLine dr) := by
  obtain ⟨hdo, hD1, hD2⟩ := hd
  have hret : (retName == retName) = true := by simp
  have hsd : setDefaultDoc retName (mkParam dr tr) e = .ok (mkParam dr tr) := by
    unfold setDefaultDoc mkParam
    simp only [hD1, hD2, Bool.or_self, Bool.false_and, Bool.false_eq_true, if_false, Option.isSome_none, Bool.false_and]
  unfold emitParamStrGoogle
  simp only [mkParam, nonEmpty, isEmpty_false_of_ne tr ht.ne, isEmpty_false_of_ne dr hdo.ne, Bool.false_eq_true, if_false, hret, if_true]
  have hsd' := hsd
  unfold mkParam at hsd'
  rw [hsd']
  simp only [Res.bind, rtLine, rdLine]
  simp

theorem emit_textR (D : Str) (ts : List Triple) (dr tr : Str) (hne : ts ≠ []) (hok : ∀ x ∈ ts, TripleOK' x)
    (hd : NDoc dr) (ht : TypOK tr) (e : Bool) :
    emitDocstring .google (NumpyRT.mkIRr D ts dr tr) e = .ok (textGR D ts dr tr) := by
  unfold emitDocstring
  simp only [NumpyRT.mkIRr, emitEntries_ok ts hok e, Res.bind, emitEntry, emitRetG_ok dr tr hd ht e]
  have hne' : (ts.map lineG).isEmpty = false := by
    cases ts with
    | nil => exact absurd rfl hne
    | cons _ _ => rfl
  simp only [hne', Bool.false_eq_true, if_false]
  rw [joinWith_cons_ne ['\n'] _ _ (by simpa using hne)]
  unfold textGR
  rw [joinWith_append_ne ['\n'] (ts.map lineG) (retLinesG tr dr) (by simpa using hne) (by simp [retLinesG])]
  rw [retTokG_eq]
  have hst : (Style.google == Style.numpydoc) = false := by decide
  simp only [retLinesG, joinWith, preN, hst, Bool.false_eq_true, if_false]
  simp only [List.append_assoc, List.cons_append, List.nil_append, List.append_nil]

/-! ### the scan loop: entry lines, then the dedent that finds `Returns:` on the next line -/

theorem lws_rdLine (dr : Str) (hne : dr ≠ []) (h : AtMargin dr) : lws (rdLine dr) = 3 := by
  cases dr with
  | nil => exact absurd rfl hne
  | cons c r =>
    have hc := h c rfl
    have h1 : isPySpace ' ' = true := by decide
    simp [lws, rdLine, List.takeWhile, hc, h1]

theorem scanLoop_googleR (tr dr : Str) (hdne : dr ≠ []) (hdm : AtMargin dr) :
    ∀ (ts : List Triple) (pre : List Str) (lp : Loop) (fuel : Nat),
    (∀ x ∈ ts, x.1 ≠ [] ∧ AtMargin x.1) → ts.length + 1 ≤ fuel → lp.nsArgs = true →
    scanLoop .google (pre ++ ts.map lineG ++ retLinesG tr dr) 2 fuel pre.length lp =
      .ok { lp with stacker := [], broke := true,
                    sc := { lp.sc with args := lp.sc.args ++ (lp.stacker ++ ts.map (fun x => [lineG x])),
                                       rets := .lines [rtLine tr, rdLine dr] } }
  | [], pre, lp, fuel, _, hf, hns => by
    cases fuel with
    | zero => simp at hf
    | succ f =>
      have hL : pre ++ ([] : List Triple).map lineG ++ retLinesG tr dr = pre ++ [[], sRetG, rtLine tr, rdLine dr] := by
        simp [retLinesG]
      have hget : (pre ++ [[], sRetG, rtLine tr, rdLine dr])[pre.length]? = some [] := by simp
      have hget1 : (pre ++ [[], sRetG, rtLine tr, rdLine dr])[pre.length + 1]? = some sRetG := by
        rw [List.getElem?_append_right (by omega)]; simp
      have hget3 : (pre ++ [[], sRetG, rtLine tr, rdLine dr])[pre.length + 3]? = some (rdLine dr) := by
        rw [List.getElem?_append_right (by omega)]; simp
      have hlen : (pre ++ [[], sRetG, rtLine tr, rdLine dr]).length = pre.length + 4 := by simp
      have hdrop3 : (pre ++ [[], sRetG, rtLine tr, rdLine dr]).drop (pre.length + 3) = [rdLine dr] := by
        have e : pre ++ [[], sRetG, rtLine tr, rdLine dr] = (pre ++ [[], sRetG, rtLine tr]) ++ [rdLine dr] := by simp
        rw [e]; exact List.drop_left' (by simp)
      have hdrop2 : (pre ++ [[], sRetG, rtLine tr, rdLine dr]).drop (pre.length + 2) = [rtLine tr, rdLine dr] := by
        have e : pre ++ [[], sRetG, rtLine tr, rdLine dr] = (pre ++ [[], sRetG]) ++ [rtLine tr, rdLine dr] := by simp
        rw [e]; exact List.drop_left' (by simp)
      have hdrop4 : (pre ++ [[], sRetG, rtLine tr, rdLine dr]).drop (pre.length + 3 + 1) = [] := by
        apply List.drop_eq_nil_of_le; simp
      have hl3 := lws_rdLine dr hdne hdm
      have hcount : countWhileIndented 3 [rdLine dr] = 1 := by simp [countWhileIndented, hl3]
      rw [hL]
      unfold scanLoop
      rw [hget]
      have h0 : lws ([] : Str) = 0 := rfl
      have hvia : (decide ((pre ++ [[], sRetG, rtLine tr, rdLine dr]).length > pre.length + 3) &&
          ((pre ++ [[], sRetG, rtLine tr, rdLine dr])[pre.length + 1]? == some (returnToken .google))) = true := by
        rw [hlen, hget1, retTokG_eq]; simp
      simp only [h0, hvia, if_true, hget3, Option.getD_some, hl3, hdrop3, hcount, hdrop2, hdrop4, setNs, hns]
      simp
  | x :: ts, pre, lp, fuel, hm, hf, hns => by
    cases fuel with
    | zero => simp at hf
    | succ f =>
      have hx := hm x (by simp)
      have e1 : pre ++ (x :: ts).map lineG ++ retLinesG tr dr = (pre ++ [lineG x]) ++ ts.map lineG ++ retLinesG tr dr := by simp
      have hget : ((pre ++ [lineG x]) ++ ts.map lineG ++ retLinesG tr dr)[pre.length]? = some (lineG x) := by simp
      have ih := scanLoop_googleR tr dr hdne hdm ts (pre ++ [lineG x]) { lp with stacker := lp.stacker ++ [[lineG x]] } f
        (fun y hy => hm y (by simp [hy])) (by simp at hf ⊢; omega) hns
      rw [e1]
      unfold scanLoop
      rw [hget]
      have hl : (lws (lineG x) == 2) = true := by simp [lws_lineG x hx.1 hx.2]
      simp only [hl, if_true]
      have : (pre ++ [lineG x]).length = pre.length + 1 := by simp
      rw [this] at ih
      rw [ih]
      simp

theorem retLinesG_no_nl (tr dr : Str) (ht : TypOK tr) (hd : NDoc dr) : ∀ l ∈ retLinesG tr dr, '\n' ∉ l := by
  intro l hl
  simp only [retLinesG, List.mem_cons, List.not_mem_nil, or_false] at hl
  rcases hl with h | h | h | h <;> subst h
  · simp
  · decide
  · intro hm
    simp only [rtLine, List.mem_append, List.mem_cons, List.not_mem_nil, or_false] at hm
    rcases hm with (hm | hm) | hm
    · rcases hm with hm | hm <;> exact absurd hm (by decide)
    · exact ht.oneLine hm
    · exact absurd hm (by decide)
  · intro hm
    simp only [rdLine, List.mem_append, List.mem_cons, List.not_mem_nil, or_false] at hm
    rcases hm with hm | hm
    · rcases hm with hm | hm | hm <;> exact absurd hm (by decide)
    · exact hd.1.oneLine hm

theorem splitLines_textGR (ts : List Triple) (tr dr : Str) (hok : ∀ x ∈ ts, TripleOK' x)
    (ht : TypOK tr) (hd : NDoc dr) :
    splitLines (joinWith ['\n'] (ts.map lineG ++ retLinesG tr dr) ++ ['\n']) = ts.map lineG ++ retLinesG tr dr := by
  unfold splitLines
  have hL : ts.map lineG ++ retLinesG tr dr ≠ [] := by simp [retLinesG]
  have hnl : ∀ l ∈ ts.map lineG ++ retLinesG tr dr, '\n' ∉ l := by
    intro l hl
    rcases List.mem_append.mp hl with h | h
    · simp only [List.mem_map] at h
      obtain ⟨x, hx, rfl⟩ := h
      exact lineG_no_nl x (hok x hx)
    · exact retLinesG_no_nl tr dr ht hd l h
  have e0 : joinWith ['\n'] (ts.map lineG ++ retLinesG tr dr) ++ ['\n'] =
      joinWith ['\n'] (ts.map lineG ++ retLinesG tr dr) ++ '\n' :: [] := rfl
  rw [e0, splitOnChar_joined '\n' _ [] hL hnl]
  have h3 : splitOnChar '\n' [] = [[]] := by decide
  rw [h3]
  have hl : (ts.map lineG ++ retLinesG tr dr ++ [[]]).getLast? = some [] := by rw [List.getLast?_concat]
  simp only [hl]
  rw [List.dropLast_concat]

theorem scanPhase_textR (D : Str) (ts : List Triple) (dr tr : Str) (hne : ts ≠ []) (hok : ∀ x ∈ ts, TripleOK' x)
    (hmargin : ∀ x ∈ ts, AtMargin x.1) (hd : NDoc dr) (ht : TypOK tr) (hdm : AtMargin dr)
    (hDne : D ≠ []) (hDt : Trimmed D) (hA : 'A' ∉ D)
    (hsep : otherSeparators (textGR D ts dr tr) = false) :
    scanPhase .google (textGR D ts dr tr) =
      .ok { doc := D, args := ts.map (fun x => [lineG x]), rets := .lines [rtLine tr, rdLine dr], afterward := none } := by
  have hPre : 'A' ∉ preN D := by
    intro h
    unfold preN at h
    rcases List.mem_cons.mp h with h | h
    · exact absurd h (by decide)
    · rcases List.mem_append.mp h with h | h
      · exact hA h
      · exact absurd h (by decide)
  have hfind : findSub (argToken .google) (textGR D ts dr tr) 0 = some (preN D).length := by
    have e : textGR D ts dr tr = preN D ++ argToken .google ++
        (['\n'] ++ joinWith ['\n'] (ts.map lineG ++ retLinesG tr dr) ++ ['\n']) := by
      simp [textGR]
    rw [e, argTokG_cons, findSub_skip 'A' _ (preN D) _ 0 hPre]
    simp
  have htake : (textGR D ts dr tr).take (preN D).length = preN D := by simp [textGR, List.append_assoc]
  have hdoc : strip pyWs (preN D) = D := by
    have := strip_ws_both ['\n'] ['\n', '\n', '\n'] D ws_nl ws_nl3 hDt hDne
    simpa [preN] using this
  have hdrop : (textGR D ts dr tr).drop ((preN D).length + (argToken .google).length + 1) =
      joinWith ['\n'] (ts.map lineG ++ retLinesG tr dr) ++ ['\n'] := by
    have e : textGR D ts dr tr = (preN D ++ argToken .google ++ ['\n']) ++
        (joinWith ['\n'] (ts.map lineG ++ retLinesG tr dr) ++ ['\n']) := by
      simp [textGR]
    rw [e]
    exact List.drop_left' (by simp only [List.length_append, List.length_cons, List.length_nil])
  obtain ⟨x, r, hts⟩ : ∃ x r, ts = x :: r := by
    cases ts with
    | nil => exact absurd rfl hne
    | cons x r => exact ⟨x, r, rfl⟩
  have hlines := splitLines_textGR ts tr dr hok ht hd
  have hl0 : ∃ rest, ts.map lineG ++ retLinesG tr dr = lineG x :: rest := by
    subst hts; exact ⟨r.map lineG ++ retLinesG tr dr, by simp⟩
  obtain ⟨restL, hrestL⟩ := hl0
  have hnames : ∀ y ∈ ts, y.1 ≠ [] ∧ AtMargin y.1 := fun y hy => ⟨(hok y hy).1.ne, hmargin y hy⟩
  have hfi : lws (lineG x) = 2 := lws_lineG x (hok x (by simp [hts])).1.ne (hmargin x (by simp [hts]))
  have hloop := scanLoop_googleR tr dr hd.1.ne hdm ts [] { sc := { doc := D }, nsArgs := true }
    ((ts.map lineG ++ retLinesG tr dr).length + 1) hnames (by simp [retLinesG]) rfl
  simp only [List.nil_append, List.length_nil] at hloop
  unfold scanPhase
  simp only [hsep, Bool.false_eq_true, if_false, hfind, htake, hdoc, hdrop, hlines]
  rw [hrestL]
  simp only [hfi]
  rw [← hrestL, hloop]
  have hst : (Style.google == Style.numpydoc) = false := by decide
  simp [Res.bind, retsEmpty, hst]

/-! ### the parse phase -/

theorem setNameAndType_retG (d t : Str) (hd : DocOK d) (ht : TypOK t) :
    setNameAndType (some retName) { doc := some d, typ := some t, default := none } false true
      = .ok (retName, { doc := some d, typ := some t, default := none }) :=
  NumpyRT.setNameAndType_ret d t hd ht

theorem parse_textR (D : Str) (ts : List Triple) (dr tr : Str) (hne : ts ≠ []) (hok : ∀ x ∈ ts, TripleOK' x)
    (hg : ∀ x ∈ ts, GOK x) (hmargin : ∀ x ∈ ts, AtMargin x.1)
    (hd : NDoc dr) (ht : TypOK tr) (hdm : AtMargin dr)
    (hDne : D ≠ []) (hDt : Trimmed D) (hA : 'A' ∉ D)
    (hsep : otherSeparators (textGR D ts dr tr) = false) (hnd : (ts.map (·.1)).Nodup) (e : Bool) :
    parseDocstring .google (textGR D ts dr tr) e = .ok (NumpyRT.mkIRr D ts dr tr) := by
  unfold parseDocstring
  rw [scanPhase_textR D ts dr tr hne hok hmargin hd ht hdm hDne hDt hA hsep]
  simp only [Res.bind]
  have hidx : (ts.map (fun x => [lineG x])).findIdx? startsSection = none := by
    rw [List.findIdx?_eq_none_iff]
    intro u hu
    simp only [List.mem_map] at hu
    obtain ⟨y, hy, rfl⟩ := hu
    simp only [startsSection]
    exact (hg y hy).docNoColonEnd
  have hdl : lstripWs (rdLine dr) = dr := by
    have := stripLeft_ws_append [' ', ' ', ' '] dr (by intro c hc; simp at hc; subst hc; decide) hd.1.trimmed.1
    simpa [lstripWs, rdLine] using this
  have htl : lstripWs (rtLine tr).dropLast = tr := by
    have e : (rtLine tr).dropLast = [' ', ' '] ++ tr := by
      have : rtLine tr = ([' ', ' '] ++ tr) ++ [':'] := by simp [rtLine]
      rw [this, List.dropLast_concat]
    rw [e]
    have := stripLeft_ws_append [' ', ' '] tr ws_two ht.trimmed.1
    simpa [lstripWs] using this
  have hret : returnParam .google (.lines [rtLine tr, rdLine dr]) = .ok { typ := some tr, doc := some dr } := by
    simp [returnParam, hdl, htl]
  have hsn : setNameAndType (some retName) { typ := some tr, doc := some dr } false true =
      .ok (retName, { typ := some tr, doc := some dr }) := setNameAndType_retG dr tr hd.1 ht
  simp only [hidx, parseEntries_units e ts hok hg, retsEmpty, List.isEmpty_cons, Bool.false_eq_true, if_false, hret, Res.bind,
    hsn, interpolateReq_plain dr tr hd.1 e, dedupKeepLast_nodup _ (by rw [entryOf_names]; exact hnd)]
  rfl

/-- **C01 (google) with a return entry, default-free domain**: a one-line summary, ≥ 1 uniquely named parameters and a
    return entry, each with a type and one line of prose, no defaults: `emit.docstring` then `parse_docstring` is the
    identity and raises nothing - any number of parameters, texts of any length. The dedent that ends the `Args:` section
    finds `Returns:` on the next line whatever the arguments are. (Restrictions as in `C01_google_nodefault_partial`, and
    the return prose starts with a character that is not white space.) -/
theorem C01_google_return_partial (D : Str) (ts : List Triple) (dr tr : Str) (hne : ts ≠ []) (hok : ∀ x ∈ ts, TripleOK' x)
    (hg : ∀ x ∈ ts, GOK x) (hmargin : ∀ x ∈ ts, AtMargin x.1)
    (hd : NDoc dr) (ht : TypOK tr) (hdm : AtMargin dr)
    (hDne : D ≠ []) (hDt : Trimmed D) (hA : 'A' ∉ D)
    (hsep : otherSeparators (textGR D ts dr tr) = false) (hnd : (ts.map (·.1)).Nodup) (e e' : Bool) :
    ((emitDocstring .google (NumpyRT.mkIRr D ts dr tr) e).bind fun text => parseDocstring .google text e') =
      .ok (NumpyRT.mkIRr D ts dr tr) := by
  rw [emit_textR D ts dr tr hne hok hd ht e]
  simp only [Res.bind]
  exact parse_textR D ts dr tr hne hok hg hmargin hd ht hdm hDne hDt hA hsep hnd e'

end GoogleRT
end Py
