import DT.Rest
/-! L7/L8 at interface level: what emitting an interface description as a class / function /
    argparse function and parsing the artefact back does to the description (`norm k`), on the
    domain where that is a function of the description alone (`dom k`). The statement-level models of
    the AST emitters are not written yet; the tie of these functions to the code is the differential
    run `conv k ir = norm k ir` on every generated in-domain description. -/
namespace Py
namespace Kinds

def tInt : Str := ['i', 'n', 't']
def tFloat : Str := ['f', 'l', 'o', 'a', 't']
def tStr : Str := ['s', 't', 'r']
def tBool : Str := ['b', 'o', 'o', 'l']
def pOptional : Str := ['O', 'p', 't', 'i', 'o', 'n', 'a', 'l', '[']
def pList : Str := ['L', 'i', 's', 't', '[']
def pLiteral : Str := ['L', 'i', 't', 'e', 'r', 'a', 'l', '[']

def isScalar (t : Str) : Bool := t == tInt || t == tFloat || t == tStr || t == tBool

/-- `simple_types[typ]`: the zero value of a scalar type -/
def zeroOf (t : Str) : Val :=
  if t == tInt then .int false ['0']
  else if t == tFloat then .float ['0', '.', '0']
  else if t == tBool then .bool false
  else .str []

def isOptional (t : Str) : Bool := startsWith t pOptional
/-- `List[x]` with `x` scalar -/
def listInner (t : Str) : Option Str :=
  if startsWith t pList && endsWith t [']'] then
    let inner := (t.drop pList.length).take (t.length - pList.length - 1)
    if isScalar inner then some inner else none
  else none
def optionalInner (t : Str) : Option Str :=
  if startsWith t pOptional && endsWith t [']'] then some ((t.drop pOptional.length).take (t.length - pOptional.length - 1))
  else none
def isLiteral (t : Str) : Bool := startsWith t pLiteral

def sNone : Str := ['N', 'o', 'n', 'e']

/-- doctrans' `none_types`: Python `None`, the string "None", and the code-quoted `NoneStr` -/
def isNoneVal : Val → Bool
  | .none => true
  | .str s => s == sNone || s == noneStr
  | _ => false

/-- what the class / function / numpydoc / google parsers write for "no value" -/
def vNoneStr : Val := .str noneStr

/-- a code-quoted default (three back-ticks on both sides) -/
def isCodeVal : Val → Bool
  | .str s => codeQuoted s && s != noneStr
  | _ => false

inductive DocStyle where
  | rest | numpydoc | google
deriving DecidableEq, Repr

inductive Kind where
  | cls | func (inlineTypes : Bool) | argparse | doc (style : DocStyle)
deriving DecidableEq, Repr

/-! ### class -/

def classFill (p : Param) : Param :=
  match p.typ with
  | some t => { p with default := some (if isScalar t then zeroOf t else vNoneStr) }
  | none => { p with default := some vNoneStr }

def normClassParam (p : Param) : Param :=
  match p.default with
  | some v => if isNoneVal v then classFill p else p
  | none => classFill p

/-- common part of the AST kinds' domains; the string "None" (what the ReST parser writes for a None
    default) is read differently from `None`/`NoneStr` by the AST emitters and is left outside -/
def domAstParam (p : Param) : Bool := p.default != some (.str sNone)

/-- `_set_name_and_type`: prose that starts with "(Optional)" or "Optional" marks the entry optional; a type
    that is not already `Optional[...]` is wrapped (recorded finding: the declared type is not preserved) -/
def optionalProse (p : Param) : Bool :=
  match p.doc, p.typ with
  | some d, some t =>
    (startsWith d ['(', 'O', 'p', 't', 'i', 'o', 'n', 'a', 'l', ')'] || startsWith d ['O', 'p', 't', 'i', 'o', 'n', 'a', 'l'])
      && !startsWith t pOptional
  | _, _ => false

/-- a numeric or boolean default under a type that mentions `str` is handed to `quote()` (recorded finding:
    AttributeError, a falsy value treated as absent, a negative one left as an ast node) -/
def nonStrUnderStrType (p : Param) : Bool :=
  match p.default with
  | some (.int _ _) | some (.float _) | some (.bool _) =>
    (match needsQuoting p.typ with | .ok q => q | _ => true)
  | _ => false

/-- inputs on which the round trips are this regular (everything else is a recorded finding or
    outside the property's domain) -/
def domParamCommon (p : Param) : Bool :=
  p.typ.isSome && p.doc.isSome && !optionalProse p && !nonStrUnderStrType p &&
  (match p.default with | some v => !isCodeVal v | none => true)

def domClassParam (p : Param) : Bool :=
  domParamCommon p &&
  -- '' is the zero value of `str`; under any other str-like type it is treated as absent (truthiness test)
  (p.default != some (.str []) || p.typ == some tStr) &&
  (p.typ != some ['d', 'i', 'c', 't'])

/-! ### function / method -/

def normFuncParam (p : Param) : Param :=
  match p.default with
  | some v => if isNoneVal v then { p with default := some vNoneStr } else p
  | none => { p with default := some vNoneStr }

def domFuncParam (inlineTypes : Bool) (p : Param) : Bool :=
  domParamCommon p &&
  -- see domDocParam: "Defaults to None" in the prose of a scalar-typed entry misleads the next kind
  (match p.typ, p.default with | some t, some v => !(isScalar t && isNoneVal v) | _, _ => true) &&
  (!inlineTypes ||
    (match p.typ, p.default with
     | some t, some v => isNoneVal v || isScalar t    -- D27: an explicit default re-types Optional/Literal/... when types are inline
     | _, _ => true))

/-! ### argparse -/

def argFill (t : Str) (p : Param) : Param :=
  if isScalar t then { p with default := some (zeroOf t) }
  else match listInner t with
    | some inner => { p with default := some (zeroOf inner) }
    | none => if isLiteral t then { p with default := some (.str []) } else { p with default := some vNoneStr }

def normArgparseParam (p : Param) : Param :=
  match p.typ with
  | none => p
  | some t =>
    match p.default with
    | some v => if isNoneVal v then argFill t p else p
    | none => argFill t p

def domArgparseParam (p : Param) : Bool :=
  domParamCommon p &&
  (match p.typ with
   | some t =>
     let noneStrLike := match p.default with | some (.str s) => s == sNone || s == noneStr | _ => false
     let noneLike := match p.default with | some v => isNoneVal v | none => true
     if t == tBool then !noneLike                                           -- D28: bool without default
     else if isScalar t then !noneStrLike          -- `NoneStr` on a scalar re-types it Optional[...]; Python `None` gives the zero value
     else if isOptional t then (match optionalInner t with | some i => isScalar i | none => false)
     else if (listInner t).isSome then (listInner t != some tBool) && noneLike && !noneStrLike
     else if isLiteral t then startsWith t (pLiteral ++ ['\'']) && t.contains ',' && !noneStrLike
     else false
   | none => false)

/-! ### docstrings (on the domain where the C01 round trip is the identity up to `None` spelling) -/

def kwargsName (n : Str) : Bool := endsWith n ['k', 'w', 'a', 'r', 'g', 's']

def normDocEntry (st : DocStyle) (n : Str) (p : Param) : Param :=
  let noneOut : Val := match st with | .rest => .str sNone | _ => vNoneStr
  match p.default with
  | some v => if isNoneVal v then { p with default := some (if kwargsName n then vNoneStr else noneOut) } else p
  | none => if kwargsName n then { p with default := some vNoneStr } else p

def domDocParam (p : Param) : Bool :=
  domParamCommon p &&
  -- a scalar-typed entry whose default is none-like carries "Defaults to None" in its prose afterwards,
  -- which the next AST kind reads differently from the IR's default: left outside
  (match p.typ, p.default with | some t, some v => !(isScalar t && isNoneVal v) | _, _ => true) &&
  (match p.default with
   | some (.str s) => !s.contains '.'
   | _ => true) &&
  (match p.doc with | some d => !containsSub d ['e', 'f', 'a', 'u', 'l', 't', 's'] | none => true)

/-- numpydoc/google invent a default for every entry after a defaulted one (finding D7) -/
def noUndefaultedAfterDefaulted : List (Str × Param) → Bool → Bool
  | [], _ => true
  | (n, p) :: rest, seen =>
    if p.default.isSome then noUndefaultedAfterDefaulted rest true
    else (!seen || kwargsName n) && noUndefaultedAfterDefaulted rest seen

/-! ### whole descriptions -/

def mapParams (f : Param → Param) (ps : ODict Param) : ODict Param := ps.map fun kp => (kp.1, f kp.2)

def norm (k : Kind) (ir : IR) : IR :=
  match k with
  | .cls => { ir with params := mapParams normClassParam ir.params, returns := ir.returns.map normClassParam }
  | .func _ => { ir with params := mapParams normFuncParam ir.params }
  | .argparse =>
    { ir with params := mapParams normArgparseParam ir.params,
              returns := match ir.returns with
                | some r => if r.default.isSome then some r else none
                | none => none }
  | .doc st => { ir with params := ir.params.map fun kp => (kp.1, normDocEntry st kp.1 kp.2),
                         returns := ir.returns.map (normDocEntry .rest []) }

def dom (k : Kind) (ir : IR) : Bool :=
  match k with
  | .cls => ir.params.all (fun kp => domClassParam kp.2 && domAstParam kp.2) &&
      (ir.returns.map fun r => domClassParam r && domAstParam r).getD true
  | .func i => ir.params.all (fun kp => domFuncParam i kp.2 && domAstParam kp.2) &&
      (match ir.returns with | some r => r.typ.isSome && r.doc.isSome && r.default.isNone | none => true)
  | .argparse => ir.params.all (fun kp => domArgparseParam kp.2 && domAstParam kp.2 && !endsWith kp.1 ['k', 'w', 'a', 'r', 'g', 's']) && ir.returns.isNone
  | .doc st =>
    ir.params.all (fun kp => domDocParam kp.2) && (ir.returns.map domDocParam).getD true &&
    (match st with
     | .rest => true
     | .numpydoc => noUndefaultedAfterDefaulted (ir.params ++ (match ir.returns with | some r => [([], r)] | none => [])) false
     | .google => ir.returns.isNone && noUndefaultedAfterDefaulted ir.params false)

/-- a chain of conversions; `none` as soon as a description leaves the domain of the next kind -/
def chain : List Kind → IR → Option IR
  | [], ir => some ir
  | k :: ks, ir => if dom k ir then chain ks (norm k ir) else none

end Kinds
end Py
