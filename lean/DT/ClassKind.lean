import DT.FuncDoc
import DT.ClassAttr
/-! The whole class kind at statement level, whole descriptions: `emit.class_` (the return entry folded into the
    attributes, the docstring by `to_docstring` with its three text replacements, one `name: annotation = value` per
    entry built by `param2ast` from the entry AS `to_docstring` LEFT IT) followed by `parse.class_`
    (`inspect.cleandoc`, `parse.docstring` without default text, `return_type` split out, every annotated
    assignment merged over the documented entry, `_set_name_and_type` on the parameters).
    Tied to the code by the driver operation `class_kind`. -/
namespace Py
namespace ClassKind
open FuncDoc ToDocstring ClassAttr

/-- `s.replace(old, new, 1)` -/
def replaceFirst (old new : Str) : Str → Str
  | [] => []
  | c :: t =>
    if old.isPrefixOf (c :: t) && !old.isEmpty then new ++ (c :: t).drop old.length
    else c :: replaceFirst old new t

def sep1 : Str := tab

/-- the docstring text of the emitted class -/
def classDocText (text : Str) : Str :=
  let t1 := replaceAll (['\n'] ++ sep1 ++ ":param ".toList) ":cvar ".toList text
  let t2 := replaceFirst (sep1 ++ ":cvar ".toList) (['\n'] ++ sep1 ++ ":cvar ".toList) t1
  let t3 := replaceFirst (['\n'] ++ sep1 ++ ":returns:".toList) ":cvar return_type:".toList t2
  stripRight (pyWs ++ ['\x1c', '\x1d', '\x1e', '\x1f']) t3

/-- one annotated assignment merged into the description (`intermediate_repr[key][name].update(typ_default)`) -/
def mergeAttr (ps : ODict Param) (rets : Option Param) (n : Str) (typ : Str) (v : Val) : ODict Param × Option Param :=
  if ps.any (·.1 == n) then
    (ps.map (fun kv => if kv.1 == n then (kv.1, { kv.2 with typ := some typ, default := some v }) else kv), rets)
  else if n == retName then
    (ps, some (match rets with
      | some r => { r with typ := some typ, default := some v }
      | none => { typ := some typ, default := some v }))
  else (ps ++ [(n, { typ := some typ, default := some v })], rets)

def classKindRT (ir : IR) (edd : Bool) : Res IR :=
  let params' := ir.params ++ (match ir.returns with | some r => [(retName, r)] | none => [])
  if params'.any (fun kp => kp.1 == retName) && ir.params.any (fun kp => kp.1 == retName) then .unmodelled "a parameter named return_type" else
  if params'.any (fun kp => !ClassAttr.identText kp.1) then .unmodelled "a name that is not an identifier (the emitted text does not parse)" else
  let ir' : IR := { doc := ir.doc, params := params', returns := none }
  (toDocstring ir' edd 1 false true).bind fun text =>
  (mutatedParams edd 1 false params').bind fun mps =>
  -- the attributes
  (attrsOf mps).bind fun attrs =>
  (cleandoc (classDocText text)).bind fun doc =>
  let dirR : Res IR :=
    if doc.isEmpty then .unmodelled "empty docstring"
    else if !isRestStyle doc then .unmodelled "not read as ReST"
    else parseDocstringRest (replaceAll ":cvar".toList ":param".toList doc) false
  dirR.bind fun dir =>
  -- `return_type` documented as an attribute becomes the return entry
  let rets0 : Option Param := match dir.params.get? retName with | some r => some r | none => dir.returns
  let ps0 := dir.params.filter fun kv => kv.1 != retName
  (mergeAll ps0 rets0 attrs).bind fun (ps1, rets1) =>
  (mapNamed ps1).bind fun ps2 =>
  .ok { doc := dir.doc, params := ps2, returns := rets1 }
where
  attrsOf : List (Str × Param) → Res (List (Str × Attr))
    | [] => .ok []
    | (n, p) :: rest => (param2ast p).bind fun a => (attrsOf rest).bind fun r => .ok ((n, a) :: r)
  mergeAll (ps : ODict Param) (rets : Option Param) : List (Str × Attr) → Res (ODict Param × Option Param)
    | [] => .ok (ps, rets)
    | (n, a) :: rest =>
      (attrParse a).bind fun tv =>
      let (ps', rets') := mergeAttr ps rets n tv.1 tv.2
      mergeAll ps' rets' rest
  mapNamed : ODict Param → Res (ODict Param)
    | [] => .ok []
    | (n, p) :: rest =>
      (setNameAndType (some n) p false true).bind fun np =>
      (mapNamed rest).bind fun r => .ok (np :: r)

end ClassKind
end Py
