import DT.Rest
/-! `docstring_utils.emit_param_str` for the numpydoc and google styles (`word_wrap=False`, `emit_doc` and
    `emit_type` on): one entry -> its lines. The ReST style is `emitParamStrRest` in `Rest.lean`. -/
namespace Py
namespace DocEmit

/-- `textwrap.indent(text, prefix)`: every line that is not blank gets the prefix -/
def indentLines (pre : Str) (text : Str) : Str :=
  joinWith ['\n'] ((splitOnChar '\n' text).map fun l =>
    if (strip pyWs l).isEmpty then l else pre ++ l)

def tab4 : Str := [' ', ' ', ' ', ' ']

def nonEmpty (o : Option Str) : Option Str := match o with | some s => if s.isEmpty then none else some s | none => none

/-- numpydoc: `name : typ` (the bare type for the return entry), then the indented prose -/
def emitParamStrNumpy (name : Str) (p : Param) (emitDefaultDoc : Bool) : Res Str :=
  let typLine : Option Str := match nonEmpty p.typ with
    | some t => some (if name == retName then t else name ++ [' ', ':'] ++ [' '] ++ t)
    | none => none
  match nonEmpty p.doc with
  | none => .ok (joinWith ['\n'] typLine.toList)
  | some _ =>
    (setDefaultDoc name p emitDefaultDoc).bind fun p' =>
      match p'.doc with
      | some d' => .ok (joinWith ['\n'] (typLine.toList ++ (if (indentLines tab4 d').isEmpty then [] else [indentLines tab4 d'])))
      | none => .raises "KeyError"

/-- google: `  name (typ): prose`; the return entry is `  typ:` + newline + three spaces + prose -/
def emitParamStrGoogle (name : Str) (p : Param) (emitDefaultDoc : Bool) : Res Str :=
  let isRet := name == retName
  let typPart : Str := match nonEmpty p.typ with
    | some t => if isRet then [' ', ' '] ++ t ++ [':'] else [' ', ' '] ++ name ++ [' ', '('] ++ t ++ [')', ':', ' ']
    | none => []
  match nonEmpty p.doc with
  | none => .ok typPart
  | some _ =>
    (setDefaultDoc name p emitDefaultDoc).bind fun p' =>
      match p'.doc with
      | some d' => .ok (typPart ++ (if isRet then ['\n', ' ', ' ', ' '] ++ d' else d'))
      | none => .raises "KeyError"

/-! ### the whole docstring (`emit.docstring`, numpydoc and google) -/

inductive Style where | numpydoc | google
deriving DecidableEq, Repr

def argToken : Style → Str
  | .numpydoc => "Parameters\n----------".toList
  | .google => "Args:".toList

def returnToken : Style → Str
  | .numpydoc => "Returns\n-------".toList
  | .google => "Returns:".toList

def emitEntry (st : Style) (name : Str) (p : Param) (e : Bool) : Res Str :=
  match st with
  | .numpydoc => emitParamStrNumpy name p e
  | .google => emitParamStrGoogle name p e

def emitEntries (st : Style) : List (Str × Param) → Bool → Res (List Str)
  | [], _ => .ok []
  | (n, p) :: rest, e =>
    (emitEntry st n p e).bind fun s => (emitEntries st rest e).bind fun ss => .ok (s :: ss)

/-- `emit.docstring(ir, docstring_format=style, word_wrap=False, emit_default_doc)` -/
def emitDocstring (st : Style) (ir : IR) (e : Bool) : Res Str :=
  (emitEntries st ir.params e).bind fun lines =>
  let lines' := if lines.isEmpty then lines else argToken st :: lines
  let params := joinWith ['\n'] lines'
  let returns : Res Str := match ir.returns with
    | some r => (emitEntry st retName r e).bind fun l => .ok (['\n'] ++ returnToken st ++ ['\n'] ++ l)
    | none => .ok []
  returns.bind fun rs =>
  .ok (['\n'] ++ ir.doc ++ ['\n', '\n', '\n'] ++ params ++ ['\n'] ++ rs ++ ['\n'] ++ (if st == .numpydoc then ['\n'] else []))

end DocEmit
end Py
