import DT.Wrap
import DT.StrLemmas
import DT.NumpyRT
/-! C18, the other half: what the parsers do with wrapped prose. `_set_name_and_type` (word_wrap on) strips every
    line and joins the lines with one blank (`Py.unwrapProse`). On the simple class of text (words separated by
    single blanks, no white space inside a word) this undoes `fill` - for EVERY width and EVERY indentation the
    emitter puts in front of the lines: the description read back from the wrapped artefact is the one that was
    wrapped. -/
namespace Py
namespace Wrap

/-- a word: not empty, no white-space character inside -/
def Word (x : Str) : Prop := x ≠ [] ∧ ∀ c ∈ x, pyWs.contains c = false

/-- white space that is not a line break (what an emitter puts in front of a continuation line) -/
def Pad (p : Str) : Prop := ∀ c ∈ p, pyWs.contains c = true ∧ c ≠ '\n'

theorem wrapGo_lines_ne (w : Nat) : ∀ (ws cur : List Str), ∀ l ∈ wrapGo w cur ws, l ≠ []
  | [], cur => by
    intro l hl
    unfold wrapGo at hl
    by_cases h : cur.isEmpty = true
    · simp [h] at hl
    · simp only [h, Bool.false_eq_true, if_false, List.mem_singleton] at hl
      subst hl
      intro e; subst e; exact h rfl
  | x :: xs, cur => by
    intro l hl
    unfold wrapGo at hl
    by_cases h : cur.isEmpty = true
    · simp only [h, if_true] at hl
      exact wrapGo_lines_ne w xs [x] l hl
    · simp only [h, Bool.false_eq_true, if_false] at hl
      by_cases hf : lineLen (cur ++ [x]) ≤ w
      · simp only [hf, if_true] at hl
        exact wrapGo_lines_ne w xs (cur ++ [x]) l hl
      · simp only [hf, if_false, List.mem_cons] at hl
        rcases hl with hl | hl
        · subst hl; intro e; subst e; exact h rfl
        · exact wrapGo_lines_ne w xs [x] l hl

theorem wrapGo_words (w : Nat) (ws cur : List Str) : ∀ l ∈ wrapGo w cur ws, ∀ x ∈ l, x ∈ cur ++ ws := by
  intro l hl x hx
  have := wrapGo_flatten w ws cur
  rw [← this]
  exact List.mem_flatten.mpr ⟨l, hl, hx⟩

/-- a line of words joined by single blanks: not empty, no line break, trimmed -/
theorem joined_line (l : List Str) (hne : l ≠ []) (hw : ∀ x ∈ l, Word x) :
    joinWith [' '] l ≠ [] ∧ '\n' ∉ joinWith [' '] l ∧ Trimmed (joinWith [' '] l) := by
  induction l with
  | nil => exact absurd rfl hne
  | cons x r ih =>
    have hx := hw x (by simp)
    cases r with
    | nil =>
      simp only [joinWith]
      refine ⟨hx.1, ?_, ?_, ?_⟩
      · intro h; have := hx.2 '\n' h; simp [pyWs] at this
      · intro c hc
        cases x with
        | nil => exact absurd rfl hx.1
        | cons a t => simp at hc; subst hc; exact hx.2 _ (by simp)
      · intro c hc
        exact hx.2 c (List.mem_of_getLast? hc)
    | cons y r' =>
      obtain ⟨h1, h2, h3⟩ := ih (by simp) (fun z hz => hw z (by simp [hz]))
      have e : joinWith [' '] (x :: y :: r') = x ++ [' '] ++ joinWith [' '] (y :: r') := rfl
      rw [e]
      refine ⟨by simp [hx.1], ?_, ?_, ?_⟩
      · intro h
        simp only [List.mem_append, List.mem_cons, List.not_mem_nil, or_false] at h
        rcases h with (h | h) | h
        · have := hx.2 '\n' h; simp [pyWs] at this
        · exact absurd h (by decide)
        · exact h2 h
      · intro c hc
        cases x with
        | nil => exact absurd rfl hx.1
        | cons a t => simp at hc; subst hc; exact hx.2 _ (by simp)
      · intro c hc
        obtain ⟨c', hc'⟩ : ∃ c', (joinWith [' '] (y :: r')).getLast? = some c' := by
          cases hg : (joinWith [' '] (y :: r')).getLast? with
          | none => exact absurd (List.getLast?_eq_none_iff.mp hg) h1
          | some c' => exact ⟨c', rfl⟩
        rw [List.getLast?_append, hc'] at hc
        simp only [Option.some_or, Option.some.injEq] at hc
        subst hc
        exact h3.2 c' hc'

theorem splitOnChar_join (sep : Char) : ∀ (L : List Str), L ≠ [] → (∀ l ∈ L, sep ∉ l) →
    splitOnChar sep (joinWith [sep] L) = L
  | [], h, _ => absurd rfl h
  | [x], _, hl => by
    simp only [joinWith]
    exact splitOnChar_no_sep sep x (hl x (by simp))
  | x :: y :: r, _, hl => by
    have e : joinWith [sep] (x :: y :: r) = x ++ sep :: joinWith [sep] (y :: r) := by simp [joinWith]
    rw [e, NumpyRT.splitOnChar_line sep x _ (hl x (by simp)),
      splitOnChar_join sep (y :: r) (by simp) (fun l h => hl l (by simp [h]))]

theorem joinWith_flatten_lines (sep : Str) : ∀ (ls : List (List Str)), (∀ l ∈ ls, l ≠ []) →
    joinWith sep (ls.map (joinWith sep)) = joinWith sep ls.flatten
  | [], _ => rfl
  | [l], _ => by simp [joinWith]
  | l :: m :: r, h => by
    have ih := joinWith_flatten_lines sep (m :: r) (fun x hx => h x (by simp [hx]))
    have hl := h l (by simp)
    have hm : (m :: r).flatten ≠ [] := by
      have := h m (by simp)
      cases m with
      | nil => exact absurd rfl this
      | cons a b => simp
    have e1 : joinWith sep ((l :: m :: r).map (joinWith sep)) =
        joinWith sep l ++ sep ++ joinWith sep ((m :: r).map (joinWith sep)) := by simp [joinWith]
    rw [e1, ih]
    -- joinWith over an append of two non-empty word lists
    have key : ∀ (a b : List Str), a ≠ [] → b ≠ [] → joinWith sep (a ++ b) = joinWith sep a ++ sep ++ joinWith sep b := by
      intro a
      induction a with
      | nil => intro b ha; exact absurd rfl ha
      | cons x xs iha =>
        intro b _ hb
        cases xs with
        | nil =>
          cases b with
          | nil => exact absurd rfl hb
          | cons y ys => simp [joinWith]
        | cons x2 xs2 =>
          have := iha b (by simp) hb
          simp only [List.cons_append, joinWith] at this ⊢
          rw [this]
          simp
    have : (l :: m :: r).flatten = l ++ (m :: r).flatten := by simp
    rw [this, key l _ hl hm]

/-- every line stripped of the indentation put in front of it -/
theorem strip_padded (pads lines : List Str) (hlen : pads.length = lines.length) (hp : ∀ p ∈ pads, Pad p)
    (hl : ∀ l ∈ lines, l ≠ [] ∧ Trimmed l) :
    (List.zipWith (· ++ ·) pads lines).map (strip pyWs) = lines := by
  induction lines generalizing pads with
  | nil => cases pads <;> simp_all
  | cons l r ih =>
    cases pads with
    | nil => simp at hlen
    | cons p ps =>
      have hl0 := hl l (by simp)
      have hp0 := hp p (by simp)
      have : strip pyWs (p ++ l) = l := by
        have := strip_ws_both p [] l (fun c hc => (hp0 c hc).1) (by simp) hl0.2 hl0.1
        simpa using this
      simp only [List.zipWith_cons_cons, List.map_cons, this]
      rw [ih ps (by simpa using hlen) (fun q hq => hp q (by simp [hq])) (fun m hm => hl m (by simp [hm]))]

theorem zip_no_nl (pads lines : List Str) (hp : ∀ p ∈ pads, Pad p) (hl : ∀ l ∈ lines, '\n' ∉ l) :
    ∀ z ∈ List.zipWith (· ++ ·) pads lines, '\n' ∉ z := by
  induction lines generalizing pads with
  | nil => cases pads <;> simp
  | cons l r ih =>
    cases pads with
    | nil => simp
    | cons p ps =>
      intro z hz
      simp only [List.zipWith_cons_cons, List.mem_cons] at hz
      rcases hz with hz | hz
      · subst hz
        intro h
        rcases List.mem_append.mp h with h | h
        · exact (hp p (by simp) '\n' h).2 rfl
        · exact hl l (by simp) h
      · exact ih ps (fun q hq => hp q (by simp [hq])) (fun m hm => hl m (by simp [hm])) z hz

/-- **C18: the parser's line join undoes the wrap.** For every width `w`, every text `s` made of words separated by
    single blanks, and every indentation put in front of the lines `fill` produced, what `_set_name_and_type` reads
    back from the wrapped, indented lines is `s` itself. -/
theorem unwrap_fill (w : Nat) (s : Str) (hs : ∀ x ∈ splitOnChar ' ' s, Word x) (pads : List Str)
    (hlen : pads.length = (wrapWords w (splitOnChar ' ' s)).length) (hp : ∀ p ∈ pads, Pad p) :
    unwrapProse (joinWith ['\n'] (List.zipWith (· ++ ·) pads ((wrapWords w (splitOnChar ' ' s)).map (joinWith [' '])))) = s := by
  have hwords := splitOnChar_ne_nil ' ' s
  have hne : wrapWords w (splitOnChar ' ' s) ≠ [] := by
    intro h
    have := wrapWords_flatten w (splitOnChar ' ' s)
    rw [h] at this
    exact hwords (by simpa using this.symm)
  have hlne : ∀ l ∈ wrapWords w (splitOnChar ' ' s), l ≠ [] := wrapGo_lines_ne w _ []
  have hlw : ∀ l ∈ wrapWords w (splitOnChar ' ' s), ∀ x ∈ l, Word x := by
    intro l hl x hx
    have := wrapGo_words w (splitOnChar ' ' s) [] l hl x hx
    exact hs x (by simpa using this)
  have hlines : ∀ l ∈ (wrapWords w (splitOnChar ' ' s)).map (joinWith [' ']), l ≠ [] ∧ Trimmed l := by
    intro l hl
    obtain ⟨ws, hws, rfl⟩ := List.mem_map.mp hl
    have := joined_line ws (hlne ws hws) (hlw ws hws)
    exact ⟨this.1, this.2.2⟩
  have hnonl : ∀ l ∈ (wrapWords w (splitOnChar ' ' s)).map (joinWith [' ']), '\n' ∉ l := by
    intro l hl
    obtain ⟨ws, hws, rfl⟩ := List.mem_map.mp hl
    exact (joined_line ws (hlne ws hws) (hlw ws hws)).2.1
  have hzne : List.zipWith (· ++ ·) pads ((wrapWords w (splitOnChar ' ' s)).map (joinWith [' '])) ≠ [] := by
    cases hp' : pads with
    | nil => rw [hp'] at hlen; simp at hlen; exact absurd (List.eq_nil_of_length_eq_zero hlen.symm) hne
    | cons p ps =>
      cases hw' : wrapWords w (splitOnChar ' ' s) with
      | nil => exact absurd hw' hne
      | cons l r => simp
  unfold unwrapProse
  rw [splitOnChar_join '\n' _ hzne (zip_no_nl pads _ hp hnonl),
    strip_padded pads _ (by simpa using hlen) hp hlines,
    joinWith_flatten_lines [' '] _ hlne, wrapWords_flatten, join_split]
  -- the text itself is trimmed: its last word ends with a non-blank
  have hst : Trimmed s := by
    have := joined_line (splitOnChar ' ' s) hwords hs
    rw [join_split] at this
    exact this.2.2
  exact stripRight_trimmed s hst

/-- the special case without indentation: `unwrap (fill s) = s` -/
theorem unwrap_fillSimple (w : Nat) (s : Str) (hs : ∀ x ∈ splitOnChar ' ' s, Word x) :
    unwrapProse (fillSimple w s) = s := by
  have := unwrap_fill w s hs (List.replicate (wrapWords w (splitOnChar ' ' s)).length []) (by simp)
    (by intro p hp; rw [List.eq_of_mem_replicate hp]; intro c hc; simp at hc)
  have hz : ∀ (ls : List Str), List.zipWith (· ++ ·) (List.replicate ls.length ([] : Str)) ls = ls := by
    intro ls
    induction ls with
    | nil => rfl
    | cons a r ih => simp [List.replicate_succ, ih]
  have h2 := hz ((wrapWords w (splitOnChar ' ' s)).map (joinWith [' ']))
  simp only [List.length_map] at h2
  rw [h2] at this
  exact this

example : unwrapProse (fillSimple 12 "the rate of decay used".toList) = "the rate of decay used".toList := by decide +kernel
example : fillSimple 12 "the rate of decay used".toList = "the rate of\ndecay used".toList := by decide +kernel

end Wrap
end Py
