import DT.FsSync
/-! C20 with BUFFERED writes: `f.write(src)` only fills a buffer; the bytes reach the disk when the file is flushed and
    closed at the end of the `with` block - and that is where a full disk, a quota or a file-size limit raises. The
    atomic variant of `emit.file` moves the temporary file over the target AFTER the `with` block; moving it inside
    the block (before the flush) is not all-or-nothing any more. -/
namespace FsSync
namespace Buffered

/-- a file system plus the pending bytes of the one file being written (the handle follows the file through a rename) -/
structure St where
  fs : FS
  handle : Option Path := none      -- the current name of the open file
  pending : Text := []

inductive BStep where
  | openTrunc (p : Path)
  | write (chunk : Text)            -- into the buffer
  | flushClose                      -- the end of the `with` block
  | replace (src dst : Path)

/-- a completed step -/
def bstep (s : St) : BStep → St
  | .openTrunc p => { fs := s.fs.set p (some []), handle := some p, pending := [] }
  | .write c => { s with pending := s.pending ++ c }
  | .flushClose =>
    match s.handle with
    | some p => { fs := s.fs.set p (some ((s.fs p).getD [] ++ s.pending)), handle := none, pending := [] }
    | none => s
  | .replace src dst =>
    { s with fs := (s.fs.set dst (s.fs src)).set src none,
             handle := if s.handle = some src then some dst else s.handle }

/-- the step that FAILS: nothing happens, except that a failing flush has already written `k` bytes -/
def bfail (s : St) (k : Nat) : BStep → St
  | .flushClose =>
    match s.handle with
    | some p => { fs := s.fs.set p (some ((s.fs p).getD [] ++ s.pending.take k)), handle := none, pending := [] }
    | none => s
  | _ => s

/-- run the steps; `fault = some (i, k)`: step `i` fails (a flush after `k` bytes) and the rest is not executed -/
def brun (s : St) : List BStep → Option (Nat × Nat) → St
  | [], _ => s
  | st :: _, some (0, k) => bfail s k st
  | st :: rest, some (i + 1, k) => brun (bstep s st) rest (some (i, k))
  | st :: rest, none => brun (bstep s st) rest none

/-- `emit.file` as it is: open the temporary file, write, leave the `with` block (flush + close), move -/
def atomicB (tmp p : Path) (src : Text) : List BStep := [.openTrunc tmp, .write src, .flushClose, .replace tmp p]

/-- the `except BaseException:` clean-up: the temporary file is removed when it exists -/
def cleanup (s : St) (tmp : Path) : FS := s.fs.set tmp none

/-- **all or nothing, buffered**: whichever step fails - the flush after any number of bytes included - the target is
    byte-identical to before or holds the complete new contents, and no temporary file is left -/
theorem atomicB_all_or_nothing (fs : FS) (tmp p : Path) (src : Text) (hne : tmp ≠ p) (fault : Option (Nat × Nat)) :
    let out := match fault with
      | none => (brun { fs := fs } (atomicB tmp p src) none).fs
      | some f => if f.1 < 4 then cleanup (brun { fs := fs } (atomicB tmp p src) (some f)) tmp
                  else (brun { fs := fs } (atomicB tmp p src) none).fs
    (out p = fs p ∨ out p = some src) ∧ out tmp = none := by
  have hpt : p ≠ tmp := fun e => hne e.symm
  cases fault with
  | none =>
    simp [brun, atomicB, bstep, FS.set, hpt]
  | some f =>
    obtain ⟨i, k⟩ := f
    by_cases hi : i < 4
    · simp only [hi, if_true]
      have : i = 0 ∨ i = 1 ∨ i = 2 ∨ i = 3 := by omega
      rcases this with rfl | rfl | rfl | rfl <;>
        simp [brun, atomicB, bstep, bfail, cleanup, FS.set, hpt]
    · simp only [hi, if_false]
      simp [brun, atomicB, bstep, FS.set, hpt]

/-- the move INSIDE the `with` block: open, write, move, and only then flush + close -/
def moveBeforeFlush (tmp p : Path) (src : Text) : List BStep := [.openTrunc tmp, .write src, .replace tmp p, .flushClose]

/-- without a fault the two orders give the same file system -/
theorem moveBeforeFlush_same (fs : FS) (tmp p : Path) (src : Text) (hne : tmp ≠ p) :
    (brun { fs := fs } (moveBeforeFlush tmp p src) none).fs = (brun { fs := fs } (atomicB tmp p src) none).fs := by
  have hpt : p ≠ tmp := fun e => hne e.symm
  funext q
  by_cases h1 : q = p <;> by_cases h2 : q = tmp <;> simp [brun, moveBeforeFlush, atomicB, bstep, FS.set, h1, h2, hne, hpt]

/-- ...but a flush that fails after one byte leaves the TARGET cut off: neither the old nor the new contents -/
theorem moveBeforeFlush_not_all_or_nothing :
    ∃ (fs : FS) (tmp p : Path) (src : Text) (k : Nat),
      let out := cleanup (brun { fs := fs } (moveBeforeFlush tmp p src) (some (3, k))) tmp
      out p ≠ fs p ∧ out p ≠ some src := by
  refine ⟨fun _ => some ['o', 'l', 'd'], 0, 1, ['n', 'e', 'w'], 1, ?_⟩
  simp [brun, moveBeforeFlush, bstep, bfail, cleanup, FS.set]

end Buffered
end FsSync
