/-! L0: the Python `str` primitives used by the defaults codec, over `List Char`. -/
namespace Py

abbrev Str := List Char

def lowerAscii (c : Char) : Char := if 'A' ≤ c ∧ c ≤ 'Z' then Char.ofNat (c.toNat + 32) else c
def casefold (s : Str) : Str := s.map lowerAscii

/-- `s.startswith(p)` -/
def startsWith (s p : Str) : Bool := p.isPrefixOf s
/-- `s.endswith(p)` -/
def endsWith (s p : Str) : Bool := p.reverse.isPrefixOf s.reverse

/-- first index `i` with `casefold s[i:i+|n|] == casefold n` (inner loop of `location_within`) -/
def findCI (n : Str) : Str → Option Nat
  | [] => if n.isEmpty then some 0 else none
  | c :: t => if (casefold n).isPrefixOf (casefold (c :: t)) then some 0 else (findCI n t).map (· + 1)

/-- `sub in s` -/
def containsSub (s sub : Str) : Bool :=
  match s with
  | [] => sub.isEmpty
  | c :: t => sub.isPrefixOf (c :: t) || containsSub t sub

def stripLeft (chars : Str) : Str → Str
  | [] => []
  | c :: t => if chars.contains c then stripLeft chars t else c :: t
def stripRight (chars : Str) (s : Str) : Str := (stripLeft chars s.reverse).reverse
def strip (chars : Str) (s : Str) : Str := stripRight chars (stripLeft chars s)

def isAsciiDigit (c : Char) : Bool := '0' ≤ c && c ≤ '9'
/-- `s.isdecimal()` on the ASCII domain -/
def isDecimal (s : Str) : Bool := !s.isEmpty && s.all isAsciiDigit

end Py
