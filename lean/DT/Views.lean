import DT.Kinds
/-! C06: what the Python interpreter itself must see in an emitted artefact — the class's attribute
    table, the function's signature, the argparse action table — as functions of the description
    (on `Kinds.dom`). The interpreter, `inspect`, `argparse`, `ast.unparse` and black are not modelled:
    the correspondence run executes every artefact and compares CPython's answer with these views. -/
namespace Py
namespace Views
open Kinds

/-- one class attribute as `cls.__annotations__` / `getattr(cls, name)` show it -/
structure Attr where
  name : Str
  annotation : Option Str
  value : Val
deriving DecidableEq, Repr

/-- Python value of a (normalised) default: the `NoneStr` spelling is `None` at run time -/
def runtimeVal (v : Val) : Val := if isNoneVal v then .none else v

def classView (ir : IR) : List Attr :=
  let n := norm .cls ir
  (n.params.map fun kp => { name := kp.1, annotation := kp.2.typ, value := runtimeVal (kp.2.default.getD .none) }) ++
  (match n.returns with
   | some r => [{ name := retName, annotation := r.typ, value := runtimeVal (r.default.getD .none) }]
   | none => [])

/-- one parameter as `inspect.signature` shows it -/
structure SigParam where
  name : Str
  kwOnly : Bool
  annotation : Option Str        -- only with inline types
  default : Val                  -- every emitted parameter has a default (`None` when the description has none)
deriving DecidableEq, Repr

/-- plain function / instance method / class method -/
inductive FType where
  | static | self | cls
deriving DecidableEq, Repr

/-- `function_type = function_type or intermediate_repr["type"]`: the kind the caller passes wins, the
    description's own kind is the fallback -/
def effectiveType (given : Option FType) (irType : FType) : FType := given.getD irType

/-- the leading parameter of the emitted `def` -/
def receiverOf : FType → Option Str
  | .static => none
  | .self => some ['s', 'e', 'l', 'f']
  | .cls => some ['c', 'l', 's']

structure Sig where
  params : List SigParam
  hasVarKw : Bool
  returnAnnotation : Option Str
  receiver : Option Str := none
deriving DecidableEq, Repr

def sigView (inlineTypes kwOnly : Bool) (ir : IR) (ft : FType := .static) : Sig :=
  let n := norm (.func inlineTypes) ir
  let ps := n.params.filter fun kp => !kwargsName kp.1
  { receiver := receiverOf ft,
    params := ps.map fun kp =>
      { name := kp.1, kwOnly := kwOnly, annotation := if inlineTypes then kp.2.typ else none,
        default := runtimeVal (kp.2.default.getD .none) },
    hasVarKw := n.params.any fun kp => kwargsName kp.1,
    returnAnnotation := if inlineTypes then (n.returns.bind (·.typ)) else none }

/-- one `add_argument` action as a real `ArgumentParser` holds it -/
structure ArgOpt where
  dest : Str
  typeName : Option Str          -- `action.type.__name__`
  choices : Bool                 -- a `choices` tuple is present (its content is the Literal's members)
  append : Bool                  -- `action='append'`
  required : Bool
  default : Option Val           -- explicit default only
deriving DecidableEq, Repr

def scalarTypeKw (t : Str) : Option Str := if t == tStr then none else some t

def argOpt (name : Str) (p : Param) : ArgOpt :=
  let t := p.typ.getD []
  let explicit : Option Val := match p.default with | some v => if isNoneVal v then none else some v | none => none
  if isScalar t then
    { dest := name, typeName := scalarTypeKw t, choices := false, append := false,
      required := if t == tBool then explicit.isSome else true, default := explicit }
  else match optionalInner t with
    | some i => { dest := name, typeName := scalarTypeKw i, choices := false, append := false, required := false, default := explicit }
    | none => match listInner t with
      | some i => { dest := name, typeName := some i, choices := false, append := true, required := true, default := explicit }
      | none => { dest := name, typeName := none, choices := isLiteral t, append := false, required := true, default := explicit }

def argView (ir : IR) : List ArgOpt := ir.params.map fun kp => argOpt kp.1 kp.2

/-! ### what the views guarantee -/

/-- the emitted `def` starts with `self` / `cls` exactly for an instance / class method, whether the kind was
    passed by the caller or taken from the description -/
theorem sigView_receiver (i k : Bool) (ir : IR) (given : Option FType) (irType : FType) :
    (sigView i k ir (effectiveType given irType)).receiver =
      receiverOf (match given with | some t => t | none => irType) := by
  cases given <;> rfl

theorem receiverOf_static_iff (t : FType) : receiverOf t = none ↔ t = .static := by
  cases t <;> simp [receiverOf]


theorem argView_dests (ir : IR) : (argView ir).map (·.dest) = ir.params.map (·.1) := by
  unfold argView
  simp only [List.map_map]
  apply List.map_congr_left
  intro kp _
  simp only [Function.comp, argOpt]
  split
  · rfl
  · split
    · rfl
    · split <;> rfl

/-- exactly one action per parameter, in order (nothing dropped, duplicated or reordered) -/
theorem argView_length (ir : IR) : (argView ir).length = ir.params.length := by simp [argView]

/-- an explicit (non-None) default reaches the parser with its value and type -/
theorem argOpt_default (name : Str) (p : Param) (v : Val) (h : p.default = some v) (hn : isNoneVal v = false) :
    (argOpt name p).default = some v := by
  unfold argOpt
  simp only [h, hn, Bool.false_eq_true, if_false]
  split
  · rfl
  · split
    · rfl
    · split <;> rfl

/-- `Optional[...]` ⇔ not required (for the types argparse can express) -/
theorem argOpt_optional_not_required (name : Str) (p : Param) (t i : Str) (ht : p.typ = some t)
    (hs : isScalar t = false) (ho : optionalInner t = some i) : (argOpt name p).required = false := by
  unfold argOpt
  simp [ht, hs, ho]

theorem classView_names (ir : IR) :
    (classView ir).map (·.name) = ir.params.map (·.1) ++ (if ir.returns.isSome then [retName] else []) := by
  unfold classView
  simp only [norm, List.map_append, List.map_map]
  have h1 : List.map ((fun a : Attr => a.name) ∘ fun kp : Str × Param =>
        ({ name := kp.1, annotation := kp.2.typ, value := runtimeVal (kp.2.default.getD Val.none) } : Attr))
      (Kinds.mapParams normClassParam ir.params) = ir.params.map (·.1) := by
    unfold Kinds.mapParams
    simp only [List.map_map]
    apply List.map_congr_left
    intro kp _; rfl
  rw [h1]
  cases ir.returns <;> simp

end Views
end Py
