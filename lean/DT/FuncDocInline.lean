import DT.FuncDocRT
/-! The docstring half of the function kind with the types in the SIGNATURE (`emit.function(inline_types=True)`, the
    default): the docstring carries one `:param` line per entry and no `:type` line; what the parser reads back is every
    entry with its prose and no type (the type comes back from the annotation, `FuncAttr`). -/
namespace Py
namespace FuncDocInline
open ToDocstring NumpyRT FuncDoc FuncDocParse

/-- the `:param` segment with ANY white space after the prose (one line break before a `:type` line, two before the
    next entry, none at the end of the cleaned text) -/
def paramBodyW (n d w : Str) : Str := ' ' :: n ++ ':' :: ' ' :: d ++ w

def WS (w : Str) : Prop := ∀ c ∈ w, c = '\n'

theorem line_paramW_eq (n d w : Str) :
    tokParam ++ paramBodyW n d w = tokParam ++ (' ' :: n ++ ':' :: (' ' :: d ++ w)) := by
  simp [paramBodyW]

theorem parseStep_paramW (st : ParseSt) (cn : Option Str) (cp : Param) (n d w : Str) (hn : NameOK n) (hd : DocOK d) (hw : WS w)
    (hcur : st.cur = some (cn, cp))
    (hstate : (cn = none ∧ cp = {}) ∨ (∃ m, cn = some m ∧ m ≠ n ∧ m ≠ [] ∧ m.head? ≠ some '*')) :
    parseStepRest true false true st (true, tokParam ++ paramBodyW n d w) =
      .ok { st with params := flushInto st.params cn cp,
                    cur := some (some n, { doc := some d }) } := by
  have hsurg := surgery tokParam n (' ' :: d ++ w) (by simp [tokParam]) hn 6 rfl
  simp only at hsurg
  obtain ⟨h1, h2, h3, h4⟩ := hsurg
  have hval : strip pyWs (' ' :: d ++ w) = d := by
    have := strip_ws_both [' '] w d ws_space (by intro c hc; rw [hw c hc]; decide) hd.trimmed hd.ne
    simpa using this
  unfold parseStepRest
  simp only [if_true, not_return_token_param, Bool.false_eq_true, if_false]
  rw [line_paramW_eq, h1, h2]
  rw [h3, h4, hval, hcur]
  simp only [Option.getD_some, typeTok_eq]
  rw [← line_paramW_eq]
  rcases hstate with ⟨hnone, hcp⟩ | ⟨m, hm, hmn, hmne, hmstar⟩
  · subst hnone; subst hcp
    simp only [flushInto, Option.isSome_none, Bool.false_and, Bool.false_eq_true, if_false, setParamValue,
      param_not_type]
    rw [interpolate_nodefault _ d hd rfl]
    simp only [Res.bind]
    rw [setNameAndType_plain n d none hn hd (by intro t ht; cases ht)]
  · subst hm
    have hne : (some m != some n) = true := by simpa using hmn
    have hne2 : (some m == some ([] : Str)) = false := by simpa using hmne
    have hstar : (m.head? != some '*') = true := by simpa using hmstar
    simp only [flushInto, Option.isSome_some, Bool.true_and, hne, if_true, hne2, Bool.and_false, Bool.false_eq_true, if_false,
      hstar, setParamValue, param_not_type]
    rw [interpolate_nodefault _ d hd rfl]
    simp only [Res.bind]
    rw [setNameAndType_plain n d none hn hd (by intro t ht; cases ht)]

abbrev Pair := Str × Str
def PairOK (x : Pair) : Prop := NameOK x.1 ∧ DocOK x.2
def entryD (x : Pair) : Str × Param := (x.1, { doc := some x.2 })
def W2 : Str := ['\n', '\n']
theorem ws_W2 : WS W2 := by intro c hc; simp [W2] at hc; exact hc
theorem ws_nil : WS [] := by intro c hc; simp at hc

def itemD (w : Str) (x : Pair) : Bool × Str := (true, tokParam ++ paramBodyW x.1 x.2 w)
def itemsDW (ps : List Pair) (l : Pair) (w : Str) : List (Bool × Str) := ps.map (itemD W2) ++ [itemD w l]

/-- the fold over `:param`-only entries: every item flushes the entry collected before it; the last stays pending -/
theorem fold_docsW (w : Str) (hw : WS w) (l : Pair) : ∀ (ps : List Pair) (st : ParseSt) (cn : Option Str) (cp : Param),
    (∀ x ∈ ps ++ [l], PairOK x) → ((ps ++ [l]).map (·.1)).Nodup → st.cur = some (cn, cp) →
    ((cn = none ∧ cp = {}) ∨ (∃ m, cn = some m ∧ m ∉ (ps ++ [l]).map (·.1) ∧ m ≠ [] ∧ m.head? ≠ some '*')) →
    (∀ x ∈ ps ++ [l], x.1 ∉ keys (flushInto st.params cn cp)) →
    foldRes (parseStepRest true false true) st (itemsDW ps l w) =
      .ok { st with params := flushInto st.params cn cp ++ ps.map entryD, cur := some (some l.1, { doc := some l.2 }) }
  | [], st, cn, cp, hok, _, hcur, hstate, _ => by
    have hl := hok l (by simp)
    simp only [itemsDW, List.map_nil, List.nil_append, foldRes, itemD, List.append_nil]
    rw [parseStep_paramW st cn cp l.1 l.2 w hl.1 hl.2 hw hcur (by
      rcases hstate with h | ⟨m, hm, hmn, h1, h2⟩
      · exact Or.inl h
      · exact Or.inr ⟨m, hm, fun e => hmn (by simp [e]), h1, h2⟩)]
    simp [Res.bind]
  | x :: ps, st, cn, cp, hok, hnd, hcur, hstate, hfresh => by
    have hx := hok x (by simp)
    have hnd' : ((ps ++ [l]).map (·.1)).Nodup := by
      simp only [List.cons_append, List.map_cons, List.nodup_cons] at hnd; exact hnd.2
    have hxnot : x.1 ∉ (ps ++ [l]).map (·.1) := by
      simp only [List.cons_append, List.map_cons, List.nodup_cons] at hnd; exact hnd.1
    have hxfresh : x.1 ∉ keys (flushInto st.params cn cp) := hfresh x (by simp)
    have hset : flushInto (flushInto st.params cn cp) (some x.1) ({ doc := some x.2 } : Param)
        = flushInto st.params cn cp ++ [entryD x] := by
      simp only [flushInto]; exact set_fresh _ _ _ hxfresh
    have hstep := parseStep_paramW st cn cp x.1 x.2 W2 hx.1 hx.2 ws_W2 hcur (by
      rcases hstate with h | ⟨m, hm, hmn, h1, h2⟩
      · exact Or.inl h
      · exact Or.inr ⟨m, hm, fun e => hmn (by simp [e]), h1, h2⟩)
    have ih := fold_docsW w hw l ps
      ({ st with params := flushInto st.params cn cp, cur := some (some x.1, { doc := some x.2 }) })
      (some x.1) { doc := some x.2 }
      (fun y hy => hok y (by rw [List.cons_append]; exact List.mem_cons_of_mem _ hy)) hnd' rfl
      (Or.inr ⟨x.1, rfl, hxnot, hx.1.ne, hx.1.noStar⟩)
      (by
        intro y hy
        rw [hset]
        simp only [keys, List.map_append, List.mem_append, List.map_cons, List.map_nil, List.mem_singleton, entryD]
        intro hcontra
        rcases hcontra with h | h
        · exact hfresh y (by rw [List.cons_append]; exact List.mem_cons_of_mem _ hy) h
        · exact hxnot (by rw [← h]; exact List.mem_map_of_mem hy))
    have e : itemsDW (x :: ps) l w = itemD W2 x :: itemsDW ps l w := by simp [itemsDW]
    rw [e]
    simp only [foldRes, itemD]
    rw [hstep]
    simp only [Res.bind]
    rw [ih, hset]
    simp [List.append_assoc]

def mkIRd (D : Str) (ps : List Pair) : IR := { doc := D, params := ps.map entryD, returns := none }

def segsD (ps : List Pair) (l : Pair) : List (Str × Str) :=
  ps.map (fun x => (tokParam, paramBodyW x.1 x.2 W2)) ++ [(tokParam, paramBodyW l.1 l.2 [])]

def textI (D : Str) (ps : List Pair) (l : Pair) : Str := pre0 D ++ segText (segsD ps l)

theorem paramBodyW_clean (n d w : Str) (hn : NameOK n) (hd : DocOK d) (hw : w = [] ∨ w = W2) : Clean restTokens (paramBodyW n d w) := by
  apply ncl_clean
  have e : paramBodyW n d w = (' ' :: n ++ [':']) ++ ' ' :: (d ++ w) := by simp [paramBodyW]
  rw [e]
  apply ncl_append_glue _ _ ' ' (by decide) (by decide) (nameColon_ncl n hn)
  rcases hw with rfl | rfl
  · simpa using hd.clean
  · have e2 : d ++ W2 = d ++ '\n' :: ['\n'] := rfl
    rw [e2]
    exact ncl_append_glue d _ '\n' (by decide) (by decide) hd.clean rfl

theorem segsD_ok (ps : List Pair) (l : Pair) (hok : ∀ x ∈ ps ++ [l], PairOK x) : SegsOK restTokens (segsD ps l) := by
  intro tb htb
  simp only [segsD, List.mem_append, List.mem_map, List.mem_cons, List.mem_nil_iff, or_false] at htb
  rcases htb with ⟨x, hx, rfl⟩ | rfl
  · have := hok x (by simp [hx])
    exact ⟨(by decide : tokParam ∈ restTokens), paramBodyW_clean x.1 x.2 W2 this.1 this.2 (Or.inr rfl)⟩
  · have := hok l (by simp)
    exact ⟨(by decide : tokParam ∈ restTokens), paramBodyW_clean l.1 l.2 [] this.1 this.2 (Or.inl rfl)⟩

theorem segsD_items (ps : List Pair) (l : Pair) : (segsD ps l).map (fun tb => (true, tb.1 ++ tb.2)) = itemsDW ps l [] := by
  simp [segsD, itemsDW, itemD, List.map_map, Function.comp_def]

theorem mapParams_idD (ps : List Pair) (hok : ∀ x ∈ ps, PairOK x) :
    mapParams (fun p => interpolateDefaults p true) (ps.map entryD) = .ok (ps.map entryD) := by
  induction ps with
  | nil => rfl
  | cons x ps ih =>
    simp only [List.map_cons, mapParams, entryD]
    rw [interpolate_nodefault ({ doc := some x.2 } : Param) x.2 (hok x (by simp)).2 rfl]
    simp only [Res.bind]
    have := ih (fun y hy => hok y (by simp [hy]))
    rw [this]

/-- **the ReST parser on the cleaned docstring of a function written with the types in its signature**: the summary and
    every entry with its prose, no type - any number of entries -/
theorem parse_textI (D : Str) (ps : List Pair) (l : Pair)
    (hDne : D ≠ []) (hDt : Trimmed D) (hDc : ncl D = true)
    (hok : ∀ x ∈ ps ++ [l], PairOK x) (hnd : ((ps ++ [l]).map (·.1)).Nodup) :
    parseDocstringRest (textI D ps l) true = .ok (mkIRd D (ps ++ [l])) := by
  unfold parseDocstringRest textI
  have hne : (pre0 D ++ segText (segsD ps l)).isEmpty = false := by
    cases D with
    | nil => exact absurd rfl hDne
    | cons _ _ => simp [pre0]
  simp only [hne, Bool.false_eq_true, if_false]
  obtain ⟨a, b, hab⟩ : ∃ a b, segsD ps l = a :: b := by
    cases h : segsD ps l with
    | nil => simp [segsD] at h
    | cons a b => exact ⟨a, b, rfl⟩
  have hscan := scanRest_spec_cons (pre0 D) a b (pre0_clean D hDc) (hab ▸ segsD_ok ps l hok)
  rw [← hab, segsD_items] at hscan
  rw [hscan]
  have hstrip : strip pyWs (pre0 D) = D := by
    have := strip_ws_both [] ['\n', '\n'] D (by intro c hc; simp at hc) ws_nlnl0 hDt hDne
    simpa [pre0] using this
  simp only [foldRes, parseStepRest, Bool.false_eq_true, if_false, List.isEmpty_nil, if_true, hstrip, Res.bind]
  rw [fold_docsW [] ws_nil l ps ({ doc := D } : ParseSt) none {} hok hnd rfl (Or.inl ⟨rfl, rfl⟩)
    (by intro x _; simp [flushInto, keys])]
  simp only [Res.bind, flushInto, List.nil_append]
  have hl := hok l (by simp)
  rw [interpolate_nodefault ({ doc := some l.2 } : Param) l.2 hl.2 rfl]
  simp only [Res.bind]
  rw [setNameAndType_plain l.1 l.2 none hl.1 hl.2 (by intro t ht; cases ht)]
  simp only [Res.bind]
  have hlfresh : l.1 ∉ keys (ps.map entryD) := by
    simp only [keys, List.map_map]
    have : ((ps.map (·.1)) ++ [l.1]).Nodup := by simpa using hnd
    have := (List.nodup_append.mp this).2.2
    intro hm
    have hm' : l.1 ∈ ps.map (·.1) := by simpa [entryD, Function.comp] using hm
    exact this l.1 hm' l.1 (by simp) rfl
  rw [set_fresh (ps.map entryD) l.1 { doc := some l.2 } hlfresh]
  have hall : ps.map entryD ++ [(l.1, ({ doc := some l.2 } : Param))] = (ps ++ [l]).map entryD := by simp [entryD]
  rw [hall, mapParams_idD (ps ++ [l]) hok]
  simp only [Res.bind, mkIRd]

/-! ### from `to_docstring` to that text -/

def pairOf (x : Triple) : Pair := (x.1, x.2.1)
def chunkI (ts : List Triple) : List Str := ts.flatMap fun x => [docLine x.1 x.2.1, ([] : Str)]
def contentLinesI (D : Str) (ts : List Triple) : List Str := D :: [] :: chunkI ts ++ [[]]

theorem chunk_flatI (level : Nat) : ∀ (ts : List Triple),
    ((chunkI ts).map (fun c => ['\n'] ++ tabs level ++ c)).flatten =
      (ts.map fun x => ['\n'] ++ tabs level ++ blockOf level false x).flatten
  | [] => rfl
  | x :: r => by
    have ih := chunk_flatI level r
    have e : chunkI (x :: r) = [docLine x.1 x.2.1, ([] : Str)] ++ chunkI r := by simp [chunkI]
    rw [e, List.map_append, List.flatten_append, ih]
    simp [blockOf, List.append_assoc]

theorem text_as_linesI (D : Str) (ts : List Triple) (hne : ts ≠ []) (level : Nat) :
    (['\n'] ++ tabs level ++ D ++ ['\n'] ++ tabs level ++
      (['\n'] ++ tabs level ++ joinWith (['\n'] ++ tabs level) (ts.map (blockOf level false)) ++ ['\n'] ++ tabs level)) =
    joinWith ['\n'] ([] :: (contentLinesI D ts).map (pad (4 * level))) := by
  have hpad : ∀ c : Str, pad (4 * level) c = tabs level ++ c := by intro c; unfold pad; rw [tabs_eq]
  rw [joinWith_cons_flat, List.nil_append, List.map_map]
  have hfun : ((fun x => ['\n'] ++ x) ∘ pad (4 * level)) = fun c => ['\n'] ++ tabs level ++ c := by
    funext c; simp [Function.comp, hpad]
  rw [hfun]
  unfold contentLinesI
  simp only [List.map_cons, List.map_append, List.map_nil, List.flatten_cons, List.flatten_append, List.flatten_nil,
    List.append_nil, chunk_flatI level ts]
  have hj := joinWith_prefix (['\n'] ++ tabs level) (ts.map (blockOf level false)) (by simpa using hne)
  have e : ['\n'] ++ tabs level ++ joinWith (['\n'] ++ tabs level) (ts.map (blockOf level false)) =
      (ts.map fun x => ['\n'] ++ tabs level ++ blockOf level false x).flatten := by
    rw [hj, List.map_map]; rfl
  rw [← e]
  simp [List.append_assoc]

theorem trimBlank_contentI (D : Str) (ts : List Triple) (l : Triple) (hD : D ≠ []) :
    trimBlank (([] : Str) :: contentLinesI D (ts ++ [l])) = D :: [] :: chunkI ts ++ [docLine l.1 l.2.1] := by
  have e : ([] : Str) :: contentLinesI D (ts ++ [l]) = (([] : Str) :: D :: [] :: chunkI ts ++ [docLine l.1 l.2.1]) ++ [[], []] := by
    simp [contentLinesI, chunkI, List.flatMap_append]
  rw [e]
  unfold trimBlank
  have hdoc : docLine l.1 l.2.1 ≠ [] := by simp [docLine, tokParam]
  have hrev : ((([] : Str) :: D :: [] :: chunkI ts ++ [docLine l.1 l.2.1]) ++ [[], []]).reverse =
      [] :: [] :: docLine l.1 l.2.1 :: (([] : Str) :: D :: [] :: chunkI ts).reverse := by simp
  have dlb_nil : ∀ r : List Str, dropLeadingBlank (([] : Str) :: r) = dropLeadingBlank r := by
    intro r; simp [dropLeadingBlank]
  have hback : (docLine l.1 l.2.1 :: (([] : Str) :: D :: [] :: chunkI ts).reverse).reverse =
      ([] : Str) :: (D :: [] :: chunkI ts ++ [docLine l.1 l.2.1]) := by simp
  rw [hrev, dlb_nil, dlb_nil, dropLeadingBlank_cons_ne _ _ hdoc, hback, dlb_nil]
  simp only [List.cons_append]
  exact dropLeadingBlank_cons_ne _ _ hD

theorem chunk_shiftI : ∀ (ts : List Triple),
    ((chunkI ts).map (fun c => ['\n'] ++ c)).flatten ++ ['\n'] =
      ['\n'] ++ segText (ts.map fun x => (tokParam, paramBodyW x.1 x.2.1 W2))
  | [] => by simp [chunkI, segText]
  | x :: r => by
    have ih := chunk_shiftI r
    have e1 : chunkI (x :: r) = [docLine x.1 x.2.1, ([] : Str)] ++ chunkI r := by simp [chunkI]
    have e2 : segText ((x :: r).map fun x => (tokParam, paramBodyW x.1 x.2.1 W2)) =
        (tokParam ++ paramBodyW x.1 x.2.1 W2) ++ segText (r.map fun x => (tokParam, paramBodyW x.1 x.2.1 W2)) := by
      simp [segText]
    rw [e1, e2, List.map_append, List.flatten_append, List.append_assoc, ih]
    simp [docLine, paramBodyW, W2, List.append_assoc]

theorem cleaned_is_textI (D : Str) (ts : List Triple) (l : Triple) (hD : D ≠ []) :
    joinWith ['\n'] (trimBlank (([] : Str) :: contentLinesI D (ts ++ [l]))) = textI D (ts.map pairOf) (pairOf l) := by
  rw [trimBlank_contentI D ts l hD]
  simp only [List.cons_append]
  rw [joinWith_cons_flat, List.map_cons, List.flatten_cons, List.map_append, List.flatten_append]
  have hs := chunk_shiftI ts
  unfold textI pre0 segsD
  have hsa : segText ((ts.map pairOf).map (fun x => (tokParam, paramBodyW x.1 x.2 W2)) ++ [(tokParam, paramBodyW (pairOf l).1 (pairOf l).2 [])]) =
      segText (ts.map fun x => (tokParam, paramBodyW x.1 x.2.1 W2)) ++ docLine l.1 l.2.1 := by
    simp [segText, pairOf, List.map_map, Function.comp_def, docLine, paramBodyW]
  rw [hsa]
  simp only [List.map_cons, List.map_nil, List.flatten_cons, List.flatten_nil, List.append_nil, List.nil_append]
  calc D ++ (['\n'] ++ [] ++ (((chunkI ts).map (fun c => ['\n'] ++ c)).flatten ++ (['\n'] ++ docLine l.1 l.2.1)))
      = D ++ (['\n'] ++ ((((chunkI ts).map (fun c => ['\n'] ++ c)).flatten ++ ['\n']) ++ docLine l.1 l.2.1)) := by
        simp [List.append_assoc]
    _ = D ++ ['\n', '\n'] ++ (segText (ts.map fun x => (tokParam, paramBodyW x.1 x.2.1 W2)) ++ docLine l.1 l.2.1) := by
        rw [hs]; simp [List.append_assoc]

theorem textI_rest (D : Str) (ps : List Pair) (l : Pair) : isRestStyle (textI D ps l) = true := by
  unfold isRestStyle
  rw [List.any_eq_true]
  refine ⟨tokParam, by decide, ?_⟩
  have e : textI D ps l = (pre0 D ++ segText (ps.map fun x => (tokParam, paramBodyW x.1 x.2 W2))) ++ tokParam ++ paramBodyW l.1 l.2 [] := by
    unfold textI segsD; simp [segText, List.append_assoc]
  rw [e]
  exact containsSub_mid tokParam (by simp [tokParam]) _ _

/-- **the docstring half of the function kind with the types in the signature** (`emit.function(inline_types=True)`,
    the default): what `parse.docstring` reads from the docstring the emitter wrote is the summary and every entry with its
    prose (the types travel in the annotations) - at EVERY indentation level, any number (≥ 1) of entries. Same
    restrictions as `C03_docstring_half_partial`. -/
theorem C03_docstring_half_inline_partial (D : Str) (ts : List Triple) (l : Triple)
    (hok : ∀ x ∈ ts ++ [l], BlockOK x)
    (hDne : D ≠ []) (hDt : Trimmed D) (hDnl : '\n' ∉ D) (hDm : AtMargin D) (hDtab : '\t' ∉ D) (hDc : ncl D = true)
    (hsepD : DocScan.otherSeparators D = false) (hsepP : ∀ x ∈ ts ++ [l], DocScan.otherSeparators x.2.1 = false)
    (htab : ∀ x ∈ ts ++ [l], NoTab x) (hnd : ((ts ++ [l]).map (·.1)).Nodup) (edd : Bool) (level : Nat) :
    funcDocRT (mkIR D (ts ++ [l])) edd level false true = .ok (mkIRd D ((ts ++ [l]).map pairOf)) := by
  have h1 := toDocstring_text D (ts ++ [l]) (by simp) hok hDne hDt hDnl hsepD hsepP edd level false true
  have hclean : cleandoc (joinWith ['\n'] ([] :: (contentLinesI D (ts ++ [l])).map (pad (4 * level)))) =
      .ok (joinWith ['\n'] (trimBlank ([] :: contentLinesI D (ts ++ [l])))) := by
    apply cleandoc_uniform
    · intro c hc
      have hnil : Content ([] : Str) := ⟨by simp, by simp, by intro a ha; simp at ha⟩
      unfold contentLinesI chunkI at hc
      simp only [List.mem_cons, List.mem_append, List.mem_flatMap, List.mem_nil_iff, or_false] at hc
      rcases hc with (rfl | rfl | ⟨x, hx, hcx⟩) | rfl
      · exact ⟨hDnl, hDtab, fun a ha => hDm a ha⟩
      · exact hnil
      · have hx' : x ∈ ts ++ [l] := by simpa using hx
        obtain ⟨⟨hn, hd, _⟩, _⟩ := hok x hx'
        obtain ⟨t1, t2, _⟩ := htab x hx'
        rcases hcx with rfl | rfl
        · exact content_docLine x.1 x.2.1 hn hd.1 t1 t2
        · exact hnil
      · exact hnil
    · exact ⟨D, by simp [contentLinesI], hDne⟩
  have hokP : ∀ x ∈ ts.map pairOf ++ [pairOf l], PairOK x := by
    intro x hx
    have : x ∈ (ts ++ [l]).map pairOf := by simpa using hx
    obtain ⟨y, hy, rfl⟩ := List.mem_map.mp this
    exact ⟨(hok y hy).1.1, (hok y hy).1.2.1.1⟩
  have hndP : ((ts.map pairOf ++ [pairOf l]).map (·.1)).Nodup := by
    have : (ts.map pairOf ++ [pairOf l]).map (·.1) = (ts ++ [l]).map (·.1) := by
      simp [pairOf, List.map_map, Function.comp_def]
    rw [this]; exact hnd
  unfold funcDocRT
  rw [h1]
  simp only [Res.bind, Bool.false_eq_true, if_false, if_true]
  rw [text_as_linesI D (ts ++ [l]) (by simp) level, hclean]
  simp only [cleaned_is_textI D ts l hDne, textI_rest, Bool.not_true, Bool.false_eq_true, if_false]
  have hne : (textI D (ts.map pairOf) (pairOf l)).isEmpty = false := by
    cases D with
    | nil => exact absurd rfl hDne
    | cons _ _ => simp [textI, pre0]
  simp only [hne, Bool.false_eq_true, if_false]
  have := parse_textI D (ts.map pairOf) (pairOf l) hDne hDt hDc hokP hndP
  rw [this]
  simp [List.map_append]

end FuncDocInline
end Py
