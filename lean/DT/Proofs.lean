import DT.Defaults
/-! Calibration: the round trip for a non-negative integer default, untyped. -/
namespace Py

/-- no case-insensitive occurrence of `n` starts at an index `< k` of `s` -/
def NoOccBefore (n s : Str) (k : Nat) : Prop :=
  ∀ i, i < k → (casefold n).isPrefixOf (casefold (s.drop i)) = false

theorem findCI_at (n pre post : Str) (hn : n ≠ [])
    (hocc : (casefold n).isPrefixOf (casefold post) = true)
    (h : NoOccBefore n (pre ++ post) pre.length) :
    findCI n (pre ++ post) = some pre.length := by
  induction pre with
  | nil =>
    cases post with
    | nil =>
      cases n with
      | nil => exact absurd rfl hn
      | cons c t => simp [casefold] at hocc
    | cons c t => simp [findCI, hocc]
  | cons a pre ih =>
    have h0 := h 0 (by simp)
    simp only [List.drop] at h0
    have ih' := ih (by
      intro i hi
      have := h (i + 1) (by simp; omega)
      simpa using this)
    simp only [List.cons_append] at h0 ⊢
    simp only [findCI, h0]
    rw [ih']; simp

theorem scanDefault_digits (v : Str) (h : v.all isAsciiDigit = true) :
    scanDefault v false = v := by
  induction v with
  | nil => rfl
  | cons c t ih =>
    simp only [List.all_cons, Bool.and_eq_true] at h
    have hc := h.1
    have hne : (c == '.') = false := by
      rcases Decidable.em (c = '.') with rfl | hne
      · simp [isAsciiDigit] at hc
      · simpa using hne
    have hnb : isBracket c = false := by
      cases hb : isBracket c with
      | false => rfl
      | true =>
        simp only [isBracket, Bool.or_eq_true, beq_iff_eq] at hb
        rcases hb with ((((rfl | rfl) | rfl) | rfl) | rfl) | rfl <;> simp [isAsciiDigit] at hc
    simp [scanDefault, hne, hnb, ih h.2]

theorem stripLeft_of_head_not_mem (chars : Str) (c : Char) (t : Str) (h : c ∉ chars) :
    stripLeft chars (c :: t) = c :: t := by
  simp [stripLeft, h]

theorem stripLeft_digits (chars : Str) (v : Str) (hv : v.all isAsciiDigit = true)
    (hc : ∀ c ∈ chars, isAsciiDigit c = false) : stripLeft chars v = v := by
  cases v with
  | nil => rfl
  | cons c t =>
    apply stripLeft_of_head_not_mem
    intro hm
    have := hc c hm
    simp only [List.all_cons, Bool.and_eq_true] at hv
    simp [hv.1] at this

theorem strip_digits (chars : Str) (v : Str) (hv : v.all isAsciiDigit = true)
    (hc : ∀ c ∈ chars, isAsciiDigit c = false) : strip chars v = v := by
  unfold strip stripRight
  rw [stripLeft_digits chars v hv hc]
  rw [stripLeft_digits chars v.reverse (by simpa using hv) hc]
  simp

/-- what `set_default_doc` puts in front of the value -/
def announce : Str := [' ', 'D', 'e', 'f', 'a', 'u', 'l', 't', 's', ' ', 't', 'o', ' ']
def phrase0 : Str := ['d', 'e', 'f', 'a', 'u', 'l', 't', 's', ' ', 't', 'o', ' ']
theorem phrase0_eq : "defaults to ".toList = phrase0 := by rfl
theorem phrases_eq : phrases = [phrase0, "defaults to\n".toList, "Default value is ".toList, "Default:".toList] := by
  unfold phrases; rw [phrase0_eq]
theorem announce_len : announce.length = 13 := by rfl
theorem announce_split : announce = [' '] ++ ['D', 'e', 'f', 'a', 'u', 'l', 't', 's', ' ', 't', 'o', ' '] := by rfl
theorem casefold_cap : casefold ['D', 'e', 'f', 'a', 'u', 'l', 't', 's', ' ', 't', 'o', ' '] = phrase0 := by decide
theorem casefold_phrase0 : casefold phrase0 = phrase0 := by decide

end Py
