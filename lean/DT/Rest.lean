import DT.Defaults
/-! L2/L4/L5 (ReST only): IR, `emit.docstring(rest)`, `parse_docstring` for ReST — statement-by-statement Impl. -/
namespace Py

/-! ### a few more `str` primitives with Python index semantics -/

def pyNormIdx (len : Nat) (i : Int) : Nat :=
  if i < 0 then (if i + len < 0 then 0 else (i + len).toNat) else (if i.toNat > len then len else i.toNat)

/-- `s[a:b]` -/
def pySlice (s : Str) (a b : Int) : Str :=
  let a' := pyNormIdx s.length a
  let b' := pyNormIdx s.length b
  if b' ≤ a' then [] else (s.drop a').take (b' - a')
/-- `s[a:]` -/
def pyFrom (s : Str) (a : Int) : Str := s.drop (pyNormIdx s.length a)

def findFrom (sub : Str) : Str → Nat → Option Nat
  | [], i => if sub.isEmpty then some i else none
  | c :: t, i => if sub.isPrefixOf (c :: t) then some i else findFrom sub t (i + 1)

/-- `s.find(sub, start)`; -1 if absent -/
def pyFind (s sub : Str) (start : Int) : Int :=
  let st := pyNormIdx s.length start
  match findFrom sub (s.drop st) st with
  | some i => i
  | none => -1

def splitOnChar (sep : Char) : Str → List Str
  | [] => [[]]
  | c :: t =>
    match splitOnChar sep t with
    | [] => [[c]]        -- unreachable
    | h :: r => if c == sep then [] :: h :: r else (c :: h) :: r

def joinWith (sep : Str) : List Str → Str
  | [] => []
  | [x] => x
  | x :: xs => x ++ sep ++ joinWith sep xs

/-- `textwrap.indent(s, prefix)`: prefix every line that is not whitespace-only (lines split on '\n') -/
def indentLines (pre : Str) (s : Str) : Str :=
  joinWith ['\n'] ((splitOnChar '\n' s).map fun l => if (strip pyWs l).isEmpty then l else pre ++ l)

def tab : Str := [' ', ' ', ' ', ' ']

/-- `indent_all_but_first(s)` with indent_level=1, wipe_indents=False -/
def indentAllButFirst (s : Str) : Str :=
  match splitOnChar '\n' (indentLines tab s) with
  | [] => []
  | l0 :: rest => joinWith ['\n'] (stripLeft pyWs l0 :: rest)

/-- `s.replace(old, new)` for non-empty `old` -/
def replaceAll (old new : Str) : Str → Str
  | [] => []
  | c :: t =>
    if old.isPrefixOf (c :: t) && !old.isEmpty then new ++ replaceAll old new ((c :: t).drop old.length)
    else c :: replaceAll old new t
termination_by s => s.length
decreasing_by
  all_goals simp_wf
  · have : old.length ≥ 1 := by
      cases old with
      | nil => simp_all
      | cons _ _ => simp
    omega

def unquote (s : Str) : Str :=
  if s.length > 1 && ((startsWith s ['"'] && endsWith s ['"']) || (startsWith s ['\''] && endsWith s ['\''])) then
    (s.drop 1).take (s.length - 2)
  else s

def unquoteVal : Val → Val
  | .str s => .str (unquote s)
  | v => v

def codeQuoted (s : Str) : Bool :=
  s.length > 6 && startsWith s ['`', '`', '`'] && endsWith s ['`', '`', '`']

/-! ### ordered dict -/
abbrev ODict (α : Type) := List (Str × α)
def ODict.set {α} (d : ODict α) (k : Str) (v : α) : ODict α :=
  if d.any (·.1 == k) then d.map (fun kv => if kv.1 == k then (k, v) else kv) else d ++ [(k, v)]
def ODict.get? {α} (d : ODict α) (k : Str) : Option α := (d.find? (·.1 == k)).map (·.2)

structure IR where
  doc : Str := []
  params : ODict Param := []
  returns : Option Param := none      -- `returns: {return_type: p}`; `none` = None
deriving Repr, BEq, DecidableEq, Inhabited

/-! ### emit -/

/-- `emit_param_str(param, style="rest", emit_doc, emit_type, word_wrap=False, emit_default_doc)`;
    returns text and the (mutated) param -/
def retName : Str := ['r', 'e', 't', 'u', 'r', 'n', '_', 't', 'y', 'p', 'e']
def kReturns : Str := ['r', 'e', 't', 'u', 'r', 'n', 's']
def kRtype : Str := ['r', 't', 'y', 'p', 'e']
def kParam : Str := ['p', 'a', 'r', 'a', 'm', ' ']
def kType : Str := ['t', 'y', 'p', 'e', ' ']
theorem emit_consts_eq : retName = "return_type".toList ∧ kReturns = "returns".toList ∧ kRtype = "rtype".toList
    ∧ kParam = "param ".toList ∧ kType = "type ".toList := ⟨rfl, rfl, rfl, rfl, rfl⟩

def emitParamStrRest (name : Str) (p : Param) (emitDefaultDoc : Bool) : Res (Str × Param) :=
  let isRet := name == retName
  let key := if isRet then kReturns else kParam ++ name
  let keyTyp := if isRet then kRtype else kType ++ name
  let docPart : Res (Option Str × Param) :=
    match p.doc with
    | some d =>
      if d.isEmpty then .ok (none, p)
      else (setDefaultDoc name p emitDefaultDoc).bind fun p' =>
        match p'.doc with
        | some d' => .ok (some ([':'] ++ key ++ [':', ' '] ++ d'), p')
        | none => .raises "KeyError"
    | none => .ok (none, p)
  docPart.bind fun (dl, p') =>
    let typPart : Option Str :=
      match p'.typ with
      | some t => if t.isEmpty then none else some ([':'] ++ keyTyp ++ [':', ' ', '`', '`', '`'] ++ t ++ ['`', '`', '`'])
      | none => none
    let lines := (dl.toList ++ typPart.toList).map indentAllButFirst
    .ok (joinWith ['\n'] lines, p')

def emitParamsRest : List (Str × Param) → Bool → Res (List Str)
  | [], _ => .ok []
  | (n, p) :: rest, e =>
    (emitParamStrRest n p e).bind fun (s, _) =>
    (emitParamsRest rest e).bind fun ss => .ok (s :: ss)

/-- `emit.docstring(ir, docstring_format="rest", word_wrap=False, emit_default_doc)` -/
def emitDocstringRest (ir : IR) (emitDefaultDoc : Bool) : Res Str :=
  (emitParamsRest ir.params emitDefaultDoc).bind fun ps =>
  let params := joinWith ['\n', '\n'] ps
  let returns : Res Str :=
    match ir.returns with
    | some r => (emitParamStrRest "return_type".toList r emitDefaultDoc).bind fun (s, _) => .ok (['\n'] ++ s)
    | none => .ok []
  returns.bind fun rs =>
  .ok (['\n'] ++ ir.doc ++ ['\n', '\n'] ++ params ++ ['\n'] ++ rs ++ ['\n'])

/-! ### parse -/

def restTokens : List Str :=
  [[':', 'p', 'a', 'r', 'a', 'm'], [':', 'c', 'v', 'a', 'r'], [':', 'i', 'v', 'a', 'r'], [':', 'v', 'a', 'r'],
   [':', 't', 'y', 'p', 'e'], [':', 'r', 'e', 't', 'u', 'r', 'n'], [':', 'r', 't', 'y', 'p', 'e']]
theorem restTokens_eq : restTokens =
    [":param".toList, ":cvar".toList, ":ivar".toList, ":var".toList, ":type".toList, ":return".toList, ":rtype".toList] := by
  rfl
def argTokens : List Str := restTokens.take 5
def returnTokens : List Str := restTokens.drop 5

structure ScanSt where
  scanned : List (Bool × Str) := []
  stack : Str := []
deriving DecidableEq, Repr

/-- `tuple(stack_rev[:token_len]) == token` with `token` the reversed token -/
def matchesTok (stack0 tok : Str) : Bool := stack0.reverse.take tok.length == tok.reverse

/-- the body of the `if`: append `(bool(len(scanned)), stack[:-token_len])`, keep the token on the stack -/
def cutAt (acc : ScanSt) (tok : Str) : ScanSt :=
  let text := acc.stack.take (acc.stack.length - tok.length)
  { scanned := acc.scanned ++ [(!acc.scanned.isEmpty, text)], stack := (acc.stack.drop text.length).take tok.length }

/-- one character of `_scan_phase_rest` (note: `stack_rev` is computed once, before the token loop) -/
def scanStepG (toks : List Str) (st : ScanSt) (ch : Char) : ScanSt :=
  toks.foldl (fun acc tok => if matchesTok (st.stack ++ [ch]) tok then cutAt acc tok else acc)
    { st with stack := st.stack ++ [ch] }

def scanStep : ScanSt → Char → ScanSt := scanStepG restTokens

def scanFinish (st : ScanSt) : List (Bool × Str) :=
  if st.stack.isEmpty then st.scanned
  else
    let prevTok := match st.scanned.getLast? with | some (b, _) => b | none => false
    st.scanned ++ [(prevTok || restTokens.any (fun t => startsWith st.stack t), st.stack)]

def scanRest (doc : Str) : List (Bool × Str) := scanFinish (doc.foldl scanStep {})

/-- `interpolate_defaults(param, emit_default_doc)` (require_default = False) -/
def interpolateDefaults (p : Param) (emitDefaultDoc : Bool) : Res Param :=
  match p.doc with
  | some d =>
    (extractDefault d p.typ emitDefaultDoc).bind fun e =>
    .ok { p with doc := some e.doc, default := match e.default with | some v => some (unquoteVal v) | none => p.default }
  | none => .ok p

def typeName : Val → Str
  | .none => "NoneType".toList
  | .bool _ => "bool".toList
  | .int _ _ => "int".toList
  | .float _ => "float".toList
  | .str _ => "str".toList

def isNoneType (v : Val) : Bool :=
  v == .none || v == .str "None".toList || v == .str noneStr

/-- `_infer_default(_param, infer_type)`; precondition: default present -/
def inferDefault (p : Param) (inferType : Bool) : Res Param :=
  match p.default with
  | none => .raises "KeyError"
  | some d0 =>
    let d1 := if isNoneType d0 then Val.str noneStr else d0
    let typ1 := if inferType && p.typ.isNone && !isNoneType d1 then some (typeName d1) else p.typ
    (needsQuoting typ1).bind fun nq =>
    let d2 := match d1 with
      | .str s => Val.str (unquote s)
      | v => if nq then v else v          -- `unquote` of a non-str is the identity
    let typ2 := if typ1.isNone && d2 != Val.str noneStr then some (typeName d2) else typ1
    let isCode := match d2 with | .str s => codeQuoted s | _ => false
    if d2 != Val.str noneStr && isCode && !(typ2.getD []).contains '[' then
      match typ2 with
      | some _ => .ok { p with default := some d2, typ := none }
      | none => .raises "KeyError"
    else .ok { p with default := some d2, typ := typ2 }

/-- what `_set_name_and_type` does to prose when `word_wrap` is on: every line stripped, the lines joined by one
    blank, the result right-stripped -/
def unwrapProse (d : Str) : Str := stripRight pyWs (joinWith [' '] ((splitOnChar '\n' d).map (strip pyWs)))

/-- `_set_name_and_type((name, param), infer_type, word_wrap)` -/
def setNameAndType (name : Option Str) (p : Param) (inferType wordWrap : Bool) : Res (Str × Param) :=
  match name with
  | none => .raises "AttributeError"
  | some name =>
    let kw := endsWith name "kwargs".toList || startsWith name ['*', '*']
    let step1 : Res (Str × Param) :=
      if kw then
        let name' := stripLeft ['*'] name
        let p1 := if (p.typ.getD "dict".toList) == "dict".toList then { p with typ := some "Optional[dict]".toList } else p
        let p2 := if p1.default.isNone then { p1 with default := some (Val.str noneStr) } else p1
        .ok (name', p2)
      else if p.default.isSome then (inferDefault p inferType).bind fun p' => .ok (name, p')
      else .ok (name, p)
    step1.bind fun (name, p) =>
    let googleOpt := ", optional".toList
    let p := match p.typ with
      | some t => if endsWith t googleOpt then { p with typ := some ("Optional[".toList ++ t.take (t.length - googleOpt.length) ++ [']']) } else p
      | none => p
    let p := match p.doc with | some d => if d.isEmpty then { p with doc := none } else p | none => p
    match p.doc with
    | none => .ok (name, p)
    | some d =>
      let d' := if wordWrap then unwrapProse d else stripRight pyWs d
      let p := { p with doc := some d' }
      let p := match p.typ with
        | some t =>
          if (startsWith d' "(Optional)".toList || startsWith d' "Optional".toList) && !startsWith t "Optional[".toList
          then { p with typ := some ("Optional[".toList ++ t ++ [']']) } else p
        | none => p
      .ok (name, p)

/-- merge `{k: v}` into a param (`update_d`) where k ∈ {typ, doc} as computed by `_set_param_values` -/
def setParamValue (p : Param) (line val : Str) (sw : Str) : Param :=
  if startsWith line sw then
    let v := replaceAll ['`', '`', '`'] [] val
    { p with typ := some (if startsWith v ['*', '*'] then "dict".toList else v) }
  else { p with doc := some val }

structure ParseSt where
  doc : Str := []
  params : ODict Param := []
  returns : Option Param := none
  cur : Option (Option Str × Param) := some (none, {})     -- Python `param = [None, {}]`

def parseStepRest (emitDefaultDoc inferType wordWrap : Bool) (st : ParseSt) (item : Bool × Str) : Res ParseSt :=
  let (isTok, line) := item
  if isTok then
    if returnTokens.any (fun t => startsWith line t) then
      let nxt := pyFind line [':'] 1
      let val := strip pyWs (pyFrom line (nxt + 1))
      let base : Param := {}
      let p0 := setParamValue base line val ":rtype".toList
      (interpolateDefaults p0 emitDefaultDoc).bind fun p1 =>
      let old := st.returns.getD {}
      -- dict.update: keys present in p1 overwrite
      let merged : Param := { doc := p1.doc.orElse (fun _ => old.doc), typ := p1.typ.orElse (fun _ => old.typ),
                              default := p1.default.orElse (fun _ => old.default) }
      .ok { st with returns := some merged }
    else
      let fstSpace := pyFind line [' '] 0
      let nxtColon := pyFind line [':'] fstSpace
      let name := pySlice line (fstSpace + 1) nxtColon
      let (curName, curP) := st.cur.getD (none, {})
      let flush := curName.isSome && curName != some name
      let params := if flush then
          match curName with
          | some n => if n.head? != some '*' then st.params.set n curP else st.params
          | none => st.params
        else st.params
      -- `param[0][0]` on an empty name raises IndexError
      if flush && curName == some [] then .raises "IndexError" else
      let curP := if flush then ({} : Param) else curP
      let val := strip pyWs (pyFrom line (nxtColon + 1))
      let p := setParamValue curP line val ":type".toList
      (interpolateDefaults p emitDefaultDoc).bind fun p1 =>
      (setNameAndType (some name) p1 inferType wordWrap).bind fun (n2, p2) =>
      .ok { st with params := params, cur := some (some n2, p2) }
  else if st.doc.isEmpty then .ok { st with doc := strip pyWs line }
  else .ok st

def foldRes {σ α} (f : σ → α → Res σ) : σ → List α → Res σ
  | s, [] => .ok s
  | s, a :: as => (f s a).bind fun s' => foldRes f s' as

def mapParams (f : Param → Res Param) : ODict Param → Res (ODict Param)
  | [] => .ok []
  | (k, p) :: rest => (f p).bind fun p' => (mapParams f rest).bind fun r => .ok ((k, p') :: r)

/-- `parse_docstring(docstring, infer_type=False, word_wrap=True, emit_default_prop=True, emit_default_doc)` when the
    style is ReST -/
def parseDocstringRest (doc : Str) (emitDefaultDoc : Bool) (inferType := false) (wordWrap := true) : Res IR :=
  if doc.isEmpty then .ok {} else
  (foldRes (parseStepRest emitDefaultDoc inferType wordWrap) {} (scanRest doc)).bind fun st =>
  let fin : Res ParseSt :=
    match st.cur with
    | some (some n, p) =>       -- `if param[0] is not None:` (fix D6, b31be7d)
      (interpolateDefaults p emitDefaultDoc).bind fun p1 =>
      (setNameAndType (some n) p1 inferType wordWrap).bind fun (n2, p2) =>
      .ok { st with params := st.params.set n2 p2 }
    | _ => .ok st
  fin.bind fun st =>
  (mapParams (fun p => interpolateDefaults p emitDefaultDoc) st.params).bind fun ps =>
  let rs : Res (Option Param) := match st.returns with
    | some r => (interpolateDefaults r emitDefaultDoc).bind fun r' => .ok (some r')
    | none => .ok none
  rs.bind fun r => .ok { doc := st.doc, params := ps, returns := r }

def isRestStyle (doc : Str) : Bool := restTokens.any (fun t => containsSub doc t)

end Py
