import DT.DocScan
/-! `_parse_phase_numpydoc_and_google` on top of the scan phase: units -> entries, text after the sections
    appended to the summary, `interpolate_defaults` with the "a default was seen, force one on later entries" flag,
    `_set_name_and_type`; the return entry. Together with `DocScan.scanPhase` this is `parse_docstring` for the
    numpydoc and google styles. -/
namespace Py
namespace DocParse
open DocEmit DocScan

def partitionAt (c : Char) (s : Str) : Str × Str × Bool :=
  let a := s.takeWhile (· != c)
  let rest := s.drop a.length
  match rest with
  | _ :: b => (a, b, true)
  | [] => (a, [], false)

def lstripWs (s : Str) : Str := stripLeft pyWs s
def rstripWs (s : Str) : Str := stripRight pyWs s

/-- numpydoc `_parse(scan)`: `name : typ` on the first line, the other lines are the prose -/
def parseNumpy (scan : List Str) : Res (Option (Str × Param)) :=
  match scan with
  | [] => .raises "IndexError"
  | l0 :: rest =>
    let (name, typ, _) := partitionAt ':' l0
    if name.isEmpty then .ok none
    else if typ.isEmpty then .ok (some (rstripWs name, {}))
    else .ok (some (rstripWs name, { typ := some (lstripWs typ), doc := some (joinWith ['\n'] (rest.map lstripWs)) }))

def containsOr (t : Str) : Bool := containsSub t [' ', 'o', 'r', ' ']

/-- `", ".join(typ.split(" or "))` -/
def orToComma (t : Str) : Str := replaceAll [' ', 'o', 'r', ' '] [',', ' '] t

/-- google `_parse(scan)`: `name (typ): prose`; a PyTorch-style `{'a', 'b'}` prose becomes a Literal type -/
def parseGoogle (scan : List Str) : Res (Str × Param) :=
  match scan with
  | [] => .raises "IndexError"
  | l0 :: rest =>
    if !l0.contains ':' then .raises "StopIteration" else
    let offset := (l0.takeWhile (· != ':')).length
    let s := lstripWs (l0.take offset)
    let (name0, typ0, hasParen) := partitionAt '(' s
    let name := rstripWs name0
    let typ := rstripWs ((if hasParen then ['('] else []) ++ typ0)
    let after := lstripWs (l0.drop (offset + 1))
    if typ.isEmpty then
      .ok (name, { doc := some (strip pyWs (joinWith ['\n'] (after :: rest))) })
    else if !(startsWith typ ['('] && endsWith typ [')']) then .raises "AssertionError"
    else
      let t1 := (typ.drop 1).dropLast
      let t2 := if containsOr t1 then "Union[".toList ++ orToComma t1 ++ [']'] else t1
      if after.length > 3 && startsWith after ['{'] && endsWith after ['}'] then
        .unmodelled "PyTorch-style option list (a Python list repr)"
      else .ok (name, { typ := some t2, doc := some (strip pyWs (joinWith ['\n'] (after :: rest))) })

/-- `interpolate_defaults(param, require_default=…, emit_default_doc=…)` -/
def interpolateReq (p : Param) (requireDefault emitDefaultDoc : Bool) : Res Param :=
  (interpolateDefaults p emitDefaultDoc).bind fun p1 =>
  let noDefault := p1.default.isNone || p1.default == some .none
  if requireDefault && noDefault then
    let d : Val := match p1.typ with
      | some t => if t == "int".toList then .int false ['0']
                  else if t == "float".toList then .float ['0', '.', '0']
                  else if t == "bool".toList then .bool false
                  else if t == "str".toList then .str []
                  else .str noneStr            -- (`complex` -> 0j is outside the value grammar; not generated)
      | none => .str noneStr
    .ok { p1 with default := some d }
  else .ok p1

/-- the entries, in order, with the force-a-default flag threaded through -/
def parseEntries (style : Style) (emitDefaultDoc inferType wordWrap : Bool) :
    List (List Str) → Bool → Res (ODict Param × Bool)
  | [], flag => .ok ([], flag)
  | u :: us, flag =>
    let parsed : Res (Option (Str × Param)) := match style with
      | .numpydoc => parseNumpy u
      | .google => (parseGoogle u).bind fun x => .ok (some x)
    -- (`_parse` runs inside `map(...)`: the StopIteration it raises for a first line without ':' is taken by the
    -- consumer as the END of the entries - the remaining units are silently dropped)
    if parsed == .raises "StopIteration" then .ok ([], flag) else
    parsed.bind fun o =>
    match o with
    | none => parseEntries style emitDefaultDoc inferType wordWrap us flag
    | some (name, p) =>
      (interpolateReq p flag emitDefaultDoc).bind fun p1 =>
      let flag' := flag || !(p1.default.isNone || p1.default == some .none)
      (setNameAndType (some name) p1 inferType wordWrap).bind fun (n2, p2) =>
      (parseEntries style emitDefaultDoc inferType wordWrap us flag').bind fun (restPs, f) =>
      .ok ((n2, p2) :: restPs, f)

/-- `OrderedDict(pairs)`: a repeated name keeps its first position and its last value -/
def dedupKeepLast (l : List (Str × Param)) : List (Str × Param) :=
  l.foldl (fun acc kp => if acc.any (·.1 == kp.1) then acc.map (fun q => if q.1 == kp.1 then kp else q) else acc ++ [kp]) []

def isSpaceStr (s : Str) : Bool := !s.isEmpty && s.all isPySpace

/-- the dict handed to `_set_name_and_type` for the return entry -/
def returnParam (style : Style) (r : Rets) : Res Param :=
  match style, r with
  | .google, .lines [a, b] => .ok { typ := some (lstripWs a.dropLast), doc := some (lstripWs b) }
  | .google, .lines (a :: _) => if isSpaceStr a then .ok {} else .ok { doc := some (lstripWs a) }
  | .google, .lines [] => .raises "IndexError"
  | .google, .units (u :: _) => .ok { doc := some (stripRight pyWs (u.foldl (· ++ ·) [])) }   -- a list: `"".join(doc).rstrip()`
  | .google, .units [] => .raises "IndexError"
  | .numpydoc, .units ((t :: d :: _) :: _) => .ok { typ := some t, doc := some (lstripWs d) }
  | .numpydoc, .units _ => .raises "IndexError"
  | .numpydoc, .lines _ => .unmodelled "numpydoc return lines (characters indexed)"

def afterwardText (us : List (List Str)) : Str :=
  joinWith ['\n'] (us.map fun u => joinWith ['\n'] (u.map fun s => if endsWith s [':'] then s else tab4 ++ s))

/-- a unit whose first line ends with a colon starts the free text after the entries -/
def startsSection (u : List Str) : Bool := match u with | l0 :: _ => endsWith l0 [':'] | [] => false

/-- `parse_docstring` for a numpydoc / google text -/
def parseDocstring (style : Style) (doc : Str) (emitDefaultDoc : Bool) (inferType := false) (wordWrap := true) : Res IR :=
  (scanPhase style doc).bind fun sc =>
  let idx := sc.args.findIdx? startsSection
  let (units, doc1) : List (List Str) × Str := match idx with
    | some k => if k == 0 then (sc.args, sc.doc)
                else (sc.args.take k, sc.doc ++ ['\n', '\n', '\n'] ++ afterwardText (sc.args.drop k))
    | none => (sc.args, sc.doc)
  let doc2 := match sc.afterward with
    | some a => doc1 ++ ['\n', '\n', '\n'] ++ joinWith ['\n'] a
    | none => doc1
  (parseEntries style emitDefaultDoc inferType wordWrap units false).bind fun (ps, flag) =>
  let rets : Res (Option Param) :=
    if retsEmpty sc.rets then .ok none else
    (returnParam style sc.rets).bind fun r0 =>
    -- a `doc` that is a LIST (google, return-only docstring) is joined and right-stripped by `_set_name_and_type`
    -- without the line-wise re-flow a str gets
    let listDoc := match style, sc.rets with | .google, .units _ => true | _, _ => false
    (if listDoc then (.ok (retName, r0) : Res (Str × Param)) else setNameAndType (some retName) r0 inferType wordWrap).bind fun (_, r1) =>
    (interpolateReq r1 flag emitDefaultDoc).bind fun r2 => .ok (some r2)
  rets.bind fun r => .ok { doc := doc2, params := dedupKeepLast ps, returns := r }

end DocParse
end Py
