import DT.ToDocstringTheorems
import DT.NumpyRTExample
/-! non-vacuity: the two-parameter description of `RestRTExample` satisfies every hypothesis of `toDocstring_text`. -/
namespace Py
namespace ToDocstring
open NumpyRT

theorem bA : BlockOK exA := ⟨exA_ok', by decide⟩
theorem bB : BlockOK exB := ⟨exB_ok', by decide⟩

example : toDocstring (mkIR exD [exA, exB]) false 2 true true =
    .ok (let sep := tabs 2
         ['\n'] ++ sep ++ exD ++ ['\n'] ++ sep ++
         (['\n'] ++ sep ++ joinWith (['\n'] ++ sep) ([exA, exB].map (blockOf 2 true)) ++ ['\n'] ++ sep)) :=
  toDocstring_text exD [exA, exB] (by simp)
    (by intro x hx; simp at hx; rcases hx with rfl | rfl; exact bA; exact bB)
    (by decide) (trimmed_dec _ (by decide) (by decide)) (by decide) (by decide)
    (by intro x hx; simp at hx; rcases hx with rfl | rfl <;> decide) false 2 true true

#eval (toDocstring (mkIR exD [exA, exB]) false 2 true true) |> fun r => match r with | .ok t => String.ofList t | _ => "?"
end ToDocstring
end Py
