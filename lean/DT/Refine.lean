import DT.ClassAttrTheorems
import DT.FuncAttr
import DT.ArgAttrTheorems
/-! The statement-level models of the three AST kinds, lifted to whole parameter lists, refine the
    interface-level `Kinds.norm`: for ANY number of parameters of the modelled shapes, converting every entry by the
    statement-level round trip gives exactly the parameter list `norm k` describes. (The interface-level tables of
    `Kinds.lean` were measured against the code; these theorems derive them from the transliterated statements.) -/
namespace Py
namespace Refine
open Kinds

/-- every entry through a statement-level round trip, in order (`Py.mapParams` of `Rest.lean`) -/
theorem mapParams_eq (f : Param → Res Param) (g : Param → Param) :
    ∀ (ps : ODict Param), (∀ np ∈ ps, f np.2 = .ok (g np.2)) → Py.mapParams f ps = .ok (Kinds.mapParams g ps)
  | [], _ => rfl
  | (k, p) :: rest, h => by
    have h1 : f p = .ok (g p) := h (k, p) (by simp)
    have h2 := mapParams_eq f g rest (fun np hnp => h np (by simp [hnp]))
    simp only [Py.mapParams, h1, Res.bind, h2]
    rfl

/-- **class kind**: `param2ast` -> `parse.class_` -> `_infer_default` over all attributes IS `norm .cls` on the params -/
theorem class_refines (ir : IR) (h : ∀ np ∈ ir.params, ClassAttr.AttrDom np.2) :
    Py.mapParams ClassAttr.attrRT ir.params = .ok (norm .cls ir).params :=
  mapParams_eq ClassAttr.attrRT normClassParam ir.params (fun np hnp => ClassAttr.attrRT_eq_norm np.2 (h np hnp))

/-- **function / method kind**: `emit.function` -> `parse.function` -> `_infer_default` over all parameters IS
    `norm (.func i)` on the params -/
theorem func_refines (ir : IR) (i : Bool) (h : ∀ np ∈ ir.params, FuncAttr.FuncDom np.2) :
    Py.mapParams FuncAttr.funcRT ir.params = .ok (norm (.func i) ir).params :=
  mapParams_eq FuncAttr.funcRT normFuncParam ir.params (fun np hnp => FuncAttr.funcRT_eq_norm np.2 (h np hnp))

/-- **argparse kind**: all `add_argument` calls with the `require_default` thread ARE `norm .argparse` on the params,
    up to the one reading of an `Optional[...]` option without a value -/
theorem argparse_refines (ir : IR) (edd : Bool) (h : ∀ np ∈ ir.params, ArgAttr.ArgDom np.1 np.2) :
    ∃ qs, ArgAttr.argparseParams edd ir.params false = .ok qs ∧
      qs.map (fun nq => (nq.1, ArgAttr.canonOpt nq.2)) =
        (norm .argparse ir).params.map (fun np => (np.1, ArgAttr.canonOpt np.2)) := by
  obtain ⟨qs, hq, hm⟩ := ArgAttr.argparseParams_refines edd ir.params false h
  refine ⟨qs, hq, ?_⟩
  rw [hm]
  show _ = (Kinds.mapParams normArgparseParam ir.params).map _
  unfold Kinds.mapParams
  simp [List.map_map]

/-- the names and their order are kept by every kind (a corollary that needs no domain hypothesis at interface level) -/
theorem norm_names (k : Kind) (ir : IR) : (norm k ir).params.map (·.1) = ir.params.map (·.1) := by
  cases k <;> simp [norm, Kinds.mapParams, List.map_map, Function.comp_def]

end Refine
end Py
