import DT.Rest
/-! L0 lemma kit: `findFrom`/`pyFind`, `pySlice`/`pyFrom`, `strip`, `splitOnChar`, `indentAllButFirst`, `replaceAll`. -/
namespace Py

/-! ### find -/

theorem findFrom_single_skip (c : Char) (a r : Str) (i : Nat) (h : c ∉ a) :
    findFrom [c] (a ++ c :: r) i = some (i + a.length) := by
  induction a generalizing i with
  | nil => simp [findFrom, List.isPrefixOf]
  | cons x xs ih =>
    have hx : x ≠ c := fun e => h (by simp [e])
    have hxs : c ∉ xs := fun m => h (by simp [m])
    have hne : (c == x) = false := by
      simpa using (fun e : c = x => hx e.symm)
    simp only [List.cons_append, findFrom, List.isPrefixOf, hne, Bool.false_and, Bool.false_eq_true, if_false]
    rw [ih (i + 1) hxs]
    simp only [List.length_cons]; congr 1; omega

theorem pyNormIdx_nat (len n : Nat) (h : n ≤ len) : pyNormIdx len (n : Int) = n := by
  unfold pyNormIdx
  have h1 : ¬ ((n : Int) < 0) := by omega
  simp only [h1, if_false, Int.toNat_natCast]
  have : ¬ (n > len) := by omega
  simp [this]

/-- `(pfx ++ a ++ c :: r).find(c, |pfx|) = |pfx| + |a|` when `c ∉ a` -/
theorem pyFind_single (c : Char) (pfx a r : Str) (h : c ∉ a) :
    pyFind (pfx ++ (a ++ c :: r)) [c] (pfx.length : Int) = ((pfx.length + a.length : Nat) : Int) := by
  unfold pyFind
  rw [pyNormIdx_nat _ _ (by simp)]
  simp only [List.drop_left']
  rw [findFrom_single_skip c a r pfx.length h]

theorem pySlice_mid (pfx mid sfx : Str) :
    pySlice (pfx ++ (mid ++ sfx)) (pfx.length : Int) ((pfx.length + mid.length : Nat) : Int) = mid := by
  unfold pySlice
  rw [pyNormIdx_nat _ _ (by simp), pyNormIdx_nat _ _ (by simp)]
  by_cases hm : mid.length = 0
  · have : mid = [] := List.length_eq_zero_iff.mp hm
    subst this; simp
  · have : ¬ (pfx.length + mid.length ≤ pfx.length) := by omega
    simp only [this, if_false, List.drop_left', Nat.add_sub_cancel_left, List.take_left']

theorem pyFrom_at (pfx sfx : Str) : pyFrom (pfx ++ sfx) (pfx.length : Int) = sfx := by
  unfold pyFrom
  rw [pyNormIdx_nat _ _ (by simp)]
  simp

/-! ### strip -/

/-- text with no leading and no trailing whitespace -/
def Trimmed (s : Str) : Prop := (∀ c, s.head? = some c → pyWs.contains c = false) ∧
                                (∀ c, s.getLast? = some c → pyWs.contains c = false)

theorem stripLeft_ws_append (ws s : Str) (hws : ∀ c ∈ ws, pyWs.contains c = true)
    (hs : ∀ c, s.head? = some c → pyWs.contains c = false) : stripLeft pyWs (ws ++ s) = s := by
  induction ws with
  | nil =>
    cases s with
    | nil => rfl
    | cons c t =>
      have := hs c rfl
      simp only [List.nil_append, stripLeft, this, Bool.false_eq_true, if_false]
  | cons w ws ih =>
    have hw := hws w (by simp)
    simp only [List.cons_append, stripLeft, hw, if_true]
    exact ih (fun c hc => hws c (by simp [hc]))

theorem stripLeft_all_ws (ws : Str) (hws : ∀ c ∈ ws, pyWs.contains c = true) : stripLeft pyWs ws = [] := by
  have := stripLeft_ws_append ws [] hws (by simp)
  simpa using this

theorem strip_ws_both (l r s : Str) (hl : ∀ c ∈ l, pyWs.contains c = true) (hr : ∀ c ∈ r, pyWs.contains c = true)
    (hs : Trimmed s) (hne : s ≠ []) : strip pyWs (l ++ s ++ r) = s := by
  unfold strip stripRight
  rw [List.append_assoc, stripLeft_ws_append l (s ++ r) hl (by
    intro c hc
    cases s with
    | nil => exact absurd rfl hne
    | cons x xs => simp at hc; exact hs.1 c (by simp [hc]))]
  rw [List.reverse_append, stripLeft_ws_append r.reverse s.reverse (by simpa using hr) (by
    intro c hc
    rw [List.head?_reverse] at hc
    exact hs.2 c hc)]
  simp

theorem strip_trimmed (s : Str) (hs : Trimmed s) (hne : s ≠ []) : strip pyWs s = s := by
  have := strip_ws_both [] [] s (by simp) (by simp) hs hne
  simpa using this

theorem stripRight_trimmed (s : Str) (hs : Trimmed s) : stripRight pyWs s = s := by
  unfold stripRight
  cases hrev : s.reverse with
  | nil => simp [stripLeft]; simpa using hrev
  | cons c t =>
    have hc : pyWs.contains c = false := hs.2 c (by
      rw [← List.head?_reverse, hrev]; rfl)
    simp only [stripLeft, hc, Bool.false_eq_true, if_false]
    rw [← hrev]; simp

/-! ### single-line text -/

theorem splitOnChar_no_sep (sep : Char) (s : Str) (h : sep ∉ s) : splitOnChar sep s = [s] := by
  induction s with
  | nil => rfl
  | cons c t ih =>
    have hc : (c == sep) = false := by
      have : c ≠ sep := fun e => h (by simp [e])
      simpa using this
    have ht : sep ∉ t := fun m => h (by simp [m])
    simp only [splitOnChar, ih ht, hc, Bool.false_eq_true, if_false]

theorem indentAllButFirst_single (s : Str) (hnl : '\n' ∉ s) (hs : Trimmed s) (hne : s ≠ []) :
    indentAllButFirst s = s := by
  unfold indentAllButFirst indentLines
  rw [splitOnChar_no_sep '\n' s hnl]
  have hstrip : strip pyWs s = s := strip_trimmed s hs hne
  have : (strip pyWs s).isEmpty = false := by
    rw [hstrip]; cases s with
    | nil => exact absurd rfl hne
    | cons _ _ => rfl
  simp only [List.map_cons, List.map_nil, this, Bool.false_eq_true, if_false, joinWith]
  have hnl' : '\n' ∉ tab ++ s := by
    intro hm; rw [List.mem_append] at hm
    rcases hm with hm | hm
    · simp [tab] at hm
    · exact hnl hm
  rw [splitOnChar_no_sep '\n' (tab ++ s) hnl']
  simp only [joinWith]
  exact stripLeft_ws_append tab s (by intro c hc; simp [tab] at hc; subst hc; decide) hs.1

end Py
