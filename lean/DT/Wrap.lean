import DT.Rest
/-! C18: `textwrap.fill` on the class of text where it is simple — words separated by single spaces,
    no tab / newline / hyphen, every word no longer than the width (so `break_long_words` and
    `break_on_hyphens` never act). Greedy line filling, as `TextWrapper._wrap_chunks` does. -/
namespace Py
namespace Wrap

/-- length of a line made of these words joined by single spaces -/
def lineLen : List Str → Nat
  | [] => 0
  | [x] => x.length
  | x :: xs => x.length + 1 + lineLen xs

/-- greedy filling: `cur` is the line under construction -/
def wrapGo (w : Nat) : List Str → List Str → List (List Str)
  | cur, [] => if cur.isEmpty then [] else [cur]
  | cur, x :: xs =>
    if cur.isEmpty then wrapGo w [x] xs
    else if lineLen (cur ++ [x]) ≤ w then wrapGo w (cur ++ [x]) xs
    else cur :: wrapGo w [x] xs

def wrapWords (w : Nat) (ws : List Str) : List (List Str) := wrapGo w [] ws

/-- `textwrap.fill(s, width=w)` for simple `s` -/
def fillSimple (w : Nat) (s : Str) : Str :=
  joinWith ['\n'] ((wrapWords w (splitOnChar ' ' s)).map (joinWith [' ']))

/-- **layout only**: the words of the lines, in order, are exactly the words given — none lost, none
    duplicated, none moved to another position -/
theorem wrapGo_flatten (w : Nat) : ∀ (ws cur : List Str), (wrapGo w cur ws).flatten = cur ++ ws
  | [], cur => by
    unfold wrapGo
    by_cases h : cur.isEmpty = true
    · simp [h, List.isEmpty_iff.mp h]
    · simp [h]
  | x :: xs, cur => by
    unfold wrapGo
    by_cases h : cur.isEmpty = true
    · simp only [h, if_true]
      rw [wrapGo_flatten w xs [x]]
      simp [List.isEmpty_iff.mp h]
    · simp only [h, Bool.false_eq_true, if_false]
      by_cases hf : lineLen (cur ++ [x]) ≤ w
      · simp only [hf, if_true]
        rw [wrapGo_flatten w xs (cur ++ [x])]
        simp
      · simp only [hf, if_false, List.flatten_cons]
        rw [wrapGo_flatten w xs [x]]
        simp

theorem wrapWords_flatten (w : Nat) (ws : List Str) : (wrapWords w ws).flatten = ws := by
  unfold wrapWords; rw [wrapGo_flatten]; rfl

theorem lineLen_single (x : Str) : lineLen [x] = x.length := rfl

/-- no line is longer than the width, provided no single word is -/
theorem wrapGo_width (w : Nat) : ∀ (ws cur : List Str), (∀ x ∈ ws, x.length ≤ w) → lineLen cur ≤ w →
    ∀ l ∈ wrapGo w cur ws, lineLen l ≤ w
  | [], cur, _, hc => by
    intro l hl
    unfold wrapGo at hl
    by_cases h : cur.isEmpty = true
    · simp [h] at hl
    · simp [h] at hl; rw [hl]; exact hc
  | x :: xs, cur, hw, hc => by
    intro l hl
    unfold wrapGo at hl
    have hx : x.length ≤ w := hw x (by simp)
    have hxs : ∀ y ∈ xs, y.length ≤ w := fun y hy => hw y (by simp [hy])
    by_cases h : cur.isEmpty = true
    · simp only [h, if_true] at hl
      exact wrapGo_width w xs [x] hxs (by rw [lineLen_single]; exact hx) l hl
    · simp only [h, Bool.false_eq_true, if_false] at hl
      by_cases hf : lineLen (cur ++ [x]) ≤ w
      · simp only [hf, if_true] at hl
        exact wrapGo_width w xs (cur ++ [x]) hxs hf l hl
      · simp only [hf, if_false, List.mem_cons] at hl
        rcases hl with rfl | hl
        · exact hc
        · exact wrapGo_width w xs [x] hxs (by rw [lineLen_single]; exact hx) l hl

theorem lineLen_append_le (a : List Str) : ∀ (b : List Str), lineLen a ≤ lineLen (a ++ b) := by
  induction a with
  | nil => intro b; simp [lineLen]
  | cons x xs ih =>
    intro b
    cases xs with
    | nil =>
      cases b with
      | nil => simp
      | cons y ys => simp [lineLen]; omega
    | cons z zs =>
      have := ih b
      simp only [List.cons_append, lineLen] at this ⊢
      omega

/-- **fits ⇒ one line**: text that fits the width is not wrapped at all -/
theorem wrapGo_fits (w : Nat) : ∀ (ws cur : List Str), lineLen (cur ++ ws) ≤ w → cur ++ ws ≠ [] →
    wrapGo w cur ws = [cur ++ ws]
  | [], cur, _, hne => by
    unfold wrapGo
    have : cur ≠ [] := by simpa using hne
    simp [this]
  | x :: xs, cur, hl, _ => by
    unfold wrapGo
    by_cases h : cur.isEmpty = true
    · have hc : cur = [] := List.isEmpty_iff.mp h
      subst hc
      simp only [List.isEmpty_nil, if_true]
      have := wrapGo_fits w xs [x] (by simpa using hl) (by simp)
      simpa using this
    · simp only [h, Bool.false_eq_true, if_false]
      have hpre : lineLen (cur ++ [x]) ≤ w := by
        have := lineLen_append_le (cur ++ [x]) xs
        simp only [List.append_assoc, List.singleton_append] at this
        omega
      simp only [hpre, if_true]
      have := wrapGo_fits w xs (cur ++ [x]) (by simpa using hl) (by simp)
      simpa using this

theorem splitOnChar_ne_nil (sep : Char) : ∀ s : Str, splitOnChar sep s ≠ []
  | [] => by simp [splitOnChar]
  | c :: t => by
    unfold splitOnChar
    cases h : splitOnChar sep t with
    | nil => simp
    | cons a r => by_cases hc : (c == sep) = true <;> simp [hc]

theorem join_split (sep : Char) : ∀ s : Str, joinWith [sep] (splitOnChar sep s) = s
  | [] => by simp [splitOnChar, joinWith]
  | c :: t => by
    have ih := join_split sep t
    unfold splitOnChar
    cases h : splitOnChar sep t with
    | nil => exact absurd h (splitOnChar_ne_nil sep t)
    | cons a r =>
      rw [h] at ih
      by_cases hc : (c == sep) = true
      · have : c = sep := by simpa using hc
        simp only [hc, if_true]
        cases r with
        | nil => simp [joinWith] at ih ⊢; simp [ih, this]
        | cons b r' => simp only [joinWith] at ih ⊢; rw [ih]; simp [this]
      · simp only [hc, Bool.false_eq_true, if_false]
        cases r with
        | nil => simp only [joinWith] at ih ⊢; rw [ih]
        | cons b r' => simp only [joinWith, List.cons_append] at ih ⊢; rw [ih]

theorem lineLen_split (sep : Char) : ∀ s : Str, lineLen (splitOnChar sep s) = s.length
  | [] => by simp [splitOnChar, lineLen]
  | c :: t => by
    have ih := lineLen_split sep t
    unfold splitOnChar
    cases h : splitOnChar sep t with
    | nil => exact absurd h (splitOnChar_ne_nil sep t)
    | cons a r =>
      rw [h] at ih
      by_cases hc : (c == sep) = true
      · simp only [hc, if_true]
        cases r with
        | nil => simp [lineLen] at ih ⊢; omega
        | cons b r' => simp only [lineLen, List.length_nil, List.length_cons] at ih ⊢; omega
      · simp only [hc, Bool.false_eq_true, if_false]
        cases r with
        | nil => simp [lineLen] at ih ⊢; omega
        | cons b r' => simp only [lineLen, List.length_cons] at ih ⊢; omega

/-- **C18, the transparent case**: text that fits the line length comes out of `fill` unchanged -/
theorem fillSimple_id (w : Nat) (s : Str) (hne : s ≠ []) (hfit : s.length ≤ w) : fillSimple w s = s := by
  unfold fillSimple wrapWords
  have hsp : splitOnChar ' ' s ≠ [] := splitOnChar_ne_nil ' ' s
  have hl : lineLen ([] ++ splitOnChar ' ' s) ≤ w := by
    simp only [List.nil_append]; rw [lineLen_split]; exact hfit
  rw [wrapGo_fits w (splitOnChar ' ' s) [] hl (by simpa using hsp)]
  simp only [List.nil_append, List.map_cons, List.map_nil, joinWith]
  exact join_split ' ' s

end Wrap
end Py
