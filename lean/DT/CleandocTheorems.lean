import DT.FuncDoc
import DT.Unwrap
import DT.SetNameIdem
/-! `inspect.cleandoc` (what `ast.get_docstring` hands to the parsers) removes a UNIFORM margin: when every line after
    the first is the same number of blanks followed by either nothing or text that starts with a visible character, the
    result is those texts, joined by line breaks, without the blank lines at either end. This is the shape
    `to_docstring` writes (`ToDocstring.toDocstring_text`). -/
namespace Py
namespace FuncDoc
open DocScan

def pad (m : Nat) (c : Str) : Str := List.replicate m ' ' ++ c

/-- a content line: empty, or starting with a character that is not white space; no line break, no tab -/
structure Content (c : Str) : Prop where
  noNl : '\n' ∉ c
  noTab : '\t' ∉ c
  visible : ∀ a, c.head? = some a → isPySpace a = false

theorem isPySpace_space : isPySpace ' ' = true := by decide

theorem leading_pad (m : Nat) (c : Str) (h : ∀ a, c.head? = some a → isPySpace a = false) : leading (pad m c) = m := by
  unfold leading pad
  induction m with
  | zero =>
    cases c with
    | nil => rfl
    | cons a t => simp [List.takeWhile, h a rfl]
  | succ k ih =>
    simp only [List.replicate_succ, List.cons_append, List.takeWhile, isPySpace_space, List.length_cons]
    rw [ih]

theorem blank_pad_nil (m : Nat) : isBlankLine (pad m []) = true := by
  unfold isBlankLine pad
  simp only [List.append_nil, List.all_eq_true]
  intro x hx
  rw [List.mem_replicate] at hx
  rw [hx.2]; exact isPySpace_space

theorem blank_pad_cons (m : Nat) (a : Char) (t : Str) (h : isPySpace a = false) : isBlankLine (pad m (a :: t)) = false := by
  unfold isBlankLine pad
  rw [List.all_eq_false]
  exact ⟨a, by simp, by simp [h]⟩

theorem drop_pad (m : Nat) (c : Str) : (pad m c).drop m = c := by
  unfold pad
  exact List.drop_left' (by simp)

/-- the margins `cleandoc` collects are all `m` -/
theorem margins_pad (m : Nat) : ∀ (cs : List Str), (∀ c ∈ cs, Content c) →
    (((cs.map (pad m)).filter fun l => !isBlankLine l).map leading) = List.replicate ((cs.filter fun c => !c.isEmpty).length) m
  | [], _ => rfl
  | c :: cs, h => by
    have ih := margins_pad m cs (fun x hx => h x (by simp [hx]))
    have hc := h c (by simp)
    cases c with
    | nil =>
      simp only [List.map_cons, List.filter_cons, blank_pad_nil, Bool.not_true, Bool.false_eq_true, if_false, List.isEmpty_nil]
      exact ih
    | cons a t =>
      have hv := hc.visible a rfl
      simp only [List.map_cons, List.filter_cons, blank_pad_cons m a t hv, Bool.not_false, if_true, List.isEmpty_cons,
        List.length_cons, List.replicate_succ, leading_pad m (a :: t) hc.visible]
      rw [ih]

theorem min?_replicate (k m : Nat) (hk : 0 < k) : (List.replicate k m).min? = some m := by
  cases k with
  | zero => omega
  | succ j =>
    rw [List.replicate_succ, List.min?_cons']
    congr 1
    induction j with
    | zero => rfl
    | succ i ih => simp [List.replicate_succ, List.foldl_cons, ih]

/-- the blank lines at both ends removed -/
def trimBlank (cs : List Str) : List Str := dropLeadingBlank (dropLeadingBlank cs.reverse).reverse

/-- **`cleandoc` removes a uniform margin** -/
theorem cleandoc_uniform (m : Nat) (cs : List Str) (hc : ∀ c ∈ cs, Content c) (hne : ∃ c ∈ cs, c ≠ []) :
    cleandoc (joinWith ['\n'] ([] :: cs.map (pad m))) = .ok (joinWith ['\n'] (trimBlank ([] :: cs))) := by
  have hlines : ∀ l ∈ ([] : Str) :: cs.map (pad m), '\n' ∉ l := by
    intro l hl
    rcases List.mem_cons.mp hl with rfl | hl
    · simp
    · obtain ⟨c, hcm, rfl⟩ := List.mem_map.mp hl
      intro hm
      unfold pad at hm
      rcases List.mem_append.mp hm with h | h
      · rw [List.mem_replicate] at h; exact absurd h.2 (by decide)
      · exact (hc c hcm).noNl h
  have hsplit := Wrap.splitOnChar_join '\n' (([] : Str) :: cs.map (pad m)) (by simp) hlines
  have hnotab : (joinWith ['\n'] (([] : Str) :: cs.map (pad m))).contains '\t' = false := by
    have : '\t' ∉ joinWith ['\n'] (([] : Str) :: cs.map (pad m)) := by
      apply SetNameIdem.joinWith_no '\t' ['\n'] (by decide)
      intro l hl
      rcases List.mem_cons.mp hl with rfl | hl
      · simp
      · obtain ⟨c, hcm, rfl⟩ := List.mem_map.mp hl
        intro hm
        unfold pad at hm
        rcases List.mem_append.mp hm with h | h
        · rw [List.mem_replicate] at h; exact absurd h.2 (by decide)
        · exact (hc c hcm).noTab h
    simpa using this
  unfold cleandoc
  simp only [hnotab, Bool.false_eq_true, if_false, hsplit]
  rw [margins_pad m cs hc]
  have hk : 0 < (cs.filter fun c => !c.isEmpty).length := by
    obtain ⟨c, hcm, hcne⟩ := hne
    apply List.length_pos_of_mem (a := c)
    exact List.mem_filter.mpr ⟨hcm, by cases c with | nil => exact absurd rfl hcne | cons _ _ => rfl⟩
  rw [min?_replicate _ m hk]
  have hdrop : (cs.map (pad m)).map (fun l => l.drop m) = cs := by
    rw [List.map_map]
    conv => rhs; rw [← List.map_id cs]
    apply List.map_congr_left
    intro c _
    exact drop_pad m c
  simp only [hdrop, stripLeft, trimBlank]

end FuncDoc
end Py
