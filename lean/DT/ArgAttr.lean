import DT.FuncAttr
/-! Statement-level model of one parameter through the argparse kind:
    `ast_utils.param2argparse_param` (with `_resolve_arg`, `_parse_node_for_arg`, `infer_type_and_default`) turns an
    entry into the keywords of an `argument_parser.add_argument(...)` call, `emitter_utils.parse_out_param`
    (with `_handle_value`, `_handle_keyword`) reads such a call back. Composed (`argRT`) it is what
    `Kinds.normArgparseParam` says at interface level; `ArgAttrTheorems.argRT_eq_norm` proves that on the typed,
    literal-default part of the domain. Tied to the code by the driver operations `param2argparse` and
    `parse_out_param` (the keywords the real emitter produced / what the real parser read from them).

    The walk over the parsed type expression is modelled by shape (scalar, `Optional[scalar]`, `List[scalar]`,
    `Literal['a', 'b', ...]`, a plain or dotted name); any other type is answered `unmodelled`. -/
namespace Py
namespace ArgAttr
open Kinds ClassAttr

/-- the keywords of the emitted `add_argument('--name', ...)` call -/
structure AddArg where
  typ : Option Str := none            -- `type=<Name>`
  choices : Option (List Str) := none -- `choices=(...)`, string members
  action : Option Str := none
  help : Option Str := none
  required : Bool := false            -- `required=True` present
  default : Option Val := none
deriving DecidableEq, Repr

def tComplex : Str := ['c', 'o', 'm', 'p', 'l', 'e', 'x']
def tLoads : Str := ['l', 'o', 'a', 'd', 's']
def tAny : Str := ['A', 'n', 'y']
def sAppend : Str := ['a', 'p', 'p', 'e', 'n', 'd']
def sOptional : Str := ['O', 'p', 't', 'i', 'o', 'n', 'a', 'l']
def sUnion : Str := ['U', 'n', 'i', 'o', 'n']
def sList : Str := ['L', 'i', 's', 't']
def sLiteralName : Str := ['L', 'i', 't', 'e', 'r', 'a', 'l']

/-- `typ in simple_types` for a type given as text -/
def isSimple (t : Str) : Bool := isScalar t

/-- the members of `'a', 'b', ...` (the inside of `Literal[...]`): quoted strings without the quote mark or a
    back-slash inside, separated by a comma and one blank (what `ast.unparse` writes) -/
def litMembers : Str → Nat → Option (List Str)
  | _, 0 => none
  | q :: rest, fuel + 1 =>
    if q == '\'' || q == '"' then
      let body := rest.takeWhile (· != q)
      if body.contains '\\' then none else
      match rest.dropWhile (· != q) with
      | _ :: [] => some [body]
      | _ :: ',' :: ' ' :: r => (litMembers r fuel).map (body :: ·)
      | _ => none
    else none
  | [], _ => none

/-- inside of `Pre[...]` -/
def inside (pre t : Str) : Option Str :=
  if startsWith t (pre ++ ['[']) && endsWith t [']'] then some ((t.drop (pre.length + 1)).take (t.length - pre.length - 2))
  else none

structure Resolved where
  action : Option Str
  choices : Option (List Str)
  required : Bool
  typ : Str
deriving DecidableEq, Repr

/-- `_resolve_arg(action=None, choices=None, (name, _param), required, typ="str")`; `kw` = the name ends with
    "kwargs" -/
def resolveArgK (kw : Bool) (ptyp : Str) (required0 : Bool) : Res Resolved :=
  let finish (reqOverride : Option Bool) (action : Option Str) (choices : Option (List Str)) (required : Bool) (typ : Str) : Res Resolved :=
    -- `if _required is None and (typ or "").lower() in frozenset(("str", "complex", "int", "float", ...))`
    let ro := match reqOverride with
      | some b => some b
      | none => if typ == tStr || typ == tComplex || typ == tInt || typ == tFloat then some true else none
    .ok ⟨action, choices, ro.getD required, typ⟩
  if startsWith ptyp ['<'] then .unmodelled "a type given as the repr of a class"
  else if containsSub ptyp tComplex then .unmodelled "complex"
  else if isSimple ptyp then finish none none none required0 ptyp
  else if ptyp == tDict || kw then finish none none none (!kw) tLoads
  else if ptyp.isEmpty then finish none none none required0 tStr
  else
    -- `for node in walk(ast_parse_fix(typ))`: by shape
    match inside sOptional ptyp with
    | some x => if isSimple x then finish (some false) none none required0 x else .unmodelled "Optional of a non-scalar"
    | none =>
    match inside sList ptyp with
    | some x => if isSimple x then finish none (some sAppend) none required0 x else .unmodelled "List of a non-scalar"
    | none =>
    match inside sLiteralName ptyp with
    | some body =>
      (match litMembers body (body.length + 1) with
       | some ms => finish none none (if ms.length > 1 then some ms else none) required0 tStr
       | none => .unmodelled "Literal with non-string members")
    | none =>
      if ptyp.contains '[' || ptyp.contains '(' || ptyp.contains '\'' || ptyp.contains '"' then .unmodelled "type shape"
      else
        let base := ptyp.takeWhile (· != '.')
        if !typeGrammarOk ptyp then .unmodelled "type outside the grammar"
        else if base == sOptional || base == sList || base == sUnion then .unmodelled "bare Optional/List/Union"
        else finish none none none required0 tStr        -- `typ = FALLBACK_TYP`

def resolveArg (name ptyp : Str) (required0 : Bool) : Res Resolved :=
  resolveArgK (endsWith name ['k', 'w', 'a', 'r', 'g', 's']) ptyp required0

/-- the `default is None` branch of `infer_type_and_default`: the type survives only when it mentions
    `Optional` or is one of Any / pickle.loads / loads -/
def typAfterNone (typ : Str) : Option Str :=
  if containsSub typ sOptional || typ == tAny || typ == tLoads then some typ else none

/-- `infer_type_and_default(action, default, typ, required)` on scalar defaults: (default, typ or None) -/
def inferTypeAndDefault (dv : Val) (typ : Str) : Res (Option Val × Option Str) :=
  match dv with
  | .str s =>
    if codeQuoted s then
      -- `_infer_type_and_default_from_quoted`: "```(None)```" is evaluated to `None`
      if s == noneStr then .ok (none, typAfterNone typ) else .unmodelled "code default"
    else .ok (some dv, some tStr)
  | .none => .ok (none, typAfterNone typ)
  | v => .ok (some v, some (typeName v))

/-- `set_value(choice)` on a string member -/
def cleanChoice (m : Str) : Str := match setValue (.str m) with | .str s => s | _ => m

/-- `_param.get("default") is not None` -/
def required0Of : Option Val → Bool
  | some .none => false
  | some _ => true
  | none => false

/-- `_param.get("default", _default)` (`_default` = what `extract_default` found in the prose) -/
def dvOf : Option Val → Option Val → Val
  | some v, _ => v
  | none, e => e.getD .none

/-- `param2argparse_param((name, param), word_wrap=False, emit_default_doc)` -/
def param2argparse (name : Str) (p : Param) (edd : Bool) : Res AddArg :=
  let required0 := required0Of p.default
  (resolveArg name (p.typ.getD tAny) required0).bind fun r =>
  (extractDefault (p.doc.getD []) none edd).bind fun e =>
  let dv : Val := dvOf p.default e.default
  (inferTypeAndDefault dv r.typ).bind fun dt =>
  let required := if dt.1.isNone && p.default == some (.str noneStr) then false else r.required
  let typ := dt.2.getD r.typ
  let typ : Option Str := if typ == tStr && r.action.isNone then none else some typ
  .ok { typ := typ,
        choices := r.choices.map (·.map cleanChoice),
        action := r.action,
        help := if e.doc.isEmpty then none else some e.doc,
        required := required,
        default := dt.1.map setValue }

def joinSep (sep : Str) : List Str → Str
  | [] => []
  | [x] => x
  | x :: rest => x ++ sep ++ joinSep sep rest

/-- `_handle_keyword(keyword, typ)`: the type text for a `choices=` keyword -/
def handleChoices (ms : List Str) (typ : Str) : Str :=
  if isSimple typ then
    sLiteralName ++ ['['] ++ joinSep [',', ' '] (if typ == tStr then ms.map fun m => ['\''] ++ m ++ ['\''] else ms) ++ [']']
  else sUnion ++ ['['] ++ joinSep [',', ' '] ms ++ [']']

/-- the raw type read from the `type=` keyword (`_handle_value`; `str` when there is none) -/
def typ0Of (t : Option Str) : Str :=
  match t with
  | some t => if t == tLoads then "Optional[dict]".toList else t
  | none => tStr

/-- the `doc` lambda of `parse_out_param`: the help text, with the default sentence appended when asked for -/
def docOf (help : Option Str) (default : Option Val) (edd : Bool) : Res (Option Str) :=
  match help with
  | none => .ok none
  | some h =>
    match default with
    | none => .ok (some h)
    | some d =>
      if !edd || d == .str [] || containsSub h "defaults to".toList || containsSub h "Defaults to".toList then .ok (some h)
      else (fmtVal d).bind fun sv =>
        .ok (some ((if endsWith h ['.'] then h else h ++ ['.']) ++ " Defaults to ".toList ++ sv))

/-- the default of an entry that has none in the call nor in its help text -/
def fillDefault (typ0 : Str) (required requireDefault : Bool) : Option Val :=
  if required then some (if isSimple typ0 then zeroOf typ0 else .str noneStr)
  else if requireDefault || startsWith typ0 sOptional then some (.str noneStr)
  else none

/-- `choices=` -> Literal/Union, `action="append"` -> List[...], not required -> Optional[...] -/
def typStage (choices : Option (List Str)) (action : Option Str) (required : Bool) (typ0 : Str) : Str :=
  let typ := match choices with | some ms => handleChoices ms typ0 | none => typ0
  let typ := if action == some sAppend then sList ++ ['['] ++ typ ++ [']'] else typ
  if !required && !containsSub typ sOptional then sOptional ++ ['['] ++ typ ++ [']'] else typ

/-- `parse_out_param(expr, require_default, emit_default_doc)` -/
def parseOutParam (a : AddArg) (requireDefault edd : Bool) : Res Param :=
  if typ0Of a.typ == tComplex then .unmodelled "complex" else
  (docOf a.help a.default edd).bind fun doc0 =>
  -- `if default is None: doc, default = extract_default(doc, emit_default_doc=emit_default_doc)`
  let ex : Res (Option Str × Option Val) := match a.default, doc0 with
    | some d, doc => .ok (doc, some d)
    | none, none => .ok (none, none)
    | none, some h => (extractDefault h none edd).bind fun e => .ok (some e.doc, e.default)
  ex.bind fun dd =>
  .ok { doc := dd.1, typ := some (typStage a.choices a.action a.required (typ0Of a.typ)),
        default := match dd.2 with
          | some d => some d
          | none => fillDefault (typ0Of a.typ) a.required requireDefault }

/-- one entry through the argparse emitter and parser (`parse.argparse_ast` passes `emit_default_doc=False`) -/
def argRT (name : Str) (p : Param) (edd requireDefault : Bool) : Res Param :=
  (param2argparse name p edd).bind fun a => parseOutParam a requireDefault false

/-- all the options of one function: `emit.argparse_function` maps `param2argparse_param` over the entries,
    `parse.argparse_ast` reads the calls back in order and switches `require_default` on after the first option
    that came back with a default -/
def argparseParams (edd : Bool) : List (Str × Param) → Bool → Res (List (Str × Param))
  | [], _ => .ok []
  | (n, p) :: rest, rd =>
    (argRT n p edd rd).bind fun q =>
    (argparseParams edd rest (rd || required0Of q.default)).bind fun qs =>
    .ok ((n, q) :: qs)

end ArgAttr
end Py
