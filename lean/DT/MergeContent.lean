import DT.Merge
/-! C07, the CONTENT of the merge (`parser_utils.ir_merge`, target = what the docstring says, other = what the signature
    says): every name both know carries the documented prose, type and default, the signature filling exactly the gaps
    (`mergeParam`); every name only the docstring knows is kept as documented; every name only the signature knows
    arrives with what the signature says - whatever order the set of common names is iterated in. -/
namespace Py
namespace MergeContent

theorem get?_cons (kv : Str × Param) (r : ODict Param) (k : Str) :
    ODict.get? (kv :: r) k = if kv.1 == k then some kv.2 else ODict.get? r k := by
  unfold ODict.get?
  by_cases h : (kv.1 == k) = true
  · simp [List.find?_cons, h]
  · have h' : (kv.1 == k) = false := Bool.eq_false_iff.mpr h
    simp [List.find?_cons, h']

/-- a map that keeps the keys and changes the value at `a` only -/
theorem get?_mapAt (f : Param → Param) (a : Str) : ∀ (d : ODict Param) (k : Str),
    ODict.get? (d.map fun kv => if kv.1 == a then (kv.1, f kv.2) else kv) k =
      if k = a then (ODict.get? d k).map f else ODict.get? d k
  | [], k => by by_cases h : k = a <;> simp [ODict.get?, h]
  | kv :: r, k => by
    have ih := get?_mapAt f a r k
    rw [List.map_cons, get?_cons, get?_cons]
    by_cases hka : (kv.1 == a) = true
    · simp only [hka, if_true]
      by_cases hk : (kv.1 == k) = true
      · have hkk : k = a := ((beq_iff_eq.mp hk).symm).trans (beq_iff_eq.mp hka)
        simp only [hk, if_true]
        rw [if_pos hkk]; rfl
      · have hk' : (kv.1 == k) = false := Bool.eq_false_iff.mpr hk
        simp only [hk', Bool.false_eq_true, if_false]
        exact ih
    · have hka' : (kv.1 == a) = false := Bool.eq_false_iff.mpr hka
      simp only [hka', Bool.false_eq_true, if_false]
      by_cases hk : (kv.1 == k) = true
      · have hne : ¬ k = a := fun e => hka (by rw [← e]; exact hk)
        simp only [hk, if_true]
        rw [if_neg hne]
      · have hk' : (kv.1 == k) = false := Bool.eq_false_iff.mpr hk
        simp only [hk', Bool.false_eq_true, if_false]
        exact ih

/-- what one name of the intersection loop does to the entry of `k` -/
def fill (other : ODict Param) (k : Str) (t : Param) : Param :=
  match other.get? k with | some o => mergeParam t o | none => t

theorem get?_updKey (other tgt : ODict Param) (a k : Str) :
    (updKey other tgt a).get? k = if k = a then (tgt.get? k).map (fill other k) else tgt.get? k := by
  unfold updKey
  cases ho : other.get? a with
  | none =>
    by_cases h : k = a
    · subst h
      simp only [if_true]
      cases hg : tgt.get? k with
      | none => rfl
      | some t => simp [fill, ho]
    · simp [h]
  | some o =>
    rw [get?_mapAt (fun t => mergeParam t o) a tgt k]
    by_cases h : k = a
    · subst h
      simp only [if_true]
      congr 1
      funext t
      simp [fill, ho]
    · simp [h]

theorem get?_foldl_updKey (other : ODict Param) : ∀ (σ : List Str) (tgt : ODict Param) (k : Str), σ.Nodup →
    (σ.foldl (updKey other) tgt).get? k = if k ∈ σ then (tgt.get? k).map (fill other k) else tgt.get? k
  | [], tgt, k, _ => by simp
  | a :: σ, tgt, k, hnd => by
    have hnd' := (List.nodup_cons.mp hnd).2
    have ha : a ∉ σ := (List.nodup_cons.mp hnd).1
    rw [List.foldl_cons, get?_foldl_updKey other σ (updKey other tgt a) k hnd', get?_updKey]
    by_cases hka : k = a
    · subst hka
      simp [ha]
    · by_cases hks : k ∈ σ
      · simp [hka, hks]
      · simp [hka, hks]

theorem get?_set (d : ODict Param) (a : Str) (v : Param) (k : Str) :
    (d.set a v).get? k = if k = a then some v else d.get? k := by
  unfold ODict.set
  by_cases hany : d.any (·.1 == a) = true
  · simp only [hany, if_true]
    have e : (d.map fun kv => if kv.1 == a then (a, v) else kv) =
        (d.map fun kv => if kv.1 == a then (kv.1, (fun _ => v) kv.2) else kv) := by
      apply List.map_congr_left
      intro kv _
      by_cases h : (kv.1 == a) = true
      · have : kv.1 = a := by simpa using h
        simp [h, this]
      · simp [h]
    rw [e, get?_mapAt (fun _ => v) a d k]
    by_cases h : k = a
    · subst h
      simp only [if_true]
      -- the key is present, so the lookup is `some _`
      have : ∃ t, d.get? k = some t := by
        rw [List.any_eq_true] at hany
        obtain ⟨kv, hm, hk⟩ := hany
        unfold ODict.get?
        cases hf : d.find? (·.1 == k) with
        | none =>
          rw [List.find?_eq_none] at hf
          exact absurd hk (by simpa using hf kv hm)
        | some x => exact ⟨x.2, rfl⟩
      obtain ⟨t, ht⟩ := this
      simp [ht]
    · simp [h]
  · have hany' : d.any (·.1 == a) = false := Bool.eq_false_iff.mpr hany
    simp only [hany', Bool.false_eq_true, if_false]
    induction d with
    | nil =>
      by_cases h : k = a
      · subst h; simp [ODict.get?]
      · have hb : (a == k) = false := by simpa using fun e : a = k => h e.symm
        simp [ODict.get?, List.find?_cons, hb, h]
    | cons kv r ih =>
      simp only [List.any_cons, Bool.or_eq_false_iff] at hany'
      have := ih (by simp [hany'.2]) hany'.2
      rw [List.cons_append, get?_cons, get?_cons, this]
      by_cases hk : kv.1 = k
      · have hb : (kv.1 == k) = true := by simpa using hk
        have hne : ¬ k = a := by
          intro e; have : kv.1 = a := hk.trans e
          have hf : (kv.1 == a) = false := hany'.1
          simp [this] at hf
        simp [hb, hne]
      · have hb : (kv.1 == k) = false := by simpa using hk
        simp [hb]

theorem get?_addKey (other tgt : ODict Param) (a k : Str) :
    (addKey other tgt a).get? k = if k = a then (match other.get? a with | some o => some o | none => tgt.get? k) else tgt.get? k := by
  unfold addKey
  cases ho : other.get? a with
  | none => by_cases h : k = a <;> simp [h]
  | some o => rw [get?_set]

theorem get?_foldl_addKey (other : ODict Param) : ∀ (σ : List Str) (tgt : ODict Param) (k : Str),
    (∀ a ∈ σ, (other.get? a).isSome) →
    (σ.foldl (addKey other) tgt).get? k = if k ∈ σ then other.get? k else tgt.get? k
  | [], tgt, k, _ => by simp
  | a :: σ, tgt, k, h => by
    rw [List.foldl_cons, get?_foldl_addKey other σ (addKey other tgt a) k (fun b hb => h b (by simp [hb])), get?_addKey]
    have hao := h a (by simp)
    by_cases hks : k ∈ σ
    · simp [hks]
    · by_cases hka : k = a
      · subst hka
        cases ho : other.get? k with
        | none => simp [ho] at hao
        | some o => simp [hks]
      · simp [hks, hka]

theorem get?_isSome_of_mem (d : ODict Param) (k : Str) (h : k ∈ okeys d) : (d.get? k).isSome := by
  unfold okeys at h
  obtain ⟨kv, hm, hk⟩ := List.mem_map.mp h
  unfold ODict.get?
  cases hf : d.find? (·.1 == k) with
  | none =>
    rw [List.find?_eq_none] at hf
    exact absurd (by simpa using hk) (by simpa using hf kv hm)
  | some x => rfl

theorem get?_none_of_not_mem (d : ODict Param) (k : Str) (h : k ∉ okeys d) : d.get? k = none := by
  unfold ODict.get?
  cases hf : d.find? (·.1 == k) with
  | none => rfl
  | some x =>
    exfalso
    have hm := List.mem_of_find?_eq_some hf
    have hk : x.1 = k := by simpa using List.find?_some hf
    exact h (by unfold okeys; exact List.mem_map.mpr ⟨x, hm, hk⟩)

/-- **C07 (what every merged entry holds)**: `σ` = the order in which Python iterates the set of common names (any
    duplicate-free list holding exactly them). For every name `k`:
    * known to both: the documented entry, its gaps filled from the signature (`mergeParam`: prose and type of the
      docstring win when present; the documented default wins unless it is absent / None);
    * known to the docstring only: the documented entry, untouched;
    * known to the signature only: the signature's entry. -/
theorem irMerge_get (target other : ODict Param) (σ : List Str) (ht : target ≠ []) (ho : other ≠ [])
    (hσ : σ.Nodup) (hmem : ∀ k, k ∈ σ ↔ (k ∈ okeys target ∧ k ∈ okeys other)) (k : Str) :
    (irMergeParams target other σ).get? k =
      match target.get? k, other.get? k with
      | some t, some o => some (mergeParam t o)
      | some t, none => some t
      | none, o => o := by
  unfold irMergeParams mergeParams
  have h1 : target.isEmpty = false := by cases target <;> simp_all
  have h2 : other.isEmpty = false := by cases other <;> simp_all
  simp only [h1, h2, Bool.false_eq_true, if_false]
  have hmiss : ∀ a ∈ missingKeys target other, (other.get? a).isSome := by
    intro a ha
    exact get?_isSome_of_mem other a (List.mem_filter.mp ha).1
  rw [get?_foldl_addKey other _ _ k hmiss, get?_foldl_updKey other σ target k hσ]
  by_cases hkt : k ∈ okeys target
  · -- documented
    have hnm : k ∉ missingKeys target other := by
      intro hm
      have := (List.mem_filter.mp hm).2
      simp only [Bool.not_eq_true', List.contains_eq_any_beq, List.any_eq_false] at this
      exact this k hkt (by simp)
    obtain ⟨t, htg⟩ := Option.isSome_iff_exists.mp (get?_isSome_of_mem target k hkt)
    simp only [hnm, if_false, htg]
    by_cases hko : k ∈ okeys other
    · obtain ⟨o, hog⟩ := Option.isSome_iff_exists.mp (get?_isSome_of_mem other k hko)
      have : k ∈ σ := (hmem k).mpr ⟨hkt, hko⟩
      simp [this, hog, fill]
    · have hog := get?_none_of_not_mem other k hko
      have : k ∉ σ := fun hs => hko ((hmem k).mp hs).2
      simp [this, hog]
  · -- not documented
    have htg := get?_none_of_not_mem target k hkt
    have hns : k ∉ σ := fun hs => hkt ((hmem k).mp hs).1
    by_cases hko : k ∈ okeys other
    · have hm : k ∈ missingKeys target other := by
        refine List.mem_filter.mpr ⟨hko, ?_⟩
        simp only [Bool.not_eq_true', List.contains_eq_any_beq, List.any_eq_false]
        intro x hx; simpa using fun e : k = x => hkt (e ▸ hx)
      simp [hm, htg]
    · have hm : k ∉ missingKeys target other := fun hm => hko (List.mem_filter.mp hm).1
      have hog := get?_none_of_not_mem other k hko
      simp [hm, hns, htg, hog]

/-- documented information takes precedence: prose and type of the docstring survive whenever they are there, a
    documented default that is a value survives too -/
theorem mergeParam_precedence (t o : Param) :
    (truthyStr t.doc = true → (mergeParam t o).doc = t.doc) ∧
    (t.typ.isSome = true → (mergeParam t o).typ = t.typ) ∧
    (defaultIsNoneType t.default = false → (mergeParam t o).default = t.default) := by
  refine ⟨?_, ?_, ?_⟩
  · intro h; simp [mergeParam, h]
  · intro h
    cases ht : t.typ with
    | none => simp [ht] at h
    | some x => simp [mergeParam, ht]
  · intro h; simp [mergeParam, h]

/-- the signature fills the gaps: where the docstring is silent the signature's information is what comes out -/
theorem mergeParam_fills (t o : Param) :
    (truthyStr t.doc = false → truthyStr o.doc = true → (mergeParam t o).doc = o.doc) ∧
    (t.typ = none → truthyStr o.typ = true → (mergeParam t o).typ = o.typ) ∧
    (defaultIsNoneType t.default = true → otherDefaultUsable o.default = true → (mergeParam t o).default = o.default) := by
  refine ⟨?_, ?_, ?_⟩
  · intro h1 h2; simp [mergeParam, h1, h2]
  · intro h1 h2; simp [mergeParam, h1, h2]
  · intro h1 h2; simp [mergeParam, h1, h2]

/-- non-vacuity / illustration: `a` documented with prose only (the signature gives type and default), `b` documented
    with the default 0 (the signature says 7: the documented zero stays), `c` known to the signature only -/
def exT : ODict Param := [(['a'], { doc := some ['x'] }), (['b'], { doc := some ['y'], default := some (.int false ['0']) })]
def exO : ODict Param := [(['a'], { typ := some ['i', 'n', 't'], default := some (.int false ['5']) }),
  (['b'], { default := some (.int false ['7']) }), (['c'], { default := some (.int false ['1']) })]

example : irMergeParams exT exO [['b'], ['a']] =
    [(['a'], { doc := some ['x'], typ := some ['i', 'n', 't'], default := some (.int false ['5']) }),
     (['b'], { doc := some ['y'], default := some (.int false ['0']) }),
     (['c'], { default := some (.int false ['1']) })] := by decide

example (k : Str) : (irMergeParams exT exO [['b'], ['a']]).get? k =
    match exT.get? k, exO.get? k with
    | some t, some o => some (mergeParam t o)
    | some t, none => some t
    | none, o => o :=
  irMerge_get exT exO [['b'], ['a']] (by decide) (by decide) (by decide)
    (by intro k; simp only [exT, exO, okeys, List.map_cons, List.map_nil, List.mem_cons, List.not_mem_nil, or_false]
        constructor
        · rintro (h | h) <;> subst h <;> simp
        · rintro ⟨h1, _⟩; rcases h1 with h | h <;> simp [h]) k

end MergeContent
end Py
