import DT.FsSync
/-! L12: the decision logic of `doctrans.__main__.main` (after argparse's own syntax checks). -/
namespace Cli

inductive Kind where | argparse | cls | func
deriving DecidableEq, Repr

/-- what argparse hands over for one kind: the `--<kind>` files (existence flag each; `none` = option
    absent; argparse's `append` never yields an empty list) and whether `--<kind>-name` was given -/
structure KindArgs where
  files : Option (List Bool) := none
  named : Bool := false
deriving DecidableEq, Repr

structure SyncArgs where
  truth : Kind
  a : KindArgs
  c : KindArgs
  f : KindArgs
deriving DecidableEq, Repr

def SyncArgs.get (x : SyncArgs) : Kind → KindArgs
  | .argparse => x.a | .cls => x.c | .func => x.f

inductive Decision where
  | usageError        -- `_parser.error(...)`: exit status 2, nothing else happens
  | accept            -- dispatched to the operation
  | internalError     -- an exception that is not a usage error escapes `main`
deriving DecidableEq, Repr

def nFiles (k : KindArgs) : Nat := (k.files.map (·.length)).getD 0

/-- `main(["sync", ...])` as repaired by fix 89b7e5c -/
def syncDecide (x : SyncArgs) : Decision :=
  match (x.get x.truth).files with
  | none => .usageError                                   -- "--truth must be an existent file. Got: None"
  | some fl =>
    if nFiles x.a + nFiles x.c + nFiles x.f < 2 then .usageError
    else if fl.head? != some true then .usageError          -- first file of the truth kind must exist
    else if [x.a, x.c, x.f].any (fun k => k.files.isSome && !k.named) then .usageError
    else .accept

/-- the same before the repair (kept for the record of finding D17): a missing name, or a kind that
    was not given at all, was accepted and then raised `TypeError` inside `ground_truth` -/
def syncDecideOld (x : SyncArgs) : Decision :=
  match (x.get x.truth).files with
  | none => .usageError
  | some fl =>
    if nFiles x.a + nFiles x.c + nFiles x.f < 2 then .usageError
    else if fl.head? != some true then .usageError
    else if [x.a, x.c, x.f].any (fun k => !k.named) then .internalError
    else .accept

/-- `main(["sync_properties", ...])`: both files must exist -/
def syncPropsDecide (inputExists outputExists : Bool) : Decision :=
  if !inputExists then .usageError else if !outputExists then .usageError else .accept

inductive GenDecision where | refuse | accept
deriving DecidableEq, Repr
/-- `main(["gen", ...])`: an existing output file is never touched (`IOError`) -/
def genDecide (outputExists : Bool) : GenDecision := if outputExists then .refuse else .accept

/-! ### what an invocation does to the file system -/
open FsSync

/-- a rejected invocation performs no step; an accepted `sync` runs its targets in order -/
def syncRun (x : SyncArgs) (fs : FS) (ts : List Target) (fault : Option (Nat × Nat)) : FS :=
  match syncDecide x with
  | .accept => runTargets fs ts fault
  | _ => fs

theorem sync_never_internal (x : SyncArgs) : syncDecide x ≠ .internalError := by
  unfold syncDecide
  split
  · simp
  · split
    · simp
    · split
      · simp
      · split <;> simp

theorem sync_reject_untouched (x : SyncArgs) (fs : FS) (ts : List Target) (fault : Option (Nat × Nat))
    (h : syncDecide x ≠ .accept) : syncRun x fs ts fault = fs := by
  unfold syncRun
  cases hd : syncDecide x <;> simp_all

/-- accepted ⇒ every given kind carries a name, at least two files, the truth file exists -/
theorem sync_accept_iff (x : SyncArgs) :
    syncDecide x = .accept ↔
      (∃ fl, (x.get x.truth).files = some fl ∧ fl.head? = some true) ∧
      2 ≤ nFiles x.a + nFiles x.c + nFiles x.f ∧
      ([x.a, x.c, x.f].any (fun k => k.files.isSome && !k.named)) = false := by
  unfold syncDecide
  cases hf : (x.get x.truth).files with
  | none => simp
  | some fl =>
    simp only [Option.some.injEq, exists_eq_left']
    by_cases h1 : nFiles x.a + nFiles x.c + nFiles x.f < 2
    · simp [h1]; omega
    · by_cases h2 : (fl.head? != some true) = true
      · simp only [h1, if_false, h2, if_true]
        constructor
        · intro h; cases h
        · intro h; simp_all
      · by_cases h3 : ([x.a, x.c, x.f].any (fun k => k.files.isSome && !k.named)) = true
        · simp only [h1, if_false, h2, Bool.false_eq_true, h3, if_true]
          constructor
          · intro h; cases h
          · intro h; simp_all
        · simp only [h1, if_false, h2, Bool.false_eq_true, h3]
          simp at h2 h3 h1
          simp [h2, h3]; omega

/-- D17 as it was: an invocation the old command line accepted and then crashed on -/
theorem syncOld_internal_witness :
    syncDecideOld { truth := .cls, a := {}, c := { files := some [true], named := true },
                    f := { files := some [false], named := true } } = .internalError := by decide

/-- …which the repaired command line carries out -/
theorem sync_two_kinds_accepted :
    syncDecide { truth := .cls, a := {}, c := { files := some [true], named := true },
                 f := { files := some [false], named := true } } = .accept := by decide

/-- **C20, invocation level**: whatever the arguments and wherever a write faults, every target of a
    `sync` is afterwards byte-identical to before or completely rewritten, and no temporary file is left. -/
theorem sync_all_or_nothing (x : SyncArgs) (fs : FS) (ts : List Target) (hf : Fresh fs ts)
    (fault : Option (Nat × Nat)) :
    ∀ t ∈ ts, ((syncRun x fs ts fault) t.p = fs t.p ∨ (syncRun x fs ts fault) t.p = some (t.a ++ t.b))
              ∧ (syncRun x fs ts fault) t.tmp = none := by
  intro t ht
  unfold syncRun
  cases hd : syncDecide x with
  | accept => exact runTargets_all_or_nothing ts fs hf fault t ht
  | usageError => exact ⟨Or.inl rfl, hf.2 t ht⟩
  | internalError => exact ⟨Or.inl rfl, hf.2 t ht⟩

end Cli
