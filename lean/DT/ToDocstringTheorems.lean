import DT.ToDocstring
import DT.RestRT
import DT.SetNameIdem
/-! C02 / C03, the docstring of an emitted class / function (`emitter_utils.to_docstring`): on a typed, described,
    default-free entry with one line of prose, every helper the entry goes through (`extract_default`, `set_default_doc`,
    `indent_all_but_first`, `multiline`, `emit_param_str`, the `_joiner`) leaves the text alone, and the block is the
    `:param` line, a line break, the indentation, the `:type` line - at every indentation level, with types in the
    docstring or in the signature. -/
namespace Py
namespace ToDocstring
open SetNameIdem

theorem tabs_ws (n : Nat) : ∀ c ∈ tabs n, pyWs.contains c = true := by
  induction n with
  | zero => intro c hc; simp [tabs] at hc
  | succ k ih =>
    intro c hc
    simp only [tabs, List.replicate_succ, List.flatten_cons, List.mem_append] at hc
    rcases hc with h | h
    · simp only [tab, List.mem_cons, List.not_mem_nil, or_false] at h
      rcases h with h | h | h | h <;> subst h <;> decide
    · exact ih c h

theorem tabs_no_nl : ∀ (n : Nat), '\n' ∉ tabs n
  | 0 => by simp [tabs]
  | k + 1 => by
    intro h
    simp only [tabs, List.replicate_succ, List.flatten_cons, List.mem_append] at h
    rcases h with h | h
    · simp [tab] at h
    · exact tabs_no_nl k h

/-- `indent_all_but_first` at any level leaves a single trimmed line alone -/
theorem indentAllButFirstN_single (k : Nat) (s : Str) (hnl : '\n' ∉ s) (hs : Trimmed s) (hne : s ≠ []) :
    indentAllButFirstN k s = s := by
  unfold indentAllButFirstN indentLines
  rw [splitOnChar_no_sep '\n' s hnl]
  have hstrip : strip pyWs s = s := strip_trimmed s hs hne
  have hnee : s.isEmpty = false := by cases s with | nil => exact absurd rfl hne | cons _ _ => rfl
  simp only [List.map_cons, List.map_nil, hstrip, hnee, Bool.false_eq_true, if_false, joinWith]
  have hno : '\n' ∉ tabs k ++ s := by
    intro h; rcases List.mem_append.mp h with h | h
    · exact tabs_no_nl k h
    · exact hnl h
  rw [splitOnChar_no_sep '\n' _ hno]
  simp only [joinWith]
  exact stripLeft_ws_append (tabs k) s (tabs_ws k) hs.1

/-- characters `multiline` strips from the end -/
def mlEnd : Str := [' ', '\n', '\\']

theorem stripRight_keep (cs s : Str) (h : ∀ c, s.getLast? = some c → cs.contains c = false) : stripRight cs s = s := by
  unfold stripRight
  rw [stripLeft_of_head cs s.reverse (by intro c hc; rw [List.head?_reverse] at hc; exact h c hc)]
  simp

theorem stripLeft_drop (cs : Str) : ∀ (p s : Str), (∀ c ∈ p, cs.contains c = true) → stripLeft cs (p ++ s) = stripLeft cs s
  | [], _, _ => rfl
  | a :: t, s, h => by
    have ha := h a (by simp)
    simp only [List.cons_append, stripLeft, ha, if_true]
    exact stripLeft_drop cs t s (fun c hc => h c (by simp [hc]))

theorem stripRight_drop (cs s r : Str) (hr : ∀ c ∈ r, cs.contains c = true) : stripRight cs (s ++ r) = stripRight cs s := by
  unfold stripRight
  rw [List.reverse_append, stripLeft_drop cs r.reverse s.reverse (by intro c hc; exact hr c (List.mem_reverse.mp hc))]

/-- `multiline` leaves one line alone when it does not end with a blank or a back-slash -/
theorem multiline_single (s : Str) (hnl : '\n' ∉ s) (hne : s ≠ []) (hlast : ∀ c, s.getLast? = some c → mlEnd.contains c = false) :
    multiline s = s := by
  unfold multiline
  have hsl : DocScan.splitLines s = [s] := by
    unfold DocScan.splitLines
    rw [splitOnChar_no_sep '\n' s hnl]
    cases s with
    | nil => exact absurd rfl hne
    | cons a t => simp
  rw [hsl]
  simp only [List.map_cons, List.map_nil, joinWith]
  have e : (s ++ [' ', '\\', '\n']) = s ++ [' ', '\\', '\n'] := rfl
  rw [stripRight_drop [' ', '\n', '\\'] s [' ', '\\', '\n'] (by intro c hc; simp at hc; rcases hc with h | h | h <;> subst h <;> decide)]
  exact stripRight_keep _ s hlast

theorem reindent_single (sep s : Str) (hnl : '\n' ∉ s) : reindent sep s = s := by
  unfold reindent
  rw [splitOnChar_no_sep '\n' s hnl]
  rfl

open NumpyRT in
/-- **one entry block of `to_docstring`** (`_param2docstring_param` + `_joiner`) on a typed, described, default-free
    entry: the `:param` line, then (types in the docstring) the `:type` line, each followed by a line break and the
    indentation - at EVERY indentation level; the entry itself is left as it was -/
theorem entryBlockP_plain (n d t : Str) (hn : NameOK n) (hd : NumpyRT.NDoc d) (hs : ∀ c, d.getLast? = some c → c ≠ '\\')
    (ht : TypOK t) (edd : Bool) (level : Nat) (emitTypes : Bool) :
    entryBlockP n (mkParam d t) edd level emitTypes =
      .ok (some (if emitTypes then docLine n d ++ ['\n'] ++ tabs level ++ typLine n t ++ ['\n'] ++ tabs level
                 else docLine n d ++ ['\n'] ++ tabs level), mkParam d t) := by
  obtain ⟨hdo, hD1, hD2⟩ := hd
  have hret : (n == retName) = false := by simpa using hn.notRet
  have hdne : d.isEmpty = false := isEmpty_false_of_ne d hdo.ne
  have htne : t.isEmpty = false := isEmpty_false_of_ne t ht.ne
  have hsd : setDefaultDoc n (mkParam d t) edd = .ok (mkParam d t) := by
    unfold setDefaultDoc mkParam
    simp only [hD1, hD2, Bool.or_self, Bool.false_and, Bool.false_eq_true, if_false, Option.isSome_none]
  have hlast : ∀ c, d.getLast? = some c → mlEnd.contains c = false := by
    intro c hc
    have h1 := hdo.trimmed.2 c hc
    have h2 := hs c hc
    have hsp : c ≠ ' ' := by intro e; subst e; exact absurd h1 (by decide)
    have hnl : c ≠ '\n' := by intro e; subst e; exact absurd h1 (by decide)
    simp [mlEnd, hsp, hnl, h2]
  have hind : indentAllButFirstN (level - 1) d = d := indentAllButFirstN_single (level - 1) d hdo.oneLine hdo.trimmed hdo.ne
  have hml : multiline d = d := multiline_single d hdo.oneLine hdo.ne hlast
  have k1 : [':'] ++ (kParam ++ n) ++ [':', ' '] ++ d = docLine n d := by simp [docLine, tokParam, kParam]
  have k2 : [':'] ++ (kType ++ n) ++ [':', ' ', '`', '`', '`'] ++ t ++ ['`', '`', '`'] = typLine n t := by
    simp [typLine, tokType, bt3, kType]
  have hnl1 : '\n' ∉ docLine n d := by
    simp only [docLine, tokParam, List.mem_append, List.mem_cons, List.mem_nil_iff, not_or]
    exact ⟨⟨⟨by decide, by decide, hn.noNl⟩, by decide⟩, hdo.oneLine⟩
  have hnl2 : '\n' ∉ typLine n t := by
    simp only [typLine, tokType, bt3, List.mem_append, List.mem_cons, List.mem_nil_iff, not_or]
    exact ⟨⟨⟨⟨⟨by decide, by decide, hn.noNl⟩, by decide⟩, by decide⟩, ht.oneLine⟩, by decide⟩
  have i1 := indentAllButFirst_single (docLine n d) hnl1 (docLine_trimmed n d hdo) (by simp [docLine, tokParam])
  have i2 := indentAllButFirst_single (typLine n t) hnl2 (typLine_trimmed n t) (by simp [typLine, tokType])
  unfold entryBlockP
  have hx : extractDefault d none edd = .ok ⟨d, none⟩ := extract_none d hdo.noAnnounce none edd
  have hsd' := hsd
  unfold mkParam at hsd' ⊢
  simp only [hx, Res.bind, hdne, Bool.not_false, if_true, hsd', hind, hml, Bool.false_eq_true, if_false, keyOf, keyTypOf, hret,
    k1, k2, i1, i2, htne, Bool.false_or]
  cases emitTypes with
  | true => simp [reindent_single _ _ hnl1, reindent_single _ _ hnl2]
  | false => simp

/-! ### the whole docstring -/

def blockOf (level : Nat) (emitTypes : Bool) (x : Triple) : Str :=
  if emitTypes then docLine x.1 x.2.1 ++ ['\n'] ++ tabs level ++ typLine x.1 x.2.2 ++ ['\n'] ++ tabs level
  else docLine x.1 x.2.1 ++ ['\n'] ++ tabs level

/-- what the function / class emitters ask of an entry beyond `TripleOK'` -/
def BlockOK (x : Triple) : Prop := NumpyRT.TripleOK' x ∧ ∀ c, x.2.1.getLast? = some c → c ≠ '\\'

theorem blockOf_ne (level : Nat) (emitTypes : Bool) (x : Triple) : (blockOf level emitTypes x).isEmpty = false := by
  unfold blockOf docLine tokParam
  cases emitTypes <;> simp

theorem entryBlocks_plain (edd : Bool) (level : Nat) (emitTypes : Bool) : ∀ (ts : List Triple), (∀ x ∈ ts, BlockOK x) →
    entryBlocks edd level emitTypes (ts.map entryOf) = .ok (ts.map (blockOf level emitTypes))
  | [], _ => rfl
  | x :: ts, h => by
    obtain ⟨⟨hn, hd, ht⟩, hs⟩ := h x (by simp)
    have ih := entryBlocks_plain edd level emitTypes ts (fun y hy => h y (by simp [hy]))
    have hb := entryBlockP_plain x.1 x.2.1 x.2.2 hn hd hs ht edd level emitTypes
    simp only [List.map_cons, entryBlocks, entryBlock, entryOf, hb, Res.bind, ih]
    have := blockOf_ne level emitTypes x
    unfold blockOf at this
    simp only [this, Bool.false_eq_true, if_false]
    rfl

/-- **`to_docstring` on the default-free domain**: a one-line summary and ≥ 1 typed, described, default-free entries give
    the summary line, an empty line, then the blocks joined by a line break - every line at the indentation the caller
    asked for (`emit_separating_tab`), at every indentation level, with the types in the docstring or not -/
theorem toDocstring_text (D : Str) (ts : List Triple) (hne : ts ≠ []) (hok : ∀ x ∈ ts, BlockOK x)
    (hDne : D ≠ []) (hDt : Trimmed D) (hDnl : '\n' ∉ D)
    (hsepD : DocScan.otherSeparators D = false) (hsepP : ∀ x ∈ ts, DocScan.otherSeparators x.2.1 = false)
    (edd : Bool) (level : Nat) (emitTypes emitSepTab : Bool) :
    toDocstring (mkIR D ts) edd level emitTypes emitSepTab =
      .ok (let sep := if emitSepTab then tabs level else []
           ['\n'] ++ sep ++ D ++ ['\n'] ++ sep ++
           (['\n'] ++ sep ++ joinWith (['\n'] ++ sep) (ts.map (blockOf level emitTypes)) ++ ['\n'] ++ sep)) := by
  unfold toDocstring
  have hany : (ts.map entryOf).any (fun kp => DocScan.otherSeparators (kp.2.doc.getD [])) = false := by
    rw [List.any_eq_false]
    intro kp hkp
    obtain ⟨x, hx, rfl⟩ := List.mem_map.mp hkp
    simp [entryOf, mkParam, hsepP x hx]
  have hDe : D.isEmpty = false := NumpyRT.isEmpty_false_of_ne D hDne
  have hpe : (ts.map entryOf).isEmpty = false := by
    cases ts with
    | nil => exact absurd rfl hne
    | cons _ _ => rfl
  have hstripD : stripRight [' ', '\t'] D = D := by
    apply stripRight_keep
    intro c hc
    have := hDt.2 c hc
    have h1 : c ≠ ' ' := by intro e; subst e; exact absurd this (by decide)
    have h2 : c ≠ '\t' := by intro e; subst e; exact absurd this (by decide)
    simp [h1, h2]
  have hends : endsWith D ['\n'] = false := by
    unfold endsWith
    cases hr : D.reverse with
    | nil => exact absurd (List.reverse_eq_nil_iff.mp hr) hDne
    | cons c r =>
      have hc : c ∈ D := by
        have : c ∈ D.reverse := by rw [hr]; simp
        exact List.mem_reverse.mp this
      have : c ≠ '\n' := fun e => hDnl (e ▸ hc)
      have h' : ¬ '\n' = c := fun e => this e.symm
      simp [List.isPrefixOf, h']
  have hindent : ∀ sep : Str, indentLines sep D = sep ++ D := by
    intro sep
    unfold indentLines
    rw [splitOnChar_no_sep '\n' D hDnl]
    simp only [List.map_cons, List.map_nil, strip_trimmed D hDt hDne, hDe, Bool.false_eq_true, if_false, joinWith]
  simp only [mkIR, hsepD, hany, Bool.or_self, Bool.false_eq_true, if_false, Option.bind, Option.getD_none, Bool.or_false,
    entryBlocks_plain edd level emitTypes ts hok, Res.bind, hDe, hpe, hindent, hstripD, hends]
  have h0 : DocScan.otherSeparators ([] : Str) = false := by decide
  simp [h0]

end ToDocstring
end Py
