import DT.RestRT
/-! `RestRT` with a return entry: the ReST round trip through the `:returns:` / `:rtype:` pair - the return branch of
    `emit.docstring`, the two return tokens in the scanner, the return branch of `_parse_phase_rest` (which does not flush
    the parameter being collected; the final flush does). Same domain as `C01_rest_nodefault_partial`, plus a typed,
    described, default-free return entry. -/
namespace Py

def tokReturn : Str := [':', 'r', 'e', 't', 'u', 'r', 'n']
def tokRtype : Str := [':', 'r', 't', 'y', 'p', 'e']
def retBody (d : Str) : Str := 's' :: ':' :: ' ' :: d ++ ['\n']
def rtypeBody (t : Str) : Str := ':' :: ' ' :: (bt3 ++ t ++ bt3) ++ ['\n']
def retSegs (d t : Str) : List (Str × Str) := [(tokReturn, retBody d), (tokRtype, rtypeBody t)]

def mkIRr (D : Str) (ts : List Triple) (dr tr : Str) : IR :=
  { doc := D, params := ts.map entryOf, returns := some (mkParam dr tr) }

/-! ### emit -/

def retDocLine (d : Str) : Str := [':'] ++ kReturns ++ [':', ' '] ++ d
def retTypLine (t : Str) : Str := [':'] ++ kRtype ++ [':', ' ', '`', '`', '`'] ++ t ++ ['`', '`', '`']

theorem emitRet_ok (d t : Str) (hd : DocOK d) (ht : TypOK t) :
    ∃ p', emitParamStrRest retName (mkParam d t) true = .ok (retDocLine d ++ '\n' :: retTypLine t, p') := by
  unfold emitParamStrRest
  have hret : (retName == retName) = true := by simp
  have hdne : d.isEmpty = false := by
    cases d with
    | nil => exact absurd rfl hd.ne
    | cons _ _ => rfl
  have htne : t.isEmpty = false := by
    cases t with
    | nil => exact absurd rfl ht.ne
    | cons _ _ => rfl
  have hsd : setDefaultDoc retName (mkParam d t) true = .ok (mkParam d t) := by
    unfold setDefaultDoc
    simp [mkParam]
  have hnl1 : '\n' ∉ retDocLine d := by
    simp only [retDocLine, kReturns, List.mem_append, List.mem_cons, List.mem_nil_iff, not_or]
    exact ⟨⟨⟨by decide, by decide⟩, by decide⟩, hd.oneLine⟩
  have hnl2 : '\n' ∉ retTypLine t := by
    simp only [retTypLine, kRtype, List.mem_append, List.mem_cons, List.mem_nil_iff, not_or]
    exact ⟨⟨⟨⟨by decide, by decide⟩, by decide⟩, ht.oneLine⟩, by decide⟩
  have tr1 : Trimmed (retDocLine d) := by
    obtain ⟨c, hc⟩ : ∃ c, d.getLast? = some c := by
      cases h : d.getLast? with
      | none => exact absurd (List.getLast?_eq_none_iff.mp h) hd.ne
      | some c => exact ⟨c, rfl⟩
    refine trimmed_of_ends _ ':' c (by simp [retDocLine]) ?_ (by decide) (hd.trimmed.2 c hc)
    unfold retDocLine
    rw [List.getLast?_append, hc]; rfl
  have tr2 : Trimmed (retTypLine t) := by
    refine trimmed_of_ends _ ':' '`' (by simp [retTypLine]) ?_ (by decide) (by decide)
    unfold retTypLine
    rw [List.getLast?_append]; simp
  have i1 := indentAllButFirst_single (retDocLine d) hnl1 tr1 (by simp [retDocLine])
  have i2 := indentAllButFirst_single (retTypLine t) hnl2 tr2 (by simp [retTypLine])
  refine ⟨mkParam d t, ?_⟩
  simp only [hret, if_true]
  simp only [mkParam] at hsd ⊢
  simp only [hdne, Bool.false_eq_true, if_false, hsd, Res.bind, htne, Option.toList_some]
  have k1 : [':'] ++ kReturns ++ [':', ' '] ++ d = retDocLine d := rfl
  have k2 : [':'] ++ kRtype ++ [':', ' ', '`', '`', '`'] ++ t ++ ['`', '`', '`'] = retTypLine t := rfl
  rw [k1, k2]
  simp only [List.cons_append, List.nil_append, List.map_cons, List.map_nil, i1, i2, joinWith]
  simp

theorem segText_append (a b : List (Str × Str)) : segText (a ++ b) = segText a ++ segText b := by
  simp [segText]

theorem emit_textR (D : Str) (ts : List Triple) (dr tr : Str) (hne : ts ≠ []) (hok : ∀ x ∈ ts, TripleOK x)
    (hd : DocOK dr) (ht : TypOK tr) :
    emitDocstringRest (mkIRr D ts dr tr) true = .ok (preOf D ++ segText (segsOf ts ++ retSegs dr tr)) := by
  unfold emitDocstringRest
  obtain ⟨p', hp'⟩ := emitRet_ok dr tr hd ht
  have hp'' : emitParamStrRest "return_type".toList (mkParam dr tr) true = .ok (retDocLine dr ++ '\n' :: retTypLine tr, p') := hp'
  simp only [mkIRr, emitParams_ok ts hok, Res.bind, hp'']
  have hj := joinWith_flatten ['\n', '\n'] (ts.map paramText) (by simpa using hne)
  rw [segText_of_params] at hj
  rw [segText_append, ← hj]
  simp [preOf, segText, retSegs, retDocLine, retTypLine, tokReturn, tokRtype, retBody, rtypeBody, kReturns, kRtype, bt3]

/-! ### the two return segments are clean, so the scanner cuts exactly there -/

theorem retBody_clean (d : Str) (hd : DocOK d) : Clean restTokens (retBody d) := by
  apply ncl_clean
  have e : retBody d = ['s', ':'] ++ ' ' :: (d ++ '\n' :: []) := by simp [retBody]
  rw [e]
  apply ncl_append_glue _ _ ' ' (by decide) (by decide) (by decide)
  exact ncl_append_glue d [] '\n' (by decide) (by decide) hd.clean rfl

theorem rtypeBody_clean (t : Str) (ht : TypOK t) : Clean restTokens (rtypeBody t) := by
  apply ncl_clean
  have e : rtypeBody t = [':'] ++ ' ' :: (['`', '`'] ++ '`' :: (t ++ '`' :: ['`', '`', '\n'])) := by
    simp [rtypeBody, bt3]
  rw [e]
  apply ncl_append_glue _ _ ' ' (by decide) (by decide) (by decide)
  apply ncl_append_glue _ _ '`' (by decide) (by decide) rfl
  exact ncl_append_glue t _ '`' (by decide) (by decide) ht.clean rfl

theorem retSegs_ok (d t : Str) (hd : DocOK d) (ht : TypOK t) : SegsOK restTokens (retSegs d t) := by
  intro tb htb
  simp only [retSegs, List.mem_cons, List.mem_nil_iff, or_false] at htb
  rcases htb with h | h
  · subst h; exact ⟨(by decide : tokReturn ∈ restTokens), retBody_clean d hd⟩
  · subst h; exact ⟨(by decide : tokRtype ∈ restTokens), rtypeBody_clean t ht⟩

/-! ### the return branch of the parse phase -/

theorem is_return_token (b : Str) : returnTokens.any (fun t => startsWith (tokReturn ++ b) t) = true := by
  simp [returnTokens, restTokens, tokReturn, startsWith, List.isPrefixOf]

theorem is_rtype_token (b : Str) : returnTokens.any (fun t => startsWith (tokRtype ++ b) t) = true := by
  simp [returnTokens, restTokens, tokRtype, startsWith, List.isPrefixOf]

theorem parseStep_returns (st : ParseSt) (d : Str) (hd : DocOK d) (hr : st.returns = none) :
    parseStepRest true false true st (true, tokReturn ++ retBody d) =
      .ok { st with returns := some { doc := some d } } := by
  have hline : tokReturn ++ retBody d = [':'] ++ (['r', 'e', 't', 'u', 'r', 'n', 's'] ++ ':' :: (' ' :: d ++ ['\n'])) := by
    simp [tokReturn, retBody]
  have hfind : pyFind (tokReturn ++ retBody d) [':'] 1 = 8 := by
    rw [hline]
    have := pyFind_single ':' [':'] ['r', 'e', 't', 'u', 'r', 'n', 's'] (' ' :: d ++ ['\n']) (by decide)
    simpa using this
  have hfrom : pyFrom (tokReturn ++ retBody d) (8 + 1) = ' ' :: d ++ ['\n'] := by
    have e : tokReturn ++ retBody d = [':', 'r', 'e', 't', 'u', 'r', 'n', 's', ':'] ++ (' ' :: d ++ ['\n']) := by
      simp [tokReturn, retBody]
    rw [e]
    have := pyFrom_at [':', 'r', 'e', 't', 'u', 'r', 'n', 's', ':'] (' ' :: d ++ ['\n'])
    simpa using this
  have hval : strip pyWs (' ' :: d ++ ['\n']) = d := by
    have := strip_ws_both [' '] ['\n'] d ws_space ws_nl hd.trimmed hd.ne
    simpa using this
  have hnot : startsWith (tokReturn ++ retBody d) ":rtype".toList = false := by
    simp [tokReturn, startsWith, List.isPrefixOf]
  unfold parseStepRest
  simp only [if_true, is_return_token, hfind, hfrom, hval, setParamValue, hnot, Bool.false_eq_true, if_false]
  rw [interpolate_nodefault _ d hd rfl]
  simp [Res.bind, hr]

theorem parseStep_rtype (st : ParseSt) (d t : Str) (ht : TypOK t) (hr : st.returns = some { doc := some d }) :
    parseStepRest true false true st (true, tokRtype ++ rtypeBody t) =
      .ok { st with returns := some { doc := some d, typ := some t } } := by
  have hline : tokRtype ++ rtypeBody t = [':'] ++ (['r', 't', 'y', 'p', 'e'] ++ ':' :: (' ' :: (bt3 ++ t ++ bt3) ++ ['\n'])) := by
    simp [tokRtype, rtypeBody]
  have hfind : pyFind (tokRtype ++ rtypeBody t) [':'] 1 = 6 := by
    rw [hline]
    have := pyFind_single ':' [':'] ['r', 't', 'y', 'p', 'e'] (' ' :: (bt3 ++ t ++ bt3) ++ ['\n']) (by decide)
    simpa using this
  have hfrom : pyFrom (tokRtype ++ rtypeBody t) (6 + 1) = ' ' :: (bt3 ++ t ++ bt3) ++ ['\n'] := by
    have e : tokRtype ++ rtypeBody t = [':', 'r', 't', 'y', 'p', 'e', ':'] ++ (' ' :: (bt3 ++ t ++ bt3) ++ ['\n']) := by
      simp [tokRtype, rtypeBody]
    rw [e]
    have := pyFrom_at [':', 'r', 't', 'y', 'p', 'e', ':'] (' ' :: (bt3 ++ t ++ bt3) ++ ['\n'])
    simpa using this
  have hval : strip pyWs (' ' :: (bt3 ++ t ++ bt3) ++ ['\n']) = bt3 ++ t ++ bt3 := by
    have := strip_ws_both [' '] ['\n'] (bt3 ++ t ++ bt3) ws_space ws_nl (ticks_trimmed t) (by simp [bt3])
    simpa using this
  have his : startsWith (tokRtype ++ rtypeBody t) ":rtype".toList = true := by
    simp [tokRtype, startsWith, List.isPrefixOf]
  unfold parseStepRest
  simp only [if_true, is_rtype_token, hfind, hfrom, hval, setParamValue, his]
  have hbt : (['`', '`', '`'] : Str) = bt3 := rfl
  rw [hbt, replace_ticks t ht.noTick]
  simp only [ht.noStars, Bool.false_eq_true, if_false]
  simp [interpolateDefaults, Res.bind, hr]

/-! ### parsing the emitted text -/

theorem parse_emittedR (D : Str) (ts : List Triple) (l : Triple) (dr tr : Str)
    (hDne : D ≠ []) (hDt : Trimmed D) (hDc : ncl D = true)
    (hok : ∀ x ∈ ts ++ [l], TripleOK x) (hnd : ((ts ++ [l]).map (·.1)).Nodup)
    (hd : DocOK dr) (ht : TypOK tr) :
    parseDocstringRest (preOf D ++ segText (segsOf (ts ++ [l]) ++ retSegs dr tr)) true = .ok (mkIRr D (ts ++ [l]) dr tr) := by
  unfold parseDocstringRest
  have hne : (preOf D ++ segText (segsOf (ts ++ [l]) ++ retSegs dr tr)).isEmpty = false := by simp [preOf]
  simp only [hne, Bool.false_eq_true, if_false]
  -- scan
  have hsegs : ∃ a b, segsOf (ts ++ [l]) = a :: b := by
    cases h : segsOf (ts ++ [l]) with
    | nil =>
      have : (segsOf (ts ++ [l])).length = 0 := by rw [h]; rfl
      simp [segsOf, List.length_flatMap] at this
    | cons a b => exact ⟨a, b, rfl⟩
  obtain ⟨a, b, hab⟩ := hsegs
  have hall : SegsOK restTokens (a :: (b ++ retSegs dr tr)) := by
    intro tb htb
    have : tb ∈ segsOf (ts ++ [l]) ++ retSegs dr tr := by rw [hab]; simpa using htb
    rcases List.mem_append.mp this with h | h
    · exact segsOf_ok _ hok tb h
    · exact retSegs_ok dr tr hd ht tb h
  have hscan := scanRest_spec_cons (preOf D) a (b ++ retSegs dr tr) (pre_clean D hDc) hall
  have hcons : a :: (b ++ retSegs dr tr) = segsOf (ts ++ [l]) ++ retSegs dr tr := by rw [hab]; rfl
  rw [hcons, List.map_append, segsOf_items] at hscan
  rw [hscan]
  -- the summary item
  have hstrip : strip pyWs (preOf D) = D := by
    have := strip_ws_both ['\n'] ['\n', '\n'] D ws_nl1 ws_nlnl hDt hDne
    simpa [preOf] using this
  simp only [foldRes, parseStepRest, Bool.false_eq_true, if_false, List.isEmpty_nil, if_true, hstrip, Res.bind]
  -- the parameters, then the two return items
  have hfold := fold_items ts l ({ doc := D } : ParseSt) none {} hok hnd rfl (Or.inl ⟨rfl, rfl⟩)
    (by intro x _; simp [flushInto, keys])
  rw [foldRes_append, hfold]
  simp only [Res.bind, flushInto, List.nil_append, retSegs, List.map_cons, List.map_nil, foldRes]
  rw [parseStep_returns _ dr hd rfl]
  simp only [Res.bind]
  rw [parseStep_rtype _ dr tr ht rfl]
  simp only [Res.bind]
  -- the final flush
  have hl := hok l (by simp)
  rw [interpolate_nodefault (mkParam l.2.1 l.2.2) l.2.1 hl.2.1 rfl]
  simp only [Res.bind]
  have hsnt := setNameAndType_plain l.1 l.2.1 (some l.2.2) hl.1 hl.2.1 (by intro t ht; cases ht; exact hl.2.2)
  simp only [mkParam] at hsnt ⊢
  rw [hsnt]
  simp only [Res.bind]
  have hlfresh : l.1 ∉ keys (ts.map entryOf) := by
    simp only [keys, List.map_map]
    have : ((ts.map (·.1)) ++ [l.1]).Nodup := by simpa using hnd
    have := (List.nodup_append.mp this).2.2
    intro hm
    have hm' : l.1 ∈ ts.map (·.1) := by simpa [entryOf, Function.comp] using hm
    exact this l.1 hm' l.1 (by simp) rfl
  have hset := set_fresh (ts.map entryOf) l.1 { doc := some l.2.1, typ := some l.2.2, default := none } hlfresh
  rw [hset]
  have hall' : ts.map entryOf ++ [(l.1, ({ doc := some l.2.1, typ := some l.2.2, default := none } : Param))]
      = (ts ++ [l]).map entryOf := by
    simp [entryOf, mkParam]
  rw [hall', mapParams_id (ts ++ [l]) hok]
  have hri : interpolateDefaults ({ doc := some dr, typ := some tr } : Param) true = .ok { doc := some dr, typ := some tr } :=
    interpolate_nodefault { doc := some dr, typ := some tr } dr hd rfl true
  simp only [Res.bind, hri, mkIRr, mkParam]

/-- **C01 (ReST) with a return entry, default-free domain**: one-line summary, ≥ 1 uniquely named parameters and a return
    entry, each with one line of prose and a type, no defaults: emit then parse is the identity and raises nothing - any
    number of parameters, texts of any length. The `:returns:` / `:rtype:` items do not flush the parameter being
    collected; the flush at the end of the parse phase does. -/
theorem C01_rest_return_partial (D : Str) (ts : List Triple) (l : Triple) (dr tr : Str)
    (hDne : D ≠ []) (hDt : Trimmed D) (hDc : ncl D = true)
    (hok : ∀ x ∈ ts ++ [l], TripleOK x) (hnd : ((ts ++ [l]).map (·.1)).Nodup)
    (hd : DocOK dr) (ht : TypOK tr) :
    ((emitDocstringRest (mkIRr D (ts ++ [l]) dr tr) true).bind fun text => parseDocstringRest text true)
      = .ok (mkIRr D (ts ++ [l]) dr tr) := by
  rw [emit_textR D (ts ++ [l]) dr tr (by simp) hok hd ht]
  simp only [Res.bind]
  exact parse_emittedR D ts l dr tr hDne hDt hDc hok hnd hd ht

end Py
