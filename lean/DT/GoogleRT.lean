import DT.NumpyRT
/-! The whole-docstring round trip of the **google** style on the default-free domain (no return entry): the same
    statement as `NumpyRT.C01_numpydoc_nodefault_partial`, through the google entry emitter, the dedent that ends the
    `Args:` section in the scan loop, and the google entry parser. -/
namespace Py
namespace GoogleRT
open DocEmit DocScan DocParse NumpyRT

def lineG (x : Triple) : Str := [' ', ' '] ++ x.1 ++ [' ', '('] ++ x.2.2 ++ [')', ':', ' '] ++ x.2.1

theorem emitEntry_ok (x : Triple) (hn : NameOK x.1) (hd : NDoc x.2.1) (ht : TypOK x.2.2) (e : Bool) :
    emitParamStrGoogle x.1 (mkParam x.2.1 x.2.2) e = .ok (lineG x) := by
  obtain ⟨n, d, t⟩ := x
  obtain ⟨hdo, hD1, hD2⟩ := hd
  simp only at hn hdo hD1 hD2 ht
  have hret : (n == retName) = false := by simp [hn.notRet]
  have hsd : setDefaultDoc n ({ doc := some d, typ := some t, default := none } : Param) e =
      .ok { doc := some d, typ := some t, default := none } := by
    unfold setDefaultDoc
    simp only [hD1, hD2, Bool.or_self, Bool.false_and, Bool.false_eq_true, if_false, Option.isSome_none, Bool.false_and]
  unfold emitParamStrGoogle
  simp only [mkParam, nonEmpty, isEmpty_false_of_ne t ht.ne, isEmpty_false_of_ne d hdo.ne, Bool.false_eq_true, if_false, hret,
    hsd, Res.bind]
  simp [lineG]

theorem emitEntries_ok (ts : List Triple) (hok : ∀ x ∈ ts, TripleOK' x) (e : Bool) :
    emitEntries .google (ts.map entryOf) e = .ok (ts.map lineG) := by
  induction ts with
  | nil => rfl
  | cons x ts ih =>
    have hx := hok x (by simp)
    simp only [List.map_cons, emitEntries, entryOf, emitEntry, emitEntry_ok x hx.1 hx.2.1 hx.2.2 e, Res.bind,
      ih (fun y hy => hok y (by simp [hy]))]

def tailG : Str := ['\n', '\n']

def textG (D : Str) (ts : List Triple) : Str :=
  preN D ++ argToken .google ++ ['\n'] ++ joinWith ['\n'] (ts.map lineG) ++ tailG

theorem emit_text (D : Str) (ts : List Triple) (hne : ts ≠ []) (hok : ∀ x ∈ ts, TripleOK' x) (e : Bool) :
    emitDocstring .google (mkIR D ts) e = .ok (textG D ts) := by
  unfold emitDocstring
  simp only [mkIR, emitEntries_ok ts hok e, Res.bind]
  have hne' : (ts.map lineG).isEmpty = false := by
    cases ts with
    | nil => exact absurd rfl hne
    | cons _ _ => rfl
  simp only [hne', Bool.false_eq_true, if_false]
  rw [joinWith_cons_ne ['\n'] _ _ (by simpa using hne)]
  simp [textG, preN, tailG]

theorem lws_lineG (x : Triple) (hne : x.1 ≠ []) (h : AtMargin x.1) : lws (lineG x) = 2 := by
  obtain ⟨n, d, t⟩ := x
  cases n with
  | nil => exact absurd rfl hne
  | cons c r =>
    have hc := h c rfl
    have h1 : isPySpace ' ' = true := by decide
    simp [lws, lineG, List.takeWhile, hc, h1]

/-- the scan loop over the entry lines and the empty line that ends the section (a dedent) -/
theorem scanLoop_google : ∀ (ts : List Triple) (pre : List Str) (lp : Loop) (fuel : Nat),
    (∀ x ∈ ts, x.1 ≠ [] ∧ AtMargin x.1) → ts.length + 1 ≤ fuel → lp.nsArgs = true →
    scanLoop .google (pre ++ ts.map lineG ++ [[]]) 2 fuel pre.length lp =
      .ok { lp with stacker := [], broke := true,
                    sc := { lp.sc with args := lp.sc.args ++ (lp.stacker ++ ts.map (fun x => [lineG x])) } }
  | [], pre, lp, fuel, _, hf, hns => by
    cases fuel with
    | zero => simp at hf
    | succ f =>
      have hget : (pre ++ ([] : List Triple).map lineG ++ [[]])[pre.length]? = some [] := by simp
      have hlen : (pre ++ ([] : List Triple).map lineG ++ [[]]).length = pre.length + 1 := by simp
      have hdrop : (pre ++ ([] : List Triple).map lineG ++ [[]]).drop (pre.length + 1) = [] := by simp
      unfold scanLoop
      rw [hget]
      have h0 : lws ([] : Str) = 0 := rfl
      simp only [h0, hlen, hdrop, setNs, hns, if_true]
      simp
  | x :: ts, pre, lp, fuel, hm, hf, hns => by
    cases fuel with
    | zero => simp at hf
    | succ f =>
      have hx := hm x (by simp)
      have e1 : pre ++ (x :: ts).map lineG ++ [[]] = (pre ++ [lineG x]) ++ ts.map lineG ++ [[]] := by simp
      have hget : ((pre ++ [lineG x]) ++ ts.map lineG ++ [[]])[pre.length]? = some (lineG x) := by simp
      have ih := scanLoop_google ts (pre ++ [lineG x]) { lp with stacker := lp.stacker ++ [[lineG x]] } f
        (fun y hy => hm y (by simp [hy])) (by simp at hf ⊢; omega) hns
      rw [e1]
      unfold scanLoop
      rw [hget]
      have hl : (lws (lineG x) == 2) = true := by simp [lws_lineG x hx.1 hx.2]
      simp only [hl, if_true]
      have : (pre ++ [lineG x]).length = pre.length + 1 := by simp
      rw [this] at ih
      rw [ih]
      simp

theorem argTokG_cons : argToken .google = 'A' :: "rgs:".toList := rfl

/-- what the google domain asks of an entry beyond `TripleOK'` (the conditions of `parseGoogle_emitted`) -/
structure GOK (x : Triple) : Prop where
  noParen : '(' ∉ x.1
  trimmedName : Trimmed x.1
  typNoColon : ':' ∉ x.2.2
  typNoOr : containsOr x.2.2 = false
  noBrace : (decide (x.2.1.length > 3) && startsWith x.2.1 ['{'] && endsWith x.2.1 ['}']) = false
  docNoColonEnd : endsWith (lineG x) [':'] = false

theorem lineG_no_nl (x : Triple) (hx : TripleOK' x) : '\n' ∉ lineG x := by
  intro hm
  simp only [lineG, List.mem_append, List.mem_cons, List.not_mem_nil, or_false] at hm
  rcases hm with ((((hm | hm) | hm) | hm) | hm) | hm
  · rcases hm with hm | hm <;> exact absurd hm (by decide)
  · exact hx.1.noNl hm
  · rcases hm with hm | hm <;> exact absurd hm (by decide)
  · exact hx.2.2.oneLine hm
  · rcases hm with hm | hm | hm <;> exact absurd hm (by decide)
  · exact hx.2.1.1.oneLine hm

theorem splitLines_textG (ts : List Triple) (hne : ts ≠ []) (hok : ∀ x ∈ ts, TripleOK' x) :
    splitLines (joinWith ['\n'] (ts.map lineG) ++ tailG) = ts.map lineG ++ [[]] := by
  have hL : ts.map lineG ≠ [] := by simpa using hne
  unfold splitLines
  have : joinWith ['\n'] (ts.map lineG) ++ tailG = joinWith ['\n'] (ts.map lineG) ++ '\n' :: ['\n'] := rfl
  rw [this, splitOnChar_joined '\n' (ts.map lineG) ['\n'] hL (by
    intro l hl
    simp only [List.mem_map] at hl
    obtain ⟨x, hx, rfl⟩ := hl
    exact lineG_no_nl x (hok x hx))]
  have h3 : splitOnChar '\n' ['\n'] = [[], []] := by decide
  rw [h3]
  have e : ts.map lineG ++ [[], []] = (ts.map lineG ++ [[]]) ++ [[]] := by simp
  have hl : (ts.map lineG ++ [[], []]).getLast? = some [] := by rw [e, List.getLast?_concat]
  simp only [hl]
  rw [e, List.dropLast_concat]

theorem scanPhase_text (D : Str) (ts : List Triple) (hne : ts ≠ []) (hok : ∀ x ∈ ts, TripleOK' x)
    (hmargin : ∀ x ∈ ts, AtMargin x.1) (hDne : D ≠ []) (hDt : Trimmed D) (hA : 'A' ∉ D)
    (hsep : otherSeparators (textG D ts) = false) :
    scanPhase .google (textG D ts) =
      .ok { doc := D, args := ts.map (fun x => [lineG x]), rets := .lines [], afterward := none } := by
  have hPre : 'A' ∉ preN D := by
    intro h
    unfold preN at h
    rcases List.mem_cons.mp h with h | h
    · exact absurd h (by decide)
    · rcases List.mem_append.mp h with h | h
      · exact hA h
      · exact absurd h (by decide)
  have hfind : findSub (argToken .google) (textG D ts) 0 = some (preN D).length := by
    have e : textG D ts = preN D ++ argToken .google ++ (['\n'] ++ joinWith ['\n'] (ts.map lineG) ++ tailG) := by
      simp [textG]
    rw [e, argTokG_cons, findSub_skip 'A' _ (preN D) _ 0 hPre]
    simp
  have htake : (textG D ts).take (preN D).length = preN D := by simp [textG, List.append_assoc]
  have hdoc : strip pyWs (preN D) = D := by
    have := strip_ws_both ['\n'] ['\n', '\n', '\n'] D ws_nl ws_nl3 hDt hDne
    simpa [preN] using this
  have hdrop : (textG D ts).drop ((preN D).length + (argToken .google).length + 1) =
      joinWith ['\n'] (ts.map lineG) ++ tailG := by
    have e : textG D ts = (preN D ++ argToken .google ++ ['\n']) ++ (joinWith ['\n'] (ts.map lineG) ++ tailG) := by
      simp [textG]
    rw [e]
    exact List.drop_left' (by simp only [List.length_append, List.length_cons, List.length_nil])
  obtain ⟨x, r, hts⟩ : ∃ x r, ts = x :: r := by
    cases ts with
    | nil => exact absurd rfl hne
    | cons x r => exact ⟨x, r, rfl⟩
  have hlines := splitLines_textG ts hne hok
  have hl0 : ∃ rest, ts.map lineG ++ [[]] = lineG x :: rest := by
    subst hts; exact ⟨r.map lineG ++ [[]], by simp⟩
  obtain ⟨restL, hrestL⟩ := hl0
  have hnames : ∀ y ∈ ts, y.1 ≠ [] ∧ AtMargin y.1 := fun y hy => ⟨(hok y hy).1.ne, hmargin y hy⟩
  have hfi : lws (lineG x) = 2 := lws_lineG x (hok x (by simp [hts])).1.ne (hmargin x (by simp [hts]))
  have hloop := scanLoop_google ts [] { sc := { doc := D }, nsArgs := true } ((ts.map lineG ++ [[]]).length + 1) hnames
    (by simp) rfl
  simp only [List.nil_append, List.length_nil] at hloop
  unfold scanPhase
  simp only [hsep, Bool.false_eq_true, if_false, hfind, htake, hdoc, hdrop, hlines]
  rw [hrestL]
  simp only [hfi]
  rw [← hrestL, hloop]
  simp [Res.bind, retsEmpty]

/-! ### the parse phase -/

theorem parseGoogle_unit (x : Triple) (hx : TripleOK' x) (hg : GOK x) :
    parseGoogle [lineG x] = .ok (x.1, { typ := some x.2.2, doc := some x.2.1 }) :=
  parseGoogle_emitted x.1 x.2.2 x.2.1 hx.1.noColon hg.noParen hg.typNoColon hx.1.ne hg.trimmedName hx.2.2.ne hg.typNoOr
    hx.2.1.1.trimmed hx.2.1.1.ne hg.noBrace

theorem parseEntries_units (e : Bool) : ∀ (ts : List Triple),
    (∀ x ∈ ts, TripleOK' x) → (∀ x ∈ ts, GOK x) →
    parseEntries .google e false true (ts.map (fun x => [lineG x])) false = .ok (ts.map entryOf, false)
  | [], _, _ => rfl
  | x :: ts, hok, hg => by
    have hx := hok x (by simp)
    have ih := parseEntries_units e ts (fun y hy => hok y (by simp [hy])) (fun y hy => hg y (by simp [hy]))
    have hsn : setNameAndType (some x.1) { typ := some x.2.2, doc := some x.2.1 } false true =
        .ok (x.1, { typ := some x.2.2, doc := some x.2.1 }) :=
      setNameAndType_plain x.1 x.2.1 (some x.2.2) hx.1 hx.2.1.1 (by intro t ht; cases ht; exact hx.2.2)
    simp only [List.map_cons, parseEntries, parseGoogle_unit x hx (hg x (by simp)), Res.bind,
      interpolateReq_plain x.2.1 x.2.2 hx.2.1.1 e]
    have hne : ((Res.ok (some (x.1, ({ typ := some x.2.2, doc := some x.2.1 } : Param))) : Res (Option (Str × Param))) ==
        Res.raises "StopIteration") = false := by simp
    simp only [hne, Bool.false_eq_true, if_false, Option.isNone_none, Bool.true_or, Bool.not_true, Bool.or_false, hsn, ih]
    rfl

theorem parse_text (D : Str) (ts : List Triple) (hne : ts ≠ []) (hok : ∀ x ∈ ts, TripleOK' x) (hg : ∀ x ∈ ts, GOK x)
    (hmargin : ∀ x ∈ ts, AtMargin x.1) (hDne : D ≠ []) (hDt : Trimmed D) (hA : 'A' ∉ D)
    (hsep : otherSeparators (textG D ts) = false) (hnd : (ts.map (·.1)).Nodup) (e : Bool) :
    parseDocstring .google (textG D ts) e = .ok (mkIR D ts) := by
  unfold parseDocstring
  rw [scanPhase_text D ts hne hok hmargin hDne hDt hA hsep]
  simp only [Res.bind]
  have hidx : (ts.map (fun x => [lineG x])).findIdx? startsSection = none := by
    rw [List.findIdx?_eq_none_iff]
    intro u hu
    simp only [List.mem_map] at hu
    obtain ⟨y, hy, rfl⟩ := hu
    simp only [startsSection]
    exact (hg y hy).docNoColonEnd
  simp only [hidx, parseEntries_units e ts hok hg, retsEmpty, List.isEmpty_nil, if_true,
    dedupKeepLast_nodup _ (by rw [entryOf_names]; exact hnd)]
  rfl

/-- **C01 (google) on the default-free domain**: a one-line summary and ≥ 1 uniquely named parameters, each with a
    type and one line of prose, no defaults, no return entry: `emit.docstring` then `parse_docstring` is the identity and
    raises nothing - any number of parameters, texts of any length. (Partial: the summary does not contain the
    capital letter the section token starts with; names start at the left margin, are trimmed and hold no parenthesis;
    a type holds no colon and no " or "; prose is not a brace option list and does not end with a colon; no line
    separator other than `\n`.) -/
theorem C01_google_nodefault_partial (D : Str) (ts : List Triple) (hne : ts ≠ []) (hok : ∀ x ∈ ts, TripleOK' x)
    (hg : ∀ x ∈ ts, GOK x) (hmargin : ∀ x ∈ ts, AtMargin x.1) (hDne : D ≠ []) (hDt : Trimmed D) (hA : 'A' ∉ D)
    (hsep : otherSeparators (textG D ts) = false) (hnd : (ts.map (·.1)).Nodup) (e e' : Bool) :
    ((emitDocstring .google (mkIR D ts) e).bind fun text => parseDocstring .google text e') = .ok (mkIR D ts) := by
  rw [emit_text D ts hne hok e]
  simp only [Res.bind]
  exact parse_text D ts hne hok hg hmargin hDne hDt hA hsep hnd e'

end GoogleRT
end Py
