import DT.FuncDocInline
import DT.FuncDocRTExample
/-! non-vacuity: the two-parameter description of `RestRTExample` satisfies every hypothesis of
    `C03_docstring_half_inline_partial` (indentation level 1, as `emit.function` uses for a module-level function). -/
namespace Py
namespace FuncDocInline
open ToDocstring NumpyRT FuncDoc

example : funcDocRT (mkIR exD ([exA] ++ [exB])) false 1 false true = .ok (mkIRd exD (([exA] ++ [exB]).map pairOf)) :=
  C03_docstring_half_inline_partial exD [exA] exB
    (by intro x hx; simp at hx; rcases hx with rfl | rfl; exact bA; exact bB)
    (by decide) (trimmed_dec _ (by decide) (by decide)) (by decide) (margin_dec _ (by decide)) (by decide) (by decide) (by decide)
    (by intro x hx; simp at hx; rcases hx with rfl | rfl <;> decide)
    (by intro x hx; simp at hx; rcases hx with rfl | rfl <;> exact ⟨by decide, by decide, by decide⟩)
    (by decide) false 1

end FuncDocInline
end Py
