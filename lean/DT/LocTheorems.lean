import DT.Locate
/-! Theorems about the *driver's own* model of `RewriteAtQuery` (DT/Locate.lean):
    at most one replacement, and the frame property used by C11/C14/C15. -/
namespace PyAst

/- `touch search n`: the transformer can act on `n` or below it — `n` carries the searched
    location and is not a string constant, or is a `FunctionDef` whose location is the search minus its last segment
    (`visit_FunctionDef` never descends, so nothing below a `FunctionDef` counts). -/
mutual
  def touchNode (search : List Atom) : Node → Bool
    | .mk k fs l _ _ =>
      if k == "FunctionDef" then l == some (search.take (search.length - 1))
      else (l == some search && k != "Constant") || touchFields search fs
  def touchFields (search : List Atom) : List (String × Field) → Bool
    | [] => false
    | (_, f) :: rest => touchField search f || touchFields search rest
  def touchField (search : List Atom) : Field → Bool
    | .atom _ => false
    | .missing => false
    | .node n => touchNode search n
    | .list items => touchItems search items
  def touchItems (search : List Atom) : List Item → Bool
    | [] => false
    | it :: rest => touchItem search it || touchItems search rest
  def touchItem (search : List Atom) : Item → Bool
    | .node n => touchNode search n
    | .atom _ => false
end

theorem visitFunctionDef_untouched (st : RW) (node : Node)
    (h : (node.loc == some (st.search.take (st.search.length - 1))) = false) :
    visitFunctionDef st node = (st, node) := by
  unfold visitFunctionDef visitFunctionDefRaw
  simp only [h, Bool.and_false, Bool.false_eq_true, if_false]

theorem visitFunctionDef_replaced (st : RW) (node : Node) (h : st.replaced = true) :
    visitFunctionDef st node = (st, node) := by
  unfold visitFunctionDef visitFunctionDefRaw
  simp only [h, Bool.not_true, Bool.false_and, Bool.false_eq_true, if_false]
  cases st
  simp_all

/- **Frame**: a sub-tree the search does not touch is returned unchanged, whatever the state. -/
mutual
  theorem visit_untouched (st : RW) : ∀ n, touchNode st.search n = false → visit st n = (st, n)
    | .mk k fs l i d => by
      intro h
      unfold visit
      by_cases he : st.err.isSome = true
      · simp only [he, if_true]
      · simp only [he, Bool.false_eq_true, if_false]
        unfold touchNode at h
        by_cases hk : (k == "FunctionDef") = true
        · simp only [hk, if_true] at h ⊢
          exact visitFunctionDef_untouched st _ h
        · simp only [hk, Bool.false_eq_true, if_false, Bool.or_eq_false_iff] at h ⊢
          have h1 : (!st.replaced && l == some st.search && k != "Constant") = false := by
            rw [Bool.and_assoc, h.1, Bool.and_false]
          simp only [h1, Bool.false_eq_true, if_false]
          rw [visitFields_untouched st fs h.2]
  theorem visitFields_untouched (st : RW) : ∀ fs, touchFields st.search fs = false → visitFields st fs = (st, fs)
    | [] => by intro _; simp [visitFields]
    | (k, f) :: rest => by
      intro h
      simp only [touchFields, Bool.or_eq_false_iff] at h
      simp only [visitFields]
      rw [visitField_untouched st f h.1, visitFields_untouched st rest h.2]
  theorem visitField_untouched (st : RW) : ∀ f, touchField st.search f = false → visitField st f = (st, f)
    | .atom a => by intro _; simp [visitField]
    | .missing => by intro _; simp [visitField]
    | .node n => by intro h; simp only [touchField] at h; simp only [visitField]; rw [visit_untouched st n h]
    | .list items => by
      intro h; simp only [touchField] at h; simp only [visitField]; rw [visitItems_untouched st items h]
  theorem visitItems_untouched (st : RW) : ∀ its, touchItems st.search its = false → visitItems st its = (st, its)
    | [] => by intro _; simp [visitItems]
    | it :: rest => by
      intro h
      simp only [touchItems, Bool.or_eq_false_iff] at h
      simp only [visitItems]
      rw [visitItem_untouched st it h.1, visitItems_untouched st rest h.2]
  theorem visitItem_untouched (st : RW) : ∀ it, touchItem st.search it = false → visitItem st it = (st, it)
    | .node n => by intro h; simp only [touchItem] at h; simp only [visitItem]; rw [visit_untouched st n h]
    | .atom a => by intro _; simp [visitItem]
end

/- **At most one replacement**: once `replaced` is set the transformer is the identity. -/
mutual
  theorem visit_replaced (st : RW) (h : st.replaced = true) : ∀ n, visit st n = (st, n)
    | .mk k fs l i d => by
      unfold visit
      by_cases he : st.err.isSome = true
      · simp only [he, if_true]
      · simp only [he, Bool.false_eq_true, if_false]
        by_cases hk : (k == "FunctionDef") = true
        · simp only [hk, if_true]; exact visitFunctionDef_replaced st _ h
        · simp only [hk, Bool.false_eq_true, if_false, h, Bool.not_true, Bool.false_and]
          rw [visitFields_replaced st h fs]
  theorem visitFields_replaced (st : RW) (h : st.replaced = true) : ∀ fs, visitFields st fs = (st, fs)
    | [] => by simp [visitFields]
    | (k, f) :: rest => by
      simp only [visitFields]
      rw [visitField_replaced st h f, visitFields_replaced st h rest]
  theorem visitField_replaced (st : RW) (h : st.replaced = true) : ∀ f, visitField st f = (st, f)
    | .atom a => by simp [visitField]
    | .missing => by simp [visitField]
    | .node n => by simp only [visitField]; rw [visit_replaced st h n]
    | .list items => by simp only [visitField]; rw [visitItems_replaced st h items]
  theorem visitItems_replaced (st : RW) (h : st.replaced = true) : ∀ its, visitItems st its = (st, its)
    | [] => by simp [visitItems]
    | it :: rest => by
      simp only [visitItems]
      rw [visitItem_replaced st h it, visitItems_replaced st h rest]
  theorem visitItem_replaced (st : RW) (h : st.replaced = true) : ∀ it, visitItem st it = (st, it)
    | .node n => by simp only [visitItem]; rw [visit_replaced st h n]
    | .atom a => by simp [visitItem]
end

/-- **a string constant is never what gets replaced** (fix b-D25): whatever location it carries and whatever the
    search, a `Constant` node comes back as a `Constant` with the same location -/
theorem visit_constant_kept (st : RW) (fs : List (String × Field)) (l : Option (List Atom)) (i : Option Int) (d : Option Item) :
    (visit st (.mk "Constant" fs l i d)).2.kind = "Constant" ∧ (visit st (.mk "Constant" fs l i d)).2.loc = l := by
  unfold visit
  split
  · exact ⟨rfl, rfl⟩
  · have hk : ("Constant" == "FunctionDef") = false := by decide
    have hc : ("Constant" != "Constant") = false := by decide
    simp only [hk, hc, Bool.and_false, Bool.false_eq_true, if_false]
    exact ⟨rfl, rfl⟩

/-- the old transformer did replace it: the witness of D25 (`x = 'a'` before `def meth(a=1)`) in miniature -/
example :
    let c : Node := .mk "Constant" [] (some [.str "meth", .str "a"]) none none
    let st : RW := { search := [.str "meth", .str "a"], repl := .mk "arg" [] none none none }
    (visit st c).2.kind = "Constant" ∧ st.replaced = false ∧ c.loc = some st.search := by
  decide

/- the transformer's search is invariant (the Python never assigns `self.search`) -/
mutual
  theorem visit_search (st : RW) : ∀ n, (visit st n).1.search = st.search
    | .mk k fs l i d => by
      unfold visit
      split
      · rfl
      · split
        · rfl
        · split
          · rfl
          · exact visitFields_search st fs
  theorem visitFields_search (st : RW) : ∀ fs, (visitFields st fs).1.search = st.search
    | [] => by simp [visitFields]
    | (k, f) :: rest => by
      simp only [visitFields]
      rw [visitFields_search (visitField st f).1 rest, visitField_search st f]
  theorem visitField_search (st : RW) : ∀ f, (visitField st f).1.search = st.search
    | .atom a => by simp [visitField]
    | .missing => by simp [visitField]
    | .node n => by simp only [visitField]; exact visit_search st n
    | .list items => by simp only [visitField]; exact visitItems_search st items
  theorem visitItems_search (st : RW) : ∀ its, (visitItems st its).1.search = st.search
    | [] => by simp [visitItems]
    | it :: rest => by
      simp only [visitItems]
      rw [visitItems_search (visitItem st it).1 rest, visitItem_search st it]
  theorem visitItem_search (st : RW) : ∀ it, (visitItem st it).1.search = st.search
    | .node n => by simp only [visitItem]; exact visit_search st n
    | .atom a => by simp [visitItem]
end

theorem visitItems_length (st : RW) : ∀ its, (visitItems st its).2.length = its.length
  | [] => by simp [visitItems]
  | it :: rest => by
    simp only [visitItems, List.length_cons]
    rw [visitItems_length (visitItem st it).1 rest]

/-- **C11/C14/C15 frame at statement-list level**: in any statement list the transformer walks,
    every statement the search does not touch comes back at the same index, unchanged; the
    list keeps its length (nothing dropped, duplicated or reordered). -/
theorem visitItems_frame (st : RW) : ∀ (its : List Item) (j : Nat) (it : Item),
    its[j]? = some it → touchItem st.search it = false → (visitItems st its).2[j]? = some it
  | [], j, it => by intro h; simp at h
  | x :: rest, 0, it => by
    intro h ht
    simp only [List.getElem?_cons_zero, Option.some.injEq] at h
    subst h
    simp only [visitItems]
    rw [visitItem_untouched st x ht]
    simp
  | x :: rest, j + 1, it => by
    intro h ht
    simp only [List.getElem?_cons_succ] at h
    simp only [visitItems, List.getElem?_cons_succ]
    have hs : (visitItem st x).1.search = st.search := visitItem_search st x
    exact visitItems_frame (visitItem st x).1 rest j it h (by rw [hs]; exact ht)

/-! ### several replacements in a row (sync_properties applies one pair after the other) -/

/-- one `RewriteAtQuery(search, repl).visit` over a statement list, with a fresh transformer -/
def rewriteOnce (pr : List Atom × Node) (items : List Item) : List Item :=
  (visitItems { search := pr.1, repl := pr.2 } items).2

def rewriteMany (prs : List (List Atom × Node)) (items : List Item) : List Item :=
  prs.foldl (fun acc pr => rewriteOnce pr acc) items

/-- **C14 frame**: after ANY number of pairs, a statement that none of the searches touches is still at
    its index, unchanged (so everything that was not addressed has an identical syntax tree) -/
theorem rewriteMany_frame : ∀ (prs : List (List Atom × Node)) (items : List Item) (j : Nat) (it : Item),
    items[j]? = some it → (∀ pr ∈ prs, touchItem pr.1 it = false) → (rewriteMany prs items)[j]? = some it
  | [], _, _, _, h, _ => h
  | pr :: prs, items, j, it, h, ht => by
    unfold rewriteMany
    simp only [List.foldl_cons]
    have h1 : (rewriteOnce pr items)[j]? = some it := by
      unfold rewriteOnce
      exact visitItems_frame { search := pr.1, repl := pr.2 } items j it h (ht pr (by simp))
    exact rewriteMany_frame prs (rewriteOnce pr items) j it h1 (fun q hq => ht q (by simp [hq]))

theorem rewriteMany_length (prs : List (List Atom × Node)) : ∀ (items : List Item),
    (rewriteMany prs items).length = items.length := by
  induction prs with
  | nil => intro items; rfl
  | cons pr prs ih =>
    intro items
    unfold rewriteMany
    simp only [List.foldl_cons]
    have := ih (rewriteOnce pr items)
    unfold rewriteMany at this
    rw [this]
    unfold rewriteOnce
    exact visitItems_length _ items

end PyAst
