import DT.NumpyRT
/-! C08 at statement level: the normalising step every parser ends with, `_set_name_and_type`, is idempotent on a
    default-free entry - its prose normalisation (`" ".join(map(str.strip, doc.split("\n"))).rstrip()`), its
    `, optional` rewriting and its `Optional[...]` wrapping change nothing when applied to their own result. (With a
    default, `_infer_default` strips one pair of quotes per pass: that part is NOT idempotent in general and is not
    claimed.) -/
namespace Py
namespace SetNameIdem
open NumpyRT

theorem stripLeft_head (ws : Str) : ∀ (s : Str) (c : Char), (stripLeft ws s).head? = some c → ws.contains c = false
  | [], c, h => by simp [stripLeft] at h
  | a :: t, c, h => by
    by_cases ha : ws.contains a = true
    · simp only [stripLeft, ha, if_true] at h
      exact stripLeft_head ws t c h
    · simp only [stripLeft, ha, Bool.false_eq_true, if_false, List.head?_cons, Option.some.injEq] at h
      subst h; simpa using ha

theorem stripLeft_of_head (ws : Str) (s : Str) (h : ∀ c, s.head? = some c → ws.contains c = false) : stripLeft ws s = s := by
  cases s with
  | nil => rfl
  | cons a t => have := h a rfl; simp only [stripLeft, this, Bool.false_eq_true, if_false]

theorem stripRight_last (ws s : Str) (c : Char) (h : (stripRight ws s).getLast? = some c) : ws.contains c = false := by
  unfold stripRight at h
  rw [List.getLast?_reverse] at h
  exact stripLeft_head ws s.reverse c h

/-- `stripLeft` drops a prefix -/
theorem stripLeft_suffix (ws : Str) : ∀ s : Str, ∃ p, s = p ++ stripLeft ws s
  | [] => ⟨[], rfl⟩
  | a :: t => by
    by_cases ha : ws.contains a = true
    · obtain ⟨p, hp⟩ := stripLeft_suffix ws t
      exact ⟨a :: p, by simp only [stripLeft, ha, if_true, List.cons_append]; rw [← hp]⟩
    · have hf := Bool.eq_false_iff.mpr ha
      exact ⟨[], by simp only [stripLeft, hf, Bool.false_eq_true, if_false, List.nil_append]⟩

/-- `stripRight` keeps a prefix -/
theorem stripRight_prefix (ws s : Str) : ∃ q, s = stripRight ws s ++ q := by
  obtain ⟨p, hp⟩ := stripLeft_suffix ws s.reverse
  refine ⟨p.reverse, ?_⟩
  unfold stripRight
  have := congrArg List.reverse hp
  simpa using this

theorem stripRight_ne_nil (ws s : Str) (c : Char) (hc : s.head? = some c) (hw : ws.contains c = false) :
    stripRight ws s ≠ [] := by
  cases s with
  | nil => simp at hc
  | cons a t =>
    simp only [List.head?_cons, Option.some.injEq] at hc
    subst hc
    unfold stripRight
    intro h
    have h' : stripLeft ws (a :: t).reverse = [] := by simpa using h
    -- the last character of the reversed string is `a`, which is not stripped
    have : ∀ (r : Str), stripLeft ws (r ++ [a]) ≠ [] := by
      intro r
      induction r with
      | nil => simp only [List.nil_append, stripLeft, hw, Bool.false_eq_true, if_false]; exact List.cons_ne_nil _ _
      | cons b r ih =>
        by_cases hb : ws.contains b = true
        · simp only [List.cons_append, stripLeft, hb, if_true]; exact ih
        · have hf := Bool.eq_false_iff.mpr hb
          simp only [List.cons_append, stripLeft, hf, Bool.false_eq_true, if_false]; exact List.cons_ne_nil _ _
    exact this t.reverse (by simpa using h')

theorem stripRight_head (ws s : Str) (c : Char) (hc : s.head? = some c) (hw : ws.contains c = false) :
    (stripRight ws s).head? = some c := by
  obtain ⟨q, hq⟩ := stripRight_prefix ws s
  have hne := stripRight_ne_nil ws s c hc hw
  cases hr : stripRight ws s with
  | nil => exact absurd hr hne
  | cons a t =>
    rw [hr] at hq
    rw [hq] at hc
    simpa using hc

theorem no_sep_sublist {sep : Char} {p s q : Str} (h : sep ∉ p ++ s ++ q) : sep ∉ s := by
  intro hm; exact h (by simp [hm])

theorem strip_no (sep : Char) (ws s : Str) (h : sep ∉ s) : sep ∉ strip ws s := by
  unfold strip
  obtain ⟨p, hp⟩ := stripLeft_suffix ws s
  obtain ⟨q, hq⟩ := stripRight_prefix ws (stripLeft ws s)
  intro hm
  apply h
  rw [hp, hq]
  simp [hm]

theorem stripRight_no (sep : Char) (ws s : Str) (h : sep ∉ s) : sep ∉ stripRight ws s := by
  obtain ⟨q, hq⟩ := stripRight_prefix ws s
  intro hm; apply h; rw [hq]; simp [hm]

theorem splitOnChar_pieces (sep : Char) : ∀ (s : Str), ∀ l ∈ splitOnChar sep s, sep ∉ l
  | [] => by intro l hl; simp [splitOnChar] at hl; subst hl; simp
  | c :: t => by
    intro l hl
    rw [splitOnChar_cons] at hl
    have ih := splitOnChar_pieces sep t
    cases hs : splitOnChar sep t with
    | nil => exact absurd hs (splitOnChar_ne_nil sep t)
    | cons h r =>
      rw [hs] at hl ih
      by_cases hc : (c == sep) = true
      · simp only [hc, if_true, List.mem_cons] at hl
        rcases hl with rfl | rfl | hl
        · simp
        · exact ih _ (by simp)
        · exact ih _ (by simp [hl])
      · simp only [hc, Bool.false_eq_true, if_false, List.mem_cons] at hl
        rcases hl with rfl | hl
        · intro hm
          rcases List.mem_cons.mp hm with h1 | h1
          · exact hc (by simp [h1])
          · exact ih h (by simp) h1
        · exact ih _ (by simp [hl])

theorem joinWith_no (sep : Char) (g : Str) (hg : sep ∉ g) : ∀ (L : List Str), (∀ l ∈ L, sep ∉ l) → sep ∉ joinWith g L
  | [], _ => by simp [joinWith]
  | [x], h => by simpa [joinWith] using h x (by simp)
  | x :: y :: r, h => by
    have ih := joinWith_no sep g hg (y :: r) (fun l hl => h l (by simp [hl]))
    simp only [joinWith, List.mem_append, not_or]
    exact ⟨⟨h x (by simp), hg⟩, ih⟩

theorem joinWith_head (g : Str) (x : Str) (r : List Str) (c : Char) (hx : x.head? = some c) :
    (joinWith g (x :: r)).head? = some c := by
  cases x with
  | nil => simp at hx
  | cons a t =>
    cases r with
    | nil => simpa [joinWith] using hx
    | cons y r' => simpa [joinWith] using hx

/-- the first line of a text that starts with a character other than the separator starts with that character -/
theorem splitOnChar_first (sep c : Char) (t : Str) (hc : c ≠ sep) :
    ∃ h r, splitOnChar sep (c :: t) = (c :: h) :: r := by
  rw [splitOnChar_cons]
  cases hs : splitOnChar sep t with
  | nil => exact absurd hs (splitOnChar_ne_nil sep t)
  | cons h r =>
    have : (c == sep) = false := by simpa using hc
    exact ⟨h, r, by simp [this]⟩

/-- what the prose normalisation returns for a text that starts with a visible character: one line, trimmed, not empty -/
theorem unwrapProse_shape (d : Str) (c : Char) (hc : d.head? = some c) (hw : pyWs.contains c = false) :
    '\n' ∉ unwrapProse d ∧ Trimmed (unwrapProse d) ∧ unwrapProse d ≠ [] := by
  cases d with
  | nil => simp at hc
  | cons a t =>
    simp only [List.head?_cons, Option.some.injEq] at hc
    subst hc
    have hnl : a ≠ '\n' := by intro e; subst e; exact absurd hw (by decide)
    obtain ⟨h, r, hsplit⟩ := splitOnChar_first '\n' a t hnl
    have hpieces := splitOnChar_pieces '\n' (a :: t)
    unfold unwrapProse
    rw [hsplit] at hpieces ⊢
    simp only [List.map_cons]
    -- the first stripped line starts with `a`
    have h1 : (strip pyWs (a :: h)).head? = some a := by
      unfold strip
      rw [stripLeft_of_head pyWs (a :: h) (by intro c' hc'; simp at hc'; subst hc'; exact hw)]
      exact stripRight_head pyWs (a :: h) a rfl hw
    have hJhead := joinWith_head [' '] (strip pyWs (a :: h)) (r.map (strip pyWs)) a h1
    have hJno : '\n' ∉ joinWith [' '] (strip pyWs (a :: h) :: r.map (strip pyWs)) := by
      apply joinWith_no '\n' [' '] (by decide)
      intro l hl
      simp only [List.mem_cons, List.mem_map] at hl
      rcases hl with rfl | ⟨l0, hl0, rfl⟩
      · exact strip_no '\n' pyWs _ (hpieces _ (by simp))
      · exact strip_no '\n' pyWs _ (hpieces _ (by simp [hl0]))
    refine ⟨stripRight_no '\n' pyWs _ hJno, ⟨?_, ?_⟩, stripRight_ne_nil pyWs _ a hJhead hw⟩
    · intro c' hc'
      rw [stripRight_head pyWs _ a hJhead hw] at hc'
      injection hc' with hc'; subst hc'; exact hw
    · intro c' hc'
      exact stripRight_last pyWs _ c' hc'

/-- **the prose normalisation is idempotent** (on prose that starts with a visible character) -/
theorem unwrapProse_idem (d : Str) (c : Char) (hc : d.head? = some c) (hw : pyWs.contains c = false) :
    unwrapProse (unwrapProse d) = unwrapProse d := by
  obtain ⟨hno, htr, hne⟩ := unwrapProse_shape d c hc hw
  generalize unwrapProse d = u at *
  unfold unwrapProse
  rw [splitOnChar_no_sep '\n' u hno]
  simp only [List.map_cons, List.map_nil, joinWith]
  rw [strip_trimmed u htr hne, stripRight_trimmed u htr]

/-! ### `_set_name_and_type` on a default-free, non-`**kwargs` entry -/

def optPre : Str := ['O', 'p', 't', 'i', 'o', 'n', 'a', 'l', '[']
def gOpt : Str := [',', ' ', 'o', 'p', 't', 'i', 'o', 'n', 'a', 'l']
def pOpt1 : Str := ['(', 'O', 'p', 't', 'i', 'o', 'n', 'a', 'l', ')']
def pOpt2 : Str := ['O', 'p', 't', 'i', 'o', 'n', 'a', 'l']
theorem optPre_eq : "Optional[".toList = optPre := by decide
theorem gOpt_eq : ", optional".toList = gOpt := by decide
theorem pOpt1_eq : "(Optional)".toList = pOpt1 := by decide
theorem pOpt2_eq : "Optional".toList = pOpt2 := by decide

theorem startsWith_optPre (y : Str) : startsWith (optPre ++ y) optPre = true := by
  simp [startsWith, optPre, List.isPrefixOf]

theorem endsWith_bracket (y : Str) : endsWith (y ++ [']']) gOpt = false := by
  simp [endsWith, gOpt, List.isPrefixOf]

/-- the result of the step on such an entry, written out -/
def normalised (p : Param) : Param :=
  let p1 : Param := match p.typ with
    | some t => if endsWith t gOpt then { p with typ := some (optPre ++ t.take (t.length - gOpt.length) ++ [']']) } else p
    | none => p
  match p1.doc with
  | none => p1
  | some d =>
    if d.isEmpty then { p1 with doc := none } else
    let d' := unwrapProse d
    let p2 : Param := { p1 with doc := some d' }
    match p2.typ with
    | some t =>
      if (startsWith d' pOpt1 || startsWith d' pOpt2) && !startsWith t optPre
      then { p2 with typ := some (optPre ++ t ++ [']']) } else p2
    | none => p2

theorem setNameAndType_eq (n : Str) (p : Param) (hkw : (endsWith n "kwargs".toList || startsWith n ['*', '*']) = false)
    (hd : p.default = none) : setNameAndType (some n) p false true = .ok (n, normalised p) := by
  unfold setNameAndType normalised
  simp only [hkw, Bool.false_eq_true, if_false, hd, Option.isSome_none, Res.bind]
  simp only [gOpt_eq, optPre_eq, pOpt1_eq, pOpt2_eq]
  cases ht : p.typ with
  | none =>
    cases hdoc : p.doc with
    | none => simp [ht, hdoc]
    | some d =>
      by_cases hde : d.isEmpty = true
      · simp [ht, hdoc, hde]
      · simp [ht, hdoc, hde]
  | some t =>
    by_cases hg : endsWith t gOpt = true
    · cases hdoc : p.doc with
      | none => simp [ht, hdoc, hg]
      | some d =>
        by_cases hde : d.isEmpty = true
        · simp [ht, hdoc, hg, hde]
        · simp [ht, hdoc, hg, hde]
    · cases hdoc : p.doc with
      | none => simp [ht, hdoc, hg]
      | some d =>
        by_cases hde : d.isEmpty = true
        · simp [ht, hdoc, hg, hde]
        · simp [ht, hdoc, hg, hde]

theorem endsWith_opt1 (x : Str) : endsWith (optPre ++ (x ++ [']'])) gOpt = false := by
  have := endsWith_bracket (optPre ++ x); simpa using this

theorem startsWith_opt1 (x : Str) : startsWith (optPre ++ (x ++ [']'])) optPre = true :=
  startsWith_optPre (x ++ [']'])

/-- prose is absent, empty, or starts with a visible character -/
def ProseOK (p : Param) : Prop := ∀ d, p.doc = some d → d.isEmpty = false → ∃ c, d.head? = some c ∧ pyWs.contains c = false

/-- **the normalising step is idempotent** on a default-free entry -/
theorem normalised_idem (p : Param) (hp : ProseOK p) : normalised (normalised p) = normalised p := by
  obtain ⟨doc, typ, dflt⟩ := p
  cases typ with
  | none =>
    cases doc with
    | none => simp [normalised]
    | some d =>
      by_cases hde : d.isEmpty = true
      · simp [normalised, hde]
      · have hde' : d.isEmpty = false := Bool.eq_false_iff.mpr hde
        obtain ⟨c, hc, hw⟩ := hp d rfl hde'
        obtain ⟨_, _, hne⟩ := unwrapProse_shape d c hc hw
        have hue : (unwrapProse d).isEmpty = false := isEmpty_false_of_ne _ hne
        simp [normalised, hde', hue, unwrapProse_idem d c hc hw]
  | some t =>
    cases doc with
    | none =>
      by_cases hg : endsWith t gOpt = true
      · simp [normalised, hg, endsWith_opt1]
      · have hg' : endsWith t gOpt = false := Bool.eq_false_iff.mpr hg
        simp [normalised, hg']
    | some d =>
      by_cases hde : d.isEmpty = true
      · by_cases hg : endsWith t gOpt = true
        · simp [normalised, hg, hde, endsWith_opt1]
        · have hg' : endsWith t gOpt = false := Bool.eq_false_iff.mpr hg
          simp [normalised, hg', hde]
      · have hde' : d.isEmpty = false := Bool.eq_false_iff.mpr hde
        obtain ⟨c, hc, hw⟩ := hp d rfl hde'
        obtain ⟨_, _, hne⟩ := unwrapProse_shape d c hc hw
        have hue : (unwrapProse d).isEmpty = false := isEmpty_false_of_ne _ hne
        have hid := unwrapProse_idem d c hc hw
        by_cases hg : endsWith t gOpt = true
        · -- `, optional` rewritten to Optional[...]: starts with the prefix, so no second wrapping either time
          simp [normalised, hg, hde', hue, hid, endsWith_opt1, startsWith_opt1]
        · have hg' : endsWith t gOpt = false := Bool.eq_false_iff.mpr hg
          by_cases ho : ((startsWith (unwrapProse d) pOpt1 || startsWith (unwrapProse d) pOpt2) && !startsWith t optPre) = true
          · simp [normalised, hg', hde', hue, hid, ho, endsWith_opt1, startsWith_opt1]
          · have ho' := Bool.eq_false_iff.mpr ho
            simp [normalised, hg', hde', hue, hid, ho']

/-- **C08, statement level**: on a default-free entry that is not a `**kwargs` one, a second pass of
    `_set_name_and_type` over its own result changes nothing -/
theorem setNameAndType_idem (n : Str) (p : Param)
    (hkw : (endsWith n "kwargs".toList || startsWith n ['*', '*']) = false) (hd : p.default = none) (hp : ProseOK p) :
    ∃ q, setNameAndType (some n) p false true = .ok (n, q) ∧ setNameAndType (some n) q false true = .ok (n, q) := by
  refine ⟨normalised p, setNameAndType_eq n p hkw hd, ?_⟩
  have hd' : (normalised p).default = none := by
    obtain ⟨doc, typ, dflt⟩ := p
    simp only at hd
    subst hd
    unfold normalised
    cases typ <;> cases doc <;> simp <;> (repeat' split) <;> rfl
  rw [setNameAndType_eq n (normalised p) hkw hd', normalised_idem p hp]

/-- non-vacuity: prose that starts with "Optional" under the type `int` - the first pass wraps the type, the second
    leaves everything alone -/
def exP : Param := { doc := some ['O', 'p', 't', 'i', 'o', 'n', 'a', 'l', ' ', 'n', '.', '\n', ' ', ' ', 'm', 'o', 'r', 'e'], typ := some ['i', 'n', 't'], default := none }

example : ∃ q, setNameAndType (some ['n']) exP false true = .ok (['n'], q) ∧ setNameAndType (some ['n']) q false true = .ok (['n'], q) :=
  setNameAndType_idem ['n'] exP (by decide) rfl
    (by intro d hd _; simp only [exP, Option.some.injEq] at hd; subst hd; exact ⟨'O', rfl, by decide⟩)

theorem exP_normalised : normalised exP =
    { doc := some ['O', 'p', 't', 'i', 'o', 'n', 'a', 'l', ' ', 'n', '.', ' ', 'm', 'o', 'r', 'e'],
      typ := some ['O', 'p', 't', 'i', 'o', 'n', 'a', 'l', '[', 'i', 'n', 't', ']'], default := none } := by decide +kernel

end SetNameIdem
end Py
