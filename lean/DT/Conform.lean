import DT.FsSync
/-! L10: the per-file decision of `conformance._conform_filename` (as repaired by fixes ba87bc1,
    9bf78c0) over what it observes, and the laws that make `sync` idempotent and its report truthful. -/
namespace Conform

/-- what `_conform_filename` observes about one target file -/
structure Obs where
  fileExists : Bool    -- `path.isfile(filename)`
  found : Bool         -- `find_in_ast(search, parsed_ast) is not None`
  cmpEq : Bool         -- `cmp_ast(original_node, replacement_node)`
  replaced : Bool      -- `rewrite_at_query.replaced` after the visit
  sameProgram : Bool   -- the re-rendered module is the same program as the text on disk (`emit._same_module`)
deriving DecidableEq, Repr

inductive Action where
  | create     -- `emit.file(..., mode="wt")` of a new file
  | append     -- `emit.file(..., mode="a")`
  | rewrite    -- `emit.file(parsed_ast, mode="wt")` that really writes
  | none
deriving DecidableEq, Repr

/-- (what is done to the file, what is reported as "changed") -/
def decide (o : Obs) : Action × Bool :=
  if !o.fileExists then (.create, true)
  else if !o.found then (.append, true)
  else if o.cmpEq then (.none, false)
  else if !o.replaced then (.none, false)
  else if o.sameProgram then (.none, false)
  else (.rewrite, true)

/-- the report is true exactly when the file is written -/
theorem report_iff_written (o : Obs) : (decide o).2 = true ↔ (decide o).1 ≠ .none := by
  unfold decide
  cases o.fileExists <;> cases o.found <;> cases o.cmpEq <;> cases o.replaced <;> cases o.sameProgram <;> simp

/-- before fix ba87bc1 the report followed `replaced`, not the bytes: kept as the record of D14 -/
def decideOld (o : Obs) : Action × Bool :=
  if !o.fileExists then (.create, true)
  else if !o.found then (.append, true)
  else if o.cmpEq then (.none, false)
  else if !o.replaced then (.none, false)
  else (.rewrite, true)

/-- D14: with `cmp_ast` never true (3.12: `type_params`) an up-to-date file was rewritten and reported -/
theorem decideOld_reports_unchanged_file :
    decideOld { fileExists := true, found := true, cmpEq := false, replaced := true, sameProgram := true }
      = (.rewrite, true) := by decide

theorem decide_leaves_unchanged_file (o : Obs) (h : o.sameProgram = true) (he : o.fileExists = true)
    (hf : o.found = true) : decide o = (.none, false) := by
  unfold decide
  cases o.cmpEq <;> cases o.replaced <;> simp [h, he, hf]

/-! ### a sync over several files, and a second sync -/

/-- the observation a file gives on the NEXT sync with the same truth, under the laws the lower layers
    provide: the file exists; the definition just written is found (`find_single/append/replace`);
    re-rendering reproduces the same program (`H_unparse_parse`, `H_format_ast`) -/
def nextObs (o : Obs) (cmpEq' replaced' : Bool) : Obs :=
  { fileExists := true, found := true, cmpEq := cmpEq', replaced := replaced', sameProgram := true }

/-- **C10 (idempotence + truthful report), decision level**: whatever the first sync did to a file, and
    whatever `cmp_ast`/`RewriteAtQuery` answer the second time, the second sync does not write the file
    and reports it unchanged. -/
theorem second_sync_noop (o : Obs) (c r : Bool) : decide (nextObs o c r) = (.none, false) := by
  unfold decide nextObs
  cases c <;> cases r <;> simp

/-- any number of further syncs: by induction, nothing is ever written again -/
def syncs : Nat → Obs → List (Bool × Bool) → List (Action × Bool)
  | 0, _, _ => []
  | _ + 1, _, [] => []
  | n + 1, o, (c, r) :: rest => decide (nextObs o c r) :: syncs n (nextObs o c r) rest

theorem later_syncs_noop : ∀ (n : Nat) (o : Obs) (answers : List (Bool × Bool)),
    ∀ x ∈ syncs n o answers, x = (.none, false)
  | 0, _, _ => by intro x hx; simp [syncs] at hx
  | _ + 1, _, [] => by intro x hx; simp [syncs] at hx
  | n + 1, o, (c, r) :: rest => by
    intro x hx
    simp only [syncs, List.mem_cons] at hx
    rcases hx with h | h
    · rw [h]; exact second_sync_noop o c r
    · exact later_syncs_noop n _ rest x h

end Conform
