import DT.ArgAttr
/-! `argRT` (statement level: `param2argparse_param` then `parse_out_param`) agrees with `Kinds.normArgparseParam`
    (interface level) on the typed part of the argparse domain: staged theorems by shape of the declared type and of
    the default, each with a concrete example, and the corollary `argRT_eq_norm`. -/
namespace Py
namespace ArgAttr
open Kinds ClassAttr FuncAttr

theorem str_beq_eq (a b : Str) (h : List.beq a b = true) : a = b :=
  eq_of_beq (show (a == b) = true from h)

theorem str_beq_refl (a : Str) : List.beq a a = true :=
  show (a == a) = true from beq_self_eq_true a

instance : LawfulBEq Val where
  eq_of_beq := by
    intro a b h
    cases a <;> cases b <;> simp [BEq.beq, instBEqVal.beq] at h <;> simp [h]
    · exact str_beq_eq _ _ h.2
    · exact str_beq_eq _ _ h
    · exact str_beq_eq _ _ h
  rfl := by intro a; cases a <;> simp [BEq.beq, instBEqVal.beq, str_beq_refl]

/-- prose that announces no default (then `extract_default` leaves it alone) and is not empty (then it is emitted
    as `help=`) -/
def plainDoc (d : Str) : Prop := locate d phrases = none ∧ d ≠ []

/-- a string default the argparse kind carries verbatim: `set_value` leaves it alone and it is not code -/
def strPlain (s : Str) : Prop := quoteDelimited s = false ∧ codeQuoted s = false

/-- a literal default -/
def litOk : Val → Prop
  | .str s => strPlain s
  | .none => False
  | _ => True

theorem extract_plain (d : Str) (edd : Bool) (h : locate d phrases = none) :
    extractDefault d none edd = .ok ⟨d, none⟩ := by
  unfold extractDefault
  rw [h]

theorem setValue_lit (v : Val) (h : litOk v) : setValue v = v := by
  cases v with
  | str s => exact setValue_plain s h.1
  | none => exact absurd h (by simp [litOk])
  | bool b => rfl
  | int n d => rfl
  | float t => rfl

theorem scalar_cases (t : Str) (h : isScalar t = true) : t = tInt ∨ t = tFloat ∨ t = tStr ∨ t = tBool := by
  unfold isScalar at h
  simp only [Bool.or_eq_true, beq_iff_eq] at h
  rcases h with ((h | h) | h) | h
  · exact Or.inl h
  · exact Or.inr (Or.inl h)
  · exact Or.inr (Or.inr (Or.inl h))
  · exact Or.inr (Or.inr (Or.inr h))

/-! ### `_resolve_arg` by shape of the declared type -/

theorem resolve_scalar (kw : Bool) (t : Str) (r0 : Bool) (h : isScalar t = true) :
    resolveArgK kw t r0 = .ok ⟨none, none, if t == tBool then r0 else true, t⟩ := by
  rcases scalar_cases t h with h | h | h | h <;> subst h <;> cases kw <;> cases r0 <;> decide +kernel

theorem resolve_optional (x : Str) (r0 : Bool) (h : isScalar x = true) :
    resolveArgK false (sOptional ++ ['['] ++ x ++ [']']) r0 = .ok ⟨none, none, false, x⟩ := by
  rcases scalar_cases x h with h | h | h | h <;> subst h <;> cases r0 <;> decide +kernel

theorem resolve_list (x : Str) (r0 : Bool) (h : isScalar x = true) :
    resolveArgK false (sList ++ ['['] ++ x ++ [']']) r0 =
      .ok ⟨some sAppend, none, if x == tBool then r0 else true, x⟩ := by
  rcases scalar_cases x h with h | h | h | h <;> subst h <;> cases r0 <;> decide +kernel

/-! ### `infer_type_and_default` -/

theorem infer_lit (v : Val) (typ : Str) (h : litOk v) : inferTypeAndDefault v typ = .ok (some v, some (typeName v)) := by
  cases v with
  | str s =>
    have h2 : codeQuoted s = false := h.2
    unfold inferTypeAndDefault
    simp only [h2, Bool.false_eq_true, if_false]
    rfl
  | none => exact absurd h (by simp [litOk])
  | bool b => rfl
  | int n d => rfl
  | float t => rfl

theorem typAfterNone_scalar (t : Str) (h : isScalar t = true) : typAfterNone t = none := by
  rcases scalar_cases t h with h | h | h | h <;> subst h <;> rfl

theorem infer_none (typ : Str) (h : isScalar typ = true) : inferTypeAndDefault .none typ = .ok (none, none) := by
  simp [inferTypeAndDefault, typAfterNone_scalar typ h]

theorem infer_noneStr (typ : Str) (h : isScalar typ = true) : inferTypeAndDefault (.str noneStr) typ = .ok (none, none) := by
  have : codeQuoted noneStr = true := by decide
  simp [inferTypeAndDefault, this, typAfterNone_scalar typ h]

/-! ### the emitter, generically in what `_resolve_arg` answered -/

theorem isEmpty_plain (d : Str) (h : plainDoc d) : d.isEmpty = false := by
  cases d with
  | nil => exact absurd rfl h.2
  | cons _ _ => rfl

theorem lit_ne_noneStr (v : Val) (hv : litOk v) : ((some v : Option Val) == some (.str noneStr)) = false := by
  cases v with
  | str s =>
    have : s ≠ noneStr := by
      intro h; subst h; exact absurd hv.2 (by decide)
    simp [this]
  | _ => simp

/-- the keywords written for an entry with a literal default -/
theorem emit_lit (name t d : Str) (v : Val) (edd : Bool) (r : Resolved)
    (hr : resolveArg name t true = .ok r) (hpl : plainDoc d) (hv : litOk v) :
    param2argparse name { doc := some d, typ := some t, default := some v } edd =
      .ok { typ := if typeName v == tStr && r.action.isNone then none else some (typeName v),
            choices := r.choices.map (·.map cleanChoice),
            action := r.action, help := some d, required := r.required, default := some v } := by
  have hreq : required0Of (some v) = true := by
    cases v <;> first | rfl | exact absurd hv (by simp [litOk])
  unfold param2argparse
  simp only [Option.getD_some]
  rw [hreq, hr]
  simp only [Res.bind, extract_plain d edd hpl.1, dvOf]
  rw [infer_lit v r.typ hv]
  simp only [Option.isNone_some, Bool.false_and, Bool.false_eq_true, if_false, Option.getD_some,
    isEmpty_plain d hpl, Option.map_some, setValue_lit v hv]

/-- ... for an entry without default (or with Python `None`), when the resolved type is a scalar -/
theorem emit_none (name t d : Str) (dflt : Option Val) (edd : Bool) (r : Resolved)
    (hd : dflt = none ∨ dflt = some .none)
    (hr : resolveArg name t false = .ok r) (hpl : plainDoc d) (hs : isScalar r.typ = true) :
    param2argparse name { doc := some d, typ := some t, default := dflt } edd =
      .ok { typ := if r.typ == tStr && r.action.isNone then none else some r.typ,
            choices := r.choices.map (·.map cleanChoice),
            action := r.action, help := some d, required := r.required, default := none } := by
  unfold param2argparse
  simp only [Option.getD_some]
  rcases hd with hd | hd <;> subst hd
  · simp only [required0Of, dvOf, hr, Res.bind, extract_plain d edd hpl.1, Option.getD_none, infer_none r.typ hs, Option.isNone_none,
      Bool.true_and, isEmpty_plain d hpl, Bool.false_eq_true, if_false, Option.map_none]
    have : ((none : Option Val) == some (.str noneStr)) = false := by simp
    simp only [this, Bool.false_eq_true, if_false]
  · simp only [required0Of, dvOf, hr, Res.bind, extract_plain d edd hpl.1, infer_none r.typ hs, Option.isNone_none,
      Bool.true_and, isEmpty_plain d hpl, Bool.false_eq_true, if_false, Option.map_none, Option.getD_none]
    have : ((some Val.none : Option Val) == some (.str noneStr)) = false := by simp
    simp only [this, Bool.false_eq_true, if_false]

/-- ... for an entry whose default is the code-quoted `None` (what the other parsers write for "no value") -/
theorem emit_noneStr (name t d : Str) (edd : Bool) (r : Resolved)
    (hr : resolveArg name t true = .ok r) (hpl : plainDoc d) (hs : isScalar r.typ = true) :
    param2argparse name { doc := some d, typ := some t, default := some (.str noneStr) } edd =
      .ok { typ := if r.typ == tStr && r.action.isNone then none else some r.typ,
            choices := r.choices.map (·.map cleanChoice),
            action := r.action, help := some d, required := false, default := none } := by
  unfold param2argparse
  have h1 : required0Of (some (Val.str noneStr)) = true := rfl
  have h2 : ((some (Val.str noneStr) : Option Val) == some (.str noneStr)) = true := by simp
  simp only [Option.getD_some, h1, dvOf, hr, Res.bind, extract_plain d edd hpl.1, infer_noneStr r.typ hs,
    Option.isNone_none, Bool.true_and, isEmpty_plain d hpl, Bool.false_eq_true, if_false, Option.map_none,
    Option.getD_none, h2, if_true]

/-! ### the parser -/

theorem parse_default (a : AddArg) (d : Str) (v : Val) (rd : Bool) (hh : a.help = some d) (hv : a.default = some v)
    (hc : (typ0Of a.typ == tComplex) = false) :
    parseOutParam a rd false =
      .ok { doc := some d, typ := some (typStage a.choices a.action a.required (typ0Of a.typ)), default := some v } := by
  unfold parseOutParam
  simp only [hc, Bool.false_eq_true, if_false, hh, hv, docOf, Bool.not_false, Bool.true_or, if_true, Res.bind]

theorem parse_nodefault (a : AddArg) (d : Str) (rd : Bool) (hh : a.help = some d) (hv : a.default = none)
    (hpl : plainDoc d) (hc : (typ0Of a.typ == tComplex) = false) :
    parseOutParam a rd false =
      .ok { doc := some d, typ := some (typStage a.choices a.action a.required (typ0Of a.typ)),
            default := fillDefault (typ0Of a.typ) a.required rd } := by
  unfold parseOutParam
  simp only [hc, Bool.false_eq_true, if_false, hh, hv, docOf, Res.bind, extract_plain d false hpl.1]

/-! ### the staged round trips -/

/-- the `type=` keyword is left out for `str` and read back as `str` -/
theorem typ0_scalar (t : Str) (act : Option Str) (h : isScalar t = true) :
    typ0Of (if (t == tStr && act.isNone) = true then none else some t) = t := by
  rcases scalar_cases t h with h | h | h | h <;> subst h <;> cases act <;>
    simp only [Option.isNone_none, Option.isNone_some, Bool.and_false, Bool.and_true, Bool.false_eq_true, if_false] <;> decide

theorem typStage_scalar_required (t : Str) (h : isScalar t = true) : typStage none none true t = t := by
  rcases scalar_cases t h with h | h | h | h <;> subst h <;> decide +kernel

theorem not_complex (t : Str) (h : isScalar t = true) : (t == tComplex) = false := by
  rcases scalar_cases t h with h | h | h | h <;> subst h <;> decide

theorem isScalar_typeName (v : Val) (h : litOk v) : isScalar (typeName v) = true := by
  cases v with
  | none => exact absurd h (by simp [litOk])
  | str s => show isScalar tStr = true; decide
  | bool b => show isScalar tBool = true; decide
  | int n d => show isScalar tInt = true; decide
  | float t => show isScalar tFloat = true; decide

/-- **a scalar-typed entry with a literal default of that very type comes back unchanged** -/
theorem argRT_scalar_literal (name d : Str) (v : Val) (edd rd : Bool) (hpl : plainDoc d) (hv : litOk v) :
    argRT name { doc := some d, typ := some (typeName v), default := some v } edd rd =
      .ok { doc := some d, typ := some (typeName v), default := some v } := by
  have hs := isScalar_typeName v hv
  have hr : resolveArg name (typeName v) true = .ok ⟨none, none, true, typeName v⟩ := by
    unfold resolveArg
    rw [resolve_scalar _ _ true hs]
    simp
  unfold argRT
  rw [emit_lit name (typeName v) d v edd _ hr hpl hv]
  simp only [Res.bind]
  rw [parse_default _ d v rd rfl rfl (by simp only [typ0_scalar _ _ hs]; exact not_complex _ hs)]
  simp only [typ0_scalar _ _ hs, Option.map_none, typStage_scalar_required _ hs]

/-- **a scalar-typed entry (not bool) without default gets the zero value of its type** -/
theorem argRT_scalar_nodefault (name t d : Str) (dflt : Option Val) (edd rd : Bool) (hpl : plainDoc d)
    (hs : isScalar t = true) (hb : t ≠ tBool) (hd : dflt = none ∨ dflt = some .none) :
    argRT name { doc := some d, typ := some t, default := dflt } edd rd =
      .ok { doc := some d, typ := some t, default := some (zeroOf t) } := by
  have hbb : (t == tBool) = false := by simp [hb]
  have hr : resolveArg name t false = .ok ⟨none, none, true, t⟩ := by
    unfold resolveArg
    rw [resolve_scalar _ _ false hs]
    simp [hbb]
  unfold argRT
  rw [emit_none name t d dflt edd _ hd hr hpl hs]
  simp only [Res.bind]
  rw [parse_nodefault _ d rd rfl rfl hpl (by simp only [typ0_scalar _ _ hs]; exact not_complex _ hs)]
  simp only [typ0_scalar _ _ hs, Option.map_none, typStage_scalar_required _ hs]
  have : fillDefault t true rd = some (zeroOf t) := by
    unfold fillDefault isSimple
    simp [hs]
  rw [this]

/-! Optional[scalar] and List[scalar] -/

def tOptional (x : Str) : Str := sOptional ++ ['['] ++ x ++ [']']
def tListOf (x : Str) : Str := sList ++ ['['] ++ x ++ [']']

/-- the name does not end with "kwargs" (such entries are typed `dict` whatever the description says) -/
def notKwargs (name : Str) : Prop := endsWith name ['k', 'w', 'a', 'r', 'g', 's'] = false

theorem typStage_optional (x : Str) (h : isScalar x = true) : typStage none none false x = tOptional x := by
  rcases scalar_cases x h with h | h | h | h <;> subst h <;> decide +kernel

theorem typStage_list (x : Str) (h : isScalar x = true) : typStage none (some sAppend) true x = tListOf x := by
  rcases scalar_cases x h with h | h | h | h <;> subst h <;> decide +kernel

theorem typ0_some (x : Str) (h : isScalar x = true) : typ0Of (some x) = x := by
  rcases scalar_cases x h with h | h | h | h <;> subst h <;> decide

theorem fill_notrequired (x : Str) (rd : Bool) (h : isScalar x = true) :
    fillDefault x false rd = if rd then some (.str noneStr) else none := by
  rcases scalar_cases x h with h | h | h | h <;> subst h <;> cases rd <;> decide

theorem fill_required (x : Str) (rd : Bool) (h : isScalar x = true) : fillDefault x true rd = some (zeroOf x) := by
  unfold fillDefault isSimple
  simp [h]

theorem resolveArg_optional (name x : Str) (r0 : Bool) (hk : notKwargs name) (h : isScalar x = true) :
    resolveArg name (tOptional x) r0 = .ok ⟨none, none, false, x⟩ := by
  unfold resolveArg tOptional
  rw [hk, resolve_optional x r0 h]

theorem resolveArg_list (name x : Str) (r0 : Bool) (hk : notKwargs name) (h : isScalar x = true) (hb : x ≠ tBool) :
    resolveArg name (tListOf x) r0 = .ok ⟨some sAppend, none, true, x⟩ := by
  unfold resolveArg tListOf
  rw [hk, resolve_list x r0 h]
  have : (x == tBool) = false := by simp [hb]
  simp [this]

/-- **`Optional[scalar]` without a value** (absent, `None`, or the code-quoted None): the option is not required
    and reads back as `Optional[...]`; its default is the code-quoted None when a default is demanded
    (an earlier option of the same function had one), absent otherwise -/
theorem argRT_optional_nodefault (name x d : Str) (dflt : Option Val) (edd rd : Bool) (hpl : plainDoc d)
    (hk : notKwargs name) (hs : isScalar x = true)
    (hd : dflt = none ∨ dflt = some .none ∨ dflt = some (.str noneStr)) :
    argRT name { doc := some d, typ := some (tOptional x), default := dflt } edd rd =
      .ok { doc := some d, typ := some (tOptional x), default := if rd then some (.str noneStr) else none } := by
  have hemit : param2argparse name { doc := some d, typ := some (tOptional x), default := dflt } edd =
      .ok { typ := if x == tStr && (none : Option Str).isNone then none else some x,
            choices := none, action := none, help := some d, required := false, default := none } := by
    rcases hd with hd | hd | hd
    · rw [emit_none name _ d dflt edd _ (Or.inl hd) (resolveArg_optional name x false hk hs) hpl hs]; rfl
    · rw [emit_none name _ d dflt edd _ (Or.inr hd) (resolveArg_optional name x false hk hs) hpl hs]; rfl
    · subst hd
      rw [emit_noneStr name _ d edd _ (resolveArg_optional name x true hk hs) hpl hs]; rfl
  unfold argRT
  rw [hemit]
  simp only [Res.bind]
  rw [parse_nodefault _ d rd rfl rfl hpl (by simp only [typ0_scalar _ _ hs]; exact not_complex _ hs)]
  simp only [typ0_scalar _ _ hs, typStage_optional _ hs, fill_notrequired x rd hs]

/-- **`Optional[scalar]` with a literal default of the inner type** comes back unchanged -/
theorem argRT_optional_literal (name d : Str) (v : Val) (edd rd : Bool) (hpl : plainDoc d)
    (hk : notKwargs name) (hv : litOk v) :
    argRT name { doc := some d, typ := some (tOptional (typeName v)), default := some v } edd rd =
      .ok { doc := some d, typ := some (tOptional (typeName v)), default := some v } := by
  have hs := isScalar_typeName v hv
  unfold argRT
  rw [emit_lit name _ d v edd _ (resolveArg_optional name _ true hk hs) hpl hv]
  simp only [Res.bind]
  rw [parse_default _ d v rd rfl rfl (by simp only [typ0_scalar _ _ hs]; exact not_complex _ hs)]
  simp only [typ0_scalar _ _ hs, Option.map_none, typStage_optional _ hs]

/-- **`List[scalar]` (not bool) without default**: `action="append"`, required, the zero value of the element type -/
theorem argRT_list_nodefault (name x d : Str) (dflt : Option Val) (edd rd : Bool) (hpl : plainDoc d)
    (hk : notKwargs name) (hs : isScalar x = true) (hb : x ≠ tBool) (hd : dflt = none ∨ dflt = some .none) :
    argRT name { doc := some d, typ := some (tListOf x), default := dflt } edd rd =
      .ok { doc := some d, typ := some (tListOf x), default := some (zeroOf x) } := by
  unfold argRT
  rw [emit_none name _ d dflt edd _ hd (resolveArg_list name x false hk hs hb) hpl hs]
  simp only [Res.bind]
  have hact : ((some sAppend : Option Str).isNone) = false := rfl
  simp only [hact, Bool.and_false, Bool.false_eq_true, if_false, Option.map_none]
  rw [parse_nodefault _ d rd rfl rfl hpl (by simp only [typ0_some _ hs]; exact not_complex _ hs)]
  simp only [typ0_some _ hs, typStage_list _ hs, fill_required x rd hs]

/-! ### `Literal['a', 'b', ...]` -/

/-- a choice the emitter and the parser both carry verbatim: no quote mark and no back-slash inside (then its
    `repr` is the text between single quotes), and `set_value` leaves it alone -/
def memberOk (m : Str) : Prop := '\'' ∉ m ∧ '\\' ∉ m ∧ quoteDelimited m = false

def quoted1 (m : Str) : Str := ['\''] ++ m ++ ['\'']

/-- the type text of a string Literal, as `_handle_keyword` writes it -/
def tLiteral (ms : List Str) : Str := handleChoices ms tStr

theorem tLiteral_eq (ms : List Str) :
    tLiteral ms = sLiteralName ++ ['['] ++ joinSep [',', ' '] (ms.map quoted1) ++ [']'] := by
  unfold tLiteral handleChoices isSimple
  have h1 : isScalar tStr = true := by decide
  have h2 : (tStr == tStr) = true := by decide
  simp only [h1, h2, if_true]
  rfl

theorem takeWhile_stop (c : Char) (a r : Str) (h : c ∉ a) : (a ++ c :: r).takeWhile (· != c) = a := by
  induction a with
  | nil => simp [List.takeWhile]
  | cons x xs ih =>
    have hx : (x != c) = true := by
      have : x ≠ c := fun e => h (by simp [e])
      simp [this]
    have hxs : c ∉ xs := fun e => h (by simp [e])
    rw [List.cons_append, List.takeWhile_cons, hx, if_pos rfl, ih hxs]

theorem dropWhile_stop (c : Char) (a r : Str) (h : c ∉ a) : (a ++ c :: r).dropWhile (· != c) = c :: r := by
  induction a with
  | nil => simp [List.dropWhile]
  | cons x xs ih =>
    have hx : (x != c) = true := by
      have : x ≠ c := fun e => h (by simp [e])
      simp [this]
    have hxs : c ∉ xs := fun e => h (by simp [e])
    rw [List.cons_append, List.dropWhile_cons, hx, if_pos rfl, ih hxs]

theorem contains_false_of_not_mem (c : Char) (a : Str) (h : c ∉ a) : a.contains c = false := by
  simp [h]

/-- **the member scanner inverts the member printer** (any number of members, any fuel that covers them) -/
theorem litMembers_join : ∀ (ms : List Str) (fuel : Nat), ms ≠ [] → (∀ m ∈ ms, memberOk m) → ms.length ≤ fuel →
    litMembers (joinSep [',', ' '] (ms.map quoted1)) fuel = some ms
  | [], _, h, _, _ => absurd rfl h
  | [m], fuel, _, hm, hf => by
    obtain ⟨hq, hb, _⟩ := hm m (by simp)
    cases fuel with
    | zero => simp at hf
    | succ f =>
      have : joinSep [',', ' '] ([m].map quoted1) = '\'' :: (m ++ '\'' :: []) := by simp [joinSep, quoted1]
      rw [this]
      simp only [litMembers, beq_self_eq_true, Bool.true_or, if_true, takeWhile_stop '\'' m [] hq,
        dropWhile_stop '\'' m [] hq, contains_false_of_not_mem _ _ hb, Bool.false_eq_true, if_false]
  | m :: m2 :: rest, fuel, _, hm, hf => by
    obtain ⟨hq, hb, _⟩ := hm m (by simp)
    cases fuel with
    | zero => simp at hf
    | succ f =>
      have hj : joinSep [',', ' '] ((m :: m2 :: rest).map quoted1) =
          '\'' :: (m ++ '\'' :: (',' :: ' ' :: joinSep [',', ' '] ((m2 :: rest).map quoted1))) := by
        simp [joinSep, quoted1]
      rw [hj]
      have ih := litMembers_join (m2 :: rest) f (by simp) (fun x hx => hm x (by simp [hx])) (by simp at hf ⊢; omega)
      simp only [litMembers, beq_self_eq_true, Bool.true_or, if_true, takeWhile_stop '\'' m _ hq,
        dropWhile_stop '\'' m _ hq, contains_false_of_not_mem _ _ hb, Bool.false_eq_true, if_false, ih, Option.map_some]

theorem joinSep_length_ge (ms : List Str) : ms.length ≤ (joinSep [',', ' '] (ms.map quoted1)).length + 1 := by
  induction ms with
  | nil => simp
  | cons m rest ih =>
    cases rest with
    | nil => simp [joinSep, quoted1]
    | cons m2 r2 =>
      simp only [List.map_cons, joinSep, List.length_append, List.length_cons] at ih ⊢
      simp only [quoted1, List.length_append, List.length_cons, List.length_nil] at ih ⊢
      omega

theorem inside_wrapped (pre body : Str) : inside pre (pre ++ ['['] ++ body ++ [']']) = some body := by
  unfold inside
  have h1 : startsWith (pre ++ ['['] ++ body ++ [']']) (pre ++ ['[']) = true := by
    unfold startsWith
    rw [List.append_assoc (pre ++ ['['])]
    exact List.isPrefixOf_iff_prefix.mpr (List.prefix_append _ _)
  have h2 : endsWith (pre ++ ['['] ++ body ++ [']']) [']'] = true := by
    unfold endsWith
    simp [List.isPrefixOf]
  simp only [h1, h2, Bool.and_self, if_true]
  congr 1
  have : (pre ++ ['['] ++ body ++ [']']).drop (pre.length + 1) = body ++ [']'] := by
    have : pre ++ ['['] ++ body ++ [']'] = (pre ++ ['[']) ++ (body ++ [']']) := by simp
    rw [this, List.drop_append_of_le_length (by simp)]
    simp
  rw [this]
  simp only [List.length_append, List.length_cons, List.length_nil]
  have : pre.length + 1 + body.length + 1 - pre.length - 2 = body.length := by omega
  rw [this]
  simp

theorem cleanChoice_ok (m : Str) (h : memberOk m) : cleanChoice m = m := by
  unfold cleanChoice
  rw [setValue_plain m h.2.2]

theorem map_cleanChoice (ms : List Str) (h : ∀ m ∈ ms, memberOk m) : ms.map cleanChoice = ms := by
  induction ms with
  | nil => rfl
  | cons m rest ih =>
    simp only [List.map_cons, cleanChoice_ok m (h m (by simp)), ih (fun x hx => h x (by simp [hx]))]

/-- `_resolve_arg` on a Literal of two or more string choices: `choices=`, plain `str`, required -/
theorem resolve_literal (ms : List Str) (r0 : Bool) (h2 : 2 ≤ ms.length) (hm : ∀ m ∈ ms, memberOk m)
    (hc : containsSub (tLiteral ms) tComplex = false) :
    resolveArgK false (tLiteral ms) r0 = .ok ⟨none, some ms, true, tStr⟩ := by
  have hne : ms ≠ [] := by intro e; subst e; simp at h2
  have heq := tLiteral_eq ms
  have hlit : inside sLiteralName (tLiteral ms) = some (joinSep [',', ' '] (ms.map quoted1)) := by
    rw [heq]; exact inside_wrapped _ _
  have hhead : ∃ rest, tLiteral ms = 'L' :: 'i' :: 't' :: rest := by
    rw [heq]; exact ⟨_, rfl⟩
  obtain ⟨rest, hr⟩ := hhead
  have h1 : startsWith (tLiteral ms) ['<'] = false := by rw [hr]; simp [startsWith, List.isPrefixOf]
  have h3 : isSimple (tLiteral ms) = false := by
    rw [hr]; simp [isSimple, isScalar, tInt, tFloat, tStr, tBool]
  have h4 : (tLiteral ms == tDict) = false := by rw [hr]; simp [tDict]
  have h5 : (tLiteral ms).isEmpty = false := by rw [hr]; rfl
  have h6 : inside sOptional (tLiteral ms) = none := by
    rw [hr]; simp [inside, startsWith, sOptional, List.isPrefixOf]
  have h7 : inside sList (tLiteral ms) = none := by
    rw [hr]; simp [inside, startsWith, sList, List.isPrefixOf]
  have h8 := litMembers_join ms ((joinSep [',', ' '] (ms.map quoted1)).length + 1) hne hm (joinSep_length_ge ms)
  have h9 : (ms.length > 1) = True := by simp; omega
  unfold resolveArgK
  simp only [h1, hc, h3, h4, h5, h6, h7, hlit, h8, Bool.false_eq_true, if_false, Bool.or_false, h9, if_true]
  rfl

theorem typStage_choices (ms : List Str) : typStage (some ms) none true tStr = tLiteral ms := by
  unfold typStage tLiteral
  simp

theorem fill_str_required (rd : Bool) : fillDefault tStr true rd = some (.str []) := by
  cases rd <;> decide

/-- **a Literal of two or more string choices, without default**: `choices=(...)`, required, and read back as the
    same Literal with the zero value of `str` -/
theorem argRT_literal_nodefault (name d : Str) (ms : List Str) (dflt : Option Val) (edd rd : Bool) (hpl : plainDoc d)
    (hk : notKwargs name) (h2 : 2 ≤ ms.length) (hm : ∀ m ∈ ms, memberOk m)
    (hc : containsSub (tLiteral ms) tComplex = false) (hd : dflt = none ∨ dflt = some .none) :
    argRT name { doc := some d, typ := some (tLiteral ms), default := dflt } edd rd =
      .ok { doc := some d, typ := some (tLiteral ms), default := some (.str []) } := by
  have hr : resolveArg name (tLiteral ms) false = .ok ⟨none, some ms, true, tStr⟩ := by
    unfold resolveArg; rw [hk]; exact resolve_literal ms false h2 hm hc
  unfold argRT
  rw [emit_none name _ d dflt edd _ hd hr hpl (show isScalar tStr = true by decide)]
  simp only [Res.bind, Option.map_some, map_cleanChoice ms hm]
  have ht : typ0Of (if (tStr == tStr && (none : Option Str).isNone) = true then none else some tStr) = tStr := by decide
  rw [parse_nodefault _ d rd rfl rfl hpl (by rw [ht]; decide)]
  simp only [ht, typStage_choices, fill_str_required]

/-- **... and with one of its choices (or any plain string) as default**: comes back unchanged -/
theorem argRT_literal_default (name d s : Str) (ms : List Str) (edd rd : Bool) (hpl : plainDoc d)
    (hk : notKwargs name) (h2 : 2 ≤ ms.length) (hm : ∀ m ∈ ms, memberOk m)
    (hc : containsSub (tLiteral ms) tComplex = false) (hs : strPlain s) :
    argRT name { doc := some d, typ := some (tLiteral ms), default := some (.str s) } edd rd =
      .ok { doc := some d, typ := some (tLiteral ms), default := some (.str s) } := by
  have hr : resolveArg name (tLiteral ms) true = .ok ⟨none, some ms, true, tStr⟩ := by
    unfold resolveArg; rw [hk]; exact resolve_literal ms true h2 hm hc
  unfold argRT
  rw [emit_lit name _ d (.str s) edd _ hr hpl hs]
  simp only [Res.bind, Option.map_some, map_cleanChoice ms hm]
  have ht : typ0Of (if (typeName (Val.str s) == tStr && (none : Option Str).isNone) = true then none else some (typeName (Val.str s))) = tStr := by
    show typ0Of (if (tStr == tStr && (none : Option Str).isNone) = true then none else some tStr) = tStr
    decide
  rw [parse_default _ d (.str s) rd rfl rfl (by rw [ht]; decide)]
  simp only [ht, typStage_choices]

example : memberOk "read only".toList := by unfold memberOk; decide
example : tLiteral ["alpha".toList, "read only".toList] = "Literal['alpha', 'read only']".toList := by decide

/-! ### statement level = interface level -/

/-- the typed part of the argparse domain, by shape of the declared type and of the default -/
inductive ArgDom (name : Str) : Param → Prop where
  | scalarLit (d : Str) (v : Val) (hpl : plainDoc d) (hv : litOk v) (hn : isNoneVal v = false) :
      ArgDom name { doc := some d, typ := some (typeName v), default := some v }
  | scalarNone (t d : Str) (dflt : Option Val) (hpl : plainDoc d) (hs : isScalar t = true) (hb : t ≠ tBool)
      (hd : dflt = none ∨ dflt = some .none) : ArgDom name { doc := some d, typ := some t, default := dflt }
  | optNone (x d : Str) (dflt : Option Val) (hpl : plainDoc d) (hk : notKwargs name) (hs : isScalar x = true)
      (hd : dflt = none ∨ dflt = some .none ∨ dflt = some (.str noneStr)) :
      ArgDom name { doc := some d, typ := some (tOptional x), default := dflt }
  | optLit (d : Str) (v : Val) (hpl : plainDoc d) (hk : notKwargs name) (hv : litOk v) (hn : isNoneVal v = false) :
      ArgDom name { doc := some d, typ := some (tOptional (typeName v)), default := some v }
  | listNone (x d : Str) (dflt : Option Val) (hpl : plainDoc d) (hk : notKwargs name) (hs : isScalar x = true)
      (hb : x ≠ tBool) (hd : dflt = none ∨ dflt = some .none) :
      ArgDom name { doc := some d, typ := some (tListOf x), default := dflt }
  | litNone (d : Str) (ms : List Str) (dflt : Option Val) (hpl : plainDoc d) (hk : notKwargs name) (h2 : 2 ≤ ms.length)
      (hm : ∀ m ∈ ms, memberOk m) (hc : containsSub (tLiteral ms) tComplex = false)
      (hd : dflt = none ∨ dflt = some .none) :
      ArgDom name { doc := some d, typ := some (tLiteral ms), default := dflt }
  | litDefault (d s : Str) (ms : List Str) (hpl : plainDoc d) (hk : notKwargs name) (h2 : 2 ≤ ms.length)
      (hm : ∀ m ∈ ms, memberOk m) (hc : containsSub (tLiteral ms) tComplex = false) (hs : strPlain s)
      (hn : isNoneVal (.str s) = false) :
      ArgDom name { doc := some d, typ := some (tLiteral ms), default := some (.str s) }

/-- what the FIRST option of a function reads back as: `require_default` is still off, so an `Optional[...]`
    option without a value has no default at all (the later ones get the code-quoted None) -/
def firstForm (q : Param) : Param :=
  if (q.typ.map isOptional).getD false && q.default == some vNoneStr then { q with default := none } else q

theorem argFill_scalar (t : Str) (p : Param) (h : isScalar t = true) : argFill t p = { p with default := some (zeroOf t) } := by
  unfold argFill; simp [h]

theorem argFill_optional (x : Str) (p : Param) (h : isScalar x = true) :
    argFill (tOptional x) p = { p with default := some vNoneStr } := by
  have h1 : isScalar (tOptional x) = false := by
    rcases scalar_cases x h with h | h | h | h <;> subst h <;> decide
  have h2 : listInner (tOptional x) = none := by
    rcases scalar_cases x h with h | h | h | h <;> subst h <;> decide
  have h3 : isLiteral (tOptional x) = false := by
    rcases scalar_cases x h with h | h | h | h <;> subst h <;> decide
  unfold argFill
  simp [h1, h2, h3]

theorem argFill_list (x : Str) (p : Param) (h : isScalar x = true) :
    argFill (tListOf x) p = { p with default := some (zeroOf x) } := by
  have h1 : isScalar (tListOf x) = false := by
    rcases scalar_cases x h with h | h | h | h <;> subst h <;> decide
  have h2 : listInner (tListOf x) = some x := by
    rcases scalar_cases x h with h | h | h | h <;> subst h <;> decide
  unfold argFill
  simp [h1, h2]

theorem tLiteral_head (ms : List Str) : ∃ rest, tLiteral ms = 'L' :: 'i' :: 't' :: rest := by
  rw [tLiteral_eq]; exact ⟨_, rfl⟩

theorem argFill_literal (ms : List Str) (p : Param) : argFill (tLiteral ms) p = { p with default := some (.str []) } := by
  obtain ⟨rest, hr⟩ := tLiteral_head ms
  have h1 : isScalar (tLiteral ms) = false := by rw [hr]; simp [isScalar, tInt, tFloat, tStr, tBool]
  have h2 : listInner (tLiteral ms) = none := by rw [hr]; simp [listInner, startsWith, pList, List.isPrefixOf]
  have h3 : isLiteral (tLiteral ms) = true := by
    rw [tLiteral_eq]; simp [isLiteral, startsWith, pLiteral, sLiteralName, List.isPrefixOf]
  unfold argFill
  simp [h1, h2, h3]

theorem isOptional_literal (ms : List Str) : isOptional (tLiteral ms) = false := by
  obtain ⟨rest, hr⟩ := tLiteral_head ms
  rw [hr]; simp [isOptional, startsWith, pOptional, List.isPrefixOf]

theorem isOptional_tOptional (x : Str) : isOptional (tOptional x) = true := by
  unfold isOptional tOptional pOptional sOptional
  simp [startsWith, List.isPrefixOf]

theorem isOptional_scalar (t : Str) (h : isScalar t = true) : isOptional t = false := by
  rcases scalar_cases t h with h | h | h | h <;> subst h <;> decide

theorem isOptional_list (x : Str) : isOptional (tListOf x) = false := by
  unfold isOptional tListOf pOptional sList
  simp [startsWith, List.isPrefixOf]

theorem norm_nonelike (t d : Str) (dflt : Option Val)
    (hd : dflt = none ∨ dflt = some .none ∨ dflt = some (.str noneStr)) :
    normArgparseParam { doc := some d, typ := some t, default := dflt } =
      argFill t { doc := some d, typ := some t, default := dflt } := by
  unfold normArgparseParam
  rcases hd with h | h | h <;> subst h <;> simp [isNoneVal]

theorem norm_lit (t d : Str) (v : Val) (hn : isNoneVal v = false) :
    normArgparseParam { doc := some d, typ := some t, default := some v } = { doc := some d, typ := some t, default := some v } := by
  unfold normArgparseParam
  simp [hn]

/-- **statement level = interface level for the argparse kind**, for every option after the first one that has a
    default (`require_default` on) -/
theorem argRT_eq_norm (name : Str) (p : Param) (edd : Bool) (h : ArgDom name p) :
    argRT name p edd true = .ok (normArgparseParam p) := by
  cases h with
  | scalarLit d v hpl hv hn => rw [argRT_scalar_literal name d v edd true hpl hv, norm_lit _ d v hn]
  | scalarNone t d dflt hpl hs hb hd =>
    rw [argRT_scalar_nodefault name t d dflt edd true hpl hs hb hd,
      norm_nonelike t d dflt (by rcases hd with h | h; exact Or.inl h; exact Or.inr (Or.inl h)), argFill_scalar t _ hs]
  | optNone x d dflt hpl hk hs hd =>
    rw [argRT_optional_nodefault name x d dflt edd true hpl hk hs hd, norm_nonelike _ d dflt hd, argFill_optional x _ hs]
    rfl
  | optLit d v hpl hk hv hn => rw [argRT_optional_literal name d v edd true hpl hk hv, norm_lit _ d v hn]
  | listNone x d dflt hpl hk hs hb hd =>
    rw [argRT_list_nodefault name x d dflt edd true hpl hk hs hb hd,
      norm_nonelike _ d dflt (by rcases hd with h | h; exact Or.inl h; exact Or.inr (Or.inl h)), argFill_list x _ hs]
  | litNone d ms dflt hpl hk h2 hm hc hd =>
    rw [argRT_literal_nodefault name d ms dflt edd true hpl hk h2 hm hc hd,
      norm_nonelike _ d dflt (by rcases hd with h | h; exact Or.inl h; exact Or.inr (Or.inl h)), argFill_literal]
  | litDefault d s ms hpl hk h2 hm hc hs hn =>
    rw [argRT_literal_default name d s ms edd true hpl hk h2 hm hc hs, norm_lit _ d _ hn]

/-- ... and for the options before it (`require_default` still off): the same, except that an `Optional[...]`
    option without a value has no default at all -/
theorem argRT_eq_norm_first (name : Str) (p : Param) (edd : Bool) (h : ArgDom name p) :
    argRT name p edd false = .ok (firstForm (normArgparseParam p)) := by
  cases h with
  | scalarLit d v hpl hv hn =>
    rw [argRT_scalar_literal name d v edd false hpl hv, norm_lit _ d v hn]
    simp [firstForm, isOptional_scalar _ (isScalar_typeName v hv)]
  | scalarNone t d dflt hpl hs hb hd =>
    rw [argRT_scalar_nodefault name t d dflt edd false hpl hs hb hd,
      norm_nonelike t d dflt (by rcases hd with h | h; exact Or.inl h; exact Or.inr (Or.inl h)), argFill_scalar t _ hs]
    simp [firstForm, isOptional_scalar _ hs]
  | optNone x d dflt hpl hk hs hd =>
    rw [argRT_optional_nodefault name x d dflt edd false hpl hk hs hd, norm_nonelike _ d dflt hd, argFill_optional x _ hs]
    simp [firstForm, isOptional_tOptional]
  | optLit d v hpl hk hv hn =>
    rw [argRT_optional_literal name d v edd false hpl hk hv, norm_lit _ d v hn]
    have : ((some v : Option Val) == some vNoneStr) = false := lit_ne_noneStr v hv
    simp [firstForm, this]
  | listNone x d dflt hpl hk hs hb hd =>
    rw [argRT_list_nodefault name x d dflt edd false hpl hk hs hb hd,
      norm_nonelike _ d dflt (by rcases hd with h | h; exact Or.inl h; exact Or.inr (Or.inl h)), argFill_list x _ hs]
    simp [firstForm, isOptional_list]
  | litNone d ms dflt hpl hk h2 hm hc hd =>
    rw [argRT_literal_nodefault name d ms dflt edd false hpl hk h2 hm hc hd,
      norm_nonelike _ d dflt (by rcases hd with h | h; exact Or.inl h; exact Or.inr (Or.inl h)), argFill_literal]
    simp [firstForm, isOptional_literal]
  | litDefault d s ms hpl hk h2 hm hc hs hn =>
    rw [argRT_literal_default name d s ms edd false hpl hk h2 hm hc hs, norm_lit _ d _ hn]
    simp [firstForm, isOptional_literal]

/-! ### the whole list of options (the `require_default` thread) -/

/-- the reading under which `Optional[...]` without default and `Optional[...]` with the code-quoted None are one
    description (what the differential run compares, `optional_absent_is_none`) -/
def canonOpt (q : Param) : Param :=
  if (q.typ.map isOptional).getD false && q.default.isNone then { q with default := some vNoneStr } else q

theorem canonOpt_firstForm (q : Param) : canonOpt (firstForm q) = canonOpt q := by
  unfold canonOpt firstForm
  cases q with
  | mk doc typ dflt =>
    by_cases h1 : (typ.map isOptional).getD false = true
    · by_cases h2 : (dflt == some vNoneStr) = true
      · have : dflt = some vNoneStr := eq_of_beq h2
        subst this
        simp [h1]
      · simp [h1, h2]
    · simp [h1]

/-- **the statement-level model of a whole argparse function refines the interface-level `norm`**: for ANY number of
    options of the modelled shapes, whatever the state of `require_default` on entry, the options come back in
    order, each as `normArgparseParam` says (up to the one reading of `Optional` without a value) -/
theorem argparseParams_refines (edd : Bool) : ∀ (ps : List (Str × Param)) (rd : Bool),
    (∀ np ∈ ps, ArgDom np.1 np.2) →
    ∃ qs, argparseParams edd ps rd = .ok qs ∧
      qs.map (fun nq => (nq.1, canonOpt nq.2)) = ps.map (fun np => (np.1, canonOpt (normArgparseParam np.2)))
  | [], _, _ => ⟨[], rfl, rfl⟩
  | (n, p) :: rest, rd, h => by
    have hd : ArgDom n p := h (n, p) (by simp)
    have hrest : ∀ np ∈ rest, ArgDom np.1 np.2 := fun np hnp => h np (by simp [hnp])
    cases rd with
    | true =>
      obtain ⟨qs, hq, hm⟩ := argparseParams_refines edd rest (true || required0Of (normArgparseParam p).default) hrest
      refine ⟨(n, normArgparseParam p) :: qs, ?_, ?_⟩
      · simp only [argparseParams, argRT_eq_norm n p edd hd, Res.bind, hq]
      · simp only [List.map_cons, hm]
    | false =>
      obtain ⟨qs, hq, hm⟩ := argparseParams_refines edd rest (false || required0Of (firstForm (normArgparseParam p)).default) hrest
      refine ⟨(n, firstForm (normArgparseParam p)) :: qs, ?_, ?_⟩
      · simp only [argparseParams, argRT_eq_norm_first n p edd hd, Res.bind, hq]
      · simp only [List.map_cons, hm, canonOpt_firstForm]

theorem argparseParams_length (edd : Bool) : ∀ (ps : List (Str × Param)) (rd : Bool) (qs : List (Str × Param)),
    argparseParams edd ps rd = .ok qs → qs.map (·.1) = ps.map (·.1)
  | [], _, qs, h => by simp [argparseParams] at h; subst h; rfl
  | (n, p) :: rest, rd, qs, h => by
    simp only [argparseParams] at h
    cases hq : argRT n p edd rd with
    | ok q =>
      rw [hq] at h
      simp only [Res.bind] at h
      cases hr : argparseParams edd rest (rd || required0Of q.default) with
      | ok qs' =>
        rw [hr] at h
        simp only [Res.ok.injEq] at h
        subst h
        simp [argparseParams_length edd rest _ qs' hr]
      | raises k => rw [hr] at h; simp at h
      | unmodelled w => rw [hr] at h; simp at h
    | raises k => rw [hq] at h; simp [Res.bind] at h
    | unmodelled w => rw [hq] at h; simp [Res.bind] at h

/-! non-vacuity: concrete entries of every shape -/
example : ArgDom "size".toList { doc := some "the size".toList, typ := some tInt, default := some (.int true ['3']) } :=
  .scalarLit "the size".toList (.int true ['3']) (by unfold plainDoc; decide) trivial rfl
example : ArgDom "name".toList { doc := some "a name".toList, typ := some tStr, default := none } :=
  .scalarNone tStr "a name".toList none (by unfold plainDoc; decide) (by decide) (by decide) (Or.inl rfl)
example : ArgDom "rate".toList { doc := some "the rate".toList, typ := some (tOptional tFloat), default := some (.str noneStr) } :=
  .optNone tFloat "the rate".toList _ (by unfold plainDoc; decide) (by unfold notKwargs; decide) (by decide) (Or.inr (Or.inr rfl))
example : ArgDom "tags".toList { doc := some "the tags".toList, typ := some (tListOf tStr), default := none } :=
  .listNone tStr "the tags".toList none (by unfold plainDoc; decide) (by unfold notKwargs; decide) (by decide) (by decide) (Or.inl rfl)
example : ArgDom "mode".toList { doc := some "the mode".toList, typ := some (tLiteral ["alpha".toList, "read only".toList]), default := none } :=
  .litNone "the mode".toList _ none (by unfold plainDoc; decide) (by unfold notKwargs; decide) (by decide)
    (by intro m hm; simp at hm; rcases hm with h | h <;> subst h <;> (unfold memberOk; decide)) (by decide) (Or.inl rfl)
/-- the bool case the domain leaves out (recorded finding D28): no `required=True` is written, the option reads back
    as `Optional[bool]` -/
example : argRT "flag".toList { doc := some "a flag".toList, typ := some tBool, default := none } true false =
    .ok { doc := some "a flag".toList, typ := some (tOptional tBool), default := none } := by decide +kernel

end ArgAttr
end Py
