import DT.FuncKind
import DT.ClassKind
import DT.ArgAttr
import DT.DocParse
import DT.Refine
/-! Chains of conversions at statement level (C05): every hop is the statement-level model of its kind - the three
    docstring styles (`emit.docstring` -> `parse_docstring` with its style detection), the class kind, the function /
    method kind, the argparse kind. Tied to the code by the driver operation `stmt_chain` (the real chain through the
    emitted text of every hop). -/
namespace Py
namespace StmtChain
open DocEmit

inductive Hop where
  | rest | numpydoc | google | cls | func (inline : Bool) | argparse
deriving DecidableEq, Repr

/-- the style `parse_docstring` derives from the text: ReST when any ReST token occurs, else google when a google
    token occurs, else numpydoc -/
inductive Detected where | rest | google | numpydoc
deriving DecidableEq

def googleTokens : List Str := ["Args:".toList, "Kwargs:".toList, "Raises:".toList, "Returns:".toList]

def detect (text : Str) : Detected :=
  if isRestStyle text then .rest
  else if googleTokens.any (fun t => containsSub text t) then .google
  else .numpydoc

/-- `parse.docstring(text)` (default text kept) whatever style the text is read as -/
def parseAny (text : Str) : Res IR :=
  if text.isEmpty then .ok {} else
  match detect text with
  | .rest => parseDocstringRest text true
  | .google => DocParse.parseDocstring .google text true
  | .numpydoc => DocParse.parseDocstring .numpydoc text true

/-- one hop: emit as the kind, parse the artefact back (`edd` = default text in the artefacts of the AST kinds) -/
def hop (h : Hop) (edd : Bool) (ir : IR) : Res IR :=
  match h with
  | .rest => (emitDocstringRest ir true).bind parseAny
  | .numpydoc => (emitDocstring .numpydoc ir true).bind parseAny
  | .google => (emitDocstring .google ir true).bind parseAny
  | .cls => ClassKind.classKindRT ir edd
  | .func inline => FuncKind.funcKindRT ir inline edd 2 false
  | .argparse =>
    match ir.returns with
    | some _ => .unmodelled "argparse with a return entry"
    | none =>
      (ArgAttr.argparseParams edd ir.params false).bind fun ps =>
      .ok { doc := (match ClassAttr.setValue (.str ir.doc) with | .str s => s | _ => ir.doc), params := ps, returns := none }

def chain (edd : Bool) : List Hop → IR → Res IR
  | [], ir => .ok ir
  | h :: hs, ir => (hop h edd ir).bind (chain edd hs)

/-- a chain of no hops is the identity; a chain is the composition of its hops -/
theorem chain_append (edd : Bool) (a b : List Hop) (ir : IR) :
    chain edd (a ++ b) ir = (chain edd a ir).bind (chain edd b) := by
  induction a generalizing ir with
  | nil => rfl
  | cons h t ih =>
    simp only [List.cons_append, chain]
    cases hop h edd ir with
    | ok x => simp [Res.bind, ih]
    | raises k => rfl
    | unmodelled w => rfl

end StmtChain
end Py

namespace Py
namespace StmtChain

/-- **the argparse hop of a statement-level chain refines the interface-level normal form**: for a description without
    return entry whose options are of the modelled shapes, the hop succeeds, keeps the summary (unless it is written
    between quotes, which `set_value` strips) and gives every option what `Kinds.norm .argparse` says, up to the one
    reading of `Optional` without a value -/
theorem hop_argparse_refines (ir : IR) (edd : Bool) (hr : ir.returns = none)
    (hd : ClassAttr.setValue (.str ir.doc) = .str ir.doc)
    (h : ∀ np ∈ ir.params, ArgAttr.ArgDom np.1 np.2) :
    ∃ out, hop .argparse edd ir = .ok out ∧ out.doc = ir.doc ∧ out.returns = none ∧
      out.params.map (fun nq => (nq.1, ArgAttr.canonOpt nq.2)) =
        (Kinds.norm .argparse ir).params.map (fun np => (np.1, ArgAttr.canonOpt np.2)) := by
  obtain ⟨qs, hq, hm⟩ := Refine.argparse_refines ir edd h
  refine ⟨{ doc := ir.doc, params := qs, returns := none }, ?_, rfl, rfl, hm⟩
  unfold hop
  simp only [hr, hq, Res.bind, hd]

end StmtChain
end Py
