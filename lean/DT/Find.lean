import DT.Locate
/-! `find_in_ast`, total: the same statements as `PyAst.findInAst` with a fuel argument that decreases at every
    loop step (the driver runs it with more fuel than any tree of the harness needs), and what it guarantees:
    whatever it returns is either the node whose recorded location IS the search, or a node named by one of the
    search's segments - never something else (`find_sound`). It does NOT guarantee that the segment is the last one,
    nor that the prefix segments were matched: those are the recorded C15 findings. -/
namespace PyAst

mutual
  def whileT (search : List Atom) : Nat → Node → Sum (List Item) Node → List Atom → Found
    | 0, _, _, _ => .raises "fuel"
    | fuel + 1, childNode, cursor, cs =>
      match cs with
      | [] => .none
      | query :: cs =>
        if cs.isEmpty && childNode.hasName && childNode.name == query then .node childNode else
        match cursor with
        | .inr _ => .raises "TypeError"
        | .inl items => forT search fuel items childNode cursor query cs
  def forT (search : List Atom) : Nat → List Item → Node → Sum (List Item) Node → Atom → List Atom → Found
    | 0, _, _, _, _, _ => .raises "fuel"
    | fuel + 1, items, childNode, cursor, query, cs =>
      match items with
      | [] => whileT search fuel childNode cursor cs
      | .atom _ :: _ => .raises "AttributeError"
      | .node ch :: rest =>
        if ch.loc == some search then .node ch
        else if ch.kind == "FunctionDef" then
          let qc : Atom × List Atom := match cs with | q :: cs' => (q, cs') | [] => (query, cs)
          let args := ((ch.nodeField "args").map (·.nodesOf "args")).getD []
          let defaults := ((ch.nodeField "args").map (·.listField "defaults")).getD []
          match (args.zipIdx).find? (fun (a, _) => a.atomField "arg" == some qc.1) with
          | some (a, i) =>
            let a' := if defaults.length > i then (match defaults[i]? with | some d => a.setDflt d | Option.none => a) else a
            if qc.2.isEmpty then .node a' else forT search fuel rest ch (.inr a') qc.1 qc.2
          | Option.none => forT search fuel rest ch cursor qc.1 qc.2
        else if ch.kind == "AnnAssign" && ((ch.nodeField "target").map (·.kind)) == some "Name"
                && ((ch.nodeField "target").bind (·.atomField "id")) == some query then .node ch
        else if ch.hasName && ch.name == query then
          match bodyOf ch with
          | some b => whileT search fuel ch (.inl b) cs
          | Option.none => .raises "AttributeError"
        else forT search fuel rest ch cursor query cs
end

/-- `find_in_ast(search, node)` with fuel -/
def findTotal (fuel : Nat) (search : List Atom) (node : Node) : Found :=
  if search.isEmpty || node.loc == some search then .node node else
  match bodyOf node with
  | Option.none => .raises "AttributeError"
  | some body0 => whileT search fuel node (.inl body0) search

end PyAst
