import DT.FuncDocRT
import DT.FuncDocExample
/-! non-vacuity: the two-parameter description of `RestRTExample` satisfies every hypothesis of
    `C03_docstring_half_partial` (indentation level 2, as `emit.function` uses for a method). -/
namespace Py
namespace FuncDoc
open ToDocstring NumpyRT

example : funcDocRT (mkIR exD ([exA] ++ [exB])) false 2 true true = .ok (mkIR exD ([exA] ++ [exB])) :=
  C03_docstring_half_partial exD [exA] exB
    (by intro x hx; simp at hx; rcases hx with rfl | rfl; exact bA; exact bB)
    (by decide) (trimmed_dec _ (by decide) (by decide)) (by decide) (margin_dec _ (by decide)) (by decide) (by decide) (by decide)
    (by intro x hx; simp at hx; rcases hx with rfl | rfl <;> decide)
    (by intro x hx; simp at hx; rcases hx with rfl | rfl <;> exact ⟨by decide, by decide, by decide⟩)
    (by decide) false 2

end FuncDoc
end Py
