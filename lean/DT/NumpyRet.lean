import DT.NumpyRT
/-! `NumpyRT` with a return entry: the numpydoc round trip through the `Returns` / `-------` section - the return split of
    `_return_parse_phase_numpydoc_and_google` (the units after the `-------` line become the return entry, the `Returns`
    and `-------` units and the blank unit before them are cut off the arguments) and the return branch of the parse
    phase. Same domain as `C01_numpydoc_nodefault_partial`, plus a typed, described, default-free return entry. -/
namespace Py
namespace NumpyRT
open DocEmit DocScan DocParse

def mkIRr (D : Str) (ts : List Triple) (dr tr : Str) : IR :=
  { doc := D, params := ts.map entryOf, returns := some (mkParam dr tr) }

def sRet : Str := ['R', 'e', 't', 'u', 'r', 'n', 's']
def sDash : Str := ['-', '-', '-', '-', '-', '-', '-']
theorem retTok_eq : returnToken .numpydoc = sRet ++ ['\n'] ++ sDash := by decide
theorem sRet_eq : "Returns".toList = sRet := by decide
theorem sDash_eq : "-------".toList = sDash := by decide

def retLines (tr dr : Str) : List Str := [[], sRet, sDash, tr, bodyLine dr]

def textNR (D : Str) (ts : List Triple) (dr tr : Str) : Str :=
  preN D ++ argToken .numpydoc ++ ['\n'] ++ joinWith ['\n'] (linesOf ts ++ retLines tr dr) ++ ['\n', '\n']

theorem emitRet_ok (dr tr : Str) (hd : NDoc dr) (ht : TypOK tr) (e : Bool) :
    emitParamStrNumpy retName (mkParam dr tr) e = .ok (tr ++ ['\n'] ++ bodyLine dr) := by
  obtain ⟨hdo, hD1, hD2⟩ := hd
  have hret : (retName == retName) = true := by simp
  have hsd : setDefaultDoc retName (mkParam dr tr) e = .ok (mkParam dr tr) := by
    unfold setDefaultDoc mkParam
    simp only [hD1, hD2, Bool.or_self, Bool.false_and, Bool.false_eq_true, if_false, Option.isSome_none, Bool.false_and]
  unfold emitParamStrNumpy
  simp only [mkParam, nonEmpty, isEmpty_false_of_ne tr ht.ne, isEmpty_false_of_ne dr hdo.ne, Bool.false_eq_true, if_false, hret, if_true]
  have hsd' := hsd
  unfold mkParam at hsd'
  rw [hsd']
  simp only [Res.bind, indent_one_line dr hdo, Option.toList]
  have : (tab4 ++ dr).isEmpty = false := by simp [tab4]
  simp only [this, Bool.false_eq_true, if_false]
  rfl

theorem emit_textR (D : Str) (ts : List Triple) (dr tr : Str) (hne : ts ≠ []) (hok : ∀ x ∈ ts, TripleOK' x)
    (hd : NDoc dr) (ht : TypOK tr) (e : Bool) :
    emitDocstring .numpydoc (mkIRr D ts dr tr) e = .ok (textNR D ts dr tr) := by
  unfold emitDocstring
  simp only [mkIRr, emitEntries_ok ts hok e, Res.bind, emitEntry, emitRet_ok dr tr hd ht e]
  have hne' : (ts.map entryText).isEmpty = false := by
    cases ts with
    | nil => exact absurd rfl hne
    | cons _ _ => rfl
  simp only [hne', Bool.false_eq_true, if_false, if_true]
  rw [joinWith_cons_ne ['\n'] _ _ (by simpa using hne), entries_as_lines ts hne]
  have hL : linesOf ts ≠ [] := by
    cases ts with
    | nil => exact absurd rfl hne
    | cons x r => simp [linesOf]
  unfold textNR
  rw [joinWith_append_ne ['\n'] (linesOf ts) (retLines tr dr) hL (by simp [retLines])]
  rw [retTok_eq]
  simp only [retLines, joinWith, preN]
  have hst : (Style.numpydoc == Style.numpydoc) = true := by decide
  simp only [List.append_assoc, List.cons_append, List.nil_append, hst, if_true]

/-! ### scan phase: grouping and the return split -/

def retUnits (tr dr : Str) : List (List Str) := [[[]], [sRet], [sDash], [tr, bodyLine dr], [[]]]

theorem retLines_no_nl (tr dr : Str) (ht : TypOK tr) (hd : NDoc dr) : ∀ l ∈ retLines tr dr, '\n' ∉ l := by
  intro l hl
  simp only [retLines, List.mem_cons, List.not_mem_nil, or_false] at hl
  rcases hl with h | h | h | h | h <;> subst h
  · simp
  · decide
  · decide
  · exact ht.oneLine
  · intro hm
    simp only [bodyLine, tab4, List.mem_append, List.mem_cons, List.not_mem_nil, or_false] at hm
    rcases hm with hm | hm
    · rcases hm with hm | hm | hm | hm <;> exact absurd hm (by decide)
    · exact hd.1.oneLine hm

theorem splitLines_textR (ts : List Triple) (tr dr : Str) (hne : ts ≠ []) (hok : ∀ x ∈ ts, TripleOK' x)
    (ht : TypOK tr) (hd : NDoc dr) :
    splitLines (joinWith ['\n'] (linesOf ts ++ retLines tr dr) ++ ['\n', '\n']) = linesOf ts ++ retLines tr dr ++ [[]] := by
  unfold splitLines
  have hL : linesOf ts ++ retLines tr dr ≠ [] := by simp [retLines]
  have hnl : ∀ l ∈ linesOf ts ++ retLines tr dr, '\n' ∉ l := by
    intro l hl
    rcases List.mem_append.mp hl with h | h
    · exact linesOf_no_nl ts hok l h
    · exact retLines_no_nl tr dr ht hd l h
  have e0 : joinWith ['\n'] (linesOf ts ++ retLines tr dr) ++ ['\n', '\n'] =
      joinWith ['\n'] (linesOf ts ++ retLines tr dr) ++ '\n' :: ['\n'] := rfl
  rw [e0, splitOnChar_joined '\n' _ ['\n'] hL hnl]
  have h3 : splitOnChar '\n' ['\n'] = [[], []] := by decide
  rw [h3]
  have e : linesOf ts ++ retLines tr dr ++ [[], []] = (linesOf ts ++ retLines tr dr ++ [[]]) ++ [[]] := by simp
  have hl : (linesOf ts ++ retLines tr dr ++ [[], []]).getLast? = some [] := by rw [e, List.getLast?_concat]
  simp only [hl]
  rw [e, List.dropLast_concat]

theorem lws_sRet : lws sRet = 0 := by decide
theorem lws_sDash : lws sDash = 0 := by decide

theorem lws_margin (t : Str) (hne : t ≠ []) (h : AtMargin t) : lws t = 0 := by
  cases t with
  | nil => exact absurd rfl hne
  | cons c r => have := h c rfl; simp [lws, List.takeWhile, this]

theorem fold_ret (S : List (List Str)) (tr dr : Str) (htne : tr ≠ []) (hm : AtMargin tr) :
    (retLines tr dr ++ [[]]).foldl (groupStep 0) S = S ++ retUnits tr dr := by
  have h0 : (lws ([] : Str) == 0) = true := rfl
  have h1 : (lws sRet == 0) = true := by simp [lws_sRet]
  have h2 : (lws sDash == 0) = true := by simp [lws_sDash]
  have h3 : (lws tr == 0) = true := by simp [lws_margin tr htne hm]
  have h4 : (lws (bodyLine dr) == 0) = false := by simp [lws_body dr]
  simp only [retLines, List.cons_append, List.nil_append, List.foldl_cons, List.foldl_nil]
  have s0 : groupStep 0 S [] = S ++ [[[]]] := by simp [groupStep, h0]
  have s1 : groupStep 0 (S ++ [[[]]]) sRet = S ++ [[[]], [sRet]] := by simp [groupStep, h1]
  have s2 : groupStep 0 (S ++ [[[]], [sRet]]) sDash = S ++ [[[]], [sRet], [sDash]] := by simp [groupStep, h2]
  have s3 : groupStep 0 (S ++ [[[]], [sRet], [sDash]]) tr = S ++ [[[]], [sRet], [sDash], [tr]] := by simp [groupStep, h3]
  have s4 : groupStep 0 (S ++ [[[]], [sRet], [sDash], [tr]]) (bodyLine dr) = S ++ [[[]], [sRet], [sDash], [tr, bodyLine dr]] := by
    have e : S ++ [[[]], [sRet], [sDash], [tr]] = (S ++ [[[]], [sRet], [sDash]]) ++ [[tr]] := by simp
    simp only [groupStep, h4, Bool.false_eq_true, if_false]
    rw [e, List.getLast?_concat, List.dropLast_concat]
    simp
  have s5 : groupStep 0 (S ++ [[[]], [sRet], [sDash], [tr, bodyLine dr]]) [] = S ++ retUnits tr dr := by
    simp [groupStep, h0, retUnits]
  rw [s0, s1, s2, s3, s4, s5]

/-- the `Returns` / `-------` pair is found right after the argument units and their trailing blank unit -/
theorem returnSplit_found (A : List (List Str)) (tr dr : Str) (hA : ∀ u ∈ A, UnitShape u) (hAne : A ≠ []) :
    returnSplit (A ++ retUnits tr dr) (A ++ retUnits tr dr).length = some (A.length + 2) := by
  have hlen : (A ++ retUnits tr dr).length = (A.length + 2) + 3 := by simp [retUnits]
  have g : ∀ (k : Nat), (A ++ retUnits tr dr)[A.length + k]? = (retUnits tr dr)[k]? := by
    intro k; rw [List.getElem?_append_right (by omega)]; congr 1; omega
  rw [hlen]
  -- i = A.length + 4 : [[]] ++ [tr, body]
  have c4 : ((A ++ retUnits tr dr)[A.length + 4]?.getD [] ++ (A ++ retUnits tr dr)[A.length + 4 - 1]?.getD [] ==
      ["-------".toList, "Returns".toList]) = false := by
    have e : A.length + 4 - 1 = A.length + 3 := by omega
    rw [e, g 4, g 3]
    simp [retUnits]
  have c3 : ((A ++ retUnits tr dr)[A.length + 3]?.getD [] ++ (A ++ retUnits tr dr)[A.length + 3 - 1]?.getD [] ==
      ["-------".toList, "Returns".toList]) = false := by
    have e : A.length + 3 - 1 = A.length + 2 := by omega
    rw [e, g 3, g 2]
    simp [retUnits]
  have c2 : ((A ++ retUnits tr dr)[A.length + 2]?.getD [] ++ (A ++ retUnits tr dr)[A.length + 2 - 1]?.getD [] ==
      ["-------".toList, "Returns".toList]) = true := by
    have e : A.length + 2 - 1 = A.length + 1 := by omega
    rw [e, g 2, g 1]
    simp only [retUnits, List.getElem?_cons_succ, List.getElem?_cons_zero, Option.getD_some, List.cons_append, List.nil_append]
    rw [sRet_eq, sDash_eq]
    simp
  have hge : decide (A.length + 2 ≥ 2) = true := by simp
  have e5 : A.length + 2 + 3 = (A.length + 4) + 1 := by omega
  rw [e5, returnSplit]
  simp only [c4, Bool.and_false, Bool.false_eq_true, if_false]
  have e4 : A.length + 4 = (A.length + 3) + 1 := by omega
  rw [e4, returnSplit]
  simp only [c3, Bool.and_false, Bool.false_eq_true, if_false]
  have e3 : A.length + 3 = (A.length + 2) + 1 := by omega
  rw [e3, returnSplit]
  simp only [c2, hge, Bool.and_self, if_true]

/-- the scan phase reads the emitted text back as: the summary, one unit per entry and a blank unit as the arguments,
    and the type line + prose line (and a blank unit) as the return entry -/
theorem scanPhase_textR (D : Str) (ts : List Triple) (dr tr : Str) (hne : ts ≠ []) (hok : ∀ x ∈ ts, TripleOK' x)
    (hmargin : ∀ x ∈ ts, AtMargin x.1) (hd : NDoc dr) (ht : TypOK tr) (htm : AtMargin tr)
    (hDne : D ≠ []) (hDt : Trimmed D) (hP : 'P' ∉ D)
    (hsep : otherSeparators (textNR D ts dr tr) = false) :
    scanPhase .numpydoc (textNR D ts dr tr) =
      .ok { doc := D, args := ts.map unitOf ++ [[[]]], rets := .units [[tr, bodyLine dr], [[]]], afterward := none } := by
  have hPre : 'P' ∉ preN D := by
    intro h
    unfold preN at h
    rcases List.mem_cons.mp h with h | h
    · exact absurd h (by decide)
    · rcases List.mem_append.mp h with h | h
      · exact hP h
      · exact absurd h (by decide)
  have hfind : findSub (argToken .numpydoc) (textNR D ts dr tr) 0 = some (preN D).length := by
    have e : textNR D ts dr tr = preN D ++ argToken .numpydoc ++
        (['\n'] ++ joinWith ['\n'] (linesOf ts ++ retLines tr dr) ++ ['\n', '\n']) := by
      simp [textNR]
    rw [e, argTok_cons, findSub_skip 'P' _ (preN D) _ 0 hPre]
    simp
  have htake : (textNR D ts dr tr).take (preN D).length = preN D := by
    simp [textNR, List.append_assoc]
  have hdoc : strip pyWs (preN D) = D := by
    have := strip_ws_both ['\n'] ['\n', '\n', '\n'] D ws_nl ws_nl3 hDt hDne
    simpa [preN] using this
  have hdrop : (textNR D ts dr tr).drop ((preN D).length + (argToken .numpydoc).length + 1) =
      joinWith ['\n'] (linesOf ts ++ retLines tr dr) ++ ['\n', '\n'] := by
    have e : textNR D ts dr tr = (preN D ++ argToken .numpydoc ++ ['\n']) ++
        (joinWith ['\n'] (linesOf ts ++ retLines tr dr) ++ ['\n', '\n']) := by
      simp [textNR]
    rw [e]
    exact List.drop_left' (by simp only [List.length_append, List.length_cons, List.length_nil])
  obtain ⟨x, r, hts⟩ : ∃ x r, ts = x :: r := by
    cases ts with
    | nil => exact absurd rfl hne
    | cons x r => exact ⟨x, r, rfl⟩
  have hlines := splitLines_textR ts tr dr hne hok ht hd
  have hl0 : ∃ rest, linesOf ts ++ retLines tr dr ++ [[]] = headLine x.1 x.2.2 :: rest := by
    subst hts; exact ⟨bodyLine x.2.1 :: (linesOf r ++ retLines tr dr ++ [[]]), by simp [linesOf]⟩
  obtain ⟨restL, hrestL⟩ := hl0
  have hnames : ∀ y ∈ ts, y.1 ≠ [] ∧ AtMargin y.1 := fun y hy => ⟨(hok y hy).1.ne, hmargin y hy⟩
  have hfi : lws (headLine x.1 x.2.2) = 0 := lws_head x.1 x.2.2 (hok x (by simp [hts])).1.ne (hmargin x (by simp [hts]))
  unfold scanPhase
  simp only [hsep, Bool.false_eq_true, if_false, hfind, htake, hdoc, hdrop, hlines]
  rw [hrestL]
  simp only [hfi]
  rw [← hrestL]
  rw [scanLoop_fold .numpydoc (linesOf ts ++ retLines tr dr ++ [[]]) 0 _ 0 _ (by simp) (by intro l _; exact Nat.zero_le _)
    (Or.inr (by
      intro l hl
      rw [hrestL] at hl
      simp only [List.getElem?_cons_zero, Option.some.injEq] at hl
      rw [← hl]; exact hfi))]
  have hfold : (linesOf ts ++ retLines tr dr ++ [[]]).foldl (groupStep 0) [] = ts.map unitOf ++ retUnits tr dr := by
    rw [List.append_assoc, List.foldl_append, fold_units ts [] hnames, List.nil_append, fold_ret _ tr dr ht.ne htm]
  simp only [Res.bind, List.drop_zero, hfold]
  have hshape : ∀ u ∈ ts.map unitOf, UnitShape u := by
    intro u hu
    simp only [List.mem_map] at hu
    obtain ⟨y, _, hy⟩ := hu
    left; rw [← hy]; rfl
  have hAne : ts.map unitOf ≠ [] := by simpa using hne
  have hrs := returnSplit_found (ts.map unitOf) tr dr hshape hAne
  have hst : (Style.numpydoc == Style.numpydoc) = true := by decide
  simp only [retsEmpty, List.isEmpty_nil, Bool.true_and, hrs, hst]
  have e1 : (ts.map unitOf ++ retUnits tr dr).take ((ts.map unitOf).length + 2 - 1) = ts.map unitOf ++ [[[]]] := by
    have e : ts.map unitOf ++ retUnits tr dr = (ts.map unitOf ++ [[[]]]) ++ [[sRet], [sDash], [tr, bodyLine dr], [[]]] := by
      simp [retUnits]
    rw [e]
    exact List.take_left' (by simp)
  have e2 : (ts.map unitOf ++ retUnits tr dr).drop ((ts.map unitOf).length + 2 + 1) = [[tr, bodyLine dr], [[]]] := by
    have e : ts.map unitOf ++ retUnits tr dr = (ts.map unitOf ++ [[[]], [sRet], [sDash]]) ++ [[tr, bodyLine dr], [[]]] := by
      simp [retUnits]
    rw [e]
    exact List.drop_left' (by simp)
  rw [e1, e2]
  have hnempty : (ts.map unitOf ++ [[[]]]).isEmpty = false := by simp
  simp [hnempty, setNs]

/-! ### the parse phase -/

theorem parseEntries_units1 (e : Bool) : ∀ (ts : List Triple),
    (∀ x ∈ ts, TripleOK' x) → (∀ x ∈ ts, Trimmed x.1) →
    parseEntries .numpydoc e false true (ts.map unitOf ++ [[[]]]) false = .ok (ts.map entryOf, false)
  | [], _, _ => by simp [parseEntries, parseNumpy_blank, Res.bind]
  | x :: ts, hok, hnt => by
    have hx := hok x (by simp)
    have ih := parseEntries_units1 e ts (fun y hy => hok y (by simp [hy])) (fun y hy => hnt y (by simp [hy]))
    have hsn := setNameAndType_plain x.1 x.2.1 (some x.2.2) hx.1 hx.2.1.1 (by intro t ht; cases ht; exact hx.2.2)
    have hsn' : setNameAndType (some x.1) { typ := some x.2.2, doc := some x.2.1 } false true =
        .ok (x.1, { typ := some x.2.2, doc := some x.2.1 }) := hsn
    simp only [List.map_cons, List.cons_append, parseEntries, parseNumpy_unit x hx (hnt x (by simp)), Res.bind,
      interpolateReq_plain x.2.1 x.2.2 hx.2.1.1 e]
    have hne : ((Res.ok (some (x.1, ({ typ := some x.2.2, doc := some x.2.1 } : Param))) : Res (Option (Str × Param))) ==
        Res.raises "StopIteration") = false := by simp
    simp only [hne, Bool.false_eq_true, if_false, Option.isNone_none, Bool.true_or, Bool.not_true, Bool.or_false, hsn', ih]
    rfl

/-- `_set_name_and_type` leaves the typed, one-line, default-free return entry as it is -/
theorem setNameAndType_ret (d t : Str) (hd : DocOK d) (ht : TypOK t) :
    setNameAndType (some retName) { doc := some d, typ := some t, default := none } false true
      = .ok (retName, { doc := some d, typ := some t, default := none }) := by
  unfold setNameAndType
  have hkw : (endsWith retName "kwargs".toList || startsWith retName ['*', '*']) = false := by decide
  have hdne : d.isEmpty = false := by
    cases d with
    | nil => exact absurd rfl hd.ne
    | cons _ _ => rfl
  have hjoin : unwrapProse d = d := by
    unfold unwrapProse
    rw [splitOnChar_no_sep '\n' d hd.oneLine]
    simp only [List.map_cons, List.map_nil, joinWith_single]
    rw [strip_trimmed d hd.trimmed hd.ne, stripRight_trimmed d hd.trimmed]
  simp only [hkw, Bool.false_eq_true, if_false, Option.isSome_none, Res.bind]
  simp only [ht.notGoogleOpt, Bool.false_eq_true, if_false, hdne, if_true, hjoin, hd.notOpt1, hd.notOpt2,
    Bool.or_self, Bool.false_and]

theorem parse_textR (D : Str) (ts : List Triple) (dr tr : Str) (hne : ts ≠ []) (hok : ∀ x ∈ ts, TripleOK' x)
    (hmargin : ∀ x ∈ ts, AtMargin x.1) (hnt : ∀ x ∈ ts, Trimmed x.1)
    (hcolon : ∀ x ∈ ts, endsWith x.2.2 [':'] = false)
    (hd : NDoc dr) (ht : TypOK tr) (htm : AtMargin tr)
    (hDne : D ≠ []) (hDt : Trimmed D) (hP : 'P' ∉ D)
    (hsep : otherSeparators (textNR D ts dr tr) = false) (hnd : (ts.map (·.1)).Nodup) (e : Bool) :
    parseDocstring .numpydoc (textNR D ts dr tr) e = .ok (mkIRr D ts dr tr) := by
  unfold parseDocstring
  rw [scanPhase_textR D ts dr tr hne hok hmargin hd ht htm hDne hDt hP hsep]
  simp only [Res.bind]
  have hidx : (ts.map unitOf ++ [[[]]]).findIdx? startsSection = none := by
    rw [List.findIdx?_eq_none_iff]
    intro u hu
    simp only [List.mem_append, List.mem_map, List.mem_cons, List.not_mem_nil, or_false] at hu
    rcases hu with ⟨y, hy, hyu⟩ | hu
    · rw [← hyu]
      simp only [unitOf, startsSection]
      exact endsWith_colon_head y.1 y.2.2 (hok y hy).2.2.ne (hcolon y hy)
    · subst hu; decide
  have hdl : lstripWs (bodyLine dr) = dr := by
    have := stripLeft_ws_append tab4 dr ws_tab4 hd.1.trimmed.1
    simpa [lstripWs, bodyLine] using this
  have hret : returnParam .numpydoc (.units [[tr, bodyLine dr], [[]]]) = .ok { typ := some tr, doc := some dr } := by
    simp [returnParam, hdl]
  have hsn : setNameAndType (some retName) { typ := some tr, doc := some dr } false true =
      .ok (retName, { typ := some tr, doc := some dr }) := setNameAndType_ret dr tr hd.1 ht
  simp only [hidx, parseEntries_units1 e ts hok hnt, retsEmpty, List.isEmpty_cons, Bool.false_eq_true, if_false, hret, Res.bind,
    hsn, interpolateReq_plain dr tr hd.1 e, dedupKeepLast_nodup _ (by rw [entryOf_names]; exact hnd)]
  rfl

/-- **C01 (numpydoc) with a return entry, default-free domain**: a one-line summary, ≥ 1 uniquely named parameters and a
    return entry, each with a type and one line of prose, no defaults: `emit.docstring` then `parse_docstring` is the
    identity and raises nothing - any number of parameters, texts of any length. The `Returns` / `-------` pair is found by
    the return split right after the argument units, whatever the arguments are. (Restrictions as in
    `C01_numpydoc_nodefault_partial`, and the return type starts at the left margin.) -/
theorem C01_numpydoc_return_partial (D : Str) (ts : List Triple) (dr tr : Str) (hne : ts ≠ []) (hok : ∀ x ∈ ts, TripleOK' x)
    (hmargin : ∀ x ∈ ts, AtMargin x.1) (hnt : ∀ x ∈ ts, Trimmed x.1)
    (hcolon : ∀ x ∈ ts, endsWith x.2.2 [':'] = false)
    (hd : NDoc dr) (ht : TypOK tr) (htm : AtMargin tr)
    (hDne : D ≠ []) (hDt : Trimmed D) (hP : 'P' ∉ D)
    (hsep : otherSeparators (textNR D ts dr tr) = false) (hnd : (ts.map (·.1)).Nodup) (e e' : Bool) :
    ((emitDocstring .numpydoc (mkIRr D ts dr tr) e).bind fun text => parseDocstring .numpydoc text e') = .ok (mkIRr D ts dr tr) := by
  rw [emit_textR D ts dr tr hne hok hd ht e]
  simp only [Res.bind]
  exact parse_textR D ts dr tr hne hok hmargin hnt hcolon hd ht htm hDne hDt hP hsep hnd e'

end NumpyRT
end Py
