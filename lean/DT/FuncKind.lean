import DT.FuncDoc
import DT.FuncAttr
import DT.Merge
/-! The whole function / method kind at statement level, whole descriptions: `emit.function` (signature built from the
    entries, docstring by `to_docstring`) followed by `parse.function` (`ast.get_docstring` = `inspect.cleandoc`,
    `parse.docstring`, the `**kwargs` entry set aside, `func_arg2param` on every argument, `ir_merge` of the
    documented and the declared half, `_set_name_and_type` on every entry, the return annotation). Descriptions whose
    return entry carries a default are left out (the `return <expr>` statement goes through CPython's parser).
    Tied to the code by the driver operation `func_kind` (the real emit -> text -> parse of the same description). -/
namespace Py
namespace FuncKind
open FuncDoc ToDocstring

def isKwargsName (n : Str) : Bool := endsWith n "kwargs".toList

/-- what `func_arg2param` hands to `ir_merge` for one emitted argument -/
def sigParam (inline : Bool) (p : Param) : Param :=
  { doc := none,
    typ := if inline then (match p.typ with | some t => if t.isEmpty then none else some t | none => none) else none,
    default := some (FuncAttr.emittedDefault p) }

def popKey (d : ODict Param) (k : Str) : ODict Param := d.filter fun kv => kv.1 != k

/-- `parse.function(emit.function(ir, inline_types, emit_default_doc, indent_level, emit_separating_tab))` -/
def funcKindRT (ir : IR) (inline edd : Bool) (level : Nat) (emitSepTab : Bool) : Res IR :=
  match ir.returns.bind (·.default) with
  | some _ => .unmodelled "a return entry with a default (the emitted `return <expr>`)"
  | none =>
  if ir.params.any (fun kp => FuncAttr.negUnderStr kp.2) then .unmodelled "a negative number under a str-mentioning type stays an ast node" else
  if ir.params.any (fun kp => !ClassAttr.identText kp.1) then .unmodelled "a name that is not an identifier (the emitted text does not parse)" else
  (toDocstring ir edd level (!inline) emitSepTab).bind fun text =>
  (cleandoc text).bind fun doc =>
  if doc.isEmpty then .unmodelled "empty docstring" else
  if !isRestStyle doc then .unmodelled "not read as ReST" else
  (parseDocstringRest doc true).bind fun dir =>
  -- the declared half
  let declared := ir.params.filter fun kp => !isKwargsName kp.1
  let kwarg : Option Str := (ir.params.find? fun kp => isKwargsName kp.1).map (·.1)
  let sig : ODict Param := declared.map fun kp => (kp.1, sigParam inline kp.2)
  -- a documented `**kwargs` is set aside and re-appended after the merge with `default = NoneStr`
  let aside : Res (ODict Param × ODict Param) := match kwarg with
    | some k => (match dir.params.get? k with
      | some kp => if kp.typ.isNone then .raises "AssertionError"
                   else .ok (popKey dir.params k, [(k, { kp with default := some (.str noneStr) })])
      | none => .ok (dir.params, []))
    | none => .ok (dir.params, [])
  aside.bind fun (docParams, toAppend) =>
  let merged := irMergeParams docParams sig (okeys sig)
  let merged := toAppend.foldl (fun acc kp => acc.set kp.1 kp.2) merged
  (mapNamed merged).bind fun ps =>
  -- the return entry: the documented one, retyped by the `->` annotation when types are inline
  let rtyp : Option Str := if inline then (ir.returns.bind (·.typ)).bind (fun t => if t.isEmpty then none else some t) else none
  let rets : Res (Option Param) := match dir.returns, rtyp with
    | some r, some t => .ok (some { r with typ := some t })
    | some r, none => .ok (some r)
    | none, some t => .ok (some { typ := some t })
    | none, none => .ok none
  rets.bind fun r0 =>
  (match r0 with
   | some r => (setNameAndType (some retName) r false true).bind fun nr => .ok (some nr.2)
   | none => .ok none).bind fun r1 =>
  .ok { doc := dir.doc, params := ps, returns := r1 }
where
  mapNamed : ODict Param → Res (ODict Param)
    | [] => .ok []
    | (n, p) :: rest =>
      (setNameAndType (some n) p false true).bind fun np =>
      (mapNamed rest).bind fun r => .ok (np :: r)

end FuncKind
end Py
