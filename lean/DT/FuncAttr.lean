import DT.ClassAttrTheorems
/-! Statement-level model of one parameter through `emit.function` (inline types) and `parse.function`:
    the default is emitted with `set_value` (`None` for an absent or none-like one), read back by
    `func_arg2param` as a Constant and normalised by `_infer_default`. `funcRT_eq_norm` derives the
    interface-level `Kinds.normFuncParam` from it. -/
namespace Py
namespace FuncAttr
open Kinds ClassAttr

/-- `set_value(None) if default in none_types else set_value(default)`, then `get_value` of that Constant -/
def emittedDefault (p : Param) : Val :=
  match p.default with
  | none => .str noneStr
  | some d => if ClassAttr.isNoneType d then .str noneStr else
      (match setValue d with | .none => .str noneStr | v => v)

/-- a negative number (after unparse / re-parse it is a `UnaryOp`, not a `Constant`) -/
def isNegNum : Val → Bool
  | .int neg d => neg && !isZeroDigits d
  | .float t => startsWith t ['-']
  | _ => false

/-- a negative numeric default under a str-mentioning type: `_infer_default` neither unwraps nor evaluates the
    `UnaryOp` node, it stays in the description (recorded finding) -/
def negUnderStr (p : Param) : Bool :=
  match p.default with
  | some v => isNegNum v && (match needsQuoting p.typ with | .ok q => q | _ => true)
  | none => false

/-- one parameter: annotation = the declared type (inline), default as above, `_infer_default` on the way back -/
def funcRT (p : Param) : Res Param :=
  if negUnderStr p then .unmodelled "a negative number under a str-mentioning type stays an ast node" else
  (ClassAttr.inferDefault p.typ (emittedDefault p)).bind fun r => .ok { p with typ := r.1, default := some r.2 }

theorem funcRT_nodefault (p : Param) (t : Str) (q : Bool) (ht : p.typ = some t) (hq : needsQuoting (some t) = .ok q)
    (hd : noDefault p) : funcRT p = .ok { p with typ := some t, default := some vNoneStr } := by
  have he : emittedDefault p = .str noneStr := by
    unfold emittedDefault
    rcases hd with h | h | h <;> rw [h] <;> simp [ClassAttr.isNoneType]
  have hn : negUnderStr p = false := by
    unfold negUnderStr
    rcases hd with h | h | h <;> rw [h] <;> simp [isNegNum]
  unfold funcRT
  rw [hn, he, ht, inferDefault_noneStr t q hq]
  rfl

theorem funcRT_num (p : Param) (t : Str) (q : Bool) (v : Val) (ht : p.typ = some t)
    (hq : needsQuoting (some t) = .ok q) (hv : numOk v) (hd : p.default = some v) (hneg : isNegNum v = false ∨ q = false) :
    funcRT p = .ok { p with typ := some t, default := some v } := by
  have he : emittedDefault p = v := by
    unfold emittedDefault
    rw [hd]
    simp only [isNoneType_num v hv, Bool.false_eq_true, if_false, setValue_num v hv]
    cases v <;> simp_all [numOk]
  have hn : negUnderStr p = false := by
    unfold negUnderStr
    rw [hd, ht, hq]
    rcases hneg with h | h <;> simp [h]
  unfold funcRT
  rw [hn, he, ht, inferDefault_num t q v hq hv]
  rfl

theorem setValue_plain (s : Str) (hq : quoteDelimited s = false) : setValue (.str s) = .str s := by
  show (match s.head?, s.getLast? with
    | some a, some b => if (decide (s.length > 2) && a == b && quoteChar a) = true then Val.str ((s.drop 1).dropLast) else Val.str s
    | _, _ => Val.str s) = Val.str s
  unfold quoteDelimited at hq
  cases hh : s.head? with
  | none => simp
  | some a =>
    cases hl : s.getLast? with
    | none => simp
    | some b =>
      rw [hh, hl] at hq
      simp only at hq
      simp only
      have : (decide (s.length > 2) && a == b && quoteChar a) = false := by
        rw [Bool.and_assoc, hq]; simp
      simp [this]

theorem funcRT_str (p : Param) (t s : Str) (q : Bool) (ht : p.typ = some t) (hq : needsQuoting (some t) = .ok q)
    (hs : strOk s) (hd : p.default = some (.str s)) :
    funcRT p = .ok { p with typ := some t, default := some (.str s) } := by
  have hs' := hs
  obtain ⟨_, hqd, hn1, hn2, _⟩ := hs
  have he : emittedDefault p = .str s := by
    unfold emittedDefault
    rw [hd]
    have : ClassAttr.isNoneType (.str s) = false := by simp [ClassAttr.isNoneType, hn1, hn2]
    simp only [this, Bool.false_eq_true, if_false, setValue_plain s hqd]
  have hn : negUnderStr p = false := by
    unfold negUnderStr; rw [hd]; simp [isNegNum]
  unfold funcRT
  rw [hn, he, ht, inferDefault_str t q s hq hs']
  rfl

/-- the typed part of the function domain, by shape of the default -/
inductive FuncDom (p : Param) : Prop where
  | noDefault (t : Str) (q : Bool) (ht : p.typ = some t) (hq : needsQuoting (some t) = .ok q) (hd : ClassAttr.noDefault p)
  | num (t : Str) (q : Bool) (v : Val) (ht : p.typ = some t) (hq : needsQuoting (some t) = .ok q) (hv : numOk v)
      (hd : p.default = some v) (hneg : isNegNum v = false ∨ q = false)
  | str (t s : Str) (q : Bool) (ht : p.typ = some t) (hq : needsQuoting (some t) = .ok q) (hs : strOk s)
      (hd : p.default = some (.str s))

theorem normFunc_noDefault (p : Param) (h : ClassAttr.noDefault p) : normFuncParam p = { p with default := some vNoneStr } := by
  unfold normFuncParam
  rcases h with h | h | h <;> rw [h] <;> simp [isNoneVal]

theorem normFunc_literal (p : Param) (v : Val) (hd : p.default = some v) (hn : isNoneVal v = false) :
    normFuncParam p = p := by
  unfold normFuncParam; rw [hd]; simp [hn]

/-- **statement level = interface level for the function kind** -/
theorem funcRT_eq_norm (p : Param) (h : FuncDom p) : funcRT p = .ok (normFuncParam p) := by
  cases h with
  | noDefault t q ht hq hd =>
    rw [funcRT_nodefault p t q ht hq hd, normFunc_noDefault p hd, with_typ p t _ ht]
  | num t q v ht hq hv hd hneg =>
    rw [funcRT_num p t q v ht hq hv hd hneg, normFunc_literal p v hd (isNoneVal_num v hv), with_typ_default p t v ht hd]
  | str t s q ht hq hs hd =>
    have hn : isNoneVal (.str s) = false := by
      obtain ⟨_, _, hn1, hn2, _⟩ := hs
      simp [isNoneVal, hn1, hn2]
    rw [funcRT_str p t s q ht hq hs hd, normFunc_literal p _ hd hn, with_typ_default p t _ ht hd]

example : FuncDom { doc := some ['x'], typ := some tInt, default := some (.int false ['0']) } :=
  .num tInt false (.int false ['0']) rfl (by decide) trivial rfl (Or.inl rfl)
example : FuncDom { doc := some ['x'], typ := some "Optional[str]".toList, default := none } :=
  .noDefault "Optional[str]".toList true rfl (by decide) (Or.inl rfl)

end FuncAttr
end Py
