import DT.ClassKind
/-! C02 / C07, the merge of the annotated assignments of a class over its documented entries
    (`intermediate_repr[key][name].update(typ_default)` in `parse.class_`): no entry is dropped, none is duplicated, the
    documented ones keep their positions and their prose, an attribute the docstring does not mention is appended. -/
namespace Py
namespace ClassKind
open ClassAttr

def keys (ps : ODict Param) : List Str := ps.map (·.1)

theorem any_key (ps : ODict Param) (n : Str) : ps.any (·.1 == n) = decide (n ∈ keys ps) := by
  induction ps with
  | nil => simp [keys]
  | cons kv r ih =>
    simp only [List.any_cons, ih, keys, List.map_cons, List.mem_cons]
    by_cases h : kv.1 = n
    · simp [h]
    · have : (kv.1 == n) = false := by simpa using h
      have h' : ¬ n = kv.1 := fun e => h e.symm
      simp [this, h', keys]
      exact decide_eq_decide.mpr Iff.rfl

/-- one merged assignment: the names are the old names, plus the new one at the end when it was neither documented nor
    the return entry -/
theorem mergeAttr_keys (ps : ODict Param) (rets : Option Param) (n typ : Str) (v : Val) :
    keys (mergeAttr ps rets n typ v).1 =
      if n ∈ keys ps then keys ps else if n = retName then keys ps else keys ps ++ [n] := by
  unfold mergeAttr
  rw [any_key]
  by_cases h : n ∈ keys ps
  · simp only [h, decide_true, if_true]
    simp only [keys, List.map_map]
    apply List.map_congr_left
    intro kv _
    by_cases hk : kv.1 = n
    · simp [hk]
    · simp [hk]
  · simp only [h, decide_false, Bool.false_eq_true, if_false]
    by_cases hr : n = retName
    · simp [hr]
    · have : (n == retName) = false := by simpa using hr
      simp [this, hr, keys]

/-- the prose of every documented entry survives the merge (only typ and default are updated) -/
theorem mergeAttr_doc (ps : ODict Param) (rets : Option Param) (n typ : Str) (v : Val) (k : Str) (p : Param)
    (h : (k, p) ∈ ps) : ∃ q, (k, q) ∈ (mergeAttr ps rets n typ v).1 ∧ q.doc = p.doc := by
  unfold mergeAttr
  by_cases hany : ps.any (·.1 == n) = true
  · simp only [hany, if_true]
    by_cases hk : (k == n) = true
    · exact ⟨{ p with typ := some typ, default := some v }, List.mem_map.mpr ⟨(k, p), h, by simp [hk]⟩, rfl⟩
    · exact ⟨p, List.mem_map.mpr ⟨(k, p), h, by simp [hk]⟩, rfl⟩
  · simp only [hany, Bool.false_eq_true, if_false]
    by_cases hr : (n == retName) = true
    · simp only [hr, if_true]; exact ⟨p, h, rfl⟩
    · simp only [hr, Bool.false_eq_true, if_false]; exact ⟨p, by simp [h], rfl⟩

/-- no duplicates are created -/
theorem mergeAttr_nodup (ps : ODict Param) (rets : Option Param) (n typ : Str) (v : Val) (h : (keys ps).Nodup) :
    (keys (mergeAttr ps rets n typ v).1).Nodup := by
  rw [mergeAttr_keys]
  by_cases hn : n ∈ keys ps
  · simpa [hn] using h
  · by_cases hr : n = retName
    · simpa [hn, hr] using h
    · simp only [hn, hr, if_false]
      rw [List.nodup_append]
      exact ⟨h, by simp, by intro a ha b hb; simp at hb; subst hb; exact fun e => hn (e ▸ ha)⟩

/-- **all assignments of a class body merged in order**: every documented name is still there, in its position; the
    names are pairwise different when they were and the attributes are; nothing is lost (for ANY number of entries and
    attributes, whatever `get_value` made of the values) -/
theorem mergeAll_keys : ∀ (attrs : List (Str × Attr)) (ps : ODict Param) (rets : Option Param) (out : ODict Param × Option Param),
    classKindRT.mergeAll ps rets attrs = .ok out →
    (keys ps) <+: (keys out.1) ∧ ((keys ps).Nodup → (keys out.1).Nodup)
  | [], ps, rets, out, h => by
    simp only [classKindRT.mergeAll, Res.ok.injEq] at h
    subst h; exact ⟨List.prefix_refl _, id⟩
  | (n, a) :: rest, ps, rets, out, h => by
    simp only [classKindRT.mergeAll] at h
    cases hp : attrParse a with
    | ok tv =>
      simp only [hp, Res.bind] at h
      have ih := mergeAll_keys rest (mergeAttr ps rets n tv.1 tv.2).1 (mergeAttr ps rets n tv.1 tv.2).2 out h
      have hk := mergeAttr_keys ps rets n tv.1 tv.2
      have hpre : keys ps <+: keys (mergeAttr ps rets n tv.1 tv.2).1 := by
        rw [hk]
        by_cases hn : n ∈ keys ps
        · simp [hn]
        · by_cases hr : n = retName
          · simp [hn, hr]
          · simp only [hn, hr, if_false]; exact List.prefix_append _ _
      exact ⟨List.IsPrefix.trans hpre ih.1, fun hnd => ih.2 (mergeAttr_nodup ps rets n tv.1 tv.2 hnd)⟩
    | raises k => simp [hp, Res.bind] at h
    | unmodelled w => simp [hp, Res.bind] at h

/-- non-vacuity: a documented attribute, an undocumented one and the return entry, merged: the documented one keeps its
    place and prose, the undocumented one is appended, `return_type` goes to the return entry -/
example : classKindRT.mergeAll [(['a'], { doc := some ['x'] })] none
      [(['a'], ⟨['i', 'n', 't'], .const (.int false ['1'])⟩), (['b'], ⟨['s', 't', 'r'], .const (.str ['u'])⟩),
       (retName, ⟨['i', 'n', 't'], .const (.int false ['0'])⟩)] =
    .ok ([(['a'], { doc := some ['x'], typ := some ['i', 'n', 't'], default := some (.int false ['1']) }),
          (['b'], { typ := some ['s', 't', 'r'], default := some (.str ['u']) })],
         some { typ := some ['i', 'n', 't'], default := some (.int false ['0']) }) := by decide

end ClassKind
end Py
