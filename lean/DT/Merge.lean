import DT.Rest
/-! L8 spike: `parser_utils.ir_merge` on the parameter maps, with the iteration order of the two *set*
    expressions (`other.keys() & target.keys()`, `other.keys() - target.keys()`) as explicit oracles (C07, C12). -/
namespace Py

def truthyStr : Option Str → Bool
  | some s => !s.isEmpty
  | none => false

/-- `x in none_types` for `x = param.get("default")` : absent/None, "None", NoneStr -/
def defaultIsNoneType : Option Val → Bool
  | none => true
  | some .none => true
  | some (.str s) => s == "None".toList || s == noneStr
  | _ => false

/-- `other["default"] not in {None, "None", "(None)"}` (and the key is present) -/
def otherDefaultUsable : Option Val → Bool
  | none => false
  | some .none => false
  | some (.str s) => !(s == "None".toList || s == "(None)".toList)
  | _ => true

/-- the body of the intersection loop for one name -/
def mergeParam (t o : Param) : Param :=
  { doc := if !truthyStr t.doc && truthyStr o.doc then o.doc else t.doc
    typ := if t.typ.isNone && truthyStr o.typ then o.typ else t.typ
    default := if defaultIsNoneType t.default && otherDefaultUsable o.default then o.default else t.default }

def updKey (other : ODict Param) (tgt : ODict Param) (k : Str) : ODict Param :=
  match other.get? k with
  | some o => tgt.map fun kv => if kv.1 == k then (kv.1, mergeParam kv.2 o) else kv
  | none => tgt

def addKey (other : ODict Param) (tgt : ODict Param) (k : Str) : ODict Param :=
  match other.get? k with
  | some o => tgt.set k o
  | none => tgt

/-- `ir_merge` on `params` when both are non-empty; `σi`, `σd` = the orders in which Python happens to iterate
    the intersection and the difference sets (any permutation of those sets) -/
def mergeParams (target other : ODict Param) (σi σd : List Str) : ODict Param :=
  σd.foldl (addKey other) (σi.foldl (updKey other) target)

/-! ### the intersection loop does not depend on the order -/

theorem updKey_comm (other tgt : ODict Param) (a b : Str) (hab : a ≠ b) :
    updKey other (updKey other tgt a) b = updKey other (updKey other tgt b) a := by
  unfold updKey
  cases ha : other.get? a <;> cases hb : other.get? b <;> simp only []
  rename_i oa ob
  simp only [List.map_map]
  congr 1
  funext kv
  simp only [Function.comp]
  by_cases h1 : kv.1 == a <;> by_cases h2 : kv.1 == b
  · exact absurd ((beq_iff_eq.mp h1).symm.trans (beq_iff_eq.mp h2)) hab
  · simp [h1, h2]
  · simp [h1, h2]
  · simp [h1, h2]

theorem inter_order_irrelevant (other tgt : ODict Param) (σ σ' : List Str) (hp : σ.Perm σ') (hnd : σ.Nodup) :
    σ.foldl (updKey other) tgt = σ'.foldl (updKey other) tgt := by
  apply List.Perm.foldl_eq' hp
  intro x hx y hy z
  by_cases hxy : x = y
  · subst hxy; rfl
  · exact updKey_comm other z x y hxy

/-! ### the difference loop does: a two-name witness (D2) -/

def wTarget : ODict Param := [(['c'], { doc := some ['x'] })]
def wOther : ODict Param := [(['a'], {}), (['b'], {}), (['c'], {})]

theorem diff_order_matters :
    mergeParams wTarget wOther [['c']] [['a'], ['b']] ≠ mergeParams wTarget wOther [['c']] [['b'], ['a']] := by
  decide

/-- …but only the order: the *set* of names never depends on it (no drop, no duplicate) -/
theorem addKey_keys (other tgt : ODict Param) (k : Str) :
    (addKey other tgt k).map (·.1) = tgt.map (·.1) ∨ (addKey other tgt k).map (·.1) = tgt.map (·.1) ++ [k] := by
  unfold addKey
  cases other.get? k with
  | none => exact Or.inl rfl
  | some o =>
    unfold ODict.set
    by_cases h : tgt.any (fun kv => kv.1 == k) = true
    · left
      simp only [h, if_true, List.map_map]
      apply List.map_congr_left
      intro kv _
      simp only [Function.comp]
      by_cases hk : kv.1 == k
      · simp [hk]; exact (beq_iff_eq.mp hk).symm
      · simp [hk]
    · right; simp [h]

/-! ### `ir_merge` after fix ab10a32: the names missing from the target are appended in `other`'s order -/

def okeys (d : ODict Param) : List Str := d.map (·.1)

/-- the names only `other` has, in `other`'s own order (`for name in other_params: if name not in target_params`) -/
def missingKeys (target other : ODict Param) : List Str := (okeys other).filter fun k => !(okeys target).contains k

/-- `ir_merge(target, other)["params"]`; `σ` = the order in which Python iterates `other.keys() & target.keys()` -/
def irMergeParams (target other : ODict Param) (σ : List Str) : ODict Param :=
  if target.isEmpty then other
  else if other.isEmpty then target
  else mergeParams target other σ (missingKeys target other)

theorem updKey_keys (other tgt : ODict Param) (k : Str) : okeys (updKey other tgt k) = okeys tgt := by
  unfold updKey okeys
  cases other.get? k with
  | none => rfl
  | some o =>
    simp only [List.map_map]
    apply List.map_congr_left
    intro kv _
    simp only [Function.comp]
    by_cases h : kv.1 == k <;> simp [h]

theorem foldl_updKey_keys (other : ODict Param) : ∀ (σ : List Str) (tgt : ODict Param),
    okeys (σ.foldl (updKey other) tgt) = okeys tgt
  | [], _ => rfl
  | k :: ks, tgt => by
    simp only [List.foldl_cons]
    rw [foldl_updKey_keys other ks, updKey_keys]

/-- **C12 (merge)**: the merged parameters do not depend on the order in which the set of common names is
    iterated — whatever string hashing does, the result is the same -/
theorem irMerge_deterministic (target other : ODict Param) (σ σ' : List Str) (hp : σ.Perm σ') (hnd : σ.Nodup) :
    irMergeParams target other σ = irMergeParams target other σ' := by
  unfold irMergeParams mergeParams
  rw [inter_order_irrelevant other target σ σ' hp hnd]

theorem set_fresh_keys (d : ODict Param) (k : Str) (v : Param) (h : (okeys d).contains k = false) :
    okeys (d.set k v) = okeys d ++ [k] := by
  unfold ODict.set okeys
  have : d.any (fun kv => kv.1 == k) = false := by
    simp only [okeys, List.contains_eq_any_beq, List.any_map] at h
    rw [← h]; congr 1; funext kv; simp only [Function.comp]; exact Bool.beq_comm
  simp [this]

theorem addKey_fresh (other tgt : ODict Param) (k : Str) (hk : (okeys other).contains k = true)
    (hf : (okeys tgt).contains k = false) : okeys (addKey other tgt k) = okeys tgt ++ [k] := by
  unfold addKey
  cases hg : other.get? k with
  | none =>
    exfalso
    unfold ODict.get? at hg
    simp only [okeys, List.contains_eq_any_beq, List.any_map, List.any_eq_true] at hk
    obtain ⟨kv, hmem, heq⟩ := hk
    have : (other.find? (fun kv => kv.1 == k)).isSome := by
      rw [List.find?_isSome]
      refine ⟨kv, hmem, ?_⟩
      simp only [Function.comp] at heq
      rw [Bool.beq_comm]; exact heq
    cases hfind : other.find? (fun kv => kv.1 == k) with
    | none => rw [hfind] at this; cases this
    | some x => rw [hfind] at hg; cases hg
  | some o => exact set_fresh_keys tgt k o hf

/-- appending a duplicate-free list of names none of which is in the target: they arrive in that order -/
theorem foldl_addKey_keys (other : ODict Param) : ∀ (ks : List Str) (tgt : ODict Param),
    ks.Nodup → (∀ k ∈ ks, (okeys other).contains k = true ∧ (okeys tgt).contains k = false) →
    okeys (ks.foldl (addKey other) tgt) = okeys tgt ++ ks
  | [], tgt, _, _ => by simp
  | k :: ks, tgt, hnd, h => by
    simp only [List.foldl_cons]
    have hk := h k (by simp)
    have hstep := addKey_fresh other tgt k hk.1 hk.2
    have hnd' : ks.Nodup := (List.nodup_cons.mp hnd).2
    have hnotin : k ∉ ks := (List.nodup_cons.mp hnd).1
    rw [foldl_addKey_keys other ks (addKey other tgt k) hnd' ?_, hstep]
    · simp
    · intro k' hk'
      refine ⟨(h k' (by simp [hk'])).1, ?_⟩
      rw [hstep]
      have h1 := (h k' (by simp [hk'])).2
      have hne : k' ≠ k := fun e => hnotin (e ▸ hk')
      simp only [List.contains_eq_any_beq, List.any_append, List.any_cons, List.any_nil, Bool.or_false,
        Bool.or_eq_false_iff] at h1 ⊢
      refine ⟨h1, ?_⟩
      cases hb : (k' == k) with
      | false => rfl
      | true => exact absurd (beq_iff_eq.mp hb) hne

theorem missingKeys_nodup (target other : ODict Param) (h : (okeys other).Nodup) : (missingKeys target other).Nodup :=
  List.Pairwise.filter _ h

/-- **C07 (no parameter dropped or duplicated; where they end up)**: the merged description has exactly
    the target's names, in the target's order, followed by the names only `other` has, in `other`'s order —
    for every iteration order of the set of common names -/
theorem irMerge_keys (target other : ODict Param) (σ : List Str) (ht : target ≠ []) (ho : other ≠ [])
    (hnd : (okeys other).Nodup) :
    okeys (irMergeParams target other σ) = okeys target ++ missingKeys target other := by
  unfold irMergeParams mergeParams
  have h1 : target.isEmpty = false := by cases target <;> simp_all
  have h2 : other.isEmpty = false := by cases other <;> simp_all
  simp only [h1, h2, Bool.false_eq_true, if_false]
  rw [foldl_addKey_keys other (missingKeys target other) _ (missingKeys_nodup target other hnd)]
  · rw [foldl_updKey_keys]
  · intro k hk
    unfold missingKeys at hk
    simp only [List.mem_filter, Bool.not_eq_true'] at hk
    refine ⟨?_, ?_⟩
    · simp only [List.contains_eq_any_beq, List.any_eq_true]
      exact ⟨k, hk.1, by simp⟩
    · rw [foldl_updKey_keys]; exact hk.2

/-- **C07 (precedence)**: for a name both sides know, documented information wins and the signature fills
    the gaps: the merged entry is `mergeParam` of the two (prose/type of the target unless absent, the
    target's default unless it is None-like and the other side has a usable one) -/
theorem updKey_at (other tgt : ODict Param) (k : Str) (o : Param) (ho : other.get? k = some o) :
    updKey other tgt k = tgt.map fun kv => if kv.1 == k then (kv.1, mergeParam kv.2 o) else kv := by
  unfold updKey; rw [ho]

/-- D3 as it is today, kernel-checked: with partial documentation the documented parameter comes first,
    not in signature order -/
theorem documented_first_witness :
    okeys (irMergeParams [(['c'], { doc := some ['x'] })] [(['a'], {}), (['b'], {}), (['c'], {})] [['c']])
      = [['c'], ['a'], ['b']] := by decide

end Py
