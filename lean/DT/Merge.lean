import DT.Rest
/-! L8 spike: `parser_utils.ir_merge` on the parameter maps, with the iteration order of the two *set*
    expressions (`other.keys() & target.keys()`, `other.keys() - target.keys()`) as explicit oracles (C07, C12). -/
namespace Py

def truthyStr : Option Str → Bool
  | some s => !s.isEmpty
  | none => false

/-- `x in none_types` for `x = param.get("default")` : absent/None, "None", NoneStr -/
def defaultIsNoneType : Option Val → Bool
  | none => true
  | some .none => true
  | some (.str s) => s == "None".toList || s == noneStr
  | _ => false

/-- `other["default"] not in {None, "None", "(None)"}` (and the key is present) -/
def otherDefaultUsable : Option Val → Bool
  | none => false
  | some .none => false
  | some (.str s) => !(s == "None".toList || s == "(None)".toList)
  | _ => true

/-- the body of the intersection loop for one name -/
def mergeParam (t o : Param) : Param :=
  { doc := if !truthyStr t.doc && truthyStr o.doc then o.doc else t.doc
    typ := if t.typ.isNone && truthyStr o.typ then o.typ else t.typ
    default := if defaultIsNoneType t.default && otherDefaultUsable o.default then o.default else t.default }

def updKey (other : ODict Param) (tgt : ODict Param) (k : Str) : ODict Param :=
  match other.get? k with
  | some o => tgt.map fun kv => if kv.1 == k then (kv.1, mergeParam kv.2 o) else kv
  | none => tgt

def addKey (other : ODict Param) (tgt : ODict Param) (k : Str) : ODict Param :=
  match other.get? k with
  | some o => tgt.set k o
  | none => tgt

/-- `ir_merge` on `params` when both are non-empty; `σi`, `σd` = the orders in which Python happens to iterate
    the intersection and the difference sets (any permutation of those sets) -/
def mergeParams (target other : ODict Param) (σi σd : List Str) : ODict Param :=
  σd.foldl (addKey other) (σi.foldl (updKey other) target)

/-! ### the intersection loop does not depend on the order -/

theorem updKey_comm (other tgt : ODict Param) (a b : Str) (hab : a ≠ b) :
    updKey other (updKey other tgt a) b = updKey other (updKey other tgt b) a := by
  unfold updKey
  cases ha : other.get? a <;> cases hb : other.get? b <;> simp only []
  rename_i oa ob
  simp only [List.map_map]
  congr 1
  funext kv
  simp only [Function.comp]
  by_cases h1 : kv.1 == a <;> by_cases h2 : kv.1 == b
  · exact absurd ((beq_iff_eq.mp h1).symm.trans (beq_iff_eq.mp h2)) hab
  · simp [h1, h2]
  · simp [h1, h2]
  · simp [h1, h2]

theorem inter_order_irrelevant (other tgt : ODict Param) (σ σ' : List Str) (hp : σ.Perm σ') (hnd : σ.Nodup) :
    σ.foldl (updKey other) tgt = σ'.foldl (updKey other) tgt := by
  apply List.Perm.foldl_eq' hp
  intro x hx y hy z
  by_cases hxy : x = y
  · subst hxy; rfl
  · exact updKey_comm other z x y hxy

/-! ### the difference loop does: a two-name witness (D2) -/

def wTarget : ODict Param := [(['c'], { doc := some ['x'] })]
def wOther : ODict Param := [(['a'], {}), (['b'], {}), (['c'], {})]

theorem diff_order_matters :
    mergeParams wTarget wOther [['c']] [['a'], ['b']] ≠ mergeParams wTarget wOther [['c']] [['b'], ['a']] := by
  decide

/-- …but only the order: the *set* of names never depends on it (no drop, no duplicate) -/
theorem addKey_keys (other tgt : ODict Param) (k : Str) :
    (addKey other tgt k).map (·.1) = tgt.map (·.1) ∨ (addKey other tgt k).map (·.1) = tgt.map (·.1) ++ [k] := by
  unfold addKey
  cases other.get? k with
  | none => exact Or.inl rfl
  | some o =>
    unfold ODict.set
    by_cases h : tgt.any (fun kv => kv.1 == k) = true
    · left
      simp only [h, if_true, List.map_map]
      apply List.map_congr_left
      intro kv _
      simp only [Function.comp]
      by_cases hk : kv.1 == k
      · simp [hk]; exact (beq_iff_eq.mp hk).symm
      · simp [hk]
    · right; simp [h]

#print axioms inter_order_irrelevant
#print axioms diff_order_matters

end Py
