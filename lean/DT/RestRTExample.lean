import DT.RestRT
/-! non-vacuity: a concrete two-parameter IR satisfies every hypothesis of `C01_rest_nodefault_partial`. -/
namespace Py

def exD : Str := ['S', 'u', 'm', ' ', 't', 'w', 'o', '.']
def exA : Triple := (['a'], ['t', 'h', 'e', ' ', 'a', '.'], ['i', 'n', 't'])
def exB : Triple := (['l', 'r'], ['s', 't', 'e', 'p', ',', ' ', 'e', '.', 'g', '.', ' ', '0', '.', '5'],
                     ['O', 'p', 't', 'i', 'o', 'n', 'a', 'l', '[', 'f', 'l', 'o', 'a', 't', ']'])

theorem trimmed_dec (s : Str) (h1 : (s.head?.map pyWs.contains) = some false)
    (h2 : (s.getLast?.map pyWs.contains) = some false) : Trimmed s := by
  constructor
  · intro c hc; rw [hc] at h1; simpa using h1
  · intro c hc; rw [hc] at h2; simpa using h2

theorem exA_ok : TripleOK exA :=
  ⟨⟨by decide, by decide, by decide, by decide, by decide, by decide, by decide⟩,
   ⟨by decide, trimmed_dec _ (by decide) (by decide), by decide, by decide, by decide, by decide, by decide⟩,
   ⟨by decide, trimmed_dec _ (by decide) (by decide), by decide, by decide, by decide, by decide, by decide⟩⟩

theorem exB_ok : TripleOK exB :=
  ⟨⟨by decide, by decide, by decide, by decide, by decide, by decide, by decide⟩,
   ⟨by decide, trimmed_dec _ (by decide) (by decide), by decide, by decide, by decide, by decide, by decide⟩,
   ⟨by decide, trimmed_dec _ (by decide) (by decide), by decide, by decide, by decide, by decide, by decide⟩⟩

example : ((emitDocstringRest (mkIR exD ([exA] ++ [exB])) true).bind fun text => parseDocstringRest text true)
    = .ok (mkIR exD ([exA] ++ [exB])) :=
  C01_rest_nodefault_partial exD [exA] exB (by decide) (trimmed_dec _ (by decide) (by decide)) (by decide)
    (by intro x hx; simp at hx; rcases hx with rfl | rfl; exact exA_ok; exact exB_ok) (by decide)

#eval (emitDocstringRest (mkIR exD ([exA] ++ [exB])) true) |> fun r => match r with | .ok t => String.ofList t | _ => "?"
end Py
