import DT.C17
/-! C17 for float defaults written `digits.digits` (what `repr` gives for the floats of the property domain that need
    no exponent): the value text survives the scan (the full stop is followed by a digit), the trimming, and both the
    un-typed (`float()`) and the typed (`literal_eval` + `float()`) value stage. The model carries a float as its
    literal token; that `float(repr(x)) == x` is CPython's. -/
namespace Py

/-- `ip.fr`: integer and fractional digits, both present -/
def floatTok (ip fr : Str) : Str := ip ++ '.' :: fr

structure FloatOK (ip fr : Str) : Prop where
  ipDigits : ip.all isAsciiDigit = true
  frDigits : fr.all isAsciiDigit = true
  ipNe : ip ≠ []
  frNe : fr ≠ []

theorem digit_not (c : Char) (h : isAsciiDigit c = true) :
    (c == '.') = false ∧ isBracket c = false ∧ [' ', '\t', '`'].contains c = false ∧ c ≠ '-' ∧ c ≠ '+' := by
  simp only [isAsciiDigit, Bool.and_eq_true, decide_eq_true_eq] at h
  have h1 : '0' ≤ c := h.1
  have h2 : c ≤ '9' := h.2
  refine ⟨?_, ?_, ?_, ?_, ?_⟩
  · rcases Decidable.em (c = '.') with rfl | hne
    · exact absurd h1 (by decide)
    · simpa using hne
  · cases hb : isBracket c with
    | false => rfl
    | true =>
      simp only [isBracket, Bool.or_eq_true, beq_iff_eq] at hb
      rcases hb with ((((rfl | rfl) | rfl) | rfl) | rfl) | rfl <;>
        first | exact absurd h1 (by decide) | exact absurd h2 (by decide)
  · rcases Decidable.em (c = ' ') with rfl | h3
    · exact absurd h1 (by decide)
    · rcases Decidable.em (c = '\t') with rfl | h4
      · exact absurd h1 (by decide)
      · rcases Decidable.em (c = '`') with rfl | h5
        · exact absurd h2 (by decide)
        · simp [h3, h4, h5]
  · rintro rfl; exact absurd h1 (by decide)
  · rintro rfl; exact absurd h1 (by decide)

theorem scanDefault_float_gen (ip fr : Str) (hi : ip.all isAsciiDigit = true) (hf : fr.all isAsciiDigit = true)
    (hfne : fr ≠ []) : scanDefault (ip ++ '.' :: fr) false = ip ++ '.' :: fr := by
  induction ip with
  | nil =>
    cases fr with
    | nil => exact absurd rfl hfne
    | cons d r =>
      simp only [List.all_cons, Bool.and_eq_true] at hf
      have hb : isBracket '.' = false := by decide
      have step : scanDefault ('.' :: d :: r) false = '.' :: scanDefault (d :: r) false := by
        rw [scanDefault]
        simp [hf.1, hb]
      simp only [List.nil_append]
      rw [step, scanDefault_digits (d :: r) (by simp [hf.1, hf.2])]
  | cons c t ih =>
    simp only [List.all_cons, Bool.and_eq_true] at hi
    obtain ⟨h1, h2, _⟩ := digit_not c hi.1
    simp only [List.cons_append, scanDefault, h1, Bool.false_and, Bool.false_eq_true, if_false, h2, Bool.or_false]
    rw [ih hi.2]

theorem scanDefault_float (ip fr : Str) (h : FloatOK ip fr) : scanDefault (floatTok ip fr) false = floatTok ip fr :=
  scanDefault_float_gen ip fr h.ipDigits h.frDigits h.frNe

theorem dropWhile_all_digits : ∀ (fr : Str), fr.all isAsciiDigit = true → fr.dropWhile isAsciiDigit = []
  | [], _ => rfl
  | a :: t, hf => by
    simp only [List.all_cons, Bool.and_eq_true] at hf
    rw [List.dropWhile_cons, hf.1, if_pos rfl, dropWhile_all_digits t hf.2]

theorem takeWhile_digits_dot (ip fr : Str) (hi : ip.all isAsciiDigit = true) :
    (ip ++ '.' :: fr).takeWhile isAsciiDigit = ip ∧ (ip ++ '.' :: fr).dropWhile isAsciiDigit = '.' :: fr := by
  have hdot : isAsciiDigit '.' = false := by decide
  induction ip with
  | nil => simp [List.takeWhile, List.dropWhile, hdot]
  | cons a t ih =>
    simp only [List.all_cons, Bool.and_eq_true] at hi
    obtain ⟨i1, i2⟩ := ih hi.2
    constructor
    · rw [List.cons_append, List.takeWhile_cons, hi.1, if_pos rfl, i1]
    · rw [List.cons_append, List.dropWhile_cons, hi.1, if_pos rfl, i2]

theorem floatTok_head (ip fr : Str) (h : FloatOK ip fr) : ∃ c r, floatTok ip fr = c :: r ∧ isAsciiDigit c = true := by
  obtain ⟨hi, _, hne, _⟩ := h
  cases ip with
  | nil => exact absurd rfl hne
  | cons c t =>
    simp only [List.all_cons, Bool.and_eq_true] at hi
    exact ⟨c, t ++ '.' :: fr, rfl, hi.1⟩

theorem floatTok_last (ip fr : Str) (h : FloatOK ip fr) : ∃ c, (floatTok ip fr).getLast? = some c ∧ isAsciiDigit c = true := by
  obtain ⟨_, hf, _, hfne⟩ := h
  have hl : (floatTok ip fr).getLast? = fr.getLast? := by
    unfold floatTok
    rw [List.getLast?_append]
    cases hg : ('.' :: fr).getLast? with
    | none => simp at hg
    | some c =>
      have : ('.' :: fr).getLast? = fr.getLast? := by
        cases fr with
        | nil => exact absurd rfl hfne
        | cons a b => simp [List.getLast?_cons_cons]
      rw [this] at hg
      simp [hg]
  cases hg : fr.getLast? with
  | none => exact absurd (List.getLast?_eq_none_iff.mp hg) hfne
  | some c =>
    refine ⟨c, by rw [hl, hg], ?_⟩
    exact List.all_eq_true.mp hf c (List.mem_of_getLast? hg)

theorem float_trimStable (ip fr : Str) (h : FloatOK ip fr) : TrimStable (floatTok ip fr) := by
  obtain ⟨c, r, hc, hd⟩ := floatTok_head ip fr h
  obtain ⟨l, hl, hld⟩ := floatTok_last ip fr h
  refine ⟨?_, ?_, ?_⟩
  · intro x hx
    rw [hc] at hx
    simp only [List.head?_cons, Option.some.injEq] at hx
    subst hx
    exact (digit_not c hd).2.2.1
  · intro x hx
    rw [hl] at hx
    simp only [Option.some.injEq] at hx
    subst hx
    exact (digit_not l hld).2.2.1
  · unfold endsWith
    have hr : (floatTok ip fr).reverse.head? = some l := by rw [List.head?_reverse]; exact hl
    cases hrev : (floatTok ip fr).reverse with
    | nil => simp [List.isPrefixOf]
    | cons a b =>
      rw [hrev] at hr
      simp only [List.head?_cons, Option.some.injEq] at hr
      subst hr
      have : a ≠ '.' := by
        have := (digit_not a hld).1
        simpa using this
      simp [List.isPrefixOf, Ne.symm this]

theorem isFloatTok_float (ip fr : Str) (h : FloatOK ip fr) : isFloatTok (floatTok ip fr) = true := by
  obtain ⟨hi, hf, hne, hfne⟩ := h
  obtain ⟨c, r, hc, hd⟩ := floatTok_head ip fr ⟨hi, hf, hne, hfne⟩
  have hsign : dropSign (floatTok ip fr) = floatTok ip fr := by
    rw [hc]
    have h1 := (digit_not c hd).2.2.2.1
    have h2 := (digit_not c hd).2.2.2.2
    unfold dropSign
    split
    · rename_i heq; simp only [List.cons.injEq] at heq; exact absurd heq.1 h1
    · rename_i heq; simp only [List.cons.injEq] at heq; exact absurd heq.1 h2
    · rfl
  have htw : (floatTok ip fr).takeWhile isAsciiDigit = ip := (takeWhile_digits_dot ip fr hi).1
  have hdw : (floatTok ip fr).dropWhile isAsciiDigit = '.' :: fr := (takeWhile_digits_dot ip fr hi).2
  have hfd : fr.dropWhile isAsciiDigit = [] := dropWhile_all_digits fr hf
  unfold isFloatTok
  simp only [hsign, htw, hdw, hfd, expOk, Bool.and_true]
  simp [isEmpty_iff_false hne]
where
  isEmpty_iff_false {s : Str} (h : s ≠ []) : s.isEmpty = false := by
    cases s with
    | nil => exact absurd rfl h
    | cons _ _ => rfl

theorem float_not_decimal (ip fr : Str) : isDecimal (floatTok ip fr) = false := by
  have : (floatTok ip fr).all isAsciiDigit = false := by
    unfold floatTok
    simp only [List.all_append, List.all_cons]
    have : isAsciiDigit '.' = false := by decide
    simp [this]
  simp [isDecimal, this]

theorem float_head_ne (ip fr : Str) (h : FloatOK ip fr) (x : Char) (t : Str) (hx : isAsciiDigit x = false) :
    floatTok ip fr ≠ x :: t := by
  obtain ⟨c, r, hc, hd⟩ := floatTok_head ip fr h
  rw [hc]
  intro e
  simp only [List.cons.injEq] at e
  rw [e.1] at hd
  rw [hd] at hx
  exact absurd hx (by simp)

theorem float_strip_ws (ip fr : Str) (h : FloatOK ip fr) : strip pyWs (floatTok ip fr) = floatTok ip fr := by
  obtain ⟨c, r, hc, hd⟩ := floatTok_head ip fr h
  obtain ⟨l, hl, hld⟩ := floatTok_last ip fr h
  have notws : ∀ x, isAsciiDigit x = true → pyWs.contains x = false := by
    intro x hx
    simp only [isAsciiDigit, Bool.and_eq_true, decide_eq_true_eq] at hx
    have h1 : '0' ≤ x := hx.1
    cases hw : pyWs.contains x with
    | false => rfl
    | true =>
      simp only [pyWs, List.contains_cons, List.contains_nil, Bool.or_false, Bool.or_eq_true, beq_iff_eq] at hw
      rcases hw with rfl | rfl | rfl | rfl | rfl | rfl <;> exact absurd h1 (by decide)
  apply strip_keep
  · intro x hx; rw [hc] at hx; simp only [List.head?_cons, Option.some.injEq] at hx; subst hx; exact notws _ hd
  · intro x hx; rw [hl] at hx; simp only [Option.some.injEq] at hx; subst hx; exact notws _ hld

theorem float_strip_blank (ip fr : Str) (h : FloatOK ip fr) : strip [' ', '\t'] (floatTok ip fr) = floatTok ip fr := by
  obtain ⟨c, r, hc, hd⟩ := floatTok_head ip fr h
  obtain ⟨l, hl, hld⟩ := floatTok_last ip fr h
  have notb : ∀ x, isAsciiDigit x = true → [' ', '\t'].contains x = false := by
    intro x hx
    have := (digit_not x hx).2.2.1
    simp only [List.contains_cons, List.contains_nil, Bool.or_false, Bool.or_eq_false_iff] at this ⊢
    exact ⟨this.1, this.2.1⟩
  apply strip_keep
  · intro x hx; rw [hc] at hx; simp only [List.head?_cons, Option.some.injEq] at hx; subst hx; exact notb _ hd
  · intro x hx; rw [hl] at hx; simp only [Option.some.injEq] at hx; subst hx; exact notb _ hld

/-- the un-typed value stage: `float()` reads the token -/
theorem untypedValue_float (ip fr : Str) (h : FloatOK ip fr) : untypedValue (floatTok ip fr) = .ok (.float (floatTok ip fr)) := by
  unfold untypedValue
  have h1 := float_not_decimal ip fr
  have h2 : ((floatTok ip fr).head? == some '-') = false := by
    obtain ⟨c, r, hc, hd⟩ := floatTok_head ip fr h
    rw [hc]
    have := (digit_not c hd).2.2.2.1
    simp [this]
  have h3 : (floatTok ip fr == "True".toList) = false := by
    have := float_head_ne ip fr h 'T' "rue".toList (by decide)
    simpa using this
  have h4 : (floatTok ip fr == "False".toList) = false := by
    have := float_head_ne ip fr h 'F' "alse".toList (by decide)
    simpa using this
  simp only [h1, Bool.false_eq_true, if_false, h2, Bool.false_and, h3, h4, float_strip_ws ip fr h,
    isFloatTok_float ip fr h, Bool.or_true, if_true]

/-- `literal_eval` reads the token as a float -/
theorem literalEval_float (ip fr : Str) (h : FloatOK ip fr) : literalEval (floatTok ip fr) = .ok (.float (floatTok ip fr)) := by
  unfold literalEval
  have hne : ∀ (x : Char) (t : Str), isAsciiDigit x = false → (floatTok ip fr == x :: t) = false := by
    intro x t hx
    have := float_head_ne ip fr h x t hx
    simpa using this
  have h1 : (floatTok ip fr == "None".toList) = false := hne 'N' "one".toList (by decide)
  have h2 : (floatTok ip fr == "True".toList) = false := hne 'T' "rue".toList (by decide)
  have h3 : (floatTok ip fr == "False".toList) = false := hne 'F' "alse".toList (by decide)
  have h4 : isIntTok (floatTok ip fr) = false := by
    obtain ⟨c, r, hc, hd⟩ := floatTok_head ip fr h
    have hm : c ≠ '-' := (digit_not c hd).2.2.2.1
    have hp : c ≠ '+' := (digit_not c hd).2.2.2.2
    have := float_not_decimal ip fr
    unfold isIntTok
    rw [hc] at this ⊢
    split
    · rename_i heq; simp only [List.cons.injEq] at heq; exact absurd heq.1 hm
    · rename_i heq; simp only [List.cons.injEq] at heq; exact absurd heq.1 hp
    · exact this
  simp only [float_strip_blank ip fr h, bne_self_eq_false, Bool.false_eq_true, if_false, h1, h2, h3, h4,
    isFloatTok_float ip fr h, if_true]

/-- **a float default `ip.fr`, no scalar type declared: the same token comes back (both modes)** -/
theorem C17_float (p ip fr : Str) (typ : Option Str) (keep : Bool) (h : FloatOK ip fr)
    (ht : ∀ t, typ = some t → simpleTypes.contains t = false)
    (hp : NoOccBefore phrase0 (p ++ announce ++ floatTok ip fr) (p.length + 1)) :
    extractDefault (p ++ announce ++ floatTok ip fr) typ keep
      = .ok ⟨if keep then p ++ announce ++ floatTok ip fr else p, some (.float (floatTok ip fr))⟩ := by
  have hscan := scanDefault_float ip fr h
  have hval : valueStage (trimStage (floatTok ip fr)) typ = .ok (.float (floatTok ip fr)) := by
    rw [trimStage_stable _ (float_trimStable ip fr h)]
    unfold valueStage
    cases typ with
    | none => simp only [Bool.false_eq_true, if_false, untypedValue_float ip fr h]
    | some t => simp only [ht t rfl, Bool.false_and, Bool.false_eq_true, if_false, untypedValue_float ip fr h]
  cases keep with
  | true => rw [extract_announced_keep p _ typ hp hscan, hval]; rfl
  | false => rw [extract_announced_remove p _ typ hp hscan, hval]; rfl

/-- **... and with `:type: float`** - the typed branch (`literal_eval` + `float()`) -/
theorem C17_float_typed (p ip fr : Str) (keep : Bool) (h : FloatOK ip fr)
    (hp : NoOccBefore phrase0 (p ++ announce ++ floatTok ip fr) (p.length + 1)) :
    extractDefault (p ++ announce ++ floatTok ip fr) (some "float".toList) keep
      = .ok ⟨if keep then p ++ announce ++ floatTok ip fr else p, some (.float (floatTok ip fr))⟩ := by
  have hscan := scanDefault_float ip fr h
  have hnn : noneTypes.contains (floatTok ip fr) = false := by
    have e1 : (floatTok ip fr == "None".toList) = false := by
      have := float_head_ne ip fr h 'N' "one".toList (by decide); simpa using this
    have e2 : (floatTok ip fr == "```(None)```".toList) = false := by
      have := float_head_ne ip fr h '`' "``(None)```".toList (by decide); simpa using this
    have n1 : floatTok ip fr ≠ ['N', 'o', 'n', 'e'] := float_head_ne ip fr h 'N' _ (by decide)
    have n2 : floatTok ip fr ≠ ['`', '`', '`', '(', 'N', 'o', 'n', 'e', ')', '`', '`', '`'] := float_head_ne ip fr h '`' _ (by decide)
    simp [noneTypes, n1, n2]
  have hval : valueStage (trimStage (floatTok ip fr)) (some "float".toList) = .ok (.float (floatTok ip fr)) := by
    rw [trimStage_stable _ (float_trimStable ip fr h)]
    unfold valueStage
    have hst : simpleTypes.contains "float".toList = true := by decide
    simp only [hst, hnn, Bool.not_false, Bool.and_self, if_true, Option.getD_some, literalEval_float ip fr h, Res.bind]
    rfl
  cases keep with
  | true => rw [extract_announced_keep p _ _ hp hscan, hval]; rfl
  | false => rw [extract_announced_remove p _ _ hp hscan, hval]; rfl

example : FloatOK "0".toList "5".toList := ⟨by decide, by decide, by decide, by decide⟩
example : extractDefault "the rate. Defaults to 0.25".toList (some "float".toList) false =
    .ok ⟨"the rate.".toList, some (.float "0.25".toList)⟩ := by decide +kernel

/-! ### the closed value texts in the other typing (companions of `C17_true` / `C17_false_typed`) -/

/-- a closed value text `txt` whose scan and value stage are known: both modes, any prose -/
theorem C17_closed (p txt : Str) (typ : Option Str) (v : Val) (keep : Bool)
    (hscan : scanDefault txt false = txt) (hval : valueStage (trimStage txt) typ = .ok v)
    (hp : NoOccBefore phrase0 (p ++ announce ++ txt) (p.length + 1)) :
    extractDefault (p ++ announce ++ txt) typ keep = .ok ⟨if keep then p ++ announce ++ txt else p, some v⟩ := by
  cases keep with
  | true => rw [extract_announced_keep p _ typ hp hscan, hval]; rfl
  | false => rw [extract_announced_remove p _ typ hp hscan, hval]; rfl

theorem C17_false (p : Str) (keep : Bool) (hp : NoOccBefore phrase0 (p ++ announce ++ "False".toList) (p.length + 1)) :
    extractDefault (p ++ announce ++ "False".toList) none keep
      = .ok ⟨if keep then p ++ announce ++ "False".toList else p, some (.bool false)⟩ :=
  C17_closed p _ none _ keep (by decide) (by decide) hp

theorem C17_true_typed (p : Str) (keep : Bool) (hp : NoOccBefore phrase0 (p ++ announce ++ "True".toList) (p.length + 1)) :
    extractDefault (p ++ announce ++ "True".toList) (some "bool".toList) keep
      = .ok ⟨if keep then p ++ announce ++ "True".toList else p, some (.bool true)⟩ :=
  C17_closed p _ _ _ keep (by decide) (by decide) hp

/-- `None` as written by `set_default_doc` for a None default is read back as the STRING "None" when no scalar type is
    declared (what the ReST parser hands on; `Kinds.isNoneVal` treats it as "no value") -/
theorem C17_none_untyped (p : Str) (keep : Bool) (hp : NoOccBefore phrase0 (p ++ announce ++ "None".toList) (p.length + 1)) :
    extractDefault (p ++ announce ++ "None".toList) none keep
      = .ok ⟨if keep then p ++ announce ++ "None".toList else p, some (.str "None".toList)⟩ :=
  C17_closed p _ none _ keep (by decide) (by decide) hp

end Py
