import DT.DocEmit
/-! `docstring_parsers._scan_phase_numpydoc_and_google` (and `_return_parse_phase_numpydoc_and_google`),
    statement by statement: a docstring -> summary text, the argument units (each a list of lines), the
    return lines / units, and what follows the sections. -/
namespace Py
namespace DocScan
open DocEmit

/-- the value stored under the return token: lines (cut out of the line list) or units (cut out of the stack) -/
inductive Rets where
  | lines (ls : List Str)
  | units (us : List (List Str))
deriving DecidableEq, Repr

structure Scanned where
  doc : Str := []
  args : List (List Str) := []
  rets : Rets := .lines []
  afterward : Option (List Str) := none
deriving DecidableEq, Repr

def isPySpace (c : Char) : Bool := pyWs.contains c || (c.toNat ≥ 0x1c && c.toNat ≤ 0x1f)

/-- number of leading white-space characters -/
def lws (l : Str) : Nat := (l.takeWhile isPySpace).length

/-- first occurrence of `tok` in `s` (`location_within` with one token): start index -/
def findSub (tok : Str) : Str → Nat → Option Nat
  | [], i => if tok.isEmpty then some i else none
  | c :: t, i => if tok.isPrefixOf (c :: t) then some i else findSub tok t (i + 1)

/-- `str.splitlines()` for texts whose only line separator is `\n` -/
def splitLines (s : Str) : List Str :=
  let parts := splitOnChar '\n' s
  match parts.getLast? with
  | some [] => parts.dropLast
  | _ => parts

def otherSeparators (s : Str) : Bool :=
  s.any fun c => c == '\r' || c == '\x0b' || c == '\x0c' || (c.toNat ≥ 0x1c && c.toNat ≤ 0x1e) || c.toNat == 0x85 || c.toNat == 0x2028 || c.toNat == 0x2029

def retsEmpty : Rets → Bool
  | .lines l => l.isEmpty
  | .units u => u.isEmpty

/-- `count_iter_items(takewhile(partial(le, return_indent), map(indent, lines)))` -/
def countWhileIndented (returnIndent : Nat) (ls : List Str) : Nat :=
  (ls.takeWhile fun l => returnIndent ≤ lws l).length

/-- state of the line loop -/
structure Loop where
  stacker : List (List Str) := []
  sc : Scanned := {}
  nsArgs : Bool := true        -- the namespace is the argument token (else the return token)
  broke : Bool := false

def setNs (lp : Loop) (us : List (List Str)) (append : Bool) : Scanned :=
  if lp.nsArgs then { lp.sc with args := (if append then lp.sc.args else []) ++ us }
  else { lp.sc with rets := .units ((if append then (match lp.sc.rets with | .units u => u | .lines _ => []) else []) ++ us) }

/-- the body of `for line_no, line in enumerate(docstring_lines)`, from line `lineNo` on -/
def scanLoop (style : Style) (lines : List Str) (firstIndent : Nat) : Nat → Nat → Loop → Res Loop
  | 0, _, lp => .ok lp
  | fuel + 1, lineNo, lp =>
    match lines[lineNo]? with
    | none => .ok lp
    | some line =>
      let indent := lws line
      if indent == firstIndent then
        scanLoop style lines firstIndent fuel (lineNo + 1) { lp with stacker := lp.stacker ++ [[line]] }
      else if indent < firstIndent then
        -- scanned[namespace] = scanned.get(namespace, []) + deepcopy(stacker); stacker.clear()
        let sc0 := setNs lp lp.stacker true
        let retTok := returnToken style
        let next := lines[lineNo + 1]?
        let viaNextLine := lines.length > lineNo + 3 && next == some retTok
        if viaNextLine then
          let returnIndent := lws (lines[lineNo + 3]?.getD [])
          let nsi := countWhileIndented returnIndent (lines.drop (lineNo + 3))
          let rets := (lines.drop (lineNo + 2)).take (1 + nsi)
          let after := lines.drop (lineNo + 3 + nsi)
          .ok { lp with stacker := [], broke := true,
                        sc := { sc0 with rets := .lines rets, afterward := if after.isEmpty then sc0.afterward else some after } }
        else
          let after0 := lines.drop (lineNo + 1)
          if after0.length > 1 && after0.head? == some retTok then
            let returnIndent := lws (after0[1]?.getD [])
            let nsi := countWhileIndented returnIndent (after0.drop 2)
            let rets := (after0.drop 1).take (nsi + 1)
            let after : List Str := if nsi == 0 then [] else after0.drop (nsi + 2)
            .ok { lp with stacker := [], broke := true,
                          sc := { sc0 with rets := .lines rets, afterward := if after.isEmpty then sc0.afterward else some after } }
          else
            .ok { lp with stacker := [], broke := true,
                          sc := { sc0 with afterward := if after0.isEmpty then sc0.afterward else some after0 } }
      else
        -- stacker[-1].append(line)
        match lp.stacker.getLast? with
        | none => .raises "IndexError"
        | some last =>
          scanLoop style lines firstIndent fuel (lineNo + 1) { lp with stacker := lp.stacker.dropLast ++ [last ++ [line]] }

/-- `_return_parse_phase_numpydoc_and_google`: from the end, the first `i` with `i - 1 > 0` and
    `stacker[i] + stacker[i-1] == ["-------", "Returns"]` -/
def returnSplit (stacker : List (List Str)) : Nat → Option Nat
  | 0 => none
  | i + 1 =>
    -- candidate index `i` (counting down from len-1)
    if i ≥ 2 && (stacker[i]?.getD [] ++ stacker[i - 1]?.getD []) == ["-------".toList, "Returns".toList] then some i
    else returnSplit stacker i

def scanPhase (style : Style) (docstring : Str) : Res Scanned :=
  if otherSeparators docstring then .unmodelled "line separators other than \\n" else
  let argTok := argToken style
  let retTok := returnToken style
  let found : Option (Nat × Str × Bool) :=
    match findSub argTok docstring 0 with
    | some i => some (i, argTok, true)
    | none => match findSub retTok docstring 0 with
      | some i => some (i, retTok, false)
      | none => none
  match found with
  | none => .ok { doc := strip pyWs docstring }
  | some (start, tok, nsArgs) =>
    let doc := strip pyWs (docstring.take start)
    let rest := docstring.drop (start + tok.length + 1)
    let lines := splitLines rest
    match lines with
    | [] => .raises "IndexError"
    | l0 :: _ =>
      (scanLoop style lines (lws l0) (lines.length + 1) 0 { sc := { doc := doc }, nsArgs := nsArgs }).bind fun lp =>
      -- Split out return, if present and not already set
      let (stacker, sc) : List (List Str) × Scanned :=
        if retsEmpty lp.sc.rets && style == .numpydoc then
          match returnSplit lp.stacker lp.stacker.length with
          | some i => (lp.stacker.take (i - 1), { lp.sc with rets := .units (lp.stacker.drop (i + 1)) })
          | none => (lp.stacker, lp.sc)
        else (lp.stacker, lp.sc)
      if stacker.isEmpty then .ok sc
      else .ok (setNs { lp with sc := sc } stacker false)

end DocScan
end Py
