import DT.ClassAttr
import DT.KindsTheorems
/-! `attrRT` (statement level) agrees with `Kinds.normClassParam` (interface level) on the typed,
    literal-default part of the class domain: four staged theorems by shape of the declared type, and
    the corollary `attrRT_eq_norm`. -/
namespace Py
namespace ClassAttr
open Kinds

/-- the string starts and ends with the same quote mark -/
def quoteDelimited (s : Str) : Bool :=
  match s.head?, s.getLast? with
  | some a, some b => a == b && quoteChar a
  | _, _ => false

/-- a string default the class kind carries verbatim -/
def strOk (s : Str) : Prop :=
  s ≠ [] ∧ quoteDelimited s = false ∧ s ≠ sNone ∧ s ≠ noneStr ∧ codeQuoted s = false

/-- a non-string literal default -/
def numOk : Val → Prop
  | .bool _ => True
  | .int _ _ => True
  | .float _ => True
  | _ => False

theorem setValue_num (v : Val) (h : numOk v) : setValue v = v := by
  cases v <;> simp_all [setValue, numOk]

theorem isNoneType_num (v : Val) (h : numOk v) : isNoneType v = false := by
  cases v <;> simp_all [isNoneType, numOk]

theorem isNoneVal_num (v : Val) (h : numOk v) : isNoneVal v = false := by
  cases v <;> simp_all [isNoneVal, numOk]

theorem quote_plain (s : Str) (hne : s ≠ []) (hq : quoteDelimited s = false) : quote s = ['"'] ++ s ++ ['"'] := by
  cases s with
  | nil => exact absurd rfl hne
  | cons c t =>
    have hl : (c :: t).getLast? = some ((c :: t).getLast (by simp)) := List.getLast?_eq_some_getLast (by simp)
    unfold quote
    rw [hl]
    simp only
    have : ((c == (c :: t).getLast (by simp)) && (c == '\'' || c == '"')) = false := by
      unfold quoteDelimited at hq
      rw [hl] at hq
      simp only [List.head?_cons] at hq
      unfold quoteChar at hq
      rw [Bool.or_comm] at hq
      exact hq
    simp [this]

theorem setValue_quoted (s : Str) (hne : s ≠ []) : setValue (.str (['"'] ++ s ++ ['"'])) = .str s := by
  have hh : (['"'] ++ s ++ ['"']).head? = some '"' := by simp
  have hl : (['"'] ++ s ++ ['"']).getLast? = some '"' := by
    have : ['"'] ++ s ++ ['"'] = ('"' :: s) ++ ['"'] := by simp
    rw [this, List.getLast?_concat]
  have hlen : (['"'] ++ s ++ ['"']).length > 2 := by
    cases s with
    | nil => exact absurd rfl hne
    | cons c t => simp
  have hd : ((['"'] ++ s ++ ['"']).drop 1).dropLast = s := by simp
  show (match (['"'] ++ s ++ ['"']).head?, (['"'] ++ s ++ ['"']).getLast? with
    | some a, some b =>
      if (decide ((['"'] ++ s ++ ['"']).length > 2) && a == b && quoteChar a) = true
      then Val.str (((['"'] ++ s ++ ['"']).drop 1).dropLast) else Val.str (['"'] ++ s ++ ['"'])
    | _, _ => Val.str (['"'] ++ s ++ ['"'])) = Val.str s
  rw [hh, hl]
  simp only [hlen, decide_true, Bool.true_and, beq_self_eq_true, quoteChar, Bool.true_or, if_true, hd]

theorem unquote_plain (s : Str) (hq : quoteDelimited s = false) : unquote s = s := by
  unfold unquote
  unfold quoteDelimited at hq
  cases hh : s.head? with
  | none => simp
  | some a =>
    cases hl : s.getLast? with
    | none => simp
    | some b =>
      rw [hh, hl] at hq
      simp only at hq
      simp only
      have : (decide (s.length > 1) && a == b && quoteChar a) = false := by
        rw [Bool.and_assoc, hq]; simp
      simp [this]

/-- `_infer_default` leaves a typed entry with a plain string default alone -/
theorem inferDefault_str (t : Str) (q : Bool) (s : Str) (hq : needsQuoting (some t) = .ok q) (hs : strOk s) :
    inferDefault (some t) (.str s) = .ok (some t, .str s) := by
  obtain ⟨_, hqd, hn1, hn2, hc⟩ := hs
  unfold inferDefault
  have h1 : isNoneType (.str s) = false := by simp [isNoneType, hn1, hn2]
  simp only [h1, Bool.false_eq_true, if_false, hq, Res.bind, unquote_plain s hqd, hc, Bool.false_and]

theorem inferDefault_num (t : Str) (q : Bool) (v : Val) (hq : needsQuoting (some t) = .ok q) (hv : numOk v) :
    inferDefault (some t) v = .ok (some t, v) := by
  unfold inferDefault
  simp only [isNoneType_num v hv, Bool.false_eq_true, if_false, hq, Res.bind]
  cases v <;> simp_all [numOk]

theorem inferDefault_noneStr (t : Str) (q : Bool) (hq : needsQuoting (some t) = .ok q) :
    inferDefault (some t) (.str noneStr) = .ok (some t, .str noneStr) := by
  unfold inferDefault
  have h1 : isNoneType (.str noneStr) = true := by simp [isNoneType]
  have h2 : unquote noneStr = noneStr := by decide
  simp only [h1, if_true, hq, Res.bind, h2]
  simp

/-! ### the four shapes of the declared type -/

/-- the default after `elif default == NoneStr: default = None` -/
def dfltOf (p : Param) : Option Val :=
  match p.default with
  | some (.str s) => if s == noneStr then some .none else p.default
  | d => d

theorem param2ast_typed (p : Param) (t : Str) (ht : p.typ = some t) :
    param2ast p =
    (needsQuoting (some t)).bind fun q =>
    if q then
      match dfltOf p with
      | some v =>
        if truthy v then
          match v with
          | .str s => .ok ⟨t, .const (setValue (.str (quote s)))⟩
          | _ => .raises "AttributeError"
        else .ok ⟨t, .const (setValue ((simpleZero t).getD .none))⟩
      | none => .ok ⟨t, .const (setValue ((simpleZero t).getD .none))⟩
    else if isScalar t then
      let v := match dfltOf p with | some v => if truthy v then v else zeroOf t | none => zeroOf t
      .ok ⟨t, .const (setValue v)⟩
    else if t == tDict || startsWith t ['*'] then
      if p.default.isSome then .unmodelled "dict-typed entry with a default" else .ok ⟨tDict, .dict⟩
    else
      match p.default with
      | none => .ok ⟨t, .const .none⟩
      | some _ =>
        match dfltOf p with
        | some (.str s) =>
          if codeQuoted s then
            (if (s.drop 3).dropLast.dropLast.dropLast == sNone || (s.drop 3).dropLast.dropLast.dropLast == ['(', 'N', 'o', 'n', 'e', ')']
             then .ok ⟨t, .const .none⟩
             else .ok ⟨t, .const (.str s)⟩)
          else if numericText s then .unmodelled "a str default that reads as a number under a generic type"
          else if s == sNone then .ok ⟨t, .const .none⟩
          else if s == ['T', 'r', 'u', 'e'] then .ok ⟨t, .const (.bool true)⟩
          else if s == ['F', 'a', 'l', 's', 'e'] then .ok ⟨t, .const (.bool false)⟩
          else if identText s then .ok ⟨t, .expr s⟩
          else .unmodelled "a str default parsed as an expression under a generic type"
        | some v => .ok ⟨t, .const (setValue v)⟩
        | none => .ok ⟨t, .const .none⟩ := by
  unfold param2ast dfltOf
  rw [ht]
  cases p.default <;> rfl

/-- absent, `None` or `NoneStr` -/
def noDefault (p : Param) : Prop := p.default = none ∨ p.default = some .none ∨ p.default = some (.str noneStr)

theorem dfltOf_noDefault (p : Param) (h : noDefault p) : dfltOf p = none ∨ dfltOf p = some .none := by
  unfold dfltOf
  rcases h with h | h | h <;> rw [h] <;> simp

theorem setValue_zeroOf (t : Str) : setValue (zeroOf t) = zeroOf t := by
  unfold zeroOf
  split
  · rfl
  · split
    · rfl
    · split
      · rfl
      · rfl

/-- **scalar, not str** (`int`, `float`, `bool`): without a default the attribute gets the zero value of the
    type; a truthy literal is kept -/
theorem attrRT_scalar_nodefault (p : Param) (t : Str) (ht : p.typ = some t) (hq : needsQuoting (some t) = .ok false)
    (hs : isScalar t = true) (hz : numOk (zeroOf t)) (hd : noDefault p) :
    attrRT p = .ok { p with typ := some t, default := some (zeroOf t) } := by
  unfold attrRT
  rw [param2ast_typed p t ht, hq]
  have hv : (match dfltOf p with | some v => if truthy v then v else zeroOf t | none => zeroOf t) = zeroOf t := by
    rcases dfltOf_noDefault p hd with h | h <;> rw [h] <;> simp [truthy]
  simp only [Res.bind, Bool.false_eq_true, if_false, hs, if_true, hv, setValue_zeroOf]
  have hp : attrParse ⟨t, .const (zeroOf t)⟩ = .ok (t, zeroOf t) := by
    unfold attrParse
    cases hzz : zeroOf t <;> simp_all [numOk]
  rw [hp]
  simp only [inferDefault_num t false (zeroOf t) hq hz]

theorem attrRT_scalar_literal (p : Param) (t : Str) (v : Val) (ht : p.typ = some t)
    (hq : needsQuoting (some t) = .ok false) (hs : isScalar t = true) (hv : numOk v) (htr : truthy v = true)
    (hd : p.default = some v) :
    attrRT p = .ok { p with typ := some t, default := some v } := by
  unfold attrRT
  rw [param2ast_typed p t ht, hq]
  have hdf : dfltOf p = some v := by
    unfold dfltOf; rw [hd]; cases v <;> simp_all [numOk]
  simp only [Res.bind, Bool.false_eq_true, if_false, hs, if_true, hdf, htr, setValue_num v hv]
  have hp : attrParse ⟨t, .const v⟩ = .ok (t, v) := by
    unfold attrParse
    cases v <;> simp_all [numOk]
  rw [hp]
  simp only [inferDefault_num t false v hq hv]

/-- **str-like types** (`str`, `Optional[str]`, `Literal['a', 'b']`, …): a plain string default is quoted by
    `quote`, unquoted by `set_value` and comes back verbatim -/
theorem attrRT_strlike_literal (p : Param) (t s : Str) (ht : p.typ = some t) (hq : needsQuoting (some t) = .ok true)
    (hs : strOk s) (hd : p.default = some (.str s)) :
    attrRT p = .ok { p with typ := some t, default := some (.str s) } := by
  have hs' := hs
  obtain ⟨hne, hqd, hn1, hn2, hc⟩ := hs
  unfold attrRT
  rw [param2ast_typed p t ht, hq]
  have hdf : dfltOf p = some (.str s) := by unfold dfltOf; rw [hd]; simp [hn2]
  have htr : truthy (.str s) = true := by simp [truthy, hne]
  simp only [Res.bind, if_true, hdf, htr, quote_plain s hne hqd, setValue_quoted s hne]
  have hp : attrParse ⟨t, .const (.str s)⟩ = .ok (t, .str s) := by unfold attrParse; rfl
  rw [hp]
  simp only [inferDefault_str t true s hq hs']

theorem attrRT_str_nodefault (p : Param) (ht : p.typ = some tStr) (hd : noDefault p) :
    attrRT p = .ok { p with typ := some tStr, default := some (.str []) } := by
  have hq : needsQuoting (some tStr) = .ok true := by decide
  unfold attrRT
  rw [param2ast_typed p tStr ht, hq]
  have hz : (simpleZero tStr).getD .none = .str [] := by decide
  have hbody : (match dfltOf p with
      | some v =>
        if truthy v then
          match v with
          | .str s => (Res.ok ⟨tStr, .const (setValue (.str (quote s)))⟩ : Res Attr)
          | _ => .raises "AttributeError"
        else .ok ⟨tStr, .const (setValue ((simpleZero tStr).getD .none))⟩
      | none => .ok ⟨tStr, .const (setValue ((simpleZero tStr).getD .none))⟩) = .ok ⟨tStr, .const (.str [])⟩ := by
    rcases dfltOf_noDefault p hd with h | h <;> rw [h] <;> simp [truthy, hz, setValue]
  simp only [Res.bind, if_true, hbody]
  have hp : attrParse ⟨tStr, .const (.str [])⟩ = .ok (tStr, .str []) := by unfold attrParse; rfl
  rw [hp]
  have : inferDefault (some tStr) (.str []) = .ok (some tStr, .str []) := by decide
  simp only [this]

/-- str-like but not `str` itself, and every other non-scalar type: without a default the attribute is `None`,
    read back as `NoneStr` -/
theorem attrRT_nonscalar_nodefault (p : Param) (t : Str) (q : Bool) (ht : p.typ = some t)
    (hq : needsQuoting (some t) = .ok q) (hs : isScalar t = false)
    (hdict : (t == tDict || startsWith t ['*']) = false) (hd : noDefault p) :
    attrRT p = .ok { p with typ := some t, default := some vNoneStr } := by
  unfold attrRT
  rw [param2ast_typed p t ht, hq]
  have hz : (simpleZero t).getD .none = .none := by simp [simpleZero, hs]
  have hattr : (if q = true then
      match dfltOf p with
      | some v =>
        if truthy v then
          match v with
          | .str s => (Res.ok ⟨t, .const (setValue (.str (quote s)))⟩ : Res Attr)
          | _ => .raises "AttributeError"
        else .ok ⟨t, .const (setValue ((simpleZero t).getD .none))⟩
      | none => .ok ⟨t, .const (setValue ((simpleZero t).getD .none))⟩
    else if isScalar t then
      let v := match dfltOf p with | some v => if truthy v then v else zeroOf t | none => zeroOf t
      .ok ⟨t, .const (setValue v)⟩
    else if t == tDict || startsWith t ['*'] then
      if p.default.isSome then .unmodelled "dict-typed entry with a default" else .ok ⟨tDict, .dict⟩
    else
      match p.default with
      | none => .ok ⟨t, .const .none⟩
      | some _ =>
        match dfltOf p with
        | some (.str s) =>
          if codeQuoted s then
            (if (s.drop 3).dropLast.dropLast.dropLast == sNone || (s.drop 3).dropLast.dropLast.dropLast == ['(', 'N', 'o', 'n', 'e', ')']
             then .ok ⟨t, .const .none⟩
             else .ok ⟨t, .const (.str s)⟩)
          else if numericText s then .unmodelled "a str default that reads as a number under a generic type"
          else if s == sNone then .ok ⟨t, .const .none⟩
          else if s == ['T', 'r', 'u', 'e'] then .ok ⟨t, .const (.bool true)⟩
          else if s == ['F', 'a', 'l', 's', 'e'] then .ok ⟨t, .const (.bool false)⟩
          else if identText s then .ok ⟨t, .expr s⟩
          else .unmodelled "a str default parsed as an expression under a generic type"
        | some v => .ok ⟨t, .const (setValue v)⟩
        | none => .ok ⟨t, .const .none⟩) = .ok ⟨t, .const .none⟩ := by
    cases q with
    | true =>
      simp only [if_true]
      rcases dfltOf_noDefault p hd with h | h <;> rw [h] <;> simp [truthy, hz, setValue]
    | false =>
      simp only [Bool.false_eq_true, if_false, hs, hdict]
      rcases hd with h | h | h
      · rw [h]
      · have : dfltOf p = some .none := by unfold dfltOf; rw [h]
        rw [h, this]; simp [setValue]
      · have : dfltOf p = some .none := by unfold dfltOf; rw [h]; simp
        rw [h, this]; simp [setValue]
  simp only [Res.bind, hattr]
  have hp : attrParse ⟨t, .const .none⟩ = .ok (t, .str noneStr) := by unfold attrParse; rfl
  rw [hp]
  simp only [inferDefault_noneStr t q hq]
  rfl

/-- a generic type that does not mention `str` (`Optional[int]`, `List[float]`, a dotted name): a numeric or
    boolean default is kept whatever its truthiness -/
theorem attrRT_generic_literal (p : Param) (t : Str) (v : Val) (ht : p.typ = some t)
    (hq : needsQuoting (some t) = .ok false) (hs : isScalar t = false)
    (hdict : (t == tDict || startsWith t ['*']) = false) (hv : numOk v) (hd : p.default = some v) :
    attrRT p = .ok { p with typ := some t, default := some v } := by
  unfold attrRT
  rw [param2ast_typed p t ht, hq]
  have hdf : dfltOf p = some v := by
    unfold dfltOf; rw [hd]; cases v <;> simp_all [numOk]
  simp only [Res.bind, Bool.false_eq_true, if_false, hs, hdict, hd, hdf]
  have hm : (match some v with
      | some (.str s) =>
        if codeQuoted s then
          (if (s.drop 3).dropLast.dropLast.dropLast == sNone || (s.drop 3).dropLast.dropLast.dropLast == ['(', 'N', 'o', 'n', 'e', ')']
           then (Res.ok ⟨t, .const .none⟩ : Res Attr)
           else .ok ⟨t, .const (.str s)⟩)
        else if numericText s then .unmodelled "a str default that reads as a number under a generic type"
        else if s == sNone then .ok ⟨t, .const .none⟩
        else if s == ['T', 'r', 'u', 'e'] then .ok ⟨t, .const (.bool true)⟩
        else if s == ['F', 'a', 'l', 's', 'e'] then .ok ⟨t, .const (.bool false)⟩
        else if identText s then .ok ⟨t, .expr s⟩
        else .unmodelled "a str default parsed as an expression under a generic type"
      | some v => .ok ⟨t, .const (setValue v)⟩
      | none => .ok ⟨t, .const .none⟩) = .ok ⟨t, .const v⟩ := by
    cases v <;> simp_all [numOk, setValue]
  rw [hm]
  have hp : attrParse ⟨t, .const v⟩ = .ok (t, v) := by
    unfold attrParse
    cases v <;> simp_all [numOk]
  simp only [hp, inferDefault_num t false v hq hv]

/-! ### statement level = interface level -/

theorem normClass_noDefault (p : Param) (h : noDefault p) : normClassParam p = classFill p := by
  unfold normClassParam
  rcases h with h | h | h <;> rw [h] <;> simp [isNoneVal]

theorem normClass_literal (p : Param) (v : Val) (hd : p.default = some v) (hn : isNoneVal v = false) :
    normClassParam p = p := by
  unfold normClassParam; rw [hd]; simp [hn]

theorem with_typ_default (p : Param) (t : Str) (v : Val) (ht : p.typ = some t) (hd : p.default = some v) :
    ({ p with typ := some t, default := some v } : Param) = p := by
  cases p; simp_all

theorem with_typ (p : Param) (t : Str) (v : Val) (ht : p.typ = some t) :
    ({ p with typ := some t, default := some v } : Param) = { p with default := some v } := by
  cases p; simp_all

/-- the typed, literal-default part of the class domain, by shape of type and default -/
inductive AttrDom (p : Param) : Prop where
  | scalarNoDefault (t : Str) (ht : p.typ = some t) (hq : needsQuoting (some t) = .ok false)
      (hs : isScalar t = true) (hz : numOk (zeroOf t)) (hd : noDefault p)
  | scalarLiteral (t : Str) (v : Val) (ht : p.typ = some t) (hq : needsQuoting (some t) = .ok false)
      (hs : isScalar t = true) (hv : numOk v) (htr : truthy v = true) (hd : p.default = some v)
  | strLiteral (t s : Str) (ht : p.typ = some t) (hq : needsQuoting (some t) = .ok true) (hs : strOk s)
      (hd : p.default = some (.str s))
  | strNoDefault (ht : p.typ = some tStr) (hd : noDefault p)
  | nonScalarNoDefault (t : Str) (q : Bool) (ht : p.typ = some t) (hq : needsQuoting (some t) = .ok q)
      (hs : isScalar t = false) (hdict : (t == tDict || startsWith t ['*']) = false) (hd : noDefault p)
  | genericLiteral (t : Str) (v : Val) (ht : p.typ = some t) (hq : needsQuoting (some t) = .ok false)
      (hs : isScalar t = false) (hdict : (t == tDict || startsWith t ['*']) = false) (hv : numOk v)
      (hd : p.default = some v)

/-- **the class kind's attribute round trip, derived from the statements of `param2ast`, `parse.class_` and
    `_infer_default`, is the interface-level normalisation `Kinds.normClassParam`** -/
theorem attrRT_eq_norm (p : Param) (h : AttrDom p) : attrRT p = .ok (normClassParam p) := by
  cases h with
  | scalarNoDefault t ht hq hs hz hd =>
    rw [attrRT_scalar_nodefault p t ht hq hs hz hd, normClass_noDefault p hd, with_typ p t _ ht]
    unfold classFill; rw [ht]; simp [hs]
  | scalarLiteral t v ht hq hs hv htr hd =>
    rw [attrRT_scalar_literal p t v ht hq hs hv htr hd, normClass_literal p v hd (isNoneVal_num v hv),
      with_typ_default p t v ht hd]
  | strLiteral t s ht hq hs hd =>
    have hn : isNoneVal (.str s) = false := by
      obtain ⟨_, _, hn1, hn2, _⟩ := hs
      simp [isNoneVal, hn1, hn2]
    rw [attrRT_strlike_literal p t s ht hq hs hd, normClass_literal p _ hd hn, with_typ_default p t _ ht hd]
  | strNoDefault ht hd =>
    rw [attrRT_str_nodefault p ht hd, normClass_noDefault p hd, with_typ p tStr _ ht]
    unfold classFill; rw [ht]
    have : isScalar tStr = true := by decide
    have hz : zeroOf tStr = .str [] := by decide
    simp [this, hz]
  | nonScalarNoDefault t q ht hq hs hdict hd =>
    rw [attrRT_nonscalar_nodefault p t q ht hq hs hdict hd, normClass_noDefault p hd, with_typ p t _ ht]
    unfold classFill; rw [ht]; simp [hs]
  | genericLiteral t v ht hq hs hdict hv hd =>
    rw [attrRT_generic_literal p t v ht hq hs hdict hv hd, normClass_literal p v hd (isNoneVal_num v hv),
      with_typ_default p t v ht hd]

/-! non-vacuity: concrete entries of every shape -/
example : AttrDom { doc := some ['x'], typ := some tInt, default := none } :=
  .scalarNoDefault tInt rfl (by decide) (by decide) (by show numOk (.int false ['0']); trivial) (Or.inl rfl)
example : AttrDom { doc := some ['x'], typ := some tInt, default := some (.int true ['3']) } :=
  .scalarLiteral tInt (.int true ['3']) rfl (by decide) (by decide) trivial (by decide) rfl
example : AttrDom { doc := some ['x'], typ := some tStr, default := some (.str ['m', 'n']) } :=
  .strLiteral tStr ['m', 'n'] rfl (by decide) ⟨by decide, by decide, by decide, by decide, by decide⟩ rfl
example : AttrDom { doc := some ['x'], typ := some tStr, default := some .none } :=
  .strNoDefault rfl (Or.inr (Or.inl rfl))
example : AttrDom { doc := some ['x'], typ := some "Optional[int]".toList, default := some (.str noneStr) } :=
  .nonScalarNoDefault "Optional[int]".toList false rfl (by decide) (by decide) (by decide) (Or.inr (Or.inr rfl))
example : AttrDom { doc := some ['x'], typ := some "Optional[int]".toList, default := some (.int false ['0']) } :=
  .genericLiteral "Optional[int]".toList (.int false ['0']) rfl (by decide) (by decide) (by decide) trivial rfl

end ClassAttr
end Py
