import DT.GoogleRT
import DT.NumpyRTExample
/-! non-vacuity: the two-parameter description of `RestRTExample` satisfies every hypothesis of
    `C01_google_nodefault_partial`. -/
namespace Py
namespace GoogleRT
open DocEmit DocParse NumpyRT

theorem gA : GOK exA := ⟨by decide, trimmed_dec _ (by decide) (by decide), by decide, by decide, by decide, by decide⟩
theorem gB : GOK exB := ⟨by decide, trimmed_dec _ (by decide) (by decide), by decide, by decide, by decide, by decide⟩

example : ((emitDocstring .google (mkIR exD [exA, exB]) true).bind fun text => parseDocstring .google text false)
    = .ok (mkIR exD [exA, exB]) :=
  C01_google_nodefault_partial exD [exA, exB] (by simp)
    (by intro x hx; simp at hx; rcases hx with rfl | rfl; exact exA_ok'; exact exB_ok')
    (by intro x hx; simp at hx; rcases hx with rfl | rfl; exact gA; exact gB)
    (by intro x hx; simp at hx; rcases hx with rfl | rfl <;> exact margin_dec _ (by decide))
    (by decide) (trimmed_dec _ (by decide) (by decide)) (by decide) (by decide +kernel) (by decide) true false

#eval (emitDocstring .google (mkIR exD [exA, exB]) true) |> fun r => match r with | .ok t => String.ofList t | _ => "?"
end GoogleRT
end Py
