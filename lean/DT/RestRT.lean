import DT.StrLemmas
import DT.RestProofs
/-! C01 (ReST), first domain: every parameter has a name, one line of prose and a type, no defaults, no return entry.
    `parseDocstringRest (emitDocstringRest ir) = ok ir`. -/
namespace Py

def tokParam : Str := [':', 'p', 'a', 'r', 'a', 'm']
def tokType : Str := [':', 't', 'y', 'p', 'e']
def bt3 : Str := ['`', '`', '`']

/-! ### a computable sufficient condition for `Clean restTokens`: no ':' directly followed by a token letter -/

def isTokLetter (c : Char) : Bool := c == 'p' || c == 'c' || c == 'i' || c == 'v' || c == 't' || c == 'r'

def ncl : Str → Bool
  | [] => true
  | [_] => true
  | a :: b :: t => !(a == ':' && isTokLetter b) && ncl (b :: t)

theorem ncl_tail {a : Char} {t : Str} (h : ncl (a :: t) = true) : ncl t = true := by
  cases t with
  | nil => rfl
  | cons b t => simp only [ncl, Bool.and_eq_true] at h; exact h.2

theorem ncl_of_prefix_token {x : Str} {u : Str} (hu : u ∈ restTokens) (hp : u <+: x) : ncl x = false := by
  obtain ⟨r, hr⟩ := hp
  simp only [restTokens, List.mem_cons, List.mem_nil_iff, or_false] at hu
  rcases hu with rfl | rfl | rfl | rfl | rfl | rfl | rfl <;> (rw [← hr]; simp [ncl, isTokLetter])

theorem ncl_clean {x : Str} (h : ncl x = true) : Clean restTokens x := by
  intro u hu hin
  obtain ⟨s, r, hsr⟩ := hin
  -- x = s ++ u ++ r ; drop `s` using ncl_tail
  have : ∀ (s : Str) (x : Str), ncl x = true → x = s ++ u ++ r → False := by
    intro s
    induction s with
    | nil =>
      intro x hx he
      have hp : u <+: x := ⟨r, by rw [he]; simp⟩
      rw [ncl_of_prefix_token hu hp] at hx; cases hx
    | cons a s ih =>
      intro x hx he
      rw [he] at hx
      exact ih (s ++ u ++ r) (ncl_tail (by simpa using hx)) rfl
  exact this s x h hsr.symm

/-- glue: appending across a character that is neither ':' nor a token letter keeps `ncl` -/
theorem ncl_append_glue (x y : Str) (g : Char) (hg1 : g ≠ ':') (hg2 : isTokLetter g = false)
    (hx : ncl x = true) (hy : ncl y = true) : ncl (x ++ g :: y) = true := by
  induction x with
  | nil =>
    cases y with
    | nil => rfl
    | cons b t =>
      have : (g == ':') = false := by simpa using hg1
      simp only [List.nil_append, ncl, this, Bool.false_and, Bool.not_false, Bool.true_and]; exact hy
  | cons a x ih =>
    cases x with
    | nil =>
      simp only [List.cons_append, List.nil_append, ncl, hg2, Bool.and_false, Bool.not_false, Bool.true_and]
      exact ih rfl
    | cons b x' =>
      simp only [ncl, Bool.and_eq_true] at hx
      simp only [List.cons_append, ncl, Bool.and_eq_true]
      exact ⟨hx.1, ih hx.2⟩

theorem ncl_no_colon (x : Str) (h : ':' ∉ x) : ncl x = true := by
  induction x with
  | nil => rfl
  | cons a t ih =>
    cases t with
    | nil => rfl
    | cons b t' =>
      have ha : (a == ':') = false := by
        have : a ≠ ':' := fun e => h (by simp [e])
        simpa using this
      simp only [ncl, ha, Bool.false_and, Bool.not_false, Bool.true_and]
      exact ih (fun m => h (by simp [m]))

structure NameOK (n : Str) : Prop where
  ne : n ≠ []
  noSpace : ' ' ∉ n
  noColon : ':' ∉ n
  noNl : '\n' ∉ n
  noStar : n.head? ≠ some '*'
  notKw : endsWith n "kwargs".toList = false
  notRet : n ≠ retName

structure DocOK (d : Str) : Prop where
  ne : d ≠ []
  trimmed : Trimmed d
  oneLine : '\n' ∉ d
  clean : ncl d = true
  noAnnounce : locate d phrases = none
  notOpt1 : startsWith d "(Optional)".toList = false
  notOpt2 : startsWith d "Optional".toList = false

structure TypOK (t : Str) : Prop where
  ne : t ≠ []
  trimmed : Trimmed t
  oneLine : '\n' ∉ t
  noTick : '`' ∉ t
  clean : ncl t = true
  noStars : startsWith t ['*', '*'] = false
  notGoogleOpt : endsWith t ", optional".toList = false

/-- the body of the `:param` segment and of the `:type` segment of one parameter -/
def paramBody (n d : Str) : Str := ' ' :: n ++ ':' :: ' ' :: d ++ ['\n']
def typeBody (n t : Str) : Str := ' ' :: n ++ ':' :: ' ' :: (bt3 ++ t ++ bt3) ++ ['\n', '\n']

/-! ### one scanned item at a time -/

theorem extract_none (d : Str) (h : locate d phrases = none) (typ : Option Str) (e : Bool) :
    extractDefault d typ e = .ok ⟨d, none⟩ := by
  unfold extractDefault; rw [h]

theorem startsWith_cons_ne (c x : Char) (t r : Str) (h : c ≠ x) : startsWith (c :: t) (x :: r) = false := by
  unfold startsWith
  simp only [List.isPrefixOf]
  have : (x == c) = false := by simpa using (fun e : x = c => h e.symm)
  simp [this]

theorem not_return_token_param (b : Str) : returnTokens.any (fun t => startsWith (tokParam ++ b) t) = false := by
  simp only [returnTokens, restTokens, List.drop, List.any_cons, List.any_nil, Bool.or_false, tokParam,
    List.cons_append, startsWith, List.isPrefixOf]
  simp

theorem not_return_token_type (b : Str) : returnTokens.any (fun t => startsWith (tokType ++ b) t) = false := by
  simp only [returnTokens, restTokens, List.drop, List.any_cons, List.any_nil, Bool.or_false, tokType,
    List.cons_append, startsWith, List.isPrefixOf]
  simp

/-! ### string surgery on the two kinds of line -/

theorem ws_space : ∀ c ∈ [' '], pyWs.contains c = true := by intro c hc; simp at hc; subst hc; decide
theorem ws_nl : ∀ c ∈ ['\n'], pyWs.contains c = true := by intro c hc; simp at hc; subst hc; decide
theorem ws_nlnl : ∀ c ∈ ['\n', '\n'], pyWs.contains c = true := by
  intro c hc; simp at hc; subst hc; decide

/-- generic: a line `tok ++ ' ' :: n ++ ':' :: rest` with `' ' ∉ tok`, `':' ∉ tok.tail`… handled per token below -/
theorem surgery (tok n rest : Str) (hts : ' ' ∉ tok) (hn : NameOK n) (k : Nat) (hk : tok.length = k) :
    let line := tok ++ (' ' :: n ++ ':' :: rest)
    pyFind line [' '] 0 = (k : Int) ∧
    pyFind line [':'] (k : Int) = ((k + 1 + n.length : Nat) : Int) ∧
    pySlice line ((k : Int) + 1) ((k + 1 + n.length : Nat) : Int) = n ∧
    pyFrom line (((k + 1 + n.length : Nat) : Int) + 1) = rest := by
  intro line
  refine ⟨?_, ?_, ?_, ?_⟩
  · have := pyFind_single ' ' [] tok (n ++ ':' :: rest) hts
    simp only [List.nil_append, List.length_nil] at this
    have h0 : ((0 : Nat) : Int) = 0 := rfl
    rw [h0] at this
    show pyFind (tok ++ (' ' :: n ++ ':' :: rest)) [' '] 0 = (k : Int)
    have e : tok ++ (' ' :: n ++ ':' :: rest) = tok ++ ' ' :: (n ++ ':' :: rest) := by simp
    rw [e, this]; simp [hk]
  · have hc : ':' ∉ (' ' :: n) := by
      intro hm; simp at hm; exact hn.noColon hm
    have := pyFind_single ':' tok (' ' :: n) rest hc
    have e : tok ++ (' ' :: n ++ ':' :: rest) = tok ++ ((' ' :: n) ++ ':' :: rest) := by simp
    show pyFind (tok ++ (' ' :: n ++ ':' :: rest)) [':'] (k : Int) = _
    rw [e, ← hk, this]; simp; omega
  · have := pySlice_mid (tok ++ [' ']) n (':' :: rest)
    have e : tok ++ (' ' :: n ++ ':' :: rest) = (tok ++ [' ']) ++ (n ++ ':' :: rest) := by simp
    show pySlice (tok ++ (' ' :: n ++ ':' :: rest)) ((k : Int) + 1) _ = n
    rw [e]
    have h1 : ((k : Int) + 1) = (((tok ++ [' ']).length : Nat) : Int) := by simp [hk]
    have h2 : ((k + 1 + n.length : Nat) : Int) = ((((tok ++ [' ']).length + n.length) : Nat) : Int) := by simp [hk]
    rw [h1, h2]; exact this
  · have := pyFrom_at (tok ++ ' ' :: n ++ [':']) rest
    have e : tok ++ (' ' :: n ++ ':' :: rest) = (tok ++ ' ' :: n ++ [':']) ++ rest := by simp
    show pyFrom (tok ++ (' ' :: n ++ ':' :: rest)) _ = rest
    rw [e]
    have h1 : (((k + 1 + n.length : Nat) : Int) + 1) = (((tok ++ ' ' :: n ++ [':']).length : Nat) : Int) := by
      simp [hk]; omega
    rw [h1]; exact this

/-! ### `_set_name_and_type` and `interpolate_defaults` on default-free parameters -/

theorem interpolate_nodefault (p : Param) (d : Str) (hd : DocOK d) (hp : p.doc = some d) (e : Bool) :
    interpolateDefaults p e = .ok p := by
  unfold interpolateDefaults
  rw [hp]
  simp only [extract_none d hd.noAnnounce, Res.bind]
  cases p; simp_all

theorem joinWith_single (sep x : Str) : joinWith sep [x] = x := rfl

theorem setNameAndType_plain (n d : Str) (typ : Option Str) (hn : NameOK n) (hd : DocOK d)
    (ht : ∀ t, typ = some t → TypOK t) :
    setNameAndType (some n) { doc := some d, typ := typ, default := none } false true
      = .ok (n, { doc := some d, typ := typ, default := none }) := by
  unfold setNameAndType
  have hkw : (endsWith n "kwargs".toList || startsWith n ['*', '*']) = false := by
    rw [hn.notKw, Bool.false_or]
    cases n with
    | nil => exact absurd rfl hn.ne
    | cons c t =>
      have : c ≠ '*' := fun e => hn.noStar (by simp [e])
      exact startsWith_cons_ne c '*' t ['*'] this
  have hdne : d.isEmpty = false := by
    cases d with
    | nil => exact absurd rfl hd.ne
    | cons _ _ => rfl
  have hjoin : unwrapProse d = d := by
    unfold unwrapProse
    rw [splitOnChar_no_sep '\n' d hd.oneLine]
    simp only [List.map_cons, List.map_nil, joinWith_single]
    rw [strip_trimmed d hd.trimmed hd.ne, stripRight_trimmed d hd.trimmed]
  simp only [hkw, Bool.false_eq_true, if_false, Option.isSome_none, Res.bind]
  cases typ with
  | none =>
    simp only [hdne, Bool.false_eq_true, if_false, if_true, hjoin]
  | some t =>
    have htok := ht t rfl
    simp only [htok.notGoogleOpt, Bool.false_eq_true, if_false, hdne, if_true, hjoin, hd.notOpt1, hd.notOpt2,
      Bool.or_self, Bool.false_and]

/-! ### the two parse steps of one parameter -/

theorem typeTok_eq : ":type".toList = tokType := rfl

theorem line_param_eq (n d : Str) :
    tokParam ++ paramBody n d = tokParam ++ (' ' :: n ++ ':' :: (' ' :: d ++ ['\n'])) := by
  simp [paramBody]

theorem line_type_eq (n t : Str) :
    tokType ++ typeBody n t = tokType ++ (' ' :: n ++ ':' :: (' ' :: (bt3 ++ t ++ bt3) ++ ['\n', '\n'])) := by
  simp [typeBody]

theorem param_not_type (b : Str) : startsWith (tokParam ++ b) tokType = false := by
  simp [tokParam, tokType, startsWith, List.isPrefixOf]

theorem type_is_type (b : Str) : startsWith (tokType ++ b) tokType = true := by
  unfold startsWith; exact List.isPrefixOf_iff_prefix.mpr (List.prefix_append _ _)

def flushInto (ps : ODict Param) (cn : Option Str) (cp : Param) : ODict Param :=
  match cn with
  | some m => ps.set m cp
  | none => ps

theorem parseStep_param (st : ParseSt) (cn : Option Str) (cp : Param) (n d : Str) (hn : NameOK n) (hd : DocOK d)
    (hcur : st.cur = some (cn, cp))
    (hstate : (cn = none ∧ cp = {}) ∨ (∃ m, cn = some m ∧ m ≠ n ∧ m ≠ [] ∧ m.head? ≠ some '*')) :
    parseStepRest true false true st (true, tokParam ++ paramBody n d) =
      .ok { st with params := flushInto st.params cn cp,
                    cur := some (some n, { doc := some d }) } := by
  have hsurg := surgery tokParam n (' ' :: d ++ ['\n']) (by simp [tokParam]) hn 6 rfl
  simp only at hsurg
  obtain ⟨h1, h2, h3, h4⟩ := hsurg
  have hval : strip pyWs (' ' :: d ++ ['\n']) = d := by
    have := strip_ws_both [' '] ['\n'] d ws_space ws_nl hd.trimmed hd.ne
    simpa using this
  unfold parseStepRest
  simp only [if_true, not_return_token_param, Bool.false_eq_true, if_false]
  rw [line_param_eq, h1, h2]
  rw [h3, h4, hval, hcur]
  simp only [Option.getD_some, typeTok_eq]
  rw [← line_param_eq]
  rcases hstate with ⟨hnone, hcp⟩ | ⟨m, hm, hmn, hmne, hmstar⟩
  · subst hnone; subst hcp
    simp only [flushInto, Option.isSome_none, Bool.false_and, Bool.false_eq_true, if_false, setParamValue,
      param_not_type]
    rw [interpolate_nodefault _ d hd rfl]
    simp only [Res.bind]
    rw [setNameAndType_plain n d none hn hd (by intro t ht; cases ht)]
  · subst hm
    have hne : (some m != some n) = true := by simpa using hmn
    have hne2 : (some m == some ([] : Str)) = false := by simpa using hmne
    have hstar : (m.head? != some '*') = true := by simpa using hmstar
    simp only [flushInto, Option.isSome_some, Bool.true_and, hne, if_true, hne2, Bool.and_false, Bool.false_eq_true, if_false,
      hstar, setParamValue, param_not_type]
    rw [interpolate_nodefault _ d hd rfl]
    simp only [Res.bind]
    rw [setNameAndType_plain n d none hn hd (by intro t ht; cases ht)]

/-! ### `.replace("```", "")` -/

theorem replaceAll_nil (old new : Str) : replaceAll old new [] = [] := by
  rw [replaceAll]

theorem replaceAll_prefix (old new r : Str) (hne : old ≠ []) :
    replaceAll old new (old ++ r) = new ++ replaceAll old new r := by
  cases old with
  | nil => exact absurd rfl hne
  | cons c o =>
    rw [List.cons_append, replaceAll]
    have hp : (c :: o).isPrefixOf (c :: (o ++ r)) = true := by
      have := List.isPrefixOf_iff_prefix.mpr (List.prefix_append (c :: o) r)
      simpa using this
    have hdrop : (c :: (o ++ r)).drop (c :: o).length = r := by
      have := List.drop_left' (l₁ := c :: o) (l₂ := r) rfl
      simpa using this
    simp only [hp, List.isEmpty_cons, Bool.not_false, Bool.and_self, if_true, hdrop]

theorem replaceAll_skip (old new t r : Str) (c : Char) (hc : old.head? = some c) (ht : c ∉ t) :
    replaceAll old new (t ++ r) = t ++ replaceAll old new r := by
  induction t with
  | nil => simp
  | cons x xs ih =>
    have hx : x ≠ c := fun e => ht (by simp [e])
    have hxs : c ∉ xs := fun m => ht (by simp [m])
    rw [List.cons_append, replaceAll]
    have hp : old.isPrefixOf (x :: (xs ++ r)) = false := by
      cases old with
      | nil => simp at hc
      | cons o os =>
        simp only [List.head?_cons, Option.some.injEq] at hc
        subst hc
        have : (o == x) = false := by simpa using (fun e : o = x => hx e.symm)
        simp [List.isPrefixOf, this]
    simp only [hp, Bool.false_and, Bool.false_eq_true, if_false]
    rw [ih hxs]; rfl

theorem replace_ticks (t : Str) (ht : '`' ∉ t) : replaceAll bt3 [] (bt3 ++ t ++ bt3) = t := by
  rw [List.append_assoc, replaceAll_prefix bt3 [] _ (by simp [bt3])]
  rw [List.nil_append, replaceAll_skip bt3 [] t bt3 '`' rfl ht]
  have : replaceAll bt3 [] bt3 = [] := by
    have := replaceAll_prefix bt3 [] [] (by simp [bt3])
    rw [List.append_nil, replaceAll_nil] at this
    simpa using this
  rw [this, List.append_nil]

theorem ticks_trimmed (t : Str) : Trimmed (bt3 ++ t ++ bt3) := by
  constructor
  · intro c hc
    simp [bt3] at hc; subst hc; decide
  · intro c hc
    have : (bt3 ++ t ++ bt3).getLast? = some '`' := by
      rw [List.getLast?_append]; simp [bt3]
    rw [this] at hc
    injection hc with hc; subst hc; decide

theorem parseStep_type (st : ParseSt) (n d t : Str) (hn : NameOK n) (hd : DocOK d) (ht : TypOK t)
    (hcur : st.cur = some (some n, { doc := some d })) :
    parseStepRest true false true st (true, tokType ++ typeBody n t) =
      .ok { st with cur := some (some n, { doc := some d, typ := some t }) } := by
  have hsurg := surgery tokType n (' ' :: (bt3 ++ t ++ bt3) ++ ['\n', '\n']) (by simp [tokType]) hn 5 rfl
  simp only at hsurg
  obtain ⟨h1, h2, h3, h4⟩ := hsurg
  have hval : strip pyWs (' ' :: (bt3 ++ t ++ bt3) ++ ['\n', '\n']) = bt3 ++ t ++ bt3 := by
    have := strip_ws_both [' '] ['\n', '\n'] (bt3 ++ t ++ bt3) ws_space ws_nlnl (ticks_trimmed t) (by simp [bt3])
    simpa using this
  unfold parseStepRest
  simp only [if_true, not_return_token_type, Bool.false_eq_true, if_false]
  rw [line_type_eq, h1, h2, h3, h4, hval, hcur]
  simp only [Option.getD_some, typeTok_eq]
  rw [← line_type_eq]
  have hsame : (some n != some n) = false := by simp
  simp only [Option.isSome_some, Bool.true_and, hsame, Bool.false_and, Bool.false_eq_true, if_false, setParamValue,
    type_is_type, if_true]
  have hbt : (['`', '`', '`'] : Str) = bt3 := rfl
  rw [hbt, replace_ticks t ht.noTick]
  simp only [ht.noStars, Bool.false_eq_true, if_false]
  rw [interpolate_nodefault _ d hd rfl]
  simp only [Res.bind]
  rw [setNameAndType_plain n d (some t) hn hd (by intro t' ht'; cases ht'; exact ht)]


/-! ### the pieces of an emitted docstring are clean -/

theorem ncl_colon_end (x : Str) (h : ':' ∉ x) : ncl (x ++ [':']) = true := by
  induction x with
  | nil => rfl
  | cons a t ih =>
    have ha : (a == ':') = false := by
      have : a ≠ ':' := fun e => h (by simp [e])
      simpa using this
    have ht := ih (fun m => h (by simp [m]))
    cases t with
    | nil => simp [ncl, ha]
    | cons b t' =>
      simp only [List.cons_append, ncl, ha, Bool.false_and, Bool.not_false, Bool.true_and]
      simpa using ht

theorem nameColon_ncl (n : Str) (hn : NameOK n) : ncl (' ' :: n ++ [':']) = true := by
  have : ':' ∉ (' ' :: n) := by intro hm; simp at hm; exact hn.noColon hm
  have := ncl_colon_end (' ' :: n) this
  simpa using this

theorem paramBody_clean (n d : Str) (hn : NameOK n) (hd : DocOK d) : Clean restTokens (paramBody n d) := by
  apply ncl_clean
  have e : paramBody n d = (' ' :: n ++ [':']) ++ ' ' :: (d ++ ['\n']) := by simp [paramBody]
  rw [e]
  apply ncl_append_glue _ _ ' ' (by decide) (by decide) (nameColon_ncl n hn)
  have e2 : d ++ ['\n'] = d ++ '\n' :: [] := rfl
  rw [e2]
  exact ncl_append_glue d [] '\n' (by decide) (by decide) hd.clean rfl

theorem typeBody_clean (n t : Str) (hn : NameOK n) (ht : TypOK t) : Clean restTokens (typeBody n t) := by
  apply ncl_clean
  have e : typeBody n t = (' ' :: n ++ [':']) ++ ' ' :: (['`', '`'] ++ '`' :: (t ++ '`' :: ['`', '`', '\n', '\n'])) := by
    simp [typeBody, bt3]
  rw [e]
  apply ncl_append_glue _ _ ' ' (by decide) (by decide) (nameColon_ncl n hn)
  apply ncl_append_glue _ _ '`' (by decide) (by decide) rfl
  exact ncl_append_glue t _ '`' (by decide) (by decide) ht.clean rfl

def preOf (D : Str) : Str := '\n' :: D ++ ['\n', '\n']

theorem pre_clean (D : Str) (hD : ncl D = true) : Clean restTokens (preOf D) := by
  apply ncl_clean
  have e : preOf D = [] ++ '\n' :: (D ++ '\n' :: ['\n']) := by simp [preOf]
  rw [e]
  apply ncl_append_glue _ _ '\n' (by decide) (by decide) rfl
  exact ncl_append_glue D _ '\n' (by decide) (by decide) hD rfl

/-! ### the parse fold over all parameters -/

abbrev Triple := Str × Str × Str
def TripleOK (x : Triple) : Prop := NameOK x.1 ∧ DocOK x.2.1 ∧ TypOK x.2.2
def mkParam (d t : Str) : Param := { doc := some d, typ := some t, default := none }
def entryOf (x : Triple) : Str × Param := (x.1, mkParam x.2.1 x.2.2)
def itemsOf (ts : List Triple) : List (Bool × Str) :=
  ts.flatMap fun x => [(true, tokParam ++ paramBody x.1 x.2.1), (true, tokType ++ typeBody x.1 x.2.2)]
def segsOf (ts : List Triple) : List (Str × Str) :=
  ts.flatMap fun x => [(tokParam, paramBody x.1 x.2.1), (tokType, typeBody x.1 x.2.2)]
def keys (d : ODict Param) : List Str := d.map (·.1)

theorem set_fresh (d : ODict Param) (k : Str) (v : Param) (h : k ∉ keys d) : d.set k v = d ++ [(k, v)] := by
  unfold ODict.set
  have : d.any (fun kv => kv.1 == k) = false := by
    rw [List.any_eq_false]
    intro kv hkv heq
    have : kv.1 = k := by simpa using heq
    exact h (by rw [← this]; exact List.mem_map_of_mem hkv)
  simp [this]

theorem foldRes_append {σ α} (f : σ → α → Res σ) (s : σ) (l1 l2 : List α) :
    foldRes f s (l1 ++ l2) = (foldRes f s l1).bind fun s' => foldRes f s' l2 := by
  induction l1 generalizing s with
  | nil => simp [foldRes, Res.bind]
  | cons a as ih =>
    simp only [List.cons_append, foldRes]
    cases f s a with
    | ok s' => simp only [Res.bind]; exact ih s'
    | raises k => rfl
    | unmodelled w => rfl

/-- the two items of one parameter -/
theorem fold_one (st : ParseSt) (cn : Option Str) (cp : Param) (x : Triple) (hx : TripleOK x)
    (hcur : st.cur = some (cn, cp))
    (hstate : (cn = none ∧ cp = {}) ∨ (∃ m, cn = some m ∧ m ≠ x.1 ∧ m ≠ [] ∧ m.head? ≠ some '*')) :
    foldRes (parseStepRest true false true) st (itemsOf [x]) =
      .ok { st with params := flushInto st.params cn cp, cur := some (some x.1, mkParam x.2.1 x.2.2) } := by
  obtain ⟨hn, hd, ht⟩ := hx
  simp only [itemsOf, List.flatMap_cons, List.flatMap_nil, List.append_nil, foldRes]
  rw [parseStep_param st cn cp x.1 x.2.1 hn hd hcur hstate]
  simp only [Res.bind]
  rw [parseStep_type _ x.1 x.2.1 x.2.2 hn hd ht rfl]
  simp only [Res.bind, mkParam]

theorem itemsOf_cons (x : Triple) (ts : List Triple) : itemsOf (x :: ts) = itemsOf [x] ++ itemsOf ts := by
  simp [itemsOf]

theorem fold_items (ts : List Triple) (l : Triple) (st : ParseSt) (cn : Option Str) (cp : Param)
    (hok : ∀ x ∈ ts ++ [l], TripleOK x) (hnd : ((ts ++ [l]).map (·.1)).Nodup)
    (hcur : st.cur = some (cn, cp))
    (hstate : (cn = none ∧ cp = {}) ∨ (∃ m, cn = some m ∧ m ∉ (ts ++ [l]).map (·.1) ∧ m ≠ [] ∧ m.head? ≠ some '*'))
    (hfresh : ∀ x ∈ ts ++ [l], x.1 ∉ keys (flushInto st.params cn cp)) :
    foldRes (parseStepRest true false true) st (itemsOf (ts ++ [l])) =
      .ok { st with params := flushInto st.params cn cp ++ ts.map entryOf,
                    cur := some (some l.1, mkParam l.2.1 l.2.2) } := by
  induction ts generalizing st cn cp with
  | nil =>
    simp only [List.nil_append, List.map_nil, List.append_nil]
    apply fold_one st cn cp l (hok l (by simp)) hcur
    rcases hstate with h | ⟨m, hm, hmn, h1, h2⟩
    · exact Or.inl h
    · exact Or.inr ⟨m, hm, fun e => hmn (by simp [e]), h1, h2⟩
  | cons x ts ih =>
    have hxok := hok x (by simp)
    rw [List.cons_append, itemsOf_cons, foldRes_append]
    rw [fold_one st cn cp x hxok hcur (by
      rcases hstate with h | ⟨m, hm, hmn, h1, h2⟩
      · exact Or.inl h
      · exact Or.inr ⟨m, hm, fun e => hmn (by simp [e]), h1, h2⟩)]
    simp only [Res.bind]
    have hnd' : ((ts ++ [l]).map (·.1)).Nodup := by
      simp only [List.cons_append, List.map_cons, List.nodup_cons] at hnd; exact hnd.2
    have hxnot : x.1 ∉ (ts ++ [l]).map (·.1) := by
      simp only [List.cons_append, List.map_cons, List.nodup_cons] at hnd; exact hnd.1
    have hxfresh : x.1 ∉ keys (flushInto st.params cn cp) := hfresh x (by simp)
    have hset : flushInto (flushInto st.params cn cp) (some x.1) (mkParam x.2.1 x.2.2)
        = flushInto st.params cn cp ++ [entryOf x] := by
      simp only [flushInto]; exact set_fresh _ _ _ hxfresh
    have := ih ({ st with params := flushInto st.params cn cp, cur := some (some x.1, mkParam x.2.1 x.2.2) })
      (some x.1) (mkParam x.2.1 x.2.2)
      (fun y hy => hok y (by rw [List.cons_append]; exact List.mem_cons_of_mem _ hy)) hnd' rfl
      (Or.inr ⟨x.1, rfl, hxnot, hxok.1.ne, hxok.1.noStar⟩)
      (by
        intro y hy
        rw [hset]
        simp only [keys, List.map_append, List.mem_append, List.map_cons, List.map_nil, List.mem_singleton, entryOf]
        intro hcontra
        rcases hcontra with h | h
        · exact hfresh y (by rw [List.cons_append]; exact List.mem_cons_of_mem _ hy) h
        · exact hxnot (by rw [← h]; exact List.mem_map_of_mem hy))
    rw [this, hset]
    simp [List.append_assoc]

/-! ### parsing the emitted text -/

def mkIR (D : Str) (ts : List Triple) : IR := { doc := D, params := ts.map entryOf, returns := none }

theorem segsOf_items (ts : List Triple) :
    (segsOf ts).map (fun tb => (true, tb.1 ++ tb.2)) = itemsOf ts := by
  induction ts with
  | nil => rfl
  | cons x ts ih =>
    simp only [segsOf, itemsOf, List.flatMap_cons, List.map_append, List.map_cons, List.map_nil] at ih ⊢
    rw [ih]

theorem segsOf_ok (ts : List Triple) (hok : ∀ x ∈ ts, TripleOK x) : SegsOK restTokens (segsOf ts) := by
  intro tb htb
  simp only [segsOf, List.mem_flatMap, List.mem_cons, List.mem_nil_iff, or_false] at htb
  obtain ⟨x, hx, h | h⟩ := htb
  · subst h; exact ⟨(by decide : tokParam ∈ restTokens), paramBody_clean x.1 x.2.1 (hok x hx).1 (hok x hx).2.1⟩
  · subst h; exact ⟨(by decide : tokType ∈ restTokens), typeBody_clean x.1 x.2.2 (hok x hx).1 (hok x hx).2.2⟩

theorem mapParams_id (ps : List Triple) (hok : ∀ x ∈ ps, TripleOK x) :
    mapParams (fun p => interpolateDefaults p true) (ps.map entryOf) = .ok (ps.map entryOf) := by
  induction ps with
  | nil => rfl
  | cons x ps ih =>
    simp only [List.map_cons, mapParams, entryOf]
    rw [interpolate_nodefault (mkParam x.2.1 x.2.2) x.2.1 (hok x (by simp)).2.1 rfl]
    simp only [Res.bind]
    have := ih (fun y hy => hok y (by simp [hy]))
    rw [this]

theorem ws_nl1 : ∀ c ∈ ['\n'], pyWs.contains c = true := ws_nl

theorem parse_emitted (D : Str) (ts : List Triple) (l : Triple)
    (hDne : D ≠ []) (hDt : Trimmed D) (hDc : ncl D = true)
    (hok : ∀ x ∈ ts ++ [l], TripleOK x) (hnd : ((ts ++ [l]).map (·.1)).Nodup) :
    parseDocstringRest (preOf D ++ segText (segsOf (ts ++ [l]))) true = .ok (mkIR D (ts ++ [l])) := by
  unfold parseDocstringRest
  have hne : (preOf D ++ segText (segsOf (ts ++ [l]))).isEmpty = false := by simp [preOf]
  simp only [hne, Bool.false_eq_true, if_false]
  -- scan
  have hsegs : ∃ a b, segsOf (ts ++ [l]) = a :: b := by
    cases h : segsOf (ts ++ [l]) with
    | nil =>
      have : (segsOf (ts ++ [l])).length = 0 := by rw [h]; rfl
      simp [segsOf, List.length_flatMap] at this
    | cons a b => exact ⟨a, b, rfl⟩
  obtain ⟨a, b, hab⟩ := hsegs
  have hscan := scanRest_spec_cons (preOf D) a b (pre_clean D hDc) (hab ▸ segsOf_ok _ hok)
  rw [← hab, segsOf_items] at hscan
  rw [hscan]
  -- the summary item
  have hstrip : strip pyWs (preOf D) = D := by
    have := strip_ws_both ['\n'] ['\n', '\n'] D ws_nl1 ws_nlnl hDt hDne
    simpa [preOf] using this
  simp only [foldRes, parseStepRest, Bool.false_eq_true, if_false, List.isEmpty_nil, if_true, hstrip, Res.bind]
  -- the parameters
  have hfold := fold_items ts l ({ doc := D } : ParseSt) none {} hok hnd rfl (Or.inl ⟨rfl, rfl⟩)
    (by intro x _; simp [flushInto, keys])
  rw [hfold]
  simp only [Res.bind, flushInto, List.nil_append]
  -- the final flush
  have hl := hok l (by simp)
  rw [interpolate_nodefault (mkParam l.2.1 l.2.2) l.2.1 hl.2.1 rfl]
  simp only [Res.bind]
  have hsnt := setNameAndType_plain l.1 l.2.1 (some l.2.2) hl.1 hl.2.1 (by intro t ht; cases ht; exact hl.2.2)
  simp only [mkParam] at hsnt ⊢
  rw [hsnt]
  simp only [Res.bind]
  have hlfresh : l.1 ∉ keys (ts.map entryOf) := by
    simp only [keys, List.map_map]
    have : ((ts.map (·.1)) ++ [l.1]).Nodup := by simpa using hnd
    have := (List.nodup_append.mp this).2.2
    intro hm
    have hm' : l.1 ∈ ts.map (·.1) := by simpa [entryOf, Function.comp] using hm
    exact this l.1 hm' l.1 (by simp) rfl
  have hset := set_fresh (ts.map entryOf) l.1 { doc := some l.2.1, typ := some l.2.2, default := none } hlfresh
  rw [hset]
  have hall : ts.map entryOf ++ [(l.1, ({ doc := some l.2.1, typ := some l.2.2, default := none } : Param))]
      = (ts ++ [l]).map entryOf := by
    simp [entryOf, mkParam]
  rw [hall, mapParams_id (ts ++ [l]) hok]
  simp only [Res.bind, mkIR]

#print axioms parse_emitted

/-! ### the emit side -/

def docLine (n d : Str) : Str := tokParam ++ ' ' :: n ++ [':', ' '] ++ d
def typLine (n t : Str) : Str := tokType ++ ' ' :: n ++ [':', ' '] ++ bt3 ++ t ++ bt3

theorem trimmed_of_ends (s : Str) (c1 c2 : Char) (h1 : s.head? = some c1) (h2 : s.getLast? = some c2)
    (w1 : pyWs.contains c1 = false) (w2 : pyWs.contains c2 = false) : Trimmed s :=
  ⟨fun c hc => by rw [h1] at hc; injection hc with hc; subst hc; exact w1,
   fun c hc => by rw [h2] at hc; injection hc with hc; subst hc; exact w2⟩

theorem docLine_trimmed (n d : Str) (hd : DocOK d) : Trimmed (docLine n d) := by
  obtain ⟨c, hc⟩ : ∃ c, d.getLast? = some c := by
    cases h : d.getLast? with
    | none => exact absurd (List.getLast?_eq_none_iff.mp h) hd.ne
    | some c => exact ⟨c, rfl⟩
  refine trimmed_of_ends _ ':' c (by simp [docLine, tokParam]) ?_ (by decide) (hd.trimmed.2 c hc)
  unfold docLine
  rw [List.getLast?_append, hc]; rfl

theorem typLine_trimmed (n t : Str) : Trimmed (typLine n t) := by
  refine trimmed_of_ends _ ':' '`' (by simp [typLine, tokType]) ?_ (by decide) (by decide)
  unfold typLine
  rw [List.getLast?_append]; simp [bt3]

theorem emitParam_ok (n d t : Str) (hn : NameOK n) (hd : DocOK d) (ht : TypOK t) :
    ∃ p', emitParamStrRest n (mkParam d t) true = .ok (docLine n d ++ '\n' :: typLine n t, p') := by
  unfold emitParamStrRest
  have hret : (n == retName) = false := by simpa using hn.notRet
  have hdne : d.isEmpty = false := by
    cases d with
    | nil => exact absurd rfl hd.ne
    | cons _ _ => rfl
  have htne : t.isEmpty = false := by
    cases t with
    | nil => exact absurd rfl ht.ne
    | cons _ _ => rfl
  have hsd : setDefaultDoc n (mkParam d t) true = .ok (mkParam d t) := by
    unfold setDefaultDoc
    simp [mkParam]
  have k1 : [':'] ++ (kParam ++ n) ++ [':', ' '] ++ d = docLine n d := by
    simp [docLine, tokParam, kParam]
  have k2 : [':'] ++ (kType ++ n) ++ [':', ' ', '`', '`', '`'] ++ t ++ ['`', '`', '`'] = typLine n t := by
    simp [typLine, tokType, bt3, kType]
  have hnl1 : '\n' ∉ docLine n d := by
    simp only [docLine, tokParam, List.mem_append, List.mem_cons, List.mem_nil_iff, not_or]
    exact ⟨⟨⟨by decide, by decide, hn.noNl⟩, by decide⟩, hd.oneLine⟩
  have hnl2 : '\n' ∉ typLine n t := by
    simp only [typLine, tokType, bt3, List.mem_append, List.mem_cons, List.mem_nil_iff, not_or]
    exact ⟨⟨⟨⟨⟨by decide, by decide, hn.noNl⟩, by decide⟩, by decide⟩, ht.oneLine⟩, by decide⟩
  have i1 := indentAllButFirst_single (docLine n d) hnl1 (docLine_trimmed n d hd) (by simp [docLine, tokParam])
  have i2 := indentAllButFirst_single (typLine n t) hnl2 (typLine_trimmed n t) (by simp [typLine, tokType])
  refine ⟨mkParam d t, ?_⟩
  simp only [hret, Bool.false_eq_true, if_false]
  simp only [mkParam] at hsd ⊢
  simp only [hdne, Bool.false_eq_true, if_false, hsd, Res.bind, htne, k1, k2, Option.toList_some]
  simp only [List.cons_append, List.nil_append, List.map_cons, List.map_nil, i1, i2, joinWith]
  simp

def paramText (x : Triple) : Str := docLine x.1 x.2.1 ++ '\n' :: typLine x.1 x.2.2

theorem emitParams_ok (ts : List Triple) (hok : ∀ x ∈ ts, TripleOK x) :
    emitParamsRest (ts.map entryOf) true = .ok (ts.map paramText) := by
  induction ts with
  | nil => rfl
  | cons x ts ih =>
    obtain ⟨p', hp'⟩ := emitParam_ok x.1 x.2.1 x.2.2 (hok x (by simp)).1 (hok x (by simp)).2.1 (hok x (by simp)).2.2
    simp only [List.map_cons, emitParamsRest, entryOf]
    rw [hp']
    simp only [Res.bind]
    have := ih (fun y hy => hok y (by simp [hy]))
    rw [this]
    simp only [Res.bind, paramText]

theorem paramText_segs (x : Triple) :
    paramText x ++ ['\n', '\n'] = (tokParam ++ paramBody x.1 x.2.1) ++ (tokType ++ typeBody x.1 x.2.2) := by
  simp [paramText, docLine, typLine, paramBody, typeBody]

theorem joinWith_flatten (sep : Str) (l : List Str) (h : l ≠ []) :
    joinWith sep l ++ sep = (l.map (· ++ sep)).flatten := by
  induction l with
  | nil => exact absurd rfl h
  | cons a as ih =>
    cases as with
    | nil => simp [joinWith]
    | cons b bs =>
      have := ih (by simp)
      simp only [joinWith, List.map_cons, List.flatten_cons, List.append_assoc] at this ⊢
      rw [this]

theorem segText_of_params (ts : List Triple) :
    ((ts.map paramText).map (· ++ ['\n', '\n'])).flatten = segText (segsOf ts) := by
  induction ts with
  | nil => rfl
  | cons x ts ih =>
    simp only [List.map_cons, List.flatten_cons, ih, paramText_segs]
    simp [segText, segsOf]

theorem emit_text (D : Str) (ts : List Triple) (hne : ts ≠ []) (hok : ∀ x ∈ ts, TripleOK x) :
    emitDocstringRest (mkIR D ts) true = .ok (preOf D ++ segText (segsOf ts)) := by
  unfold emitDocstringRest
  simp only [mkIR, emitParams_ok ts hok, Res.bind]
  have hj := joinWith_flatten ['\n', '\n'] (ts.map paramText) (by simpa using hne)
  rw [segText_of_params] at hj
  rw [← hj]
  simp [preOf]

/-- **C01 (ReST) on the first domain**: one-line summary, ≥ 1 uniquely named parameters each with one line of
    prose and a type, no defaults, no return entry: emit then parse is the identity, and raises nothing. -/
theorem C01_rest_nodefault_partial (D : Str) (ts : List Triple) (l : Triple)
    (hDne : D ≠ []) (hDt : Trimmed D) (hDc : ncl D = true)
    (hok : ∀ x ∈ ts ++ [l], TripleOK x) (hnd : ((ts ++ [l]).map (·.1)).Nodup) :
    ((emitDocstringRest (mkIR D (ts ++ [l])) true).bind fun text => parseDocstringRest text true)
      = .ok (mkIR D (ts ++ [l])) := by
  rw [emit_text D (ts ++ [l]) (by simp) hok]
  simp only [Res.bind]
  exact parse_emitted D ts l hDne hDt hDc hok hnd

#print axioms C01_rest_nodefault_partial

end Py
