import DT.CleandocTheorems
import DT.ToDocstringTheorems
/-! C03 / C02: what `ast.get_docstring` hands to the parser for a function / class written by doctrans - `to_docstring`
    followed by `inspect.cleandoc` - on the default-free domain: the margin the emitter put in front of every line is
    removed again, whatever the indentation level. -/
namespace Py
namespace FuncDoc
open ToDocstring NumpyRT

theorem tabs_eq (n : Nat) : tabs n = List.replicate (4 * n) ' ' := by
  induction n with
  | zero => rfl
  | succ k ih =>
    have h4 : 4 * (k + 1) = 4 + 4 * k := by omega
    have hstep : tabs (k + 1) = tab ++ tabs k := by simp [tabs, List.replicate_succ]
    rw [hstep, ih, h4, ← List.replicate_append_replicate]
    rfl

theorem joinWith_cons_flat (g : Str) (l : Str) : ∀ (ls : List Str), joinWith g (l :: ls) = l ++ (ls.map (g ++ ·)).flatten
  | [] => by simp [joinWith]
  | x :: xs => by
    have ih := joinWith_cons_flat g x xs
    simp only [joinWith, List.map_cons, List.flatten_cons]
    rw [ih]; simp [List.append_assoc]

theorem joinWith_prefix (g : Str) : ∀ (L : List Str), L ≠ [] → g ++ joinWith g L = (L.map (g ++ ·)).flatten
  | [], h => absurd rfl h
  | l :: ls, _ => by rw [joinWith_cons_flat]; simp

/-- the content lines of the docstring (types in the docstring) -/
def contentLines (D : Str) (ts : List Triple) : List Str :=
  D :: [] :: (ts.flatMap fun x => [docLine x.1 x.2.1, typLine x.1 x.2.2, []]) ++ [[]]

theorem chunk_flat (level : Nat) : ∀ (ts : List Triple),
    ((ts.flatMap fun x => [docLine x.1 x.2.1, typLine x.1 x.2.2, ([] : Str)]).map (fun c => ['\n'] ++ tabs level ++ c)).flatten =
      (ts.map fun x => ['\n'] ++ tabs level ++ blockOf level true x).flatten
  | [] => rfl
  | x :: r => by
    have ih := chunk_flat level r
    simp only [List.flatMap_cons, List.map_append, List.map_cons, List.map_nil, List.flatten_append, List.flatten_cons,
      List.flatten_nil, List.append_nil, blockOf, if_true, ih]
    simp [List.append_assoc]

theorem text_as_lines (D : Str) (ts : List Triple) (hne : ts ≠ []) (level : Nat) :
    (['\n'] ++ tabs level ++ D ++ ['\n'] ++ tabs level ++
      (['\n'] ++ tabs level ++ joinWith (['\n'] ++ tabs level) (ts.map (blockOf level true)) ++ ['\n'] ++ tabs level)) =
    joinWith ['\n'] ([] :: (contentLines D ts).map (pad (4 * level))) := by
  have hpad : ∀ c : Str, pad (4 * level) c = tabs level ++ c := by intro c; unfold pad; rw [tabs_eq]
  rw [joinWith_cons_flat, List.nil_append, List.map_map]
  have hfun : ((fun x => ['\n'] ++ x) ∘ pad (4 * level)) = fun c => ['\n'] ++ tabs level ++ c := by
    funext c; simp [Function.comp, hpad]
  rw [hfun]
  unfold contentLines
  simp only [List.map_cons, List.map_append, List.map_nil, List.flatten_cons, List.flatten_append, List.flatten_nil,
    List.append_nil, chunk_flat level ts]
  have hj := joinWith_prefix (['\n'] ++ tabs level) (ts.map (blockOf level true)) (by simpa using hne)
  have e : ['\n'] ++ tabs level ++ joinWith (['\n'] ++ tabs level) (ts.map (blockOf level true)) =
      (ts.map fun x => ['\n'] ++ tabs level ++ blockOf level true x).flatten := by
    rw [hj, List.map_map]; rfl
  rw [← e]
  simp [List.append_assoc]

/-- no tab anywhere in an entry (tabs go through `expandtabs`, which is not modelled) -/
def NoTab (x : Triple) : Prop := '\t' ∉ x.1 ∧ '\t' ∉ x.2.1 ∧ '\t' ∉ x.2.2

theorem content_docLine (n d : Str) (hn : NameOK n) (hd : DocOK d) (h1 : '\t' ∉ n) (h2 : '\t' ∉ d) : Content (docLine n d) := by
  refine ⟨?_, ?_, ?_⟩
  · simp only [docLine, tokParam, List.mem_append, List.mem_cons, List.mem_nil_iff, not_or]
    exact ⟨⟨⟨by decide, by decide, hn.noNl⟩, by decide⟩, hd.oneLine⟩
  · simp only [docLine, tokParam, List.mem_append, List.mem_cons, List.mem_nil_iff, not_or]
    exact ⟨⟨⟨by decide, by decide, h1⟩, by decide⟩, h2⟩
  · intro a ha
    simp only [docLine, tokParam, List.cons_append, List.head?_cons, Option.some.injEq] at ha
    subst ha; decide

theorem content_typLine (n t : Str) (hn : NameOK n) (ht : TypOK t) (h1 : '\t' ∉ n) (h2 : '\t' ∉ t) : Content (typLine n t) := by
  refine ⟨?_, ?_, ?_⟩
  · simp only [typLine, tokType, bt3, List.mem_append, List.mem_cons, List.mem_nil_iff, not_or]
    exact ⟨⟨⟨⟨⟨by decide, by decide, hn.noNl⟩, by decide⟩, by decide⟩, ht.oneLine⟩, by decide⟩
  · simp only [typLine, tokType, bt3, List.mem_append, List.mem_cons, List.mem_nil_iff, not_or]
    exact ⟨⟨⟨⟨⟨by decide, by decide, h1⟩, by decide⟩, by decide⟩, h2⟩, by decide⟩
  · intro a ha
    simp only [typLine, tokType, List.cons_append, List.head?_cons, Option.some.injEq] at ha
    subst ha; decide

/-- **what the parser is handed for a function / class doctrans wrote** (types in the docstring, the separating
    indentation on): `inspect.cleandoc` of the text `to_docstring` builds is the content lines - summary, an empty
    line, then per entry its `:param` line, its `:type` line and an empty line - without the margin and without the
    blank lines at either end; for ANY indentation level, any number of entries, texts of any length -/
theorem cleandoc_toDocstring (D : Str) (ts : List Triple) (hne : ts ≠ []) (hok : ∀ x ∈ ts, BlockOK x)
    (hDne : D ≠ []) (hDt : Trimmed D) (hDnl : '\n' ∉ D) (hDm : AtMargin D) (hDtab : '\t' ∉ D)
    (hsepD : DocScan.otherSeparators D = false) (hsepP : ∀ x ∈ ts, DocScan.otherSeparators x.2.1 = false)
    (htab : ∀ x ∈ ts, NoTab x) (edd : Bool) (level : Nat) :
    ((toDocstring (mkIR D ts) edd level true true).bind cleandoc) =
      .ok (joinWith ['\n'] (trimBlank ([] :: contentLines D ts))) := by
  rw [toDocstring_text D ts hne hok hDne hDt hDnl hsepD hsepP edd level true true]
  simp only [Res.bind, if_true]
  rw [text_as_lines D ts hne level]
  apply cleandoc_uniform
  · intro c hc
    unfold contentLines at hc
    simp only [List.mem_cons, List.mem_append, List.mem_flatMap, List.mem_nil_iff, or_false] at hc
    have hnil : Content ([] : Str) := ⟨by simp, by simp, by intro a ha; simp at ha⟩
    rcases hc with (rfl | rfl | ⟨x, hx, hcx⟩) | rfl
    · exact ⟨hDnl, hDtab, fun a ha => hDm a ha⟩
    · exact hnil
    · obtain ⟨⟨hn, hd, ht⟩, _⟩ := hok x hx
      obtain ⟨t1, t2, t3⟩ := htab x hx
      rcases hcx with rfl | rfl | rfl
      · exact content_docLine x.1 x.2.1 hn hd.1 t1 t2
      · exact content_typLine x.1 x.2.2 hn ht t1 t3
      · exact hnil
    · exact hnil
  · exact ⟨D, by simp [contentLines], hDne⟩

end FuncDoc
end Py
