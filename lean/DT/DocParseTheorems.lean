import DT.DocParse
import DT.StrLemmas
/-! The entry parsers of the numpydoc and google styles invert the entry emitters on trimmed, single-line
    entries: what `emit_param_str` writes for (name, type, prose) is read back as that name, type and prose. -/
namespace Py
namespace DocParse
open DocEmit DocScan

theorem takeWhile_append_stop (p : Char → Bool) (a : Str) (c : Char) (r : Str)
    (ha : ∀ x ∈ a, p x = true) (hc : p c = false) : (a ++ c :: r).takeWhile p = a := by
  induction a with
  | nil => simp [List.takeWhile, hc]
  | cons x xs ih =>
    have hx := ha x (by simp)
    simp only [List.cons_append, List.takeWhile, hx]
    rw [ih (fun y hy => ha y (by simp [hy]))]

theorem partitionAt_split (c : Char) (a r : Str) (h : c ∉ a) : partitionAt c (a ++ c :: r) = (a, r, true) := by
  unfold partitionAt
  have ht : (a ++ c :: r).takeWhile (· != c) = a :=
    takeWhile_append_stop (· != c) a c r (by
      intro x hx
      have : x ≠ c := fun e => h (e ▸ hx)
      simp [this]) (by simp)
  simp only [ht]
  have hd : (a ++ c :: r).drop a.length = c :: r := by simp
  rw [hd]

theorem ws_space : ∀ x ∈ [' '], pyWs.contains x = true := by
  intro x hx; simp at hx; subst hx; decide

theorem ws_tab4 : ∀ x ∈ tab4, pyWs.contains x = true := by
  intro x hx; simp [tab4] at hx; subst hx; decide

theorem rstrip_space (s : Str) (hs : Trimmed s) : rstripWs (s ++ [' ']) = s := by
  unfold rstripWs stripRight
  rw [List.reverse_append]
  have := stripLeft_ws_append [' '] s.reverse ws_space (by
    intro c hc
    rw [List.head?_reverse] at hc
    exact hs.2 c hc)
  simp only [List.reverse_cons, List.reverse_nil, List.nil_append] at *
  rw [this]; simp

/-- **numpydoc**: the unit `name : typ` / indented prose is read back as that entry -/
theorem parseNumpy_emitted (name t d : Str) (hcolon : ':' ∉ name) (hne : name ≠ []) (hn : Trimmed name)
    (ht : Trimmed t) (hte : t ≠ []) (hd : Trimmed d) :
    parseNumpy [name ++ [' ', ':'] ++ [' '] ++ t, tab4 ++ d] = .ok (some (name, { typ := some t, doc := some d })) := by
  unfold parseNumpy
  have hsplit : name ++ [' ', ':'] ++ [' '] ++ t = (name ++ [' ']) ++ ':' :: (' ' :: t) := by simp
  have hc' : ':' ∉ name ++ [' '] := by
    intro h; rcases List.mem_append.mp h with h | h
    · exact hcolon h
    · simp at h
  rw [hsplit]
  simp only [partitionAt_split ':' (name ++ [' ']) (' ' :: t) hc']
  have h1 : (name ++ [' ']).isEmpty = false := by cases name <;> simp_all
  have h2 : (' ' :: t).isEmpty = false := rfl
  simp only [h1, h2, Bool.false_eq_true, if_false]
  have hl : lstripWs (' ' :: t) = t := by
    have := stripLeft_ws_append [' '] t ws_space ht.1
    simpa [lstripWs] using this
  have hdl : lstripWs (tab4 ++ d) = d := by
    have := stripLeft_ws_append tab4 d ws_tab4 hd.1
    simpa [lstripWs] using this
  rw [rstrip_space name hn, hl]
  simp [hdl, joinWith]

theorem ws_two : ∀ x ∈ [' ', ' '], pyWs.contains x = true := by
  intro x hx; simp at hx; subst hx; decide

theorem rstrip_keep (s : Str) (c : Char) (hc : pyWs.contains c = false) : rstripWs (s ++ [c]) = s ++ [c] := by
  unfold rstripWs stripRight
  rw [List.reverse_append]
  simp only [List.reverse_cons, List.reverse_nil, List.nil_append, List.singleton_append, stripLeft, hc,
    Bool.false_eq_true, if_false]
  simp

/-- **google**: the line `  name (typ): prose` is read back as that entry -/
theorem parseGoogle_emitted (name t d : Str)
    (hcn : ':' ∉ name) (hpn : '(' ∉ name) (hct : ':' ∉ t) (hne : name ≠ []) (hn : Trimmed name)
    (hte : t ≠ []) (hor : containsOr t = false) (hd : Trimmed d) (hde : d ≠ [])
    (hbrace : (decide (d.length > 3) && startsWith d ['{'] && endsWith d ['}']) = false) :
    parseGoogle [[' ', ' '] ++ name ++ [' ', '('] ++ t ++ [')', ':', ' '] ++ d] =
      .ok (name, { typ := some t, doc := some d }) := by
  unfold parseGoogle
  -- the line, split at its first ':'
  have hline : [' ', ' '] ++ name ++ [' ', '('] ++ t ++ [')', ':', ' '] ++ d =
      ([' ', ' '] ++ name ++ [' ', '('] ++ t ++ [')']) ++ ':' :: (' ' :: d) := by simp
  have hnocolon : ':' ∉ [' ', ' '] ++ name ++ [' ', '('] ++ t ++ [')'] := by
    intro h
    simp only [List.mem_append, List.mem_cons, List.mem_nil_iff, or_false] at h
    rcases h with (((h | h) | h) | h) | h
    · rcases h with h | h <;> exact absurd h (by decide)
    · exact hcn h
    · rcases h with h | h <;> exact absurd h (by decide)
    · exact hct h
    · exact absurd h (by decide)
  rw [hline]
  have hcontains : (([' ', ' '] ++ name ++ [' ', '('] ++ t ++ [')']) ++ ':' :: (' ' :: d)).contains ':' = true := by
    simp
  have htw : ((([' ', ' '] ++ name ++ [' ', '('] ++ t ++ [')']) ++ ':' :: (' ' :: d)).takeWhile (· != ':')) =
      [' ', ' '] ++ name ++ [' ', '('] ++ t ++ [')'] :=
    takeWhile_append_stop (· != ':') _ ':' _ (by
      intro x hx
      have : x ≠ ':' := fun e => hnocolon (e ▸ hx)
      simp [this]) (by simp)
  simp only [hcontains, Bool.not_true, Bool.false_eq_true, if_false, htw]
  have htake : (([' ', ' '] ++ name ++ [' ', '('] ++ t ++ [')']) ++ ':' :: (' ' :: d)).take
      ([' ', ' '] ++ name ++ [' ', '('] ++ t ++ [')']).length = [' ', ' '] ++ name ++ [' ', '('] ++ t ++ [')'] :=
    List.take_left' rfl
  have hdrop : (([' ', ' '] ++ name ++ [' ', '('] ++ t ++ [')']) ++ ':' :: (' ' :: d)).drop
      (([' ', ' '] ++ name ++ [' ', '('] ++ t ++ [')']).length + 1) = ' ' :: d := by
    have : ([' ', ' '] ++ name ++ [' ', '('] ++ t ++ [')']).length + 1 =
        (([' ', ' '] ++ name ++ [' ', '('] ++ t ++ [')']) ++ [':']).length := by simp; omega
    rw [this]
    have h2 : ([' ', ' '] ++ name ++ [' ', '('] ++ t ++ [')']) ++ ':' :: (' ' :: d) =
        (([' ', ' '] ++ name ++ [' ', '('] ++ t ++ [')']) ++ [':']) ++ (' ' :: d) := by simp
    rw [h2]
    exact List.drop_left' rfl
  rw [htake, hdrop]
  -- left part: strip the two leading blanks, split at '('
  have hs : lstripWs ([' ', ' '] ++ name ++ [' ', '('] ++ t ++ [')']) = name ++ [' ', '('] ++ t ++ [')'] := by
    have h0 : [' ', ' '] ++ name ++ [' ', '('] ++ t ++ [')'] = [' ', ' '] ++ (name ++ [' ', '('] ++ t ++ [')']) := by simp
    rw [h0]
    have := stripLeft_ws_append [' ', ' '] (name ++ [' ', '('] ++ t ++ [')']) ws_two (by
      intro c hc
      cases name with
      | nil => exact absurd rfl hne
      | cons x xs => simp at hc; exact hn.1 c (by simp [hc]))
    simpa [lstripWs] using this
  rw [hs]
  have hsplit2 : name ++ [' ', '('] ++ t ++ [')'] = (name ++ [' ']) ++ '(' :: (t ++ [')']) := by simp
  have hp' : '(' ∉ name ++ [' '] := by
    intro h; rcases List.mem_append.mp h with h | h
    · exact hpn h
    · simp at h
  rw [hsplit2]
  simp only [partitionAt_split '(' (name ++ [' ']) (t ++ [')']) hp', if_true]
  have hty : rstripWs (['('] ++ (t ++ [')'])) = ['('] ++ t ++ [')'] := by
    have : ['('] ++ (t ++ [')']) = (['('] ++ t) ++ [')'] := by simp
    rw [this, rstrip_keep (['('] ++ t) ')' (by decide)]
  rw [rstrip_space name hn, hty]
  have hal : lstripWs (' ' :: d) = d := by
    have := stripLeft_ws_append [' '] d ws_space hd.1
    simpa [lstripWs] using this
  rw [hal]
  have hnonempty : (['('] ++ t ++ [')']).isEmpty = false := by simp
  have hsw : (startsWith (['('] ++ t ++ [')']) ['('] && endsWith (['('] ++ t ++ [')']) [')']) = true := by
    simp [startsWith, endsWith]
  have hinner : ((['('] ++ t ++ [')']).drop 1).dropLast = t := by simp
  simp only [hnonempty, Bool.false_eq_true, if_false, hsw, Bool.not_true, hinner, hor, hbrace]
  have hj : joinWith ['\n'] [d] = d := by simp [joinWith]
  rw [hj, strip_trimmed d hd hde]

end DocParse
end Py
