import DT.GroundTruth
/-! non-vacuity of `LawsK`: a small concrete layer satisfies every law (so `sync_all_agree` is not a statement about an
    inconsistent set of assumptions), and a project with a file shared by two kinds meets `Separate`. -/
namespace FsSync
namespace GroundTruth

/-- a module is a list of (name, body) definitions; its text is the flat list of characters -/
abbrev ToyM := List (Char × Char)

def toyRender : ToyM → Text
  | [] => []
  | (a, b) :: r => a :: b :: toyRender r

def toyRead : Text → ToyM
  | a :: b :: r => (a, b) :: toyRead r
  | _ => []

def toyFind (k : Char) : ToyM → Option (Char × Char)
  | [] => none
  | d :: r => if d.1 == k then some d else toyFind k r

def toyReplace (d : Char × Char) : ToyM → ToyM
  | [] => []
  | e :: r => if e.1 == d.1 then d :: r else e :: toyReplace d r

def toy : LayerK ToyM (Char × Char) Char where
  render := toyRender
  read := toyRead
  key := (·.1)
  find := toyFind
  replaceAt := toyReplace
  single := fun d => [d]
  appendText := fun t d => toyRender (toyRead t ++ [d])
  cmp := fun a b => a == b
  indep := fun a b => a ≠ b

theorem toy_read_render : ∀ m : ToyM, toyRead (toyRender m) = m
  | [] => rfl
  | (a, b) :: r => by simp [toyRender, toyRead, toy_read_render r]

theorem toyFind_append (k : Char) (d : Char × Char) : ∀ m : ToyM, toyFind k (m ++ [d]) =
    match toyFind k m with | some x => some x | none => if d.1 == k then some d else none
  | [] => by simp [toyFind]
  | e :: r => by
    by_cases h : (e.1 == k) = true
    · simp [toyFind, h]
    · simp only [List.cons_append, toyFind, h, Bool.false_eq_true, if_false]
      exact toyFind_append k d r

theorem toyFind_replace_self (d : Char × Char) : ∀ m : ToyM, (toyFind d.1 m).isSome → toyFind d.1 (toyReplace d m) = some d
  | [], h => by simp [toyFind] at h
  | e :: r, h => by
    by_cases he : (e.1 == d.1) = true
    · simp [toyReplace, he, toyFind]
    · simp only [toyFind, he, Bool.false_eq_true, if_false] at h
      simp only [toyReplace, he, Bool.false_eq_true, if_false, toyFind]
      exact toyFind_replace_self d r h

theorem toyFind_replace_other (d : Char × Char) (k : Char) (hk : k ≠ d.1) : ∀ m : ToyM,
    toyFind k (toyReplace d m) = toyFind k m
  | [] => rfl
  | e :: r => by
    by_cases he : (e.1 == d.1) = true
    · have h1 : (e.1 == k) = false := by
        have : e.1 = d.1 := by simpa using he
        rw [this]; simpa using fun h => hk h.symm
      have h2 : (d.1 == k) = false := by simpa using fun h => hk h.symm
      simp [toyReplace, he, toyFind, h1, h2]
    · simp only [toyReplace, he, Bool.false_eq_true, if_false, toyFind]
      rw [toyFind_replace_other d k hk r]

theorem toy_laws : LawsK toy where
  read_render := toy_read_render
  find_single := by intro d; simp [toy, toyFind]
  find_replace := by intro d m h; exact toyFind_replace_self d m h
  find_append := by
    intro t d h
    show toyFind d.1 (toyRead (toyRender (toyRead t ++ [d]))) = some d
    have h' : toyFind d.1 (toyRead t) = none := h
    rw [toy_read_render, toyFind_append, h']
    simp
  cmp_refl := by intro d; simp [toy]
  replace_frame := by intro d m k hk; exact toyFind_replace_other d k hk m
  append_frame := by
    intro t d k hk
    show toyFind k (toyRead (toyRender (toyRead t ++ [d]))) = toyFind k (toyRead t)
    rw [toy_read_render, toyFind_append]
    have : (d.1 == k) = false := by simpa using fun h => hk h.symm
    cases toyFind k (toyRead t) <;> simp [this]

/-- one file (path 0) named for two kinds (`a`, `b`), another (path 1, missing) for the second kind only: after the loop
    every target agrees, whatever the first file held -/
example (t0 : Text) : ∀ x ∈ [((0 : Path), ('a', 'x')), (0, ('b', 'y')), (1, ('b', 'y'))],
    Agrees toy (runK toy (fun p => if p = 0 then some t0 else none) [(0, ('a', 'x')), (0, ('b', 'y')), (1, ('b', 'y'))]) x :=
  sync_all_agree toy toy_laws _ _ (by simp [Separate, toy])

/-! ### why every step re-reads its file -/

/-- a loop that parses every target file ONCE, before the first step, and lets each step work from that tree (what a
    per-run cache of parsed modules does) -/
def runStale (L : LayerK ToyM (Char × Char) Char) (fs0 : FS) (ts : List (Path × (Char × Char))) : FS :=
  ts.foldl (fun fs pd => fs.set pd.1 (conformK L (fs0 pd.1) pd.2).1) fs0

/-- one file holding a stale `b`; the first step appends `a`, the second rewrites `b` - from the tree read before `a`
    was appended: `a` is gone again. The loop that re-reads (`runK`) keeps both. -/
theorem stale_tree_loses_the_appended_definition :
    let fs0 : FS := fun p => if p = 0 then some ['b', 'o'] else none
    let ts : List (Path × (Char × Char)) := [(0, ('a', 'x')), (0, ('b', 'y'))]
    toyFind 'a' (toyRead ((runStale toy fs0 ts 0).getD [])) = none ∧
    toyFind 'a' (toyRead ((runK toy fs0 ts 0).getD [])) = some ('a', 'x') ∧
    toyFind 'b' (toyRead ((runK toy fs0 ts 0).getD [])) = some ('b', 'y') := by
  decide

end GroundTruth
end FsSync
