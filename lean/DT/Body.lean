import DT.Locate
/-! C16: carrying implementation bodies through parse and re-emission (list surgery on the statement
    list) and `emitter_utils.RewriteName` (parameter references become `self.<name>`), over the generic tree. -/
namespace PyAst
namespace Body

def itemKind : Item → String
  | .node n => n.kind
  | .atom _ => ""

def isReturn (it : Item) : Bool := itemKind it == "Return"

/-- an `Expr` statement whose value is a string constant (a docstring) -/
def isDocExpr : Item → Bool
  | .node n =>
    n.kind == "Expr" &&
    (match n.nodeField "value" with
     | some v => v.kind == "Constant" && (match v.atomField "value" with | some (.str _) => true | _ => false)
     | none => false)
  | .atom _ => false

/-- `parse.function`: `function_def.body if doc_str is None else function_def.body[1:]` -/
def parseBody (stmts : List Item) : List Item :=
  match stmts with
  | d :: rest => if isDocExpr d then rest else d :: rest
  | [] => []

def endsWithReturn (body : List Item) : Bool :=
  match body.getLast? with | some l => isReturn l | none => false

/-- `emit.function`: docstring, the carried body, then the return built from the description — only when
    the carried body does not itself end in a `return` (a carried body keeps its own final return) -/
def emitBody (doc : Item) (body : List Item) (ret : Option Item) : List Item :=
  [doc] ++ body ++ (if endsWithReturn body then [] else ret.toList)

/-- the code before the repair: the final return was dropped and re-created from the description -/
def emitBodyOld (doc : Item) (body : List Item) (ret : Option Item) : List Item :=
  [doc] ++ (if endsWithReturn body && ret.isSome then body.dropLast else body) ++ ret.toList

theorem endsWithReturn_snoc (b : List Item) (r : Item) : endsWithReturn (b ++ [r]) = isReturn r := by
  unfold endsWithReturn; simp

/-- **round trip of a body that ends in `return e`**, whatever return the description carries: every
    statement comes back, in order, once; the final return is kept once -/
theorem emit_parse_body (doc r : Item) (b : List Item) (ret : Option Item) (hr : isReturn r = true) :
    emitBody doc (b ++ [r]) ret = doc :: (b ++ [r]) := by
  unfold emitBody
  rw [endsWithReturn_snoc, hr]; simp

/-- a body without final return and no return in the description: unchanged -/
theorem emit_body_noreturn (doc : Item) (b : List Item) (h : endsWithReturn b = false) :
    emitBody doc b none = doc :: b := by
  unfold emitBody; simp [h]

/-- a body without final return gets the description's return appended, once, at the end -/
theorem emit_body_addreturn (doc r : Item) (b : List Item) (h : endsWithReturn b = false) :
    emitBody doc b (some r) = doc :: (b ++ [r]) := by
  unfold emitBody; simp [h]

/-- the re-emitted function parses back to the same carried body (docstring skipped) -/
theorem parse_emit_body (doc r : Item) (b : List Item) (ret : Option Item)
    (hd : isDocExpr doc = true) (hr : isReturn r = true) :
    parseBody (emitBody doc (b ++ [r]) ret) = b ++ [r] := by
  rw [emit_parse_body doc r b ret hr]; simp [parseBody, hd]

/-- the old code agrees only when the description's return re-creates the body's own -/
theorem emitBodyOld_eq (doc r : Item) (b : List Item) (hr : isReturn r = true) :
    emitBodyOld doc (b ++ [r]) (some r) = doc :: (b ++ [r]) := by
  unfold emitBodyOld; rw [endsWithReturn_snoc, hr]; simp

/-- witness of the repaired defect: the description stores `return 'done'` as the text `done`, the old
    emitter re-created `return done` in place of the carried statement -/
theorem emitBodyOld_replaces_return (doc r r' : Item) (b : List Item) (hr : isReturn r = true) :
    emitBodyOld doc (b ++ [r]) (some r') = doc :: (b ++ [r']) := by
  unfold emitBodyOld; rw [endsWithReturn_snoc, hr]; simp

/-! ### RewriteName -/

def selfAttr (name : Atom) : Node :=
  .mk "Attribute"
    [("value", .node (.mk "Name" [("id", .atom (.str "self")), ("ctx", .node (.mk "Load" [] none none none))] none none none)),
     ("attr", .atom name), ("ctx", .node (.mk "Load" [] none none none))] none none none

/-- the `id` of a `Name` node -/
def idOf (fs : List (String × Field)) : Option Atom :=
  match fs.find? (·.1 == "id") with
  | some (_, Field.atom a) => some a
  | _ => none

/-- does `RewriteName(node_ids)` rewrite this `Name`? (`not self.node_ids or node.id in self.node_ids`) -/
def hits (ps : List Atom) (fs : List (String × Field)) : Bool :=
  ps.isEmpty || (match idOf fs with | some a => ps.contains a | none => false)

mutual
  def rwNode (ps : List Atom) : Node → Node
    | .mk k fs l i d =>
      if k == "Name" then
        (if hits ps fs then selfAttr ((idOf fs).getD .none)
         else .mk k (rwFields ps fs) l i d)
      else .mk k (rwFields ps fs) l i d
  def rwFields (ps : List Atom) : List (String × Field) → List (String × Field)
    | [] => []
    | (k, f) :: rest => (k, rwField ps f) :: rwFields ps rest
  def rwField (ps : List Atom) : Field → Field
    | .atom a => .atom a
    | .missing => .missing
    | .node n => .node (rwNode ps n)
    | .list items => .list (rwItems ps items)
  def rwItems (ps : List Atom) : List Item → List Item
    | [] => []
    | it :: rest => rwItem ps it :: rwItems ps rest
  def rwItem (ps : List Atom) : Item → Item
    | .node n => .node (rwNode ps n)
    | .atom a => .atom a
end

/-- no statement is dropped or duplicated by the rewriting -/
theorem rwItems_length (ps : List Atom) : ∀ its, (rwItems ps its).length = its.length
  | [] => by simp [rwItems]
  | it :: rest => by simp [rwItems, rwItems_length ps rest]

/- does a sub-tree contain a `Name` the rewriting would hit -/
mutual
  def mentionsNode (ps : List Atom) : Node → Bool
    | .mk k fs _ _ _ => (k == "Name" && hits ps fs) || mentionsFields ps fs
  def mentionsFields (ps : List Atom) : List (String × Field) → Bool
    | [] => false
    | (_, f) :: rest => mentionsField ps f || mentionsFields ps rest
  def mentionsField (ps : List Atom) : Field → Bool
    | .atom _ => false
    | .missing => false
    | .node n => mentionsNode ps n
    | .list items => mentionsItems ps items
  def mentionsItems (ps : List Atom) : List Item → Bool
    | [] => false
    | it :: rest => mentionsItem ps it || mentionsItems ps rest
  def mentionsItem (ps : List Atom) : Item → Bool
    | .node n => mentionsNode ps n
    | .atom _ => false
end

/- **no other name is touched**: a sub-tree that mentions no parameter is returned unchanged -/
mutual
  theorem rwNode_frame (ps : List Atom) : ∀ n, mentionsNode ps n = false → rwNode ps n = n
    | .mk k fs l i d => by
      intro h
      unfold mentionsNode at h
      simp only [Bool.or_eq_false_iff, Bool.and_eq_false_iff] at h
      unfold rwNode
      by_cases hk : (k == "Name") = true
      · have hh : hits ps fs = false := by
          rcases h.1 with h1 | h1
          · rw [hk] at h1; cases h1
          · exact h1
        simp only [hk, if_true, hh, Bool.false_eq_true, if_false]
        rw [rwFields_frame ps fs h.2]
      · simp only [hk, Bool.false_eq_true, if_false]
        rw [rwFields_frame ps fs h.2]
  theorem rwFields_frame (ps : List Atom) : ∀ fs, mentionsFields ps fs = false → rwFields ps fs = fs
    | [] => by intro _; simp [rwFields]
    | (k, f) :: rest => by
      intro h
      simp only [mentionsFields, Bool.or_eq_false_iff] at h
      simp only [rwFields]
      rw [rwField_frame ps f h.1, rwFields_frame ps rest h.2]
  theorem rwField_frame (ps : List Atom) : ∀ f, mentionsField ps f = false → rwField ps f = f
    | .atom a => by intro _; simp [rwField]
    | .missing => by intro _; simp [rwField]
    | .node n => by intro h; simp only [mentionsField] at h; simp only [rwField]; rw [rwNode_frame ps n h]
    | .list items => by
      intro h; simp only [mentionsField] at h; simp only [rwField]; rw [rwItems_frame ps items h]
  theorem rwItems_frame (ps : List Atom) : ∀ its, mentionsItems ps its = false → rwItems ps its = its
    | [] => by intro _; simp [rwItems]
    | it :: rest => by
      intro h
      simp only [mentionsItems, Bool.or_eq_false_iff] at h
      simp only [rwItems]
      rw [rwItem_frame ps it h.1, rwItems_frame ps rest h.2]
  theorem rwItem_frame (ps : List Atom) : ∀ it, mentionsItem ps it = false → rwItem ps it = it
    | .node n => by intro h; simp only [mentionsItem] at h; simp only [rwItem]; rw [rwNode_frame ps n h]
    | .atom a => by intro _; simp [rwItem]
end

/-- only `Name` nodes change class: every other node keeps its kind (keyword names, attribute names and
    every other non-node field are atoms and are copied as they are by `rwField`) -/
theorem rwNode_kind (ps : List Atom) (k : String) (fs l i d) (hk : (k == "Name") = false) :
    (rwNode ps (.mk k fs l i d)).kind = k := by
  unfold rwNode; simp [hk, Node.kind]

end Body
end PyAst
