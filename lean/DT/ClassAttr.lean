import DT.Kinds
/-! Statement-level model of the attribute part of the class kind:
    `ast_utils.param2ast` (one entry -> `name: annotation = value`), the `AnnAssign` branch of
    `parse.class_` (that statement -> typ / default) and `docstring_parsers._infer_default`.
    Composed (`attrRT`), it is what `Kinds.normClassParam` says at interface level; `attrRT_eq_norm` proves
    that on the typed, literal-default part of the domain. Tied to the code by the driver operations
    `param2ast` and `class_attr`. -/
namespace Py
namespace ClassAttr
open Kinds

/-- the value side of the emitted `name: annotation = value` -/
inductive AVal where
  | const (v : Val)          -- `ast.Constant`; `.none` = `Constant(None)`
  | expr (src : Str)         -- any other expression, by its unparsed text
  | dict                     -- `{}`
deriving DecidableEq, Repr

structure Attr where
  ann : Str
  value : AVal
deriving DecidableEq, Repr

/-- `type(v).__name__` -/
def typeName : Val → Str
  | .none => ['N', 'o', 'n', 'e', 'T', 'y', 'p', 'e']
  | .bool _ => tBool
  | .int _ _ => tInt
  | .float _ => tFloat
  | .str _ => tStr

/-- a float literal token is non-zero (its mantissa has a non-zero digit; `inf`/`nan` have no digit at all) -/
def floatNonZero (tok : Str) : Bool :=
  let m := tok.takeWhile fun c => c != 'e' && c != 'E'
  (m.any fun c => isAsciiDigit c && c != '0') || !(tok.any isAsciiDigit)

/-- Python truthiness of a default value -/
def truthy : Val → Bool
  | .none => false
  | .bool b => b
  | .int _ d => !isZeroDigits d
  | .float t => floatNonZero t
  | .str s => !s.isEmpty

def quoteChar (c : Char) : Bool := c == '"' || c == '\''

/-- `set_value(value)`: a string longer than two characters that starts and ends with the same quote mark
    loses that pair -/
def setValue : Val → Val
  | .str s =>
    match s.head?, s.getLast? with
    | some a, some b => if s.length > 2 && a == b && quoteChar a then .str ((s.drop 1).dropLast) else .str s
    | _, _ => .str s
  | v => v

/-- `simple_types.get(typ)` for the types of the domain (`complex` is left out) -/
def simpleZero (t : Str) : Option Val := if isScalar t then some (zeroOf t) else none

def tDict : Str := ['d', 'i', 'c', 't']

/-- is the text an integer or float literal as `ast.parse` reads it (then a str default under a generic type
    becomes a number) -/
def numericText (s : Str) : Bool := isIntTok s || isFloatTok s

def identText (s : Str) : Bool :=
  match s with
  | [] => false
  | c :: _ => !isAsciiDigit c && s.all isIdentChar && !pyKeywords.contains (String.ofList s)

/-- `param2ast((name, param))` -/
def param2ast (p : Param) : Res Attr :=
  -- `if typ is None and "default" in _param: typ = type(default).__name__`
  let typ : Option Str := match p.typ, p.default with
    | none, some v => some (typeName v)
    | t, _ => t
  -- `elif _param["default"] == NoneStr: _param["default"] = None`
  let dflt : Option Val := match p.default with
    | some (.str s) => if s == noneStr then some .none else p.default
    | d => d
  match typ with
  | none => .ok ⟨['o', 'b', 'j', 'e', 'c', 't'], .const (setValue (dflt.getD .none))⟩
  | some t =>
    (needsQuoting (some t)).bind fun q =>
    if q then
      match dflt with
      | some v =>
        if truthy v then
          match v with
          | .str s => .ok ⟨t, .const (setValue (.str (quote s)))⟩
          | _ => .raises "AttributeError"            -- `quote(5)`: the poor man's get_value reads `.value`
        else .ok ⟨t, .const (setValue ((simpleZero t).getD .none))⟩
      | none => .ok ⟨t, .const (setValue ((simpleZero t).getD .none))⟩
    else if isScalar t then
      -- `default or simple_types[typ]`
      let v := match dflt with | some v => if truthy v then v else zeroOf t | none => zeroOf t
      .ok ⟨t, .const (setValue v)⟩
    else if t == tDict || startsWith t ['*'] then
      if p.default.isSome then .unmodelled "dict-typed entry with a default" else .ok ⟨tDict, .dict⟩
    else
      -- `_generic_param2ast`
      match p.default with          -- ("default" in _param: the key, whatever its value)
      | none => .ok ⟨t, .const .none⟩
      | some _ =>
        match dflt with
        | some (.str s) =>
          if codeQuoted s then
            (if (s.drop 3).dropLast.dropLast.dropLast == sNone || (s.drop 3).dropLast.dropLast.dropLast == ['(', 'N', 'o', 'n', 'e', ')']
             then .ok ⟨t, .const .none⟩
             else .ok ⟨t, .const (.str s)⟩)               -- `ast.parse` of back-ticks: SyntaxError, kept as text
          else if numericText s then .unmodelled "a str default that reads as a number under a generic type"
          -- (`None`, `True`, `False` are constants to `ast.parse`, not names)
          else if s == sNone then .ok ⟨t, .const .none⟩
          else if s == ['T', 'r', 'u', 'e'] then .ok ⟨t, .const (.bool true)⟩
          else if s == ['F', 'a', 'l', 's', 'e'] then .ok ⟨t, .const (.bool false)⟩
          else if identText s then .ok ⟨t, .expr s⟩       -- parsed as a name
          else .unmodelled "a str default parsed as an expression under a generic type"
        | some v => .ok ⟨t, .const (setValue v)⟩
        | none => .ok ⟨t, .const .none⟩

/-- the `AnnAssign` branch of `parse.class_`: annotation text and `get_value(get_value(e))` -/
def attrParse (a : Attr) : Res (Str × Val) :=
  match a.value with
  | .const .none => .ok (a.ann, .str noneStr)          -- `get_value` maps `None` to `NoneStr`
  | .const v => .ok (a.ann, v)
  | .expr src =>
    if src == ['[', ']'] || src == ['(', ')'] || src == ['{', '}'] then .unmodelled "container default"
    else .ok (a.ann, .str src)                          -- a name gives its id, anything else its source text
  | .dict => .unmodelled "dict default"

def unquote (s : Str) : Str :=
  match s.head?, s.getLast? with
  | some a, some b => if s.length > 1 && a == b && quoteChar a then (s.drop 1).dropLast else s
  | _, _ => s

def isNoneType : Val → Bool
  | .none => true
  | .str s => s == sNone || s == noneStr
  | _ => false

/-- `_infer_default(_param, infer_type=False)` on an entry that has a default -/
def inferDefault (typ : Option Str) (d : Val) : Res (Option Str × Val) :=
  let d := if isNoneType d then .str noneStr else d
  (needsQuoting typ).bind fun q =>
  let d := match d with | .str s => .str (unquote s) | v => if q then v else v
  let typ := match typ with
    | none => if d != .str noneStr then some (typeName d) else none
    | t => t
  let isCode := match d with | .str s => codeQuoted s && s != noneStr | _ => false
  let typ := if isCode && !((typ.getD []).contains '[') then none else typ
  .ok (typ, d)

/-- one entry through `param2ast`, the class parser's attribute branch and `_infer_default`
    (prose and the `(Optional)` rule are the docstring side's business) -/
def attrRT (p : Param) : Res Param :=
  (param2ast p).bind fun a =>
  (attrParse a).bind fun td =>
  (inferDefault (some td.1) td.2).bind fun r =>
  .ok { p with typ := r.1, default := some r.2 }

end ClassAttr
end Py
