import DT.DocParseTheorems
import DT.DocScanTheorems
import DT.RestRT
/-! The whole-docstring round trip of the **numpydoc** style on the default-free domain: `emit.docstring` followed by
    `parse_docstring` (scan phase, line grouping, return split, entry parser, `interpolate_defaults`,
    `_set_name_and_type`) is the identity for every summary line and every non-empty list of uniquely named, typed,
    described parameters - by induction over the parameters, no bound on their number or on the length of any text. -/
namespace Py
namespace NumpyRT
open DocEmit DocScan DocParse

/-- prose that `set_default_doc` leaves alone even with default text on: it does not mention "defaults" -/
def NDoc (d : Str) : Prop :=
  DocOK d ∧ containsSub d "Defaults".toList = false ∧ containsSub d "defaults".toList = false

def headLine (n t : Str) : Str := n ++ [' ', ':'] ++ [' '] ++ t
def bodyLine (d : Str) : Str := tab4 ++ d
def entryText (x : Triple) : Str := headLine x.1 x.2.2 ++ ['\n'] ++ bodyLine x.2.1

theorem isEmpty_false_of_ne (s : Str) (h : s ≠ []) : s.isEmpty = false := by
  cases s with
  | nil => exact absurd rfl h
  | cons _ _ => rfl

theorem indent_one_line (d : Str) (hd : DocOK d) : DocEmit.indentLines tab4 d = tab4 ++ d := by
  unfold DocEmit.indentLines
  rw [splitOnChar_no_sep '\n' d hd.oneLine]
  have : (strip pyWs d).isEmpty = false := by
    rw [strip_trimmed d hd.trimmed hd.ne]; exact isEmpty_false_of_ne d hd.ne
  simp only [List.map_cons, List.map_nil, this, Bool.false_eq_true, if_false]
  rfl

theorem emitEntry_ok (x : Triple) (hn : NameOK x.1) (hd : NDoc x.2.1) (ht : TypOK x.2.2) (e : Bool) :
    emitParamStrNumpy x.1 (mkParam x.2.1 x.2.2) e = .ok (entryText x) := by
  obtain ⟨n, d, t⟩ := x
  obtain ⟨hdo, hD1, hD2⟩ := hd
  simp only at hn hdo hD1 hD2 ht
  have hret : (n == retName) = false := by simp [hn.notRet]
  have hsd : setDefaultDoc n (mkParam d t) e = .ok (mkParam d t) := by
    unfold setDefaultDoc mkParam
    simp only [hD1, hD2, Bool.or_self, Bool.false_and, Bool.false_eq_true, if_false, Option.isSome_none, Bool.false_and]
  unfold emitParamStrNumpy
  simp only [mkParam, nonEmpty, isEmpty_false_of_ne t ht.ne, isEmpty_false_of_ne d hdo.ne, Bool.false_eq_true, if_false, hret]
  have hsd' := hsd
  unfold mkParam at hsd'
  rw [hsd']
  simp only [Res.bind, indent_one_line d hdo, Option.toList]
  have : (tab4 ++ d).isEmpty = false := by simp [tab4]
  simp only [this, Bool.false_eq_true, if_false]
  rfl

def TripleOK' (x : Triple) : Prop := NameOK x.1 ∧ NDoc x.2.1 ∧ TypOK x.2.2

theorem emitEntries_ok (ts : List Triple) (hok : ∀ x ∈ ts, TripleOK' x) (e : Bool) :
    emitEntries .numpydoc (ts.map entryOf) e = .ok (ts.map entryText) := by
  induction ts with
  | nil => rfl
  | cons x ts ih =>
    have hx := hok x (by simp)
    simp only [List.map_cons, emitEntries, entryOf, emitEntry, emitEntry_ok x hx.1 hx.2.1 hx.2.2 e, Res.bind,
      ih (fun y hy => hok y (by simp [hy]))]

/-- what precedes the section token, and what follows the entries -/
def preN (D : Str) : Str := '\n' :: D ++ ['\n', '\n', '\n']
def tailN : Str := ['\n', '\n', '\n']

/-- the emitted numpydoc text, cut where the scanner cuts it -/
def textN (D : Str) (ts : List Triple) : Str :=
  preN D ++ argToken .numpydoc ++ ['\n'] ++ joinWith ['\n'] (ts.map entryText) ++ tailN

theorem joinWith_cons_ne (sep x : Str) (xs : List Str) (h : xs ≠ []) : joinWith sep (x :: xs) = x ++ sep ++ joinWith sep xs := by
  cases xs with
  | nil => exact absurd rfl h
  | cons _ _ => rfl

theorem emit_text (D : Str) (ts : List Triple) (hne : ts ≠ []) (hok : ∀ x ∈ ts, TripleOK' x) (e : Bool) :
    emitDocstring .numpydoc (mkIR D ts) e = .ok (textN D ts) := by
  unfold emitDocstring
  simp only [mkIR, emitEntries_ok ts hok e, Res.bind]
  have hne' : (ts.map entryText).isEmpty = false := by
    cases ts with
    | nil => exact absurd rfl hne
    | cons _ _ => rfl
  simp only [hne', Bool.false_eq_true, if_false, if_true]
  rw [joinWith_cons_ne ['\n'] _ _ (by simpa using hne)]
  simp [textN, preN, tailN]

/-! ### the scan phase on the emitted text -/

theorem findSub_skip (c : Char) (tk : Str) : ∀ (A R : Str) (i : Nat), c ∉ A →
    findSub (c :: tk) (A ++ (c :: tk) ++ R) i = some (i + A.length)
  | [], R, i, _ => by
    have : (c :: tk).isPrefixOf (c :: (tk ++ R)) = true :=
      List.isPrefixOf_iff_prefix.mpr (by simpa using List.prefix_append (c :: tk) R)
    simp only [List.nil_append, List.cons_append, findSub, this, if_true, List.length_nil, Nat.add_zero]
  | a :: A, R, i, h => by
    have ha : a ≠ c := fun e => h (by simp [e])
    have hA : c ∉ A := fun e => h (by simp [e])
    have hp : (c :: tk).isPrefixOf (a :: (A ++ (c :: tk) ++ R)) = false := by
      simp [List.isPrefixOf, Ne.symm ha]
    show findSub (c :: tk) (a :: (A ++ (c :: tk) ++ R)) i = _
    rw [findSub, hp]
    simp only [Bool.false_eq_true, if_false]
    rw [findSub_skip c tk A R (i + 1) hA]
    simp only [List.length_cons]
    congr 1
    omega

/-- the lines of the entries: a head line and an indented body line each -/
def linesOf (ts : List Triple) : List Str := ts.flatMap fun x => [headLine x.1 x.2.2, bodyLine x.2.1]

theorem joinWith_append_ne (sep : Str) : ∀ (l1 l2 : List Str), l1 ≠ [] → l2 ≠ [] →
    joinWith sep (l1 ++ l2) = joinWith sep l1 ++ sep ++ joinWith sep l2
  | [], _, h, _ => absurd rfl h
  | [x], l2, _, h2 => by
    simp only [List.singleton_append]
    rw [joinWith_cons_ne sep x l2 h2]
    rfl
  | x :: y :: r, l2, _, h2 => by
    have ih := joinWith_append_ne sep (y :: r) l2 (by simp) h2
    have e1 : (x :: y :: r) ++ l2 = x :: ((y :: r) ++ l2) := rfl
    rw [e1, joinWith_cons_ne sep x _ (by simp), ih, joinWith_cons_ne sep x (y :: r) (by simp)]
    simp

theorem entries_as_lines : ∀ (ts : List Triple), ts ≠ [] →
    joinWith ['\n'] (ts.map entryText) = joinWith ['\n'] (linesOf ts)
  | [], h => absurd rfl h
  | [x], _ => by simp [linesOf, entryText, joinWith]
  | x :: y :: r, _ => by
    have ih := entries_as_lines (y :: r) (by simp)
    have e1 : linesOf (x :: y :: r) = [headLine x.1 x.2.2, bodyLine x.2.1] ++ linesOf (y :: r) := by simp [linesOf]
    have hne : linesOf (y :: r) ≠ [] := by simp [linesOf]
    rw [e1, joinWith_append_ne ['\n'] _ _ (by simp) hne, ← ih]
    simp only [List.map_cons]
    rw [joinWith_cons_ne ['\n'] _ _ (by simp)]
    simp [entryText, joinWith]

theorem splitOnChar_cons (sep c : Char) (t : Str) :
    splitOnChar sep (c :: t) = match splitOnChar sep t with
      | [] => [[c]]
      | h :: r => if c == sep then [] :: h :: r else (c :: h) :: r := by
  rw [splitOnChar]
  cases splitOnChar sep t <;> rfl

theorem splitOnChar_ne_nil (sep : Char) : ∀ (r : Str), splitOnChar sep r ≠ []
  | [] => by simp [splitOnChar]
  | c :: t => by
    rw [splitOnChar_cons]
    cases splitOnChar sep t with
    | nil => simp
    | cons h rr => by_cases hc : (c == sep) = true <;> simp [hc]

theorem splitOnChar_cons_sep (sep : Char) (r : Str) : splitOnChar sep (sep :: r) = [] :: splitOnChar sep r := by
  rw [splitOnChar_cons]
  cases hs : splitOnChar sep r with
  | nil => exact absurd hs (splitOnChar_ne_nil sep r)
  | cons h rr => simp

theorem splitOnChar_line (sep : Char) : ∀ (a r : Str), sep ∉ a → splitOnChar sep (a ++ sep :: r) = a :: splitOnChar sep r
  | [], r, _ => splitOnChar_cons_sep sep r
  | c :: a, r, h => by
    have hc : (c == sep) = false := by
      have : c ≠ sep := fun e => h (by simp [e])
      simp [this]
    have ha : sep ∉ a := fun e => h (by simp [e])
    have ih := splitOnChar_line sep a r ha
    rw [List.cons_append, splitOnChar_cons, ih]
    simp [hc]

theorem splitOnChar_joined (sep : Char) : ∀ (L : List Str) (R : Str), L ≠ [] → (∀ l ∈ L, sep ∉ l) →
    splitOnChar sep (joinWith [sep] L ++ sep :: R) = L ++ splitOnChar sep R
  | [], _, h, _ => absurd rfl h
  | [x], R, _, hl => by
    simp only [joinWith, List.singleton_append]
    exact splitOnChar_line sep x R (hl x (by simp))
  | x :: y :: r, R, _, hl => by
    rw [joinWith_cons_ne [sep] x (y :: r) (by simp)]
    have : x ++ [sep] ++ joinWith [sep] (y :: r) ++ sep :: R = x ++ sep :: (joinWith [sep] (y :: r) ++ sep :: R) := by simp
    rw [this, splitOnChar_line sep x _ (hl x (by simp)),
      splitOnChar_joined sep (y :: r) R (by simp) (fun l h => hl l (by simp [h]))]
    rfl

/-! ### the line grouping as a fold -/

def groupStep (fi : Nat) (st : List (List Str)) (line : Str) : List (List Str) :=
  if lws line == fi then st ++ [[line]]
  else match st.getLast? with
    | some last => st.dropLast ++ [last ++ [line]]
    | none => st

theorem groupStep_ne (fi : Nat) (st : List (List Str)) (line : Str) (h : st ≠ []) : groupStep fi st line ≠ [] := by
  unfold groupStep
  split
  · simp
  · cases hs : st.getLast? with
    | none => exact absurd (List.getLast?_eq_none_iff.mp hs) h
    | some x => simp

/-- on a section without a dedented line the loop IS the fold of `groupStep` (any number of lines) -/
theorem scanLoop_fold (style : Style) (lines : List Str) (fi : Nat) :
    ∀ (fuel lineNo : Nat) (lp : Loop),
      lines.length ≤ lineNo + fuel →
      (∀ l ∈ lines.drop lineNo, fi ≤ lws l) →
      (lp.stacker ≠ [] ∨ ∀ l, lines[lineNo]? = some l → lws l = fi) →
      scanLoop style lines fi fuel lineNo lp =
        .ok { lp with stacker := (lines.drop lineNo).foldl (groupStep fi) lp.stacker }
  | 0, lineNo, lp, hlen, _, _ => by
    have : lines.drop lineNo = [] := List.drop_eq_nil_of_le (by omega)
    simp [scanLoop, this]
  | fuel + 1, lineNo, lp, hlen, hind, hst => by
    unfold scanLoop
    cases hl : lines[lineNo]? with
    | none =>
      have : lines.drop lineNo = [] := by
        apply List.drop_eq_nil_of_le
        exact List.getElem?_eq_none_iff.mp hl
      simp [this]
    | some line =>
      have hlt : lineNo < lines.length := by
        rcases List.getElem?_eq_some_iff.mp hl with ⟨h, _⟩; exact h
      have hdrop : lines.drop lineNo = line :: lines.drop (lineNo + 1) := by
        rw [List.drop_eq_getElem_cons hlt]
        congr 1
        rcases List.getElem?_eq_some_iff.mp hl with ⟨_, h2⟩; exact h2
      have hge : fi ≤ lws line := hind line (by rw [hdrop]; simp)
      have hind' : ∀ l ∈ lines.drop (lineNo + 1), fi ≤ lws l := by
        intro l hl'; exact hind l (by rw [hdrop]; simp [hl'])
      simp only
      by_cases heq : lws line = fi
      · have hb : (lws line == fi) = true := by simp [heq]
        simp only [hb, if_true]
        rw [scanLoop_fold style lines fi fuel (lineNo + 1) { lp with stacker := lp.stacker ++ [[line]] } (by omega) hind'
          (Or.inl (by simp))]
        rw [hdrop]
        simp [groupStep, hb]
      · have hb : (lws line == fi) = false := by simp [heq]
        have hnlt : ¬ (lws line < fi) := by omega
        simp only [hb, Bool.false_eq_true, if_false, hnlt]
        have hne : lp.stacker ≠ [] := by
          rcases hst with h | h
          · exact h
          · exact absurd (h line hl) heq
        obtain ⟨last, hlast⟩ : ∃ last, lp.stacker.getLast? = some last := by
          cases hs : lp.stacker.getLast? with
          | none => exact absurd (List.getLast?_eq_none_iff.mp hs) hne
          | some x => exact ⟨x, rfl⟩
        rw [hlast]
        simp only
        rw [scanLoop_fold style lines fi fuel (lineNo + 1) { lp with stacker := lp.stacker.dropLast ++ [last ++ [line]] }
          (by omega) hind' (Or.inl (by simp))]
        rw [hdrop]
        simp [groupStep, hb, hlast]

def unitOf (x : Triple) : List Str := [headLine x.1 x.2.2, bodyLine x.2.1]

/-- a name that starts at the left margin -/
def AtMargin (n : Str) : Prop := ∀ c, n.head? = some c → isPySpace c = false

theorem lws_head (n t : Str) (hne : n ≠ []) (h : AtMargin n) : lws (headLine n t) = 0 := by
  cases n with
  | nil => exact absurd rfl hne
  | cons c r =>
    have := h c rfl
    simp [lws, headLine, List.takeWhile, this]

theorem lws_body (d : Str) : lws (bodyLine d) ≠ 0 := by
  simp [lws, bodyLine, tab4, List.takeWhile, isPySpace, pyWs]

theorem fold_units : ∀ (ts : List Triple) (S : List (List Str)),
    (∀ x ∈ ts, x.1 ≠ [] ∧ AtMargin x.1) →
    (linesOf ts).foldl (groupStep 0) S = S ++ ts.map unitOf
  | [], S, _ => by simp [linesOf]
  | x :: ts, S, h => by
    have hx := h x (by simp)
    have h1 : (lws (headLine x.1 x.2.2) == 0) = true := by simp [lws_head x.1 x.2.2 hx.1 hx.2]
    have h2 : (lws (bodyLine x.2.1) == 0) = false := by simp [lws_body x.2.1]
    have e : linesOf (x :: ts) = headLine x.1 x.2.2 :: bodyLine x.2.1 :: linesOf ts := by simp [linesOf]
    rw [e]
    simp only [List.foldl_cons]
    have s1 : groupStep 0 S (headLine x.1 x.2.2) = S ++ [[headLine x.1 x.2.2]] := by simp [groupStep, h1]
    have s2 : groupStep 0 (S ++ [[headLine x.1 x.2.2]]) (bodyLine x.2.1) = S ++ [unitOf x] := by
      simp [groupStep, h2, unitOf]
    rw [s1, s2, fold_units ts (S ++ [unitOf x]) (fun y hy => h y (by simp [hy]))]
    simp

/-! ### the return split finds nothing in units of these shapes -/

def UnitShape (u : List Str) : Prop := u.length = 2 ∨ u = [[]]

theorem pair_ne_target (u v : List Str) (hu : UnitShape u) (hv : UnitShape v) :
    (u ++ v == ["-------".toList, "Returns".toList]) = false := by
  rcases hu with hu | hu <;> rcases hv with hv | hv
  · have : (u ++ v).length = 4 := by simp [hu, hv]
    cases h : (u ++ v == ["-------".toList, "Returns".toList]) with
    | false => rfl
    | true => have := eq_of_beq h; simp_all
  · subst hv
    have : (u ++ [[]]).length = 3 := by simp [hu]
    cases h : (u ++ [[]] == ["-------".toList, "Returns".toList]) with
    | false => rfl
    | true => have := eq_of_beq h; simp_all
  · subst hu
    have : ([[]] ++ v).length = 3 := by simp [hv]
    cases h : ([[]] ++ v == ["-------".toList, "Returns".toList]) with
    | false => rfl
    | true => have := eq_of_beq h; simp_all
  · subst hu; subst hv; decide

theorem getD_shape (st : List (List Str)) (h : ∀ u ∈ st, UnitShape u) (i : Nat) (hi : i < st.length) :
    UnitShape (st[i]?.getD []) := by
  rw [List.getElem?_eq_getElem hi]
  exact h _ (List.getElem_mem hi)

theorem returnSplit_none (st : List (List Str)) (h : ∀ u ∈ st, UnitShape u) :
    ∀ k, k ≤ st.length → returnSplit st k = none
  | 0, _ => rfl
  | i + 1, hk => by
    unfold returnSplit
    by_cases h2 : i ≥ 2
    · have hp := pair_ne_target _ _ (getD_shape st h i (by omega)) (getD_shape st h (i - 1) (by omega))
      simp only [hp, Bool.and_false, Bool.false_eq_true, if_false]
      exact returnSplit_none st h i (by omega)
    · have : decide (i ≥ 2) = false := by simp [h2]
      simp only [this, Bool.false_and, Bool.false_eq_true, if_false]
      exact returnSplit_none st h i (by omega)

theorem ws_nl3 : ∀ c ∈ ['\n', '\n', '\n'], pyWs.contains c = true := by
  intro c hc; simp at hc; subst hc; decide

/-! ### `_scan_phase_numpydoc_and_google` on the emitted text -/

theorem argTok_cons : argToken .numpydoc = 'P' :: "arameters\n----------".toList := rfl

theorem linesOf_no_nl (ts : List Triple) (hok : ∀ x ∈ ts, TripleOK' x) : ∀ l ∈ linesOf ts, '\n' ∉ l := by
  intro l hl
  simp only [linesOf, List.mem_flatMap] at hl
  obtain ⟨x, hx, hlx⟩ := hl
  obtain ⟨hn, hd, ht⟩ := hok x hx
  simp only [List.mem_cons, List.not_mem_nil, or_false] at hlx
  rcases hlx with h | h
  · subst h
    intro hm
    simp only [headLine, List.mem_append, List.mem_cons, List.not_mem_nil, or_false] at hm
    rcases hm with ((hm | hm) | hm) | hm
    · exact hn.noNl hm
    · rcases hm with hm | hm <;> exact absurd hm (by decide)
    · exact absurd hm (by decide)
    · exact ht.oneLine hm
  · subst h
    intro hm
    simp only [bodyLine, tab4, List.mem_append, List.mem_cons, List.not_mem_nil, or_false] at hm
    rcases hm with hm | hm
    · rcases hm with hm | hm | hm | hm <;> exact absurd hm (by decide)
    · exact hd.1.oneLine hm

theorem splitLines_text (ts : List Triple) (hne : ts ≠ []) (hok : ∀ x ∈ ts, TripleOK' x) :
    splitLines (joinWith ['\n'] (ts.map entryText) ++ tailN) = linesOf ts ++ [[], []] := by
  have hL : linesOf ts ≠ [] := by
    cases ts with
    | nil => exact absurd rfl hne
    | cons x r => simp [linesOf]
  unfold splitLines
  rw [entries_as_lines ts hne]
  have : joinWith ['\n'] (linesOf ts) ++ tailN = joinWith ['\n'] (linesOf ts) ++ '\n' :: ['\n', '\n'] := rfl
  rw [this, splitOnChar_joined '\n' (linesOf ts) ['\n', '\n'] hL (linesOf_no_nl ts hok)]
  have h3 : splitOnChar '\n' ['\n', '\n'] = [[], [], []] := by decide
  rw [h3]
  have hl : (linesOf ts ++ [[], [], []]).getLast? = some [] := by
    have : linesOf ts ++ [[], [], []] = (linesOf ts ++ [[], []]) ++ [[]] := by simp
    rw [this, List.getLast?_concat]
  simp only [hl]
  have : linesOf ts ++ [[], [], []] = (linesOf ts ++ [[], []]) ++ [[]] := by simp
  rw [this, List.dropLast_concat]

/-- the scan phase reads the emitted text back as: the summary, one unit per entry, two empty units -/
theorem scanPhase_text (D : Str) (ts : List Triple) (hne : ts ≠ []) (hok : ∀ x ∈ ts, TripleOK' x)
    (hmargin : ∀ x ∈ ts, AtMargin x.1)
    (hDne : D ≠ []) (hDt : Trimmed D) (hP : 'P' ∉ D)
    (hsep : otherSeparators (textN D ts) = false) :
    scanPhase .numpydoc (textN D ts) =
      .ok { doc := D, args := ts.map unitOf ++ [[[]], [[]]], rets := .lines [], afterward := none } := by
  have hPre : 'P' ∉ preN D := by
    intro h
    unfold preN at h
    rcases List.mem_cons.mp h with h | h
    · exact absurd h (by decide)
    · rcases List.mem_append.mp h with h | h
      · exact hP h
      · exact absurd h (by decide)
  have hfind : findSub (argToken .numpydoc) (textN D ts) 0 = some (preN D).length := by
    have e : textN D ts = preN D ++ argToken .numpydoc ++ (['\n'] ++ joinWith ['\n'] (ts.map entryText) ++ tailN) := by
      simp [textN]
    rw [e, argTok_cons, findSub_skip 'P' _ (preN D) _ 0 hPre]
    simp
  have htake : (textN D ts).take (preN D).length = preN D := by
    simp [textN, List.append_assoc]
  have hdoc : strip pyWs (preN D) = D := by
    have := strip_ws_both ['\n'] ['\n', '\n', '\n'] D ws_nl ws_nl3 hDt hDne
    simpa [preN] using this
  have hdrop : (textN D ts).drop ((preN D).length + (argToken .numpydoc).length + 1) =
      joinWith ['\n'] (ts.map entryText) ++ tailN := by
    have e : textN D ts = (preN D ++ argToken .numpydoc ++ ['\n']) ++ (joinWith ['\n'] (ts.map entryText) ++ tailN) := by
      simp [textN]
    rw [e]
    exact List.drop_left' (by simp only [List.length_append, List.length_cons, List.length_nil])
  obtain ⟨x, r, hts⟩ : ∃ x r, ts = x :: r := by
    cases ts with
    | nil => exact absurd rfl hne
    | cons x r => exact ⟨x, r, rfl⟩
  have hlines := splitLines_text ts hne hok
  have hl0 : ∃ rest, linesOf ts ++ [[], []] = headLine x.1 x.2.2 :: rest := by
    subst hts; exact ⟨bodyLine x.2.1 :: (linesOf r ++ [[], []]), by simp [linesOf]⟩
  obtain ⟨restL, hrestL⟩ := hl0
  have hnames : ∀ y ∈ ts, y.1 ≠ [] ∧ AtMargin y.1 := fun y hy => ⟨(hok y hy).1.ne, hmargin y hy⟩
  have hfi : lws (headLine x.1 x.2.2) = 0 := lws_head x.1 x.2.2 (hok x (by simp [hts])).1.ne (hmargin x (by simp [hts]))
  unfold scanPhase
  simp only [hsep, Bool.false_eq_true, if_false, hfind, htake, hdoc, hdrop, hlines]
  rw [hrestL]
  simp only [hfi]
  rw [← hrestL]
  rw [scanLoop_fold .numpydoc (linesOf ts ++ [[], []]) 0 _ 0 _ (by simp) (by intro l _; exact Nat.zero_le _)
    (Or.inr (by
      intro l hl
      rw [hrestL] at hl
      simp only [List.getElem?_cons_zero, Option.some.injEq] at hl
      rw [← hl]; exact hfi))]
  simp only [Res.bind, List.drop_zero, List.foldl_append, fold_units ts [] hnames, List.nil_append]
  have hg1 : groupStep 0 (ts.map unitOf) [] = ts.map unitOf ++ [[[]]] := by simp [groupStep, lws]
  have hg2 : groupStep 0 (ts.map unitOf ++ [[[]]]) [] = ts.map unitOf ++ [[[]], [[]]] := by simp [groupStep, lws]
  simp only [List.foldl_cons, List.foldl_nil, hg1, hg2]
  have hshape : ∀ u ∈ ts.map unitOf ++ [[[]], [[]]], UnitShape u := by
    intro u hu
    simp only [List.mem_append, List.mem_map, List.mem_cons, List.not_mem_nil, or_false] at hu
    rcases hu with ⟨y, _, hy⟩ | hu | hu
    · left; rw [← hy]; rfl
    · right; exact hu
    · right; exact hu
  have hrs := returnSplit_none _ hshape (ts.map unitOf ++ [[[]], [[]]]).length (Nat.le_refl _)
  simp only [retsEmpty, List.isEmpty_nil, Bool.true_and, hrs]
  have hnempty : (ts.map unitOf ++ [[[]], [[]]]).isEmpty = false := by simp
  simp [hnempty, setNs]

/-! ### the parse phase on the scanned units -/

theorem parseNumpy_blank : parseNumpy [[]] = .ok none := by decide

theorem parseNumpy_unit (x : Triple) (hx : TripleOK' x) (hnt : Trimmed x.1) :
    parseNumpy (unitOf x) = .ok (some (x.1, { typ := some x.2.2, doc := some x.2.1 })) :=
  parseNumpy_emitted x.1 x.2.2 x.2.1 hx.1.noColon hx.1.ne hnt hx.2.2.trimmed hx.2.2.ne hx.2.1.1.trimmed

theorem interpolateReq_plain (d t : Str) (hd : DocOK d) (e : Bool) :
    interpolateReq { typ := some t, doc := some d } false e = .ok { typ := some t, doc := some d } := by
  unfold interpolateReq
  rw [interpolate_nodefault _ d hd rfl e]
  simp [Res.bind]

theorem parseEntries_tail (e : Bool) (flag : Bool) :
    parseEntries .numpydoc e false true [[[]], [[]]] flag = .ok ([], flag) := by
  simp [parseEntries, parseNumpy_blank, Res.bind]

theorem parseEntries_units (e : Bool) : ∀ (ts : List Triple),
    (∀ x ∈ ts, TripleOK' x) → (∀ x ∈ ts, Trimmed x.1) →
    parseEntries .numpydoc e false true (ts.map unitOf ++ [[[]], [[]]]) false = .ok (ts.map entryOf, false)
  | [], _, _ => by simpa using parseEntries_tail e false
  | x :: ts, hok, hnt => by
    have hx := hok x (by simp)
    have ih := parseEntries_units e ts (fun y hy => hok y (by simp [hy])) (fun y hy => hnt y (by simp [hy]))
    have hsn := setNameAndType_plain x.1 x.2.1 (some x.2.2) hx.1 hx.2.1.1 (by intro t ht; cases ht; exact hx.2.2)
    have hsn' : setNameAndType (some x.1) { typ := some x.2.2, doc := some x.2.1 } false true =
        .ok (x.1, { typ := some x.2.2, doc := some x.2.1 }) := hsn
    simp only [List.map_cons, List.cons_append, parseEntries, parseNumpy_unit x hx (hnt x (by simp)), Res.bind,
      interpolateReq_plain x.2.1 x.2.2 hx.2.1.1 e]
    have hne : ((Res.ok (some (x.1, ({ typ := some x.2.2, doc := some x.2.1 } : Param))) : Res (Option (Str × Param))) ==
        Res.raises "StopIteration") = false := by simp
    simp only [hne, Bool.false_eq_true, if_false, Option.isNone_none, Bool.true_or, Bool.not_true, Bool.or_false, hsn', ih]
    rfl

theorem dedup_nodup : ∀ (l acc : List (Str × Param)), ((acc ++ l).map (·.1)).Nodup →
    l.foldl (fun acc kp => if acc.any (·.1 == kp.1) then acc.map (fun q => if q.1 == kp.1 then kp else q) else acc ++ [kp]) acc
      = acc ++ l
  | [], acc, _ => by simp
  | kp :: l, acc, h => by
    have hnot : acc.any (·.1 == kp.1) = false := by
      rw [List.any_eq_false]
      intro q hq hqe
      have hqk : q.1 = kp.1 := by simpa using hqe
      have : (acc ++ kp :: l).map (·.1) = acc.map (·.1) ++ kp.1 :: l.map (·.1) := by simp
      rw [this] at h
      have hdisj := (List.nodup_append.mp h).2.2
      exact hdisj q.1 (List.mem_map_of_mem hq) kp.1 (by simp) hqk
    simp only [List.foldl_cons, hnot, Bool.false_eq_true, if_false]
    have := dedup_nodup l (acc ++ [kp]) (by simpa using h)
    rw [this]
    simp

theorem dedupKeepLast_nodup (l : List (Str × Param)) (h : (l.map (·.1)).Nodup) : dedupKeepLast l = l := by
  unfold dedupKeepLast
  have := dedup_nodup l [] (by simpa using h)
  simpa using this

theorem entryOf_names (ts : List Triple) : (ts.map entryOf).map (·.1) = ts.map (·.1) := by
  simp [entryOf, List.map_map, Function.comp_def]

/-! ### the round trip -/

theorem endsWith_colon_head (n t : Str) (hne : t ≠ []) (h : endsWith t [':'] = false) : endsWith (headLine n t) [':'] = false := by
  unfold endsWith at h ⊢
  unfold headLine
  cases hr : t.reverse with
  | nil => exact absurd (List.reverse_eq_nil_iff.mp hr) hne
  | cons c r =>
    rw [hr] at h
    simp only [List.reverse_append, hr, List.cons_append]
    simpa [List.isPrefixOf] using h

theorem parse_text (D : Str) (ts : List Triple) (hne : ts ≠ []) (hok : ∀ x ∈ ts, TripleOK' x)
    (hmargin : ∀ x ∈ ts, AtMargin x.1) (hnt : ∀ x ∈ ts, Trimmed x.1)
    (hcolon : ∀ x ∈ ts, endsWith x.2.2 [':'] = false)
    (hDne : D ≠ []) (hDt : Trimmed D) (hP : 'P' ∉ D)
    (hsep : otherSeparators (textN D ts) = false) (hnd : (ts.map (·.1)).Nodup) (e : Bool) :
    parseDocstring .numpydoc (textN D ts) e = .ok (mkIR D ts) := by
  unfold parseDocstring
  rw [scanPhase_text D ts hne hok hmargin hDne hDt hP hsep]
  simp only [Res.bind]
  have hidx : (ts.map unitOf ++ [[[]], [[]]]).findIdx? startsSection = none := by
    rw [List.findIdx?_eq_none_iff]
    intro u hu
    simp only [List.mem_append, List.mem_map, List.mem_cons, List.not_mem_nil, or_false] at hu
    rcases hu with ⟨y, hy, hyu⟩ | hu | hu
    · rw [← hyu]
      simp only [unitOf, startsSection]
      exact endsWith_colon_head y.1 y.2.2 (hok y hy).2.2.ne (hcolon y hy)
    · subst hu; decide
    · subst hu; decide
  simp only [hidx, parseEntries_units e ts hok hnt, retsEmpty, List.isEmpty_nil, if_true,
    dedupKeepLast_nodup _ (by rw [entryOf_names]; exact hnd)]
  rfl

/-- **C01 (numpydoc) on the default-free domain**: a one-line summary and ≥ 1 uniquely named parameters, each with a
    type and one line of prose, no defaults, no return entry: `emit.docstring` then `parse_docstring` is the identity and
    raises nothing - for any number of parameters and texts of any length. (Restrictions that make the statement
    partial: the summary does not contain the capital letter the section token starts with; names start at the left
    margin and are trimmed; a type does not end with a colon; no line separator other than `\n` anywhere.) -/
theorem C01_numpydoc_nodefault_partial (D : Str) (ts : List Triple) (hne : ts ≠ []) (hok : ∀ x ∈ ts, TripleOK' x)
    (hmargin : ∀ x ∈ ts, AtMargin x.1) (hnt : ∀ x ∈ ts, Trimmed x.1)
    (hcolon : ∀ x ∈ ts, endsWith x.2.2 [':'] = false)
    (hDne : D ≠ []) (hDt : Trimmed D) (hP : 'P' ∉ D)
    (hsep : otherSeparators (textN D ts) = false) (hnd : (ts.map (·.1)).Nodup) (e e' : Bool) :
    ((emitDocstring .numpydoc (mkIR D ts) e).bind fun text => parseDocstring .numpydoc text e') = .ok (mkIR D ts) := by
  rw [emit_text D ts hne hok e]
  simp only [Res.bind]
  exact parse_text D ts hne hok hmargin hnt hcolon hDne hDt hP hsep hnd e'

end NumpyRT
end Py
