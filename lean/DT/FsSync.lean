/-! L10/L11 spike: file writes as steps with a fault index (C20), and the abstract sync machine (C09/C10). -/
namespace FsSync

abbrev Path := Nat
abbrev Text := List Char
/-- a file system: contents by path; `none` = file absent -/
abbrev FS := Path → Option Text

def FS.set (fs : FS) (p : Path) (v : Option Text) : FS := fun q => if q = p then v else fs q

@[simp] theorem FS.set_same (fs : FS) (p : Path) (v : Option Text) : (fs.set p v) p = v := by simp [FS.set]
@[simp] theorem FS.set_other (fs : FS) (p q : Path) (v : Option Text) (h : q ≠ p) : (fs.set p v) q = fs q := by
  simp [FS.set, h]

inductive Step where
  | openTrunc (p : Path)               -- `open(p, "wt")`
  | write (p : Path) (chunk : Text)    -- one `write` call (or the part of it that reached the disk)
  | replace (src dst : Path)           -- `os.replace`
  | unlink (p : Path)

def step (fs : FS) : Step → FS
  | .openTrunc p => fs.set p (some [])
  | .write p c => fs.set p (some ((fs p).getD [] ++ c))
  | .replace s d => (fs.set d (fs s)).set s none
  | .unlink p => fs.set p none

def run (fs : FS) (steps : List Step) : FS := steps.foldl step fs

/-- the steps that are executed when the `i`-th call raises -/
def runFault (fs : FS) (steps : List Step) (i : Nat) : FS := run fs (steps.take i)

/-! ### `emit.file` as it is: truncate, then write (two chunks = "mid-write" is observable) -/

def plainWrite (p : Path) (a b : Text) : List Step := [.openTrunc p, .write p a, .write p b]

theorem plainWrite_complete (fs : FS) (p : Path) (a b : Text) :
    (run fs (plainWrite p a b)) p = some (a ++ b) := by
  simp [run, plainWrite, step]

/-- C20 is false for the code as it is: a fault right after `open` leaves an empty file -/
theorem plainWrite_not_all_or_nothing :
    ∃ (fs : FS) (p : Path) (a b : Text) (i : Nat),
      (runFault fs (plainWrite p a b) i) p ≠ fs p ∧ (runFault fs (plainWrite p a b) i) p ≠ some (a ++ b) := by
  refine ⟨fun _ => some ['x'], 0, ['y'], ['z'], 1, ?_, ?_⟩ <;> simp [runFault, run, plainWrite, step]

/-! ### the atomic variant: write a temp file, `os.replace`, unlink the temp file on failure -/

def atomicSteps (tmp p : Path) (a b : Text) : List Step :=
  [.openTrunc tmp, .write tmp a, .write tmp b, .replace tmp p]

/-- what the `try/except` does: on a fault before the end, the temp file is removed -/
def runAtomicFault (fs : FS) (tmp p : Path) (a b : Text) (i : Nat) : FS :=
  if i < 4 then step (runFault fs (atomicSteps tmp p a b) i) (.unlink tmp) else run fs (atomicSteps tmp p a b)

theorem atomic_all_or_nothing (fs : FS) (tmp p : Path) (a b : Text) (hne : tmp ≠ p) (htmp : fs tmp = none)
    (i : Nat) :
    let fs' := runAtomicFault fs tmp p a b i
    (fs' p = fs p ∨ fs' p = some (a ++ b)) ∧ fs' tmp = none ∧ ∀ q, q ≠ p → q ≠ tmp → fs' q = fs q := by
  have hpt : p ≠ tmp := fun e => hne e.symm
  unfold runAtomicFault
  by_cases hi : i < 4
  · simp only [hi, if_true]
    have : i = 0 ∨ i = 1 ∨ i = 2 ∨ i = 3 := by omega
    rcases this with rfl | rfl | rfl | rfl <;>
      (refine ⟨Or.inl ?_, ?_, ?_⟩ <;> simp [runFault, run, atomicSteps, step, FS.set, hpt, htmp] <;>
        (try intro q h1 h2; simp [h1, h2]))
  · simp only [hi, if_false]
    refine ⟨Or.inr ?_, ?_, ?_⟩
    · simp [run, atomicSteps, step, FS.set, hpt]
    · simp [run, atomicSteps, step, FS.set]
    · intro q h1 h2; simp [run, atomicSteps, step, FS.set, h1, h2]

/-! ### several targets in sequence: a fault anywhere leaves every target old or new (atomic variant) -/

structure Target where
  tmp : Path
  p : Path
  a : Text
  b : Text

/-- run targets in order; `fault = none` → all complete; `some (k, i)` → target `k` faults at step `i` -/
def runTargets (fs : FS) : List Target → Option (Nat × Nat) → FS
  | [], _ => fs
  | t :: ts, none => runTargets (run fs (atomicSteps t.tmp t.p t.a t.b)) ts none
  | t :: _, some (0, i) => runAtomicFault fs t.tmp t.p t.a t.b i
  | t :: ts, some (k + 1, i) => runTargets (run fs (atomicSteps t.tmp t.p t.a t.b)) ts (some (k, i))

/-- paths of targets are pairwise distinct, temp paths are fresh and distinct from every target path -/
def Disjoint (fs : FS) (ts : List Target) : Prop :=
  (ts.map (·.p) ++ ts.map (·.tmp)).Nodup ∧ ∀ t ∈ ts, fs t.tmp = none

theorem run_atomic_frame (fs : FS) (t : Target) (q : Path) (h1 : q ≠ t.p) (h2 : q ≠ t.tmp) :
    (run fs (atomicSteps t.tmp t.p t.a t.b)) q = fs q := by
  simp [run, atomicSteps, step, FS.set, h1, h2]

theorem run_atomic_target (fs : FS) (t : Target) (hne : t.tmp ≠ t.p) :
    (run fs (atomicSteps t.tmp t.p t.a t.b)) t.p = some (t.a ++ t.b) := by
  have : t.p ≠ t.tmp := fun e => hne e.symm
  simp [run, atomicSteps, step, FS.set, this]

/-- all paths of the operation: distinct, and no temp file exists yet -/
def Fresh (fs : FS) (ts : List Target) : Prop :=
  (ts.flatMap fun t => [t.p, t.tmp]).Nodup ∧ ∀ t ∈ ts, fs t.tmp = none

theorem Fresh.head {fs : FS} {t : Target} {ts : List Target} (h : Fresh fs (t :: ts)) :
    t.tmp ≠ t.p ∧ fs t.tmp = none ∧ (∀ u ∈ ts, u.p ≠ t.p ∧ u.p ≠ t.tmp ∧ u.tmp ≠ t.p ∧ u.tmp ≠ t.tmp) := by
  obtain ⟨hnd, hnone⟩ := h
  simp only [List.flatMap_cons, List.cons_append, List.nil_append, List.nodup_cons, List.mem_cons,
    List.mem_flatMap, List.mem_nil_iff, or_false, not_or, not_exists, not_and] at hnd
  refine ⟨fun e => hnd.1.1 e.symm, hnone t (by simp), ?_⟩
  intro u hu
  have h1 := hnd.1.2 u hu
  have h2 := hnd.2.1 u hu
  exact ⟨fun e => h1.1 e.symm, fun e => h2.1 e.symm, fun e => h1.2 e.symm, fun e => h2.2 e.symm⟩

theorem Fresh.tail {fs : FS} {t : Target} {ts : List Target} (h : Fresh fs (t :: ts)) :
    Fresh (run fs (atomicSteps t.tmp t.p t.a t.b)) ts := by
  have hh := h.head
  obtain ⟨hnd, hnone⟩ := h
  refine ⟨?_, ?_⟩
  · simp only [List.flatMap_cons, List.cons_append, List.nil_append, List.nodup_cons] at hnd
    exact hnd.2.2
  · intro u hu
    rw [run_atomic_frame fs t u.tmp (hh.2.2 u hu).2.2.1 (hh.2.2 u hu).2.2.2]
    exact hnone u (by simp [hu])

theorem runAtomicFault_frame (fs : FS) (tmp p : Path) (a b : Text) (i : Nat) (q : Path)
    (h1 : q ≠ p) (h2 : q ≠ tmp) : runAtomicFault fs tmp p a b i q = fs q := by
  unfold runAtomicFault
  by_cases hi : i < 4
  · simp only [hi, if_true]
    have : i = 0 ∨ i = 1 ∨ i = 2 ∨ i = 3 := by omega
    rcases this with rfl | rfl | rfl | rfl <;> simp [runFault, run, atomicSteps, step, FS.set, h1, h2]
  · simp only [hi, if_false]
    simp [run, atomicSteps, step, FS.set, h1, h2]

theorem runTargets_frame (ts : List Target) (fs : FS) (f : Option (Nat × Nat)) (q : Path)
    (hq : ∀ t ∈ ts, q ≠ t.p ∧ q ≠ t.tmp) : runTargets fs ts f q = fs q := by
  induction ts generalizing fs f with
  | nil => rfl
  | cons t ts ih =>
    have hqt := hq t (by simp)
    have hrest : ∀ u ∈ ts, q ≠ u.p ∧ q ≠ u.tmp := fun u hu => hq u (by simp [hu])
    match f with
    | none =>
      simp only [runTargets]
      rw [ih _ none hrest, run_atomic_frame fs t q hqt.1 hqt.2]
    | some (0, i) =>
      simp only [runTargets]
      exact runAtomicFault_frame fs t.tmp t.p t.a t.b i q hqt.1 hqt.2
    | some (k + 1, i) =>
      simp only [runTargets]
      rw [ih _ (some (k, i)) hrest, run_atomic_frame fs t q hqt.1 hqt.2]

/-- **C20, fault part, atomic variant**: whatever target faults at whatever step, every target file is either
    exactly as before or completely rewritten, no temp file is left, nothing else is touched. -/
theorem runTargets_all_or_nothing (ts : List Target) (fs : FS) (hf : Fresh fs ts) (f : Option (Nat × Nat)) :
    ∀ t ∈ ts, (runTargets fs ts f t.p = fs t.p ∨ runTargets fs ts f t.p = some (t.a ++ t.b))
              ∧ runTargets fs ts f t.tmp = none := by
  induction ts generalizing fs f with
  | nil => intro t ht; cases ht
  | cons t ts ih =>
    have hh := hf.head
    have htail := hf.tail
    have hrun_tmp : (run fs (atomicSteps t.tmp t.p t.a t.b)) t.tmp = none := by
      simp [run, atomicSteps, step, FS.set]
    -- the head's own paths are not paths of later targets
    have hp_rest : ∀ u ∈ ts, t.p ≠ u.p ∧ t.p ≠ u.tmp := fun u hu =>
      ⟨fun e => (hh.2.2 u hu).1 e.symm, fun e => (hh.2.2 u hu).2.2.1 e.symm⟩
    have htmp_rest : ∀ u ∈ ts, t.tmp ≠ u.p ∧ t.tmp ≠ u.tmp := fun u hu =>
      ⟨fun e => (hh.2.2 u hu).2.1 e.symm, fun e => (hh.2.2 u hu).2.2.2 e.symm⟩
    intro u hu
    rcases List.mem_cons.mp hu with rfl | hu'
    · match f with
      | none =>
        simp only [runTargets]
        rw [runTargets_frame ts _ none u.p hp_rest, runTargets_frame ts _ none u.tmp htmp_rest]
        exact ⟨Or.inr (run_atomic_target fs u hh.1), hrun_tmp⟩
      | some (0, i) =>
        simp only [runTargets]
        have := atomic_all_or_nothing fs u.tmp u.p u.a u.b hh.1 hh.2.1 i
        exact ⟨this.1, this.2.1⟩
      | some (k + 1, i) =>
        simp only [runTargets]
        rw [runTargets_frame ts _ _ u.p hp_rest, runTargets_frame ts _ _ u.tmp htmp_rest]
        exact ⟨Or.inr (run_atomic_target fs u hh.1), hrun_tmp⟩
    · have hsep := hh.2.2 u hu'
      have hkeep_p : (run fs (atomicSteps t.tmp t.p t.a t.b)) u.p = fs u.p :=
        run_atomic_frame fs t u.p hsep.1 hsep.2.1
      match f with
      | none =>
        simp only [runTargets]
        have := ih _ htail none u hu'
        rw [hkeep_p] at this; exact this
      | some (0, i) =>
        simp only [runTargets]
        rw [runAtomicFault_frame fs t.tmp t.p t.a t.b i u.p hsep.1 hsep.2.1,
          runAtomicFault_frame fs t.tmp t.p t.a t.b i u.tmp hsep.2.2.1 hsep.2.2.2]
        exact ⟨Or.inl rfl, hf.2 u (by simp [hu'])⟩
      | some (k + 1, i) =>
        simp only [runTargets]
        have := ih _ htail (some (k, i)) u hu'
        rw [hkeep_p] at this; exact this

#print axioms runTargets_all_or_nothing
#print axioms plainWrite_not_all_or_nothing

/-! ### the abstract per-file `conform` step of sync (C09/C10), lower layers as a structure with named laws -/

structure Layer (M D : Type) where
  render : M → Text              -- `to_code` + black
  read : Text → M                -- `ast_parse`
  find : M → Option D            -- `find_in_ast(search, ·)`
  replaceAt : D → M → M          -- `RewriteAtQuery(search, d).visit`
  single : D → M                 -- `Module(body=[d])`
  appendText : Text → D → Text   -- `emit.file(d, mode="a")`
  cmp : D → D → Bool             -- `cmp_ast`

structure Laws {M D : Type} (L : Layer M D) : Prop where
  read_render : ∀ m, L.read (L.render m) = m
  find_single : ∀ d, L.find (L.single d) = some d
  find_replace : ∀ d m, (L.find m).isSome → L.find (L.replaceAt d m) = some d
  find_append : ∀ t d, L.find (L.read t) = none → L.find (L.read (L.appendText t d)) = some d
  cmp_refl : ∀ d, L.cmp d d = true

/-- `_conform_filename`: new content and the reported flag -/
def conform {M D : Type} (L : Layer M D) (content : Option Text) (d : D) : Option Text × Bool :=
  match content with
  | none => (some (L.render (L.single d)), true)
  | some t =>
    match L.find (L.read t) with
    | none => (some (L.appendText t d), true)
    | some d0 => if L.cmp d0 d then (some t, false) else (some (L.render (L.replaceAt d (L.read t))), true)

/-- after one `conform` the target agrees with the truth (C09, per file) -/
theorem conform_agrees {M D : Type} (L : Layer M D) (h : Laws L) (c : Option Text) (d : D) :
    ∃ t, (conform L c d).1 = some t ∧ ∃ d', L.find (L.read t) = some d' ∧ L.cmp d' d = true := by
  cases c with
  | none =>
    refine ⟨L.render (L.single d), by simp [conform], d, ?_, h.cmp_refl d⟩
    rw [h.read_render, h.find_single]
  | some t =>
    cases hf : L.find (L.read t) with
    | none =>
      refine ⟨L.appendText t d, by simp [conform, hf], d, h.find_append t d hf, h.cmp_refl d⟩
    | some d0 =>
      by_cases hc : L.cmp d0 d = true
      · exact ⟨t, by simp [conform, hf, hc], d0, hf, hc⟩
      · refine ⟨L.render (L.replaceAt d (L.read t)), by simp [conform, hf, hc], d, ?_, h.cmp_refl d⟩
        rw [h.read_render, h.find_replace d (L.read t) (by rw [hf]; rfl)]

/-- a second `conform` with the same truth changes nothing and reports "unchanged" (C10, per file) -/
theorem conform_idem {M D : Type} (L : Layer M D) (h : Laws L) (c : Option Text) (d : D) :
    conform L (conform L c d).1 d = ((conform L c d).1, false) := by
  obtain ⟨t, ht, d', hfind, hcmp⟩ := conform_agrees L h c d
  rw [ht]
  simp only [conform, hfind, hcmp, if_true]

def iter {α : Type} (f : α → α) : Nat → α → α
  | 0, a => a
  | n + 1, a => f (iter f n a)

/-- and therefore any number of further runs: `conformⁿ⁺¹ = conform¹` (induction over the history) -/
theorem conform_converges {M D : Type} (L : Layer M D) (h : Laws L) (c : Option Text) (d : D) (n : Nat) :
    iter (fun c => (conform L c d).1) (n + 1) c = (conform L c d).1 := by
  induction n with
  | zero => rfl
  | succ n ih =>
    show (conform L (iter (fun c => (conform L c d).1) (n + 1) c) d).1 = _
    rw [ih, conform_idem L h c d]

#print axioms conform_converges

end FsSync
