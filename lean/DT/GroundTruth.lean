import DT.FsSync
/-! `conformance.ground_truth` over ALL its targets (C09 / C10, "for any two or three of the kinds"): the loop over the
    kinds and their files, the per-file `_conform_filename` step, and the report `effect[filename] = effect.get(filename,
    False) or modified` (fix 460074c). The lower layers (`find_in_ast`, `RewriteAtQuery`, `emit.file`) enter through named
    laws, now including the FRAME laws that matter when one file is named for several kinds: writing the definition
    addressed by one location leaves what is found at an independent location as it was. -/
namespace FsSync
namespace GroundTruth

/-! ### the report -/

/-- `effect[filename] = effect.get(filename, False) or modified` on an ordered dict (keys unique, first position kept) -/
def orInto : List (String × Bool) → String × Bool → List (String × Bool)
  | [], fm => [fm]
  | e :: es, fm => if e.1 == fm.1 then (e.1, e.2 || fm.2) :: es else e :: orInto es fm

/-- the report of one `sync`: one `(filename, modified)` per `_conform_filename` call, in call order -/
def report (calls : List (String × Bool)) : List (String × Bool) := calls.foldl orInto []

/-- before fix 460074c: `effect.get(filename, modified)` - the answer of the FIRST step on a file was kept -/
def keepFirst : List (String × Bool) → String × Bool → List (String × Bool)
  | [], fm => [fm]
  | e :: es, fm => if e.1 == fm.1 then e :: es else e :: keepFirst es fm
def reportOld (calls : List (String × Bool)) : List (String × Bool) := calls.foldl keepFirst []

def lookup : List (String × Bool) → String → Option Bool
  | [], _ => none
  | e :: es, f => if e.1 == f then some e.2 else lookup es f

def named (calls : List (String × Bool)) (f : String) : Bool := calls.any (·.1 == f)
def anyMod (calls : List (String × Bool)) (f : String) : Bool := calls.any (fun c => c.1 == f && c.2)

theorem lookup_orInto (eff : List (String × Bool)) (fm : String × Bool) (f : String) :
    lookup (orInto eff fm) f = if fm.1 = f then some ((lookup eff f).getD false || fm.2) else lookup eff f := by
  induction eff with
  | nil =>
    by_cases h : fm.1 = f
    · have hb : (fm.1 == f) = true := by simpa using h
      rw [if_pos h]; simp only [orInto, lookup, hb, if_true, Option.getD_none, Bool.false_or]
    · have hb : (fm.1 == f) = false := by simpa using h
      rw [if_neg h]; simp only [orInto, lookup, hb, Bool.false_eq_true, if_false]
  | cons e es ih =>
    by_cases he : e.1 = fm.1
    · have hbe : (e.1 == fm.1) = true := by simpa using he
      by_cases hf : fm.1 = f
      · have hef : (e.1 == f) = true := by simpa using he.trans hf
        rw [if_pos hf]; simp only [orInto, hbe, if_true, lookup, hef, Option.getD_some]
      · have hef : (e.1 == f) = false := by simpa using fun h => hf (he.symm.trans h)
        rw [if_neg hf]; simp only [orInto, hbe, if_true, lookup, hef, Bool.false_eq_true, if_false]
    · have hbe : (e.1 == fm.1) = false := by simpa using he
      by_cases hef : e.1 = f
      · have hf : ¬ fm.1 = f := fun h => he (hef.trans h.symm)
        have hb : (e.1 == f) = true := by simpa using hef
        rw [if_neg hf]; simp only [orInto, hbe, Bool.false_eq_true, if_false, lookup, hb, if_true]
      · have hb : (e.1 == f) = false := by simpa using hef
        simp only [orInto, hbe, Bool.false_eq_true, if_false, lookup, hb, ih]

theorem anyMod_of_not_named (cs : List (String × Bool)) (f : String) (h : named cs f = false) : anyMod cs f = false := by
  unfold named at h; unfold anyMod
  rw [List.any_eq_false] at h ⊢
  intro x hx hc
  have := h x hx
  simp only [Bool.and_eq_true] at hc
  exact this hc.1

theorem lookup_fold (calls : List (String × Bool)) : ∀ (acc : List (String × Bool)) (f : String),
    lookup (calls.foldl orInto acc) f =
      if named calls f then some ((lookup acc f).getD false || anyMod calls f) else lookup acc f := by
  induction calls with
  | nil => intro acc f; simp [named]
  | cons c cs ih =>
    intro acc f
    rw [List.foldl_cons, ih (orInto acc c) f, lookup_orInto]
    have hnamed : named (c :: cs) f = ((c.1 == f) || named cs f) := by simp [named]
    have hany : anyMod (c :: cs) f = ((c.1 == f && c.2) || anyMod cs f) := by simp [anyMod]
    rw [hnamed, hany]
    by_cases hc : c.1 = f
    · have hb : (c.1 == f) = true := by simpa using hc
      rw [if_pos hc, hb]
      simp only [Bool.true_or, if_true, Bool.true_and, Option.getD_some]
      cases hn : named cs f with
      | true => simp only [if_true, Bool.or_assoc]
      | false => simp only [Bool.false_eq_true, if_false, anyMod_of_not_named cs f hn, Bool.or_false]
    · have hb : (c.1 == f) = false := by simpa using hc
      rw [if_neg hc, hb]
      simp only [Bool.false_or, Bool.false_and]

/-- **the report is the disjunction of the steps**: a file is in the report exactly when some step named it, and it is
    reported changed exactly when SOME step on it changed it - for any number of kinds, files and steps -/
theorem report_lookup (calls : List (String × Bool)) (f : String) :
    lookup (report calls) f = if named calls f then some (anyMod calls f) else none := by
  unfold report
  rw [lookup_fold]
  simp [lookup]

/-- the old report kept the first answer: a file left alone by its first step and rewritten by a later one was
    reported unchanged (what fix 460074c repaired) -/
theorem reportOld_witness :
    lookup (reportOld [("lib.py", false), ("lib.py", true)]) "lib.py" = some false ∧
    lookup (report [("lib.py", false), ("lib.py", true)]) "lib.py" = some true := by decide

/-! ### the loop over the targets, with the frame laws of the lower layers -/

structure LayerK (M D K : Type) where
  render : M → Text              -- `to_code` + black
  read : Text → M                -- `ast_parse`
  key : D → K                    -- the location a definition is emitted for (`--<kind>-name`)
  find : K → M → Option D        -- `find_in_ast(search, ·)`
  replaceAt : D → M → M          -- `RewriteAtQuery(search, d).visit`
  single : D → M                 -- `Module(body=[d])`
  appendText : Text → D → Text   -- `emit.file(d, mode="a")`
  cmp : D → D → Bool             -- `cmp_ast`
  indep : K → K → Prop           -- neither location lies inside the other

structure LawsK {M D K : Type} (L : LayerK M D K) : Prop where
  read_render : ∀ m, L.read (L.render m) = m
  find_single : ∀ d, L.find (L.key d) (L.single d) = some d
  find_replace : ∀ d m, (L.find (L.key d) m).isSome → L.find (L.key d) (L.replaceAt d m) = some d
  find_append : ∀ t d, L.find (L.key d) (L.read t) = none → L.find (L.key d) (L.read (L.appendText t d)) = some d
  cmp_refl : ∀ d, L.cmp d d = true
  -- frame: what is found at an independent location is not affected
  replace_frame : ∀ d m k, L.indep k (L.key d) → L.find k (L.replaceAt d m) = L.find k m
  append_frame : ∀ t d k, L.indep k (L.key d) → L.find k (L.read (L.appendText t d)) = L.find k (L.read t)

variable {M D K : Type}

/-- `_conform_filename`: new content and the reported flag -/
def conformK (L : LayerK M D K) (content : Option Text) (d : D) : Option Text × Bool :=
  match content with
  | none => (some (L.render (L.single d)), true)
  | some t =>
    match L.find (L.key d) (L.read t) with
    | none => (some (L.appendText t d), true)
    | some d0 => if L.cmp d0 d then (some t, false) else (some (L.render (L.replaceAt d (L.read t))), true)

/-- the file holds a definition at `key d` that compares equal to `d` -/
def Agrees (L : LayerK M D K) (fs : FS) (pd : Path × D) : Prop :=
  ∃ t, fs pd.1 = some t ∧ ∃ d', L.find (L.key pd.2) (L.read t) = some d' ∧ L.cmp d' pd.2 = true

def stepK (L : LayerK M D K) (fs : FS) (pd : Path × D) : FS := fs.set pd.1 (conformK L (fs pd.1) pd.2).1

/-- all `_conform_filename` calls of one `ground_truth`, in order -/
def runK (L : LayerK M D K) (fs : FS) (ts : List (Path × D)) : FS := ts.foldl (stepK L) fs

theorem step_agrees (L : LayerK M D K) (h : LawsK L) (fs : FS) (pd : Path × D) : Agrees L (stepK L fs pd) pd := by
  unfold Agrees stepK
  simp only [FS.set_same]
  cases hc : fs pd.1 with
  | none =>
    refine ⟨L.render (L.single pd.2), by simp [conformK], pd.2, ?_, h.cmp_refl _⟩
    rw [h.read_render, h.find_single]
  | some t =>
    cases hf : L.find (L.key pd.2) (L.read t) with
    | none => exact ⟨L.appendText t pd.2, by simp [conformK, hf], pd.2, h.find_append t pd.2 hf, h.cmp_refl _⟩
    | some d0 =>
      by_cases hcmp : L.cmp d0 pd.2 = true
      · exact ⟨t, by simp [conformK, hf, hcmp], d0, hf, hcmp⟩
      · refine ⟨L.render (L.replaceAt pd.2 (L.read t)), by simp [conformK, hf, hcmp], pd.2, ?_, h.cmp_refl _⟩
        rw [h.read_render, h.find_replace pd.2 (L.read t) (by rw [hf]; rfl)]

/-- a later step keeps an earlier target in agreement: on another file trivially, on the SAME file (a file named for
    several kinds) because the two locations are independent -/
theorem step_keeps (L : LayerK M D K) (h : LawsK L) (fs : FS) (x y : Path × D)
    (hx : Agrees L fs x) (hind : y.1 = x.1 → L.indep (L.key x.2) (L.key y.2)) : Agrees L (stepK L fs y) x := by
  obtain ⟨t, ht, d', hfind, hcmp⟩ := hx
  unfold Agrees stepK
  by_cases hp : y.1 = x.1
  · have hi := hind hp
    rw [← hp, FS.set_same]
    rw [← hp] at ht
    rw [ht]
    cases hf : L.find (L.key y.2) (L.read t) with
    | none =>
      refine ⟨L.appendText t y.2, by simp [conformK, hf], d', ?_, hcmp⟩
      rw [h.append_frame t y.2 _ hi]; exact hfind
    | some d0 =>
      by_cases hc : L.cmp d0 y.2 = true
      · exact ⟨t, by simp [conformK, hf, hc], d', hfind, hcmp⟩
      · refine ⟨L.render (L.replaceAt y.2 (L.read t)), by simp [conformK, hf, hc], d', ?_, hcmp⟩
        rw [h.read_render, h.replace_frame y.2 (L.read t) _ hi]; exact hfind
  · have : x.1 ≠ y.1 := fun e => hp e.symm
    rw [FS.set_other _ _ _ _ this]
    exact ⟨t, ht, d', hfind, hcmp⟩

theorem run_keeps (L : LayerK M D K) (h : LawsK L) (x : Path × D) : ∀ (ts : List (Path × D)) (fs : FS),
    Agrees L fs x → (∀ y ∈ ts, y.1 = x.1 → L.indep (L.key x.2) (L.key y.2)) → Agrees L (runK L fs ts) x
  | [], _, hx, _ => hx
  | y :: ts, fs, hx, hind => by
    unfold runK
    rw [List.foldl_cons]
    exact run_keeps L h x ts (stepK L fs y) (step_keeps L h fs x y hx (hind y (by simp)))
      (fun z hz => hind z (by simp [hz]))

/-- two targets that share a file address independent locations -/
def Separate (L : LayerK M D K) : List (Path × D) → Prop
  | [] => True
  | x :: ts => (∀ y ∈ ts, y.1 = x.1 → L.indep (L.key x.2) (L.key y.2)) ∧ Separate L ts

/-- **C09 over the whole loop**: after `ground_truth` has been through ALL its targets - any number of kinds, any number
    of files per kind, files shared between kinds or not, whatever every file held before (missing, empty, definition
    absent, stale, in agreement) - EVERY target holds a definition at its location that compares equal to the one
    emitted from the truth. -/
theorem sync_all_agree (L : LayerK M D K) (h : LawsK L) : ∀ (ts : List (Path × D)) (fs : FS),
    Separate L ts → ∀ x ∈ ts, Agrees L (runK L fs ts) x
  | [], _, _ => by intro x hx; cases hx
  | y :: ts, fs, hsep => by
    intro x hx
    have hrun : runK L fs (y :: ts) = runK L (stepK L fs y) ts := by simp [runK]
    rw [hrun]
    rcases List.mem_cons.mp hx with rfl | hx'
    · exact run_keeps L h x ts _ (step_agrees L h fs x) hsep.1
    · exact sync_all_agree L h ts _ hsep.2 x hx'

/-- the flag of a step is truthful: `False` means the file is byte-identical to before -/
theorem step_false_unchanged (L : LayerK M D K) (fs : FS) (pd : Path × D)
    (hflag : (conformK L (fs pd.1) pd.2).2 = false) : stepK L fs pd = fs := by
  funext q
  unfold stepK
  by_cases hq : q = pd.1
  · subst hq
    rw [FS.set_same]
    cases hc : fs pd.1 with
    | none => simp [conformK, hc] at hflag
    | some t =>
      rw [hc] at hflag
      unfold conformK at hflag ⊢
      cases hf : L.find (L.key pd.2) (L.read t) with
      | none => simp [hf] at hflag
      | some d0 =>
        by_cases hcmp : L.cmp d0 pd.2 = true
        · simp [hf, hcmp]
        · simp [hf, hcmp] at hflag
  · rw [FS.set_other _ _ _ _ hq]

/-- a file no step names is not touched -/
theorem run_frame (L : LayerK M D K) : ∀ (ts : List (Path × D)) (fs : FS) (q : Path),
    (∀ x ∈ ts, x.1 ≠ q) → runK L fs ts q = fs q
  | [], _, _, _ => rfl
  | y :: ts, fs, q, hq => by
    have hrun : runK L fs (y :: ts) = runK L (stepK L fs y) ts := by simp [runK]
    rw [hrun, run_frame L ts _ q (fun x hx => hq x (by simp [hx]))]
    unfold stepK
    exact FS.set_other _ _ _ _ (fun e => hq y (by simp) e.symm)

end GroundTruth
end FsSync
