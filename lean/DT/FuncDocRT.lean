import DT.FuncDocTheorems
import DT.FuncDocParse
/-! C03 / C02, the docstring half of the function and class kinds composed: `to_docstring` -> `inspect.cleandoc` ->
    `parse_docstring` is the identity on the default-free domain (types in the docstring, the separating indentation
    on) - at every indentation level, for any number of entries and texts of any length. -/
namespace Py
namespace FuncDoc
open ToDocstring NumpyRT FuncDocParse

def chunkLines (ts : List Triple) : List Str := ts.flatMap fun x => [docLine x.1 x.2.1, typLine x.1 x.2.2, []]

theorem contentLines_snoc (D : Str) (ts : List Triple) (l : Triple) :
    ([] : Str) :: contentLines D (ts ++ [l]) =
      (([] : Str) :: D :: [] :: chunkLines ts ++ [docLine l.1 l.2.1, typLine l.1 l.2.2]) ++ [[], []] := by
  simp [contentLines, chunkLines, List.flatMap_append]

theorem dropLeadingBlank_cons_ne (a : Str) (r : List Str) (h : a ≠ []) : dropLeadingBlank (a :: r) = a :: r := by
  cases a with
  | nil => exact absurd rfl h
  | cons _ _ => simp [dropLeadingBlank]

theorem trimBlank_content (D : Str) (ts : List Triple) (l : Triple) (hD : D ≠ []) :
    trimBlank (([] : Str) :: contentLines D (ts ++ [l])) =
      D :: [] :: chunkLines ts ++ [docLine l.1 l.2.1, typLine l.1 l.2.2] := by
  rw [contentLines_snoc]
  unfold trimBlank
  have htyp : typLine l.1 l.2.2 ≠ [] := by simp [typLine, tokType]
  have hrev : ((([] : Str) :: D :: [] :: chunkLines ts ++ [docLine l.1 l.2.1, typLine l.1 l.2.2]) ++ [[], []]).reverse =
      [] :: [] :: typLine l.1 l.2.2 :: (([] : Str) :: D :: [] :: chunkLines ts ++ [docLine l.1 l.2.1]).reverse := by
    simp
  have dlb_nil : ∀ r : List Str, dropLeadingBlank (([] : Str) :: r) = dropLeadingBlank r := by
    intro r; simp [dropLeadingBlank]
  have hback : (typLine l.1 l.2.2 :: (([] : Str) :: D :: [] :: chunkLines ts ++ [docLine l.1 l.2.1]).reverse).reverse =
      ([] : Str) :: (D :: [] :: chunkLines ts ++ [docLine l.1 l.2.1, typLine l.1 l.2.2]) := by simp
  rw [hrev, dlb_nil, dlb_nil, dropLeadingBlank_cons_ne _ _ htyp, hback, dlb_nil]
  simp only [List.cons_append]
  exact dropLeadingBlank_cons_ne _ _ hD

theorem chunk_shift : ∀ (ts : List Triple),
    ((chunkLines ts).map (fun c => ['\n'] ++ c)).flatten ++ ['\n'] = ['\n'] ++ segText (segsOf ts)
  | [] => by simp [chunkLines, segsOf, segText]
  | x :: r => by
    have ih := chunk_shift r
    have e1 : chunkLines (x :: r) = [docLine x.1 x.2.1, typLine x.1 x.2.2, []] ++ chunkLines r := by simp [chunkLines]
    have e2 : segText (segsOf (x :: r)) = (tokParam ++ paramBody x.1 x.2.1) ++ (tokType ++ typeBody x.1 x.2.2) ++ segText (segsOf r) := by
      simp [segsOf, segText]
    rw [e1, e2, List.map_append, List.flatten_append, List.append_assoc, ih]
    simp [docLine, typLine, paramBody, typeBody, List.append_assoc]

theorem cleaned_is_text0 (D : Str) (ts : List Triple) (l : Triple) (hD : D ≠ []) :
    joinWith ['\n'] (trimBlank (([] : Str) :: contentLines D (ts ++ [l]))) = text0 D ts l := by
  rw [trimBlank_content D ts l hD]
  simp only [List.cons_append]
  rw [joinWith_cons_flat]
  rw [List.map_cons, List.flatten_cons, List.map_append, List.flatten_append]
  have hs := chunk_shift ts
  unfold text0 pre0
  have hsa : segText (segsOf ts ++ lastSegs l) = segText (segsOf ts) ++ segText (lastSegs l) := by simp [segText]
  rw [hsa]
  simp only [List.map_cons, List.map_nil, List.flatten_cons, List.flatten_nil, List.append_nil, List.nil_append]
  have hlast : segText (lastSegs l) = docLine l.1 l.2.1 ++ ['\n'] ++ typLine l.1 l.2.2 := by
    simp [segText, lastSegs, docLine, typLine, paramBody, typeBody0]
  rw [hlast]
  calc D ++ (['\n'] ++ [] ++ (((chunkLines ts).map (fun c => ['\n'] ++ c)).flatten ++ (['\n'] ++ docLine l.1 l.2.1 ++ (['\n'] ++ typLine l.1 l.2.2))))
      = D ++ (['\n'] ++ ((((chunkLines ts).map (fun c => ['\n'] ++ c)).flatten ++ ['\n']) ++ (docLine l.1 l.2.1 ++ (['\n'] ++ typLine l.1 l.2.2)))) := by
        simp [List.append_assoc]
    _ = D ++ ['\n', '\n'] ++ (segText (segsOf ts) ++ (docLine l.1 l.2.1 ++ ['\n'] ++ typLine l.1 l.2.2)) := by
        rw [hs]; simp [List.append_assoc]

theorem containsSub_mid (sub : Str) (hne : sub ≠ []) : ∀ (a b : Str), containsSub (a ++ sub ++ b) sub = true
  | [], b => by
    cases sub with
    | nil => exact absurd rfl hne
    | cons c t =>
      simp only [List.nil_append, List.cons_append, containsSub]
      have : (c :: t).isPrefixOf (c :: (t ++ b)) = true := by
        have := List.isPrefixOf_iff_prefix.mpr (List.prefix_append (c :: t) b)
        simpa using this
      simp [this]
  | x :: a, b => by
    simp only [List.cons_append, containsSub]
    rw [show a ++ sub ++ b = a ++ sub ++ b from rfl]
    have := containsSub_mid sub hne a b
    simp only [List.append_assoc] at this ⊢
    simp [this]

theorem text0_rest (D : Str) (ts : List Triple) (l : Triple) : isRestStyle (text0 D ts l) = true := by
  unfold isRestStyle
  rw [List.any_eq_true]
  refine ⟨tokParam, by decide, ?_⟩
  -- the text holds the `:param` token of the last entry
  have hsa : segText (segsOf ts ++ lastSegs l) = segText (segsOf ts) ++ segText (lastSegs l) := by simp [segText]
  have e : text0 D ts l = (pre0 D ++ segText (segsOf ts)) ++ tokParam ++ (paramBody l.1 l.2.1 ++ (tokType ++ typeBody0 l.1 l.2.2)) := by
    unfold text0; rw [hsa]; simp [segText, lastSegs, List.append_assoc]
  rw [e]
  exact containsSub_mid tokParam (by simp [tokParam]) _ _

/-- **the docstring half of the function / class kinds is the identity on the default-free domain**: what
    `parse.docstring` reads from the docstring `emit.function` / `emit.class_` wrote (`to_docstring`, then
    `inspect.cleandoc` as `ast.get_docstring` applies it, then the ReST parser) is the description it was written
    from - at EVERY indentation level, for any number (≥ 1) of uniquely named, typed, described, default-free entries
    and texts of any length. (Partial: types in the docstring and the separating indentation on; no defaults, no return
    entry; one-line summary that starts with a visible character; no tabs; no line separator other than `\n`.) -/
theorem C03_docstring_half_partial (D : Str) (ts : List Triple) (l : Triple)
    (hok : ∀ x ∈ ts ++ [l], BlockOK x)
    (hDne : D ≠ []) (hDt : Trimmed D) (hDnl : '\n' ∉ D) (hDm : AtMargin D) (hDtab : '\t' ∉ D) (hDc : ncl D = true)
    (hsepD : DocScan.otherSeparators D = false) (hsepP : ∀ x ∈ ts ++ [l], DocScan.otherSeparators x.2.1 = false)
    (htab : ∀ x ∈ ts ++ [l], NoTab x) (hnd : ((ts ++ [l]).map (·.1)).Nodup) (edd : Bool) (level : Nat) :
    funcDocRT (mkIR D (ts ++ [l])) edd level true true = .ok (mkIR D (ts ++ [l])) := by
  have h1 := toDocstring_text D (ts ++ [l]) (by simp) hok hDne hDt hDnl hsepD hsepP edd level true true
  have h2 := cleandoc_toDocstring D (ts ++ [l]) (by simp) hok hDne hDt hDnl hDm hDtab hsepD hsepP htab edd level
  rw [h1] at h2
  simp only [Res.bind] at h2
  have hokR : ∀ x ∈ ts ++ [l], TripleOK x := fun x hx => ⟨(hok x hx).1.1, (hok x hx).1.2.1.1, (hok x hx).1.2.2⟩
  unfold funcDocRT
  rw [h1]
  simp only [Res.bind, h2, cleaned_is_text0 D ts l hDne, text0_rest D ts l, Bool.not_true, Bool.false_eq_true, if_false]
  have hne : (text0 D ts l).isEmpty = false := by
    cases D with
    | nil => exact absurd rfl hDne
    | cons _ _ => simp [text0, pre0]
  simp only [hne, Bool.false_eq_true, if_false]
  exact parse_text0 D ts l hDne hDt hDc hokR hnd

end FuncDoc
end Py
