import DT.Str
/-! Alignment of signature defaults with arguments: the padding + pairing step of `parse.function`
    (after fix 8e27f03) and the `defaults_from_params` step of `emit.function`. CPython stores the
    defaults of the LAST `m` positional arguments only, and one (possibly `None`) entry per keyword-only
    argument. -/
namespace Py
namespace Sig

variable {A D : Type}

/-- `[None] * diff + defaults` -/
def padDefaults (n : Nat) (ds : List (Option D)) : List (Option D) :=
  List.replicate (n - ds.length) none ++ ds

/-- `func_arg2param(args[idx], default=defaults[idx]) for idx in range(len(args))` -/
def pairArgs (args : List A) (ds : List (Option D)) : List (A × Option D) :=
  args.zip (padDefaults args.length ds)

/-- what Python means: argument `i` of `n` has the default `ds[i - (n - m)]` when `i ≥ n - m`, none otherwise -/
def pyDefault (n : Nat) (ds : List (Option D)) (i : Nat) : Option D :=
  if i < n - ds.length then none else (ds[i - (n - ds.length)]?).join

theorem padDefaults_length (n : Nat) (ds : List (Option D)) (h : ds.length ≤ n) :
    (padDefaults n ds).length = n := by
  simp [padDefaults]; omega

theorem padDefaults_get (n : Nat) (ds : List (Option D)) (i : Nat) :
    ((padDefaults n ds)[i]?).join = pyDefault n ds i := by
  unfold padDefaults pyDefault
  by_cases h : i < n - ds.length
  · simp [h, List.getElem?_append_left, List.getElem?_replicate]
  · have h' : n - ds.length ≤ i := Nat.le_of_not_lt h
    rw [List.getElem?_append_right (by simpa using h')]
    simp [h]

theorem pairArgs_length (args : List A) (ds : List (Option D)) (h : ds.length ≤ args.length) :
    (pairArgs args ds).length = args.length := by
  simp [pairArgs, padDefaults_length args.length ds h]

/-- **every argument is paired with its own default** (the trailing `m` arguments with the `m` stored defaults,
    the others with none) -/
theorem pairArgs_get (args : List A) (ds : List (Option D)) (h : ds.length ≤ args.length) (i : Nat)
    (hi : i < args.length) :
    (pairArgs args ds)[i]? = some (args[i], pyDefault args.length ds i) := by
  unfold pairArgs
  rw [List.getElem?_zip_eq_some.mpr]
  refine ⟨by simp [hi], ?_⟩
  have hl := padDefaults_length args.length ds h
  have hi' : i < (padDefaults args.length ds).length := by omega
  rw [List.getElem?_eq_getElem hi']
  have := padDefaults_get args.length ds i
  rw [List.getElem?_eq_getElem hi'] at this
  simpa using congrArg some this

/-- keyword-only arguments: `kw_defaults` has one entry per argument, nothing is padded or shifted -/
theorem pairArgs_full (args : List A) (ds : List (Option D)) (h : ds.length = args.length) :
    pairArgs args ds = args.zip ds := by
  simp [pairArgs, padDefaults, h]

/-- the code before fix 8e27f03 padded on the right: `defaults + [None] * diff` -/
def pairArgsOld (args : List A) (ds : List (Option D)) : List (A × Option D) :=
  args.zip (ds ++ List.replicate (args.length - ds.length) none)

/-- witness of the repaired defect: `def f(a, b=1)` gave `a` the default of `b` -/
theorem pairArgsOld_shifts : pairArgsOld ["a", "b"] [some 1] = [("a", some 1), ("b", none)]
    ∧ pairArgs ["a", "b"] [some 1] = [("a", none), ("b", some 1)] := by decide

/-- `emit.function`: one default per emitted argument (`None` for an entry without one), so the emitted
    signature pairs every argument with its own default again -/
theorem emit_then_pair (ps : List (A × D)) :
    pairArgs (ps.map (·.1)) (ps.map fun p => some p.2) = ps.map fun p => (p.1, some p.2) := by
  rw [pairArgs_full _ _ (by simp)]
  induction ps with
  | nil => rfl
  | cons p t ih => simp [List.zip_cons_cons, ih]

/-! ### the default slot of an argument (fix 2b8e4d5 in `RewriteAtQuery.visit_FunctionDef`) -/

/-- `pos - (len(args.args) - len(defaults))` computed over the integers, none when negative (the argument has no
    default). With positional-only parameters that carry defaults `len(defaults)` exceeds `len(args.args)` and the
    difference is NEGATIVE: the slot then lies to the right of the position. -/
def slotOf (n m pos : Nat) : Option Nat := if pos + m < n then none else some (pos + m - n)

/-- on signatures without positional-only parameters this is the familiar `pos - (n - m)` -/
theorem slotOf_le (n m pos : Nat) (h : m ≤ n) : slotOf n m pos = if pos < n - m then none else some (pos - (n - m)) := by
  unfold slotOf
  by_cases h1 : pos + m < n
  · have : pos < n - m := by omega
    simp [h1, this]
  · have : ¬ pos < n - m := by omega
    simp only [h1, this, if_false]
    congr 1; omega

/-- **patching the slot of argument `pos` changes the default Python pairs with that argument, and no other**: `p`
    positional-only parameters come before the `n` ordinary ones, the `m = ds.length ≤ p + n` stored defaults belong to
    the LAST `m` of these `p + n`. After `defaults[slot] = v` the parameter at overall position `i` has default `v` when
    it is the addressed one (`i = p + pos`) and its old default otherwise. -/
theorem pyDefault_set (p n : Nat) (ds : List (Option D)) (pos slot : Nat) (v : D) (hm : ds.length ≤ p + n) (hp : pos < n)
    (hs : slotOf n ds.length pos = some slot) (i : Nat) (hi : i < p + n) :
    pyDefault (p + n) (ds.set slot (some v)) i = if i = p + pos then some v else pyDefault (p + n) ds i := by
  unfold slotOf at hs
  by_cases hlt : pos + ds.length < n
  · simp [hlt] at hs
  · simp only [hlt, if_false, Option.some.injEq] at hs
    subst hs
    unfold pyDefault
    simp only [List.length_set]
    by_cases hil : i < p + n - ds.length
    · have : i ≠ p + pos := by omega
      simp [hil, this]
    · simp only [hil, if_false]
      by_cases hip : i = p + pos
      · subst hip
        have hb : p + pos - (p + n - ds.length) < ds.length := by omega
        have he : pos + ds.length - n = p + pos - (p + n - ds.length) := by omega
        simp [he, List.getElem?_set_self hb]
      · have hne : pos + ds.length - n ≠ i - (p + n - ds.length) := by omega
        simp [hip, List.getElem?_set_ne hne]

/-- positional-only parameters with defaults: `def connect(host, port=5432, /, timeout=10.0, mode="slow")` has
    `len(args.args) - len(defaults) = 2 - 3 < 0`; `timeout` (position 0) owns slot 1, not slot 0 (which is `port`'s) -/
theorem slot_posonly_witness : slotOf 2 3 0 = some 1 ∧ slotOf 2 3 1 = some 2 := by decide

/-- the old code used the position among the arguments as the slot (counted from the left): with a leading argument
    that has no default, the default of ANOTHER argument was overwritten -/
theorem old_slot_witness :
    -- def setup(flag, momentum=1): addressing `flag` (position 0) wrote slot 0 = the default of `momentum`
    pyDefault 2 ([some 1].set 0 (some 7)) 1 = some 7 ∧ slotOf 2 1 0 = none := by decide

end Sig
end Py
