/-! Can we *prove* things about the generic tree? total traversal by structural mutual recursion + a frame-style lemma. -/
namespace PT

inductive Atom where
  | none | str (s : String) | int (i : Int)
deriving DecidableEq, Repr

mutual
  inductive Node where
    | mk (kind : String) (fields : List (String × Field)) (loc : Option (List Atom))
  inductive Field where
    | atom (a : Atom)
    | node (n : Node)
    | list (items : List Item)
  inductive Item where
    | node (n : Node)
    | atom (a : Atom)
end

def Node.loc : Node → Option (List Atom) | .mk _ _ l => l

structure St where
  search : List Atom
  repl : Node
  replaced : Bool

mutual
  /-- `RewriteAtQuery.generic_visit` without the FunctionDef special case; total -/
  def visitNode (st : St) : Node → St × Node
    | .mk k fs l =>
      if !st.replaced && l == some st.search then ({ st with replaced := true }, st.repl)
      else
        let (st', fs') := visitFields st fs
        (st', .mk k fs' l)
  def visitFields (st : St) : List (String × Field) → St × List (String × Field)
    | [] => (st, [])
    | (k, f) :: rest =>
      let (st1, f') := visitField st f
      let (st2, rest') := visitFields st1 rest
      (st2, (k, f') :: rest')
  def visitField (st : St) : Field → St × Field
    | .atom a => (st, .atom a)
    | .node n => let (s, n') := visitNode st n; (s, .node n')
    | .list items => let (s, items') := visitItems st items; (s, .list items')
  def visitItems (st : St) : List Item → St × List Item
    | [] => (st, [])
    | it :: rest =>
      let (st1, it') := visitItem st it
      let (st2, rest') := visitItems st1 rest
      (st2, it' :: rest')
  def visitItem (st : St) : Item → St × Item
    | .node n => let (s, n') := visitNode st n; (s, .node n')
    | .atom a => (st, .atom a)
end

-- once something has been replaced, the transformer is the identity (so: at most one replacement)
mutual
  theorem visitNode_replaced (st : St) (h : st.replaced = true) : ∀ n, visitNode st n = (st, n)
    | .mk k fs l => by
      simp only [visitNode, h, Bool.not_true, Bool.false_and, Bool.false_eq_true, if_false]
      rw [visitFields_replaced st h fs]
  theorem visitFields_replaced (st : St) (h : st.replaced = true) : ∀ fs, visitFields st fs = (st, fs)
    | [] => by simp [visitFields]
    | (k, f) :: rest => by
      simp only [visitFields]
      rw [visitField_replaced st h f, visitFields_replaced st h rest]
  theorem visitField_replaced (st : St) (h : st.replaced = true) : ∀ f, visitField st f = (st, f)
    | .atom a => by simp [visitField]
    | .node n => by simp only [visitField]; rw [visitNode_replaced st h n]
    | .list items => by simp only [visitField]; rw [visitItems_replaced st h items]
  theorem visitItems_replaced (st : St) (h : st.replaced = true) : ∀ its, visitItems st its = (st, its)
    | [] => by simp [visitItems]
    | it :: rest => by
      simp only [visitItems]
      rw [visitItem_replaced st h it, visitItems_replaced st h rest]
  theorem visitItem_replaced (st : St) (h : st.replaced = true) : ∀ it, visitItem st it = (st, it)
    | .node n => by simp only [visitItem]; rw [visitNode_replaced st h n]
    | .atom a => by simp [visitItem]
end

#print axioms visitNode_replaced
end PT
