import DT.Gen
/-! C19: `gen.gen` orders the hoisted imports with `sorted(imports, key=is_future, reverse=True)`. Python's sort is stable,
    also with `reverse=True` (equal keys keep their original order). Here the sort is modelled as a stable insertion sort
    on the Boolean key and shown to be what `Gen.hoist` says: the `__future__` imports in their original order, then the
    others in theirs. -/
namespace Py
namespace Gen

variable {α : Type}

/-- insert `x` into a list already sorted by descending key, AFTER every element whose key is not smaller (stability) -/
def insertDesc (key : α → Bool) (x : α) : List α → List α
  | [] => [x]
  | y :: ys => if !key y && key x then x :: y :: ys else y :: insertDesc key x ys

/-- stable sort by descending Boolean key: `sorted(l, key=key, reverse=True)` -/
def sortedDesc (key : α → Bool) (l : List α) : List α := l.foldl (fun acc x => insertDesc key x acc) []

/-- the same without `reverse=True` (ascending key): what a dropped `reverse` gives -/
def insertAsc (key : α → Bool) (x : α) : List α → List α
  | [] => [x]
  | y :: ys => if key y && !key x then x :: y :: ys else y :: insertAsc key x ys
def sortedAsc (key : α → Bool) (l : List α) : List α := l.foldl (fun acc x => insertAsc key x acc) []

theorem insertDesc_split (key : α → Bool) (x : α) (a b : List α) (ha : ∀ y ∈ a, key y = true) (hb : ∀ y ∈ b, key y = false) :
    insertDesc key x (a ++ b) = if key x then a ++ [x] ++ b else a ++ b ++ [x] := by
  induction a with
  | nil =>
    simp only [List.nil_append]
    induction b with
    | nil => cases key x <;> simp [insertDesc]
    | cons y ys ih =>
      have hy : key y = false := hb y (by simp)
      have ih' := ih (fun z hz => hb z (by simp [hz]))
      cases hx : key x with
      | true => simp [insertDesc, hy, hx]
      | false =>
        simp only [hx, Bool.false_eq_true, if_false] at ih'
        simp [insertDesc, hy, hx, ih']
  | cons y ys ih =>
    have hy : key y = true := ha y (by simp)
    have ih' := ih (fun z hz => ha z (by simp [hz]))
    simp only [List.cons_append, insertDesc, hy, Bool.not_true, Bool.false_and, Bool.false_eq_true, if_false]
    rw [ih']
    cases key x <;> simp

theorem sortedDesc_fold (key : α → Bool) : ∀ (l acc : List α),
    l.foldl (fun acc x => insertDesc key x acc) (acc.filter key ++ acc.filter (fun y => !key y)) =
      (acc ++ l).filter key ++ (acc ++ l).filter (fun y => !key y)
  | [], acc => by simp
  | x :: l, acc => by
    rw [List.foldl_cons, insertDesc_split key x _ _ (by intro y hy; exact (List.mem_filter.mp hy).2)
      (by intro y hy; simpa using (List.mem_filter.mp hy).2)]
    have h := sortedDesc_fold key l (acc ++ [x])
    have e : acc ++ x :: l = (acc ++ [x]) ++ l := by simp
    rw [e, ← h]
    congr 1
    cases hx : key x <;> simp [List.filter_append, List.filter_cons, hx]

/-- **stable descending sort on a Boolean key = the key-true elements in their order, then the others in theirs** -/
theorem sortedDesc_eq (key : α → Bool) (l : List α) :
    sortedDesc key l = l.filter key ++ l.filter (fun y => !key y) := by
  have := sortedDesc_fold key l []
  simpa [sortedDesc] using this

/-- `gen.gen`'s ordering of the hoisted statements, written with the sort the code calls -/
def isImp : GStmt → Bool | .imp _ _ => true | _ => false

/-- the assembly as the code writes it: the imports sorted (stable, `__future__` first), then everything else -/
def hoistSorted (l : List GStmt) : List GStmt := sortedDesc isFuture (l.filter isImp) ++ l.filter isOther

theorem hoist_eq_sorted (l : List GStmt) : hoist l = hoistSorted l := by
  unfold hoistSorted
  rw [sortedDesc_eq]
  unfold hoist
  simp only [List.filter_filter]
  congr 1
  congr 1
  · congr 1; funext a; cases a with
    | imp f t => cases f <;> simp [isFuture, isImp]
    | other n t => simp [isFuture, isImp]
  · congr 1; funext a; cases a with
    | imp f t => cases f <;> simp [isFuture, isImp, isPlainImp]
    | other n t => simp [isFuture, isImp, isPlainImp]

/-- a dropped `reverse=True` puts the `__future__` import AFTER the others (the generated module no longer compiles) -/
theorem sortedAsc_witness :
    sortedAsc isFuture [GStmt.imp true ['f'], GStmt.imp false ['o']] = [GStmt.imp false ['o'], GStmt.imp true ['f']] ∧
    sortedDesc isFuture [GStmt.imp false ['o'], GStmt.imp true ['f']] = [GStmt.imp true ['f'], GStmt.imp false ['o']] := by
  decide

end Gen
end Py
