import DT.Str
/-! L1/L3: value grammar and the defaults codec (transliteration of `defaults_utils.py`). -/
namespace Py

inductive Val where
  | none
  | bool (b : Bool)
  | int (neg : Bool) (digits : Str)      -- sign + decimal digits as written; harness compares by value
  | float (tok : Str)                    -- literal token; harness compares `float(tok)`
  | str (s : Str)
deriving Repr, BEq, DecidableEq, Inhabited

inductive Res (α : Type) where
  | ok (a : α)
  | raises (kind : String)
  | unmodelled (why : String)
deriving Repr, Inhabited, DecidableEq

def Res.bind {α β} (r : Res α) (f : α → Res β) : Res β :=
  match r with
  | .ok a => f a
  | .raises k => .raises k
  | .unmodelled w => .unmodelled w

def pyWs : Str := [' ', '\t', '\n', '\r', '\x0b', '\x0c']

def dropSign (s : Str) : Str :=
  match s with
  | '-' :: t => t
  | '+' :: t => t
  | _ => s

/-- an exponent part `e[+-]digits`, or nothing -/
def expOk (e : Str) : Bool :=
  match e with
  | [] => true
  | 'e' :: t => !(dropSign t).isEmpty && (dropSign t).all isAsciiDigit
  | 'E' :: t => !(dropSign t).isEmpty && (dropSign t).all isAsciiDigit
  | _ => false

/-- digits `[.digits][e[+-]digits]` with optional sign: what `float()` accepts among decimal literals
    (underscores, inf, nan handled by the caller) -/
def isFloatTok (s : Str) : Bool :=
  let s := dropSign s
  let ip := s.takeWhile isAsciiDigit
  match s.dropWhile isAsciiDigit with
  | '.' :: fr => (!ip.isEmpty || !(fr.takeWhile isAsciiDigit).isEmpty) && expOk (fr.dropWhile isAsciiDigit)
  | rest => !ip.isEmpty && expOk rest

def isIntTok (s : Str) : Bool :=
  match s with
  | '-' :: t | '+' :: t => isDecimal t
  | _ => isDecimal s

def splitSign (t : Str) : Bool × Str :=
  match t with
  | '-' :: d => (true, d)
  | '+' :: d => (false, d)
  | d => (false, d)

/-- `ast.literal_eval` restricted to scalars -/
def literalEval (s : Str) : Res Val :=
  let t := strip [' ', '\t'] s
  if t != s then .unmodelled "literal_eval with surrounding blanks" else
  if t == "None".toList then .ok .none
  else if t == "True".toList then .ok (.bool true)
  else if t == "False".toList then .ok (.bool false)
  else if isIntTok t then
    let nd := splitSign t
    if nd.2.length > 1 && nd.2.head? == some '0' && nd.2.any (· != '0') then .raises "SyntaxError"
    else .ok (.int nd.1 nd.2)
  else if isFloatTok t then .ok (.float t)
  else match t with
    | [] => .raises "SyntaxError"
    | q :: rest =>
      if q == '"' || q == '\'' then
        match rest.reverse with
        | [] => .raises "SyntaxError"
        | q' :: midr =>
          let mid := midr.reverse
          if q' == q && !mid.contains q && !mid.contains '\\' && !mid.contains '\n' then .ok (.str mid)
          else .unmodelled "string literal with escapes, inner quotes or unterminated"
      else .unmodelled "literal_eval of a non-scalar or a name"

structure Extract where
  doc : Str
  default : Option Val
deriving Repr, DecidableEq

def phrases : List Str :=
  ["defaults to ".toList, "defaults to\n".toList, "Default value is ".toList, "Default:".toList]

/-- `location_within(line, phrases, casefold-eq)`: first phrase (in list order) that occurs; (start, end) -/
def locate (line : Str) : List Str → Option (Nat × Nat)
  | [] => none
  | p :: ps =>
    if p.length > line.length then locate line ps
    else match findCI p line with
      | some i => some (i, i + p.length)
      | none => locate line ps

def isBracket (c : Char) : Bool := c == '{' || c == '[' || c == '(' || c == ')' || c == ']' || c == '}'

/-- the scan loop of `extract_default`; `seen` = some bracket has been counted (the counters never go down) -/
def scanDefault : Str → Bool → Str
  | [], _ => []
  | c :: t, seen =>
    if c == '.' && !seen && (match t with | [] => true | d :: _ => !isAsciiDigit d) then []
    else c :: scanDefault t (seen || isBracket c)

def simpleTypes : List Str :=
  ["int".toList, "float".toList, "complex".toList, "str".toList, "bool".toList]
def noneTypes : List Str := ["None".toList, "```(None)```".toList]

def signed (neg : Bool) (d : Str) : Str := (if neg then ['-'] else []) ++ d
def isZeroDigits (d : Str) : Bool := d.all (· == '0')
/-- canonical decimal digits of an int literal (strip leading zeros) -/
def canonDigits (d : Str) : Str := match stripLeft ['0'] d with | [] => ['0'] | r => r

def coerce (typ : Str) (v : Val) : Res Val :=
  match String.ofList typ, v with
  | "int", .int n d => .ok (.int n d)
  | "int", .bool b => .ok (.int false (if b then ['1'] else ['0']))
  | "float", .float t => .ok (.float t)
  | "float", .int n d => .ok (.float (signed (n && !isZeroDigits d) d))   -- (`float(-0)` is `0.0`: the integer -0 IS 0)
  | "float", .bool b => .ok (.float (if b then "1.0".toList else "0.0".toList))
  | "bool", .bool b => .ok (.bool b)
  | "bool", .int _ d => .ok (.bool (!isZeroDigits d))
  | "bool", .none => .ok (.bool false)
  | "bool", .str s => .ok (.bool (!s.isEmpty))
  | "bool", .float _ => .unmodelled "bool(float)"
  | "str", .str s => .ok (.str s)
  | "str", .int n d => .ok (.str (signed (n && !isZeroDigits d) (canonDigits d)))
  | "str", .bool b => .ok (.str (if b then "True".toList else "False".toList))
  | "str", .none => .ok (.str "None".toList)
  | "str", .float _ => .unmodelled "str(float)"
  | "int", .none => .raises "TypeError"
  | "float", .none => .raises "TypeError"
  | "int", .float _ => .unmodelled "int(float)"
  | "int", .str _ => .unmodelled "int(str)"
  | "float", .str _ => .unmodelled "float(str)"
  | _, _ => .unmodelled "complex"

def untypedValue (d1 : Str) : Res Val :=
  if isDecimal d1 then .ok (.int false d1)
  else if d1.head? == some '-' && isDecimal d1.tail then .ok (.int true d1.tail)   -- fix D4 (74e4195)
  else if d1 == "True".toList then .ok (.bool true)
  else if d1 == "False".toList then .ok (.bool false)
  else
    let f := strip pyWs d1
    if isIntTok f || isFloatTok f then .ok (.float f)
    else if f.contains '_' && f.any isAsciiDigit then .unmodelled "float() with underscores"
    else if (casefold (stripLeft ['+', '-'] f)) ∈ ["inf".toList, "nan".toList, "infinity".toList] then
      .unmodelled "float(inf/nan)"
    else .ok (.str d1)

/-- stage 2: trim the scanned text (`.strip(" \t`")`, then the `).` rule) -/
def trimStage (scanned : Str) : Str :=
  let d0 := strip [' ', '\t', '`'] scanned
  if !startsWith d0 ['('] && endsWith d0 [')', '.'] then d0.take (d0.length - 2) else d0

/-- stage 3: typed (`literal_eval` + constructor) or untyped (`isdecimal` / bool / `float`) coercion -/
def valueStage (d1 : Str) (typ : Option Str) : Res Val :=
  let useTyped := match typ with
    | some t => simpleTypes.contains t && !noneTypes.contains d1
    | none => false
  if useTyped then (literalEval d1).bind (coerce (typ.getD [])) else untypedValue d1

/-- stage 4: what is returned; with removal, the doc is `line[:start-1] + line[rest:]` after skipping " \t\n." -/
def resultStage (line : Str) (startIdx restOffset : Nat) (emitDefaultDoc : Bool) (val : Val) : Extract :=
  if emitDefaultDoc then ⟨line, some val⟩
  else
    let tail := line.drop restOffset
    let skipped := (tail.takeWhile (fun c => c == ' ' || c == '\t' || c == '\n' || c == '.')).length
    -- `line[: start-1]`: Python negative index when start = 0
    let fst := if startIdx == 0 then line.take (line.length - 1) else line.take (startIdx - 1)
    ⟨fst ++ line.drop (restOffset + skipped), some val⟩

def extractDefault (line : Str) (typ : Option Str) (emitDefaultDoc : Bool) : Res Extract :=
  match locate line phrases with
  | none => .ok ⟨line, none⟩
  | some (startIdx, endIdx) =>
    let scanned := scanDefault (line.drop endIdx) false
    (valueStage (trimStage scanned) typ).bind fun val =>
      .ok (resultStage line startIdx (endIdx + scanned.length) emitDefaultDoc val)

/-! `quote`, `needs_quoting`, `set_default_doc` -/

def quote (s : Str) : Str :=
  match s, s.getLast? with
  | c :: _, some l => if c == l && (c == '\'' || c == '"') then s else ['"'] ++ s ++ ['"']
  | _, _ => s

def isIdentChar (c : Char) : Bool := c.isAlphanum || c == '_'

/-- does a type expression mention the *name* `str` (not an attribute `x.str`) or contain a string literal?
    `prev` = last non-blank char consumed; `cur` = identifier being read; `curPrev` = char before it -/
def mentionsStr : Str → Option Char → Str → Option Char → Bool
  | [], _, cur, curPrev => cur == "str".toList && curPrev != some '.'
  | c :: t, prev, cur, curPrev =>
    if isIdentChar c then
      if cur.isEmpty then mentionsStr t (some c) [c] prev else mentionsStr t (some c) (cur ++ [c]) curPrev
    else
      (cur == "str".toList && curPrev != some '.') || c == '\'' || c == '"'
        || mentionsStr t (if c == ' ' then prev else some c) [] none

/-! a recogniser for the type grammar of the property domain:
    `T ::= A ('[' T (',' T)* ']')?`, `A ::= ident ('.' ident)* | 'str' | "str" | digits` -/
def pyKeywords : List String :=
  ["and", "as", "assert", "async", "await", "break", "class", "continue", "def", "del", "elif", "else", "except",
   "finally", "for", "from", "global", "if", "import", "in", "is", "lambda", "nonlocal", "not", "or", "pass",
   "raise", "return", "try", "while", "with", "yield"]

inductive Tok where
  | ident | dot | comma | lbr | rbr | lit
deriving BEq, Repr

def tokenize : Str → Nat → Option (List Tok)
  | _, 0 => none
  | [], _ => some []
  | c :: t, fuel + 1 =>
    if c == ' ' then tokenize t fuel
    else if c == '.' then (tokenize t fuel).map (Tok.dot :: ·)
    else if c == ',' then (tokenize t fuel).map (Tok.comma :: ·)
    else if c == '[' then (tokenize t fuel).map (Tok.lbr :: ·)
    else if c == ']' then (tokenize t fuel).map (Tok.rbr :: ·)
    else if c == '\'' || c == '"' then
      let (body, rest) := t.span (· != c)
      match rest with
      | _ :: rest' => if body.contains '\\' then none else (tokenize rest' fuel).map (Tok.lit :: ·)
      | [] => none
    else if isAsciiDigit c then
      let rest := t.dropWhile isAsciiDigit
      match rest with
      | r :: _ => if isIdentChar r then none else (tokenize rest fuel).map (Tok.lit :: ·)
      | [] => some [Tok.lit]
    else if isIdentChar c then
      let word := c :: t.takeWhile isIdentChar
      if pyKeywords.contains (String.ofList word) then none
      else (tokenize (t.dropWhile isIdentChar) fuel).map (Tok.ident :: ·)
    else none

mutual
  /-- parse one `T`, return the remaining tokens -/
  def parseT : List Tok → Nat → Option (List Tok)
    | _, 0 => none
    | Tok.lit :: r, _ => some r
    | Tok.ident :: r, fuel + 1 =>
      let r := dropDotted r fuel
      match r with
      | Tok.lbr :: r' =>
        match parseL r' fuel with
        | some (Tok.rbr :: r'') => some r''
        | _ => none
      | _ => some r
    | _, _ => none
  def parseL : List Tok → Nat → Option (List Tok)
    | _, 0 => none
    | ts, fuel + 1 =>
      match parseT ts fuel with
      | some (Tok.comma :: r) => parseL r fuel
      | other => other
  def dropDotted : List Tok → Nat → List Tok
    | ts, 0 => ts
    | Tok.dot :: Tok.ident :: r, fuel + 1 => dropDotted r fuel
    | ts, _ => ts
end

def typeGrammarOk (t : Str) : Bool :=
  match tokenize t (t.length + 1) with
  | some toks => parseT toks (toks.length + 1) == some []
  | none => false

/-- `needs_quoting(typ)` on the type grammar of the property domain -/
def needsQuoting (typ : Option Str) : Res Bool :=
  match typ with
  | none => .ok false
  | some t =>
    if startsWith t ['*'] then .ok false
    else if t == "str".toList || t == "Optional[str]".toList then .ok true
    else
      let t' := strip [' ', '\t', '\n', '\r', '\x0b', '\x0c'] (t.filter (· != '\n'))
      if !typeGrammarOk t' then .unmodelled "type outside the grammar"
      else .ok (mentionsStr t' none [] none)

structure Param where
  doc : Option Str := none
  typ : Option Str := none
  default : Option Val := none     -- `some .none` = key present with value None
deriving Repr, BEq, DecidableEq, Inhabited

def noneStr : Str := ['`','`','`','(','N','o','n','e',')','`','`','`']

def fmtVal : Val → Res Str
  | .none => .ok "None".toList
  | .bool b => .ok (if b then "True".toList else "False".toList)
  | .int n d => .ok (signed (n && !isZeroDigits d) (canonDigits d))
  | .float t => .ok t            -- harness sends the repr token
  | .str s => .ok s

/-- `set_default_doc((name, param), emit_default_doc)`; returns the new doc (and whether default was rewritten to None) -/
def setDefaultDoc (name : Str) (p : Param) (emitDefaultDoc : Bool) : Res Param :=
  match p.doc with
  | none => .ok p
  | some doc =>
    let hasDefaults := containsSub doc "Defaults".toList || containsSub doc "defaults".toList
    if hasDefaults && !emitDefaultDoc then
      (extractDefault doc none false).bind fun e => .ok { p with doc := some e.doc }
    else if p.default.isSome && !hasDefaults && emitDefaultDoc then
      let dflt := if p.default == some (Val.str noneStr) then some Val.none else p.default
      let p := { p with default := dflt }
      if dflt != some Val.none || !endsWith name "kwargs".toList then
        match doc.getLast? with
        | none => .raises "IndexError"
        | some l =>
          let doc' := if l == '.' || l == ',' then doc else doc ++ ['.']
          (needsQuoting p.typ).bind fun q =>
          match dflt with
          | some v =>
            if q then
              match v with
              | .str s =>
                -- an empty string is written as `""` (`quote` leaves it empty)
                .ok { p with doc := some (doc' ++ " Defaults to ".toList ++ (if s.isEmpty then ['"', '"'] else quote s)) }
              | .none => .ok { p with doc := some (doc' ++ " Defaults to None".toList) }
              | _ => .raises "AttributeError"
            else (fmtVal v).bind fun sv => .ok { p with doc := some (doc' ++ " Defaults to ".toList ++ sv) }
          | none => .ok p
      else .ok p
    else .ok p

end Py
