import DT.GoogleRet
import DT.GoogleRTExample
/-! non-vacuity: the two-parameter description of `RestRTExample`, with the second triple reused as the return entry,
    satisfies every hypothesis of `C01_google_return_partial`. -/
namespace Py
namespace GoogleRT
open DocEmit DocParse NumpyRT

example : ((emitDocstring .google (NumpyRT.mkIRr exD [exA, exB] exB.2.1 exB.2.2) true).bind fun text => parseDocstring .google text false)
    = .ok (NumpyRT.mkIRr exD [exA, exB] exB.2.1 exB.2.2) :=
  C01_google_return_partial exD [exA, exB] exB.2.1 exB.2.2 (by simp)
    (by intro x hx; simp at hx; rcases hx with rfl | rfl; exact exA_ok'; exact exB_ok')
    (by intro x hx; simp at hx; rcases hx with rfl | rfl; exact gA; exact gB)
    (by intro x hx; simp at hx; rcases hx with rfl | rfl <;> exact margin_dec _ (by decide))
    exB_ok'.2.1 exB_ok'.2.2 (margin_dec _ (by decide))
    (by decide) (trimmed_dec _ (by decide) (by decide)) (by decide) (by decide +kernel) (by decide) true false

#eval (emitDocstring .google (NumpyRT.mkIRr exD [exA, exB] exB.2.1 exB.2.2) true) |> fun r => match r with | .ok t => String.ofList t | _ => "?"
end GoogleRT
end Py
