import DT.Sig
/-! L6/L9 spike: a generic `ast` tree and statement-by-statement Impl of
    `annotate_ancestry`, `find_in_ast`, `RewriteAtQuery`. `partial` is used freely here — the real
    model uses fuel = node count so that the functions are total. -/
namespace PyAst

inductive Atom where
  | none
  | str (s : String)
  | int (i : Int)
  | bool (b : Bool)
  | other (repr : String)
deriving Repr, BEq, DecidableEq, Inhabited

mutual
  inductive Node where
    | mk (kind : String) (fields : List (String × Field))
         (loc : Option (List Atom)) (idx : Option Int) (dflt : Option Item)
  inductive Field where
    | atom (a : Atom)
    | node (n : Node)
    | list (items : List Item)
    | missing
  inductive Item where
    | node (n : Node)
    | atom (a : Atom)
end

instance : Inhabited Node := ⟨.mk "?" [] none none none⟩
instance : Inhabited Item := ⟨.atom .none⟩

def Node.kind : Node → String | .mk k _ _ _ _ => k
def Node.fields : Node → List (String × Field) | .mk _ f _ _ _ => f
def Node.loc : Node → Option (List Atom) | .mk _ _ l _ _ => l
def Node.idx : Node → Option Int | .mk _ _ _ i _ => i
def Node.dflt : Node → Option Item | .mk _ _ _ _ d => d
def Node.setLoc (n : Node) (l : List Atom) : Node := match n with | .mk k f _ i d => .mk k f (some l) i d
def Node.setIdx (n : Node) (j : Int) : Node := match n with | .mk k f l _ d => .mk k f l (some j) d
def Node.setDflt (n : Node) (x : Item) : Node := match n with | .mk k f l i _ => .mk k f l i (some x)
def Node.setFields (n : Node) (f : List (String × Field)) : Node := match n with | .mk k _ l i d => .mk k f l i d

def Node.field? (n : Node) (name : String) : Option Field := (n.fields.find? (·.1 == name)).map (·.2)
def Node.setField (n : Node) (name : String) (v : Field) : Node :=
  n.setFields (n.fields.map fun (k, f) => if k == name then (k, v) else (k, f))

def Node.atomField (n : Node) (name : String) : Option Atom :=
  match n.field? name with | some (.atom a) => some a | _ => none
def Node.nodeField (n : Node) (name : String) : Option Node :=
  match n.field? name with | some (.node m) => some m | _ => none
def Node.listField (n : Node) (name : String) : List Item :=
  match n.field? name with | some (.list l) => l | _ => []
def Node.nodesOf (n : Node) (name : String) : List Node :=
  (n.listField name).filterMap fun | .node m => some m | _ => none

/-- classes whose instances have a `name` attribute on 3.12 (as far as the generators reach) -/
def hasNameKinds : List String := ["FunctionDef", "AsyncFunctionDef", "ClassDef", "ExceptHandler", "alias", "MatchAs", "MatchStar"]
def Node.hasName (n : Node) : Bool := hasNameKinds.contains n.kind && (n.field? "name").isSome
def Node.name (n : Node) : Atom := (n.atomField "name").getD .none

/-- `ast.iter_child_nodes` -/
def Node.children (n : Node) : List Node :=
  n.fields.flatMap fun (_, f) =>
    match f with
    | .node m => [m]
    | .list l => l.filterMap fun | .node m => some m | _ => none
    | _ => []

abbrev Path := List Nat      -- position among `children`, from the root

/-- replace the node at `path` (indices into `children` order) by `f node` -/
partial def Node.modifyAt (n : Node) (path : Path) (f : Node → Node) : Node :=
  match path with
  | [] => f n
  | i :: rest =>
    -- walk fields, counting child nodes
    let rec go (fields : List (String × Field)) (seen : Nat) : List (String × Field) :=
      match fields with
      | [] => []
      | (k, .node m) :: fs =>
        if seen == i then (k, .node (m.modifyAt rest f)) :: fs else (k, .node m) :: go fs (seen + 1)
      | (k, .list l) :: fs =>
        let cnt := (l.filter fun | .node _ => true | _ => false).length
        if i < seen + cnt then
          let rec goL (items : List Item) (s : Nat) : List Item :=
            match items with
            | [] => []
            | .node m :: r => if s == i then .node (m.modifyAt rest f) :: r else .node m :: goL r (s + 1)
            | a :: r => a :: goL r s
          (k, .list (goL l seen)) :: fs
        else (k, .list l) :: go fs (seen + cnt)
      | kf :: fs => kf :: go fs seen
    n.setFields (go n.fields 0)

partial def Node.getAt (n : Node) (path : Path) : Option Node :=
  match path with
  | [] => some n
  | i :: rest => match n.children[i]? with | some c => c.getAt rest | none => none

def getValueConst (n : Node) : Atom :=
  match n.atomField "value" with
  | some .none => .str "```(None)```"
  | some a => a
  | none => .none

def isSelfCls (n : Node) : Bool :=
  match (n.nodesOf "args").head? with
  | some a => a.atomField "arg" == some (.str "self") || a.atomField "arg" == some (.str "cls")
  | none => false

/-- annotate the `arguments` child of a FunctionDef whose location is `floc` -/
def annotateArgs (fn : Node) (floc : List Atom) : Node :=
  match fn.nodeField "args" with
  | none => fn
  | some args =>
    let start : Int := if isSelfCls args then -1 else 0
    let ann (items : List Item) (from_ : Int) : List Item :=
      (items.foldl (fun (acc : List Item × Int) it =>
        match it with
        | .node a => (acc.1 ++ [.node ((a.setIdx acc.2).setLoc (floc ++ [(a.atomField "arg").getD .none]))], acc.2 + 1)
        | x => (acc.1 ++ [x], acc.2)) ([], from_)).1
    let args := args.setField "args" (.list (ann (args.listField "args") start))
    let args := args.setField "kwonlyargs" (.list (ann (args.listField "kwonlyargs") 0))
    fn.setField "args" (.node args)

/-- `annotate_ancestry(node)`: BFS over paths; state = tree being updated + `parent_location` -/
partial def annotate (root : Node) : Node :=
  let root := root.setLoc (if root.hasName then [root.name] else [])
  let rec loop (tree : Node) (queue : List Path) (parentLoc : List Atom) : Node :=
    match queue with
    | [] => tree
    | p :: rest =>
      match tree.getAt p with
      | none => loop tree rest parentLoc
      | some cur =>
        let nm : List Atom := if cur.hasName then [cur.name] else []
        let kids := cur.children
        let (tree, parentLoc, _) := kids.foldl (fun (acc : Node × List Atom × Nat) child =>
          let (tree, pl, i) := acc
          let cp := p ++ [i]
          let (child', pl') : Node × List Atom :=
            if child.hasName && child.kind != "alias" then
              let l := nm ++ [child.name]; (child.setLoc l, l)
            else if child.kind == "Constant" then (child.setLoc (pl ++ [getValueConst child]), pl)
            else if child.kind == "Assign" && (child.listField "targets").all (fun | .node t => t.kind == "Name" | _ => false) then
              match (child.nodesOf "targets").getLast? with
              | some t => (child.setLoc (nm ++ [(t.atomField "id").getD .none]), pl)
              | none => (child, pl)
            else if child.kind == "AnnAssign" && ((child.nodeField "target").map (·.kind)) == some "Name" then
              (child.setLoc (nm ++ [((child.nodeField "target").bind (·.atomField "id")).getD .none]), pl)
            else (child, pl)
          let child'' := if child'.kind == "FunctionDef" then annotateArgs child' (child'.loc.getD []) else child'
          (tree.modifyAt cp (fun _ => child''), pl', i + 1)) (tree, parentLoc, 0)
        loop tree (rest ++ (List.range kids.length).map (fun i => p ++ [i])) parentLoc
  loop root [[]] []

/-! ### find_in_ast -/

inductive Found where
  | node (n : Node)
  | none
  | raises (k : String)
deriving Inhabited

def bodyOf (n : Node) : Option (List Item) :=
  match n.field? "body" with | some (.list l) => some l | _ => Option.none

/-- statement-by-statement `find_in_ast(search, node)` -/
partial def findInAst (search : List Atom) (node : Node) : Found :=
  if search.isEmpty || node.loc == some search then .node node else
  match bodyOf node with
  | Option.none => .raises "AttributeError"
  | some body0 =>
    -- state: child_node, cursor (a list of items, or an `arg` node after a match), current_search
    let rec whileLoop (childNode : Node) (cursor : Sum (List Item) Node) (cs : List Atom) : Found :=
      match cs with
      | [] => .none
      | query :: cs =>
        if cs.isEmpty && childNode.hasName && childNode.name == query then .node childNode else
        match cursor with
        | .inr _ => .raises "TypeError"        -- `for child_node in cursor` over an `arg`
        | .inl items =>
          let rec forLoop (items : List Item) (childNode : Node) (cursor : Sum (List Item) Node)
              (query : Atom) (cs : List Atom) : Found :=
            match items with
            | [] => whileLoop childNode cursor cs
            | .atom _ :: _ => .raises "AttributeError"
            | .node ch :: rest =>
              if ch.loc == some search then .node ch
              else if ch.kind == "FunctionDef" then
                let (query, cs) := match cs with | q :: cs' => (q, cs') | [] => (query, cs)
                let args := ((ch.nodeField "args").map (·.nodesOf "args")).getD []
                let defaults := ((ch.nodeField "args").map (·.listField "defaults")).getD []
                match (args.zipIdx).find? (fun (a, _) => a.atomField "arg" == some query) with
                | some (a, i) =>
                  let a := if defaults.length > i then (match defaults[i]? with | some d => a.setDflt d | Option.none => a) else a
                  if cs.isEmpty then .node a else forLoop rest ch (.inr a) query cs
                | Option.none => forLoop rest ch cursor query cs
              else if ch.kind == "AnnAssign" && ((ch.nodeField "target").map (·.kind)) == some "Name"
                      && ((ch.nodeField "target").bind (·.atomField "id")) == some query then .node ch
              else if ch.hasName && ch.name == query then
                match bodyOf ch with
                | some b => whileLoop ch (.inl b) cs       -- `cursor = child_node.body; break`
                | Option.none => .raises "AttributeError"
              else forLoop rest ch cursor query cs
          forLoop items childNode cursor query cs
    whileLoop node (.inl body0) search

end PyAst

namespace PyAst

/-! ### RewriteAtQuery -/

structure RW where
  search : List Atom
  repl : Node
  replaced : Bool := false
  err : Option String := none

def mkArg (name : Atom) (ann : Field) : Node :=
  .mk "arg" [("arg", .atom name), ("annotation", ann), ("type_comment", .atom .none)] none none none

/-- `emit_arg(node)` -/
def emitArg (n : Node) : Except String Node :=
  if n.kind == "arg" then .ok n
  else if n.kind == "AnnAssign" && ((n.nodeField "target").map (·.kind)) == some "Name" then
    .ok (mkArg (((n.nodeField "target").bind (·.atomField "id")).getD .none) ((n.field? "annotation").getD (.atom .none)))
  else if n.kind == "Assign" && (n.listField "targets").length == 1
          && ((n.nodesOf "targets").head?.map (·.kind)) == some "Name" then
    .ok (mkArg (((n.nodesOf "targets").head?.bind (·.atomField "id")).getD .none) (.atom .none))
  else .error "NotImplementedError"

/-- Python list assignment `l[i] = v` with negative indices -/
def listSet (l : List Item) (i : Int) (v : Item) : Option (List Item) :=
  let j : Int := if i < 0 then i + l.length else i
  if j < 0 || j ≥ l.length then none else some (l.set j.toNat v)

def visitFunctionDefRaw (st : RW) (node : Node) : RW × Node :=
  let searchInit := st.search.take (st.search.length - 1)
  if !st.replaced && node.loc == some searchInit then
    match node.nodeField "args" with
    | none => ({ st with err := some "AttributeError" }, node)
    | some args =>
      -- phase 1: AnnAssign / Assign replacement nodes are turned into an `arg`, defaults patched
      let phase1 : Except String (RW × Node) :=
        if st.repl.kind == "AnnAssign" || st.repl.kind == "Assign" then
          let argsL := args.nodesOf "args"
          let (idx, repl1) : Option Int × Node :=
            if st.repl.kind == "AnnAssign" then
              -- (fix: the default slot of the ADDRESSED argument - not of one named like the replacement -, counted
              -- from the right: `pos - (len(args) - len(defaults))`, none when negative)
              let nd : Nat := (args.listField "defaults").length
              let slot : Option Int := ((argsL.zipIdx).find? (fun (a, _) => a.loc == some st.search)).bind
                (fun (_, pos) => (Py.Sig.slotOf argsL.length nd pos).map Int.ofNat)     -- `Sig.pyDefault_set`
              (slot, st.repl)
            else
              let cands : List Int := (st.repl.nodesOf "targets").flatMap fun t =>
                (argsL.filter (·.idx.isSome)).filterMap fun a =>
                  if a.atomField "arg" == t.atomField "id" then a.idx else none
              ((cands.find? (· != 0)),       -- `filter(None, …)` drops index 0
               mkArg (((st.repl.nodesOf "targets").head?.bind (·.atomField "id")).getD .none)
                     ((st.repl.field? "value").getD (.atom .none)))
          let defaults := args.listField "defaults"
          let args1 : Except String Node :=
            match idx with
            | some i =>
              if (defaults.length : Int) > i then
                -- `get_value(replacement_node)`
                let newDefault : Option Item :=
                  if repl1.kind == "AnnAssign" then
                    match repl1.field? "value" with
                    | some (.node v) => some (.node v)
                    | some (.atom .none) => some (.atom (.str "```(None)```"))
                    | _ => none
                  else some (.node repl1)
                match newDefault with
                | some nd =>
                  match listSet defaults i nd with
                  | some d' => .ok (args.setField "defaults" (.list d'))
                  | none => .error "IndexError"
                | none => .ok args
              else .ok args
            | none => .ok args
          match args1, emitArg repl1 with
          | .ok a, .ok r => .ok ({ st with repl := r }, node.setField "args" (.node a))
          | .error e, _ => .error e
          | _, .error e => .error e
        else .ok (st, node)
      match phase1 with
      | .error e => ({ st with err := some e }, node)
      | .ok (st, node) =>
        if st.repl.kind != "arg" then ({ st with err := some "AssertionError" }, node) else
        let args := (node.nodeField "args").getD default
        let replaceIn (items : List Item) : List Item × Bool :=
          items.foldl (fun (acc : List Item × Bool) it =>
            match it with
            | .node a => if !acc.2 && a.loc == some st.search then (acc.1 ++ [.node st.repl], true) else (acc.1 ++ [it], acc.2)
            | _ => (acc.1 ++ [it], acc.2)) ([], false)
        let (a1, r1) := replaceIn (args.listField "args")
        let (a2, r2) := replaceIn (args.listField "kwonlyargs")
        let args := (args.setField "args" (.list a1)).setField "kwonlyargs" (.list a2)
        ({ st with replaced := st.replaced || r1 || r2 }, node.setField "args" (.node args))
  else (st, node)

/-- `RewriteAtQuery.visit_FunctionDef`; `self.search` is never assigned by the Python, which the
    wrapper makes syntactically evident (the raw function only ever copies it). -/
def visitFunctionDef (st : RW) (node : Node) : RW × Node :=
  let r := visitFunctionDefRaw st node
  ({ r.1 with search := st.search }, r.2)

/-! `NodeTransformer.visit` / `generic_visit`, total by mutual structural recursion over the nested
    inductive. `visit_FunctionDef` does not descend (the Python returns `node` without calling
    `generic_visit`), so nothing below a `FunctionDef` is ever visited. -/
mutual
  def visit (st : RW) : Node → RW × Node
    | .mk k fs l i d =>
      if st.err.isSome then (st, .mk k fs l i d)
      else if k == "FunctionDef" then visitFunctionDef st (.mk k fs l i d)
      -- (fix: a string constant carries a location too; it is never what a search addresses)
      else if !st.replaced && l == some st.search && k != "Constant" then ({ st with replaced := true }, st.repl)
      else
        let (st', fs') := visitFields st fs
        (st', .mk k fs' l i d)
  def visitFields (st : RW) : List (String × Field) → RW × List (String × Field)
    | [] => (st, [])
    | (k, f) :: rest =>
      let (st1, f') := visitField st f
      let (st2, rest') := visitFields st1 rest
      (st2, (k, f') :: rest')
  def visitField (st : RW) : Field → RW × Field
    | .atom a => (st, .atom a)
    | .missing => (st, .missing)
    | .node n => let (s, n') := visit st n; (s, .node n')
    | .list items => let (s, items') := visitItems st items; (s, .list items')
  def visitItems (st : RW) : List Item → RW × List Item
    | [] => (st, [])
    | it :: rest =>
      let (st1, it') := visitItem st it
      let (st2, rest') := visitItems st1 rest
      (st2, it' :: rest')
  def visitItem (st : RW) : Item → RW × Item
    | .node n => let (s, n') := visit st n; (s, .node n')
    | .atom a => (st, .atom a)
end

end PyAst
