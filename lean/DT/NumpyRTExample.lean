import DT.NumpyRT
import DT.RestRTExample
/-! non-vacuity: the two-parameter description of `RestRTExample` satisfies every hypothesis of
    `C01_numpydoc_nodefault_partial`. -/
namespace Py
namespace NumpyRT
open DocEmit DocParse

theorem exA_ok' : TripleOK' exA := ⟨exA_ok.1, ⟨exA_ok.2.1, by decide, by decide⟩, exA_ok.2.2⟩
theorem exB_ok' : TripleOK' exB := ⟨exB_ok.1, ⟨exB_ok.2.1, by decide, by decide⟩, exB_ok.2.2⟩

theorem margin_dec (n : Str) (h : (n.head?.map DocScan.isPySpace) = some false) : AtMargin n := by
  intro c hc; rw [hc] at h; simpa using h

example : ((emitDocstring .numpydoc (mkIR exD [exA, exB]) true).bind fun text => parseDocstring .numpydoc text true)
    = .ok (mkIR exD [exA, exB]) :=
  C01_numpydoc_nodefault_partial exD [exA, exB] (by simp)
    (by intro x hx; simp at hx; rcases hx with rfl | rfl; exact exA_ok'; exact exB_ok')
    (by intro x hx; simp at hx; rcases hx with rfl | rfl <;> exact margin_dec _ (by decide))
    (by intro x hx; simp at hx; rcases hx with rfl | rfl <;> exact trimmed_dec _ (by decide) (by decide))
    (by intro x hx; simp at hx; rcases hx with rfl | rfl <;> decide)
    (by decide) (trimmed_dec _ (by decide) (by decide)) (by decide) (by decide +kernel) (by decide) true true

#eval (emitDocstring .numpydoc (mkIR exD [exA, exB]) true) |> fun r => match r with | .ok t => String.ofList t | _ => "?"
end NumpyRT
end Py
