import DT.Kinds
/-! C13: conversions that share one interface description. Every emitter is a function
    `IR → Artefact × IR` (what it returns, and what the caller's description looks like afterwards). -/
namespace Py
namespace Shared

/-- run the calls one after the other on ONE shared description -/
def runShared {S A : Type} (s : S) : List (S → A × S) → List A
  | [] => []
  | f :: fs => (f s).1 :: runShared (f s).2 fs

/-- run every call on a fresh copy of the original description -/
def runFresh {S A : Type} (s : S) (fs : List (S → A × S)) : List A := fs.map fun f => (f s).1

/-- **C13**: if no call changes the description it is given, then ANY sequence of calls — any length,
    any order, any repetition — gives every call the result it would give on a fresh copy -/
theorem shared_eq_fresh {S A : Type} : ∀ (fs : List (S → A × S)) (s : S),
    (∀ f ∈ fs, ∀ t, (f t).2 = t) → runShared s fs = runFresh s fs
  | [], _, _ => rfl
  | f :: fs, s, h => by
    simp only [runShared, runFresh, List.map_cons]
    rw [h f (by simp) s]
    have := shared_eq_fresh fs s (fun g hg t => h g (by simp [hg]) t)
    simp only [runFresh] at this
    rw [this]

/-! ### the emitters' effect on the caller's description -/

/-- the observable part of an artefact that matters here: the names it declares and whether it has a
    return entry (enough to tell the artefacts of the witness apart) -/
structure Art where
  names : List Str
  hasReturn : Bool
deriving DecidableEq, Repr

def artOf (ir : IR) : Art := { names := ir.params.map (·.1), hasReturn := ir.returns.isSome }

/-- after fix 79e7812 every emitter works on a copy: the caller's description is untouched -/
def emitPure (ir : IR) : Art × IR := (artOf ir, ir)

/-- `emit.class_` as it was (D10): `params.update(returns); del returns` on the caller's description -/
def emitClassOld (ir : IR) : Art × IR :=
  match ir.returns with
  | some r =>
    let ir' : IR := { ir with params := ir.params ++ [(retName, r)], returns := none }
    (artOf ir', ir')
  | none => (artOf ir, ir)

theorem emitPure_pure (ir : IR) : (emitPure ir).2 = ir := rfl

/-- with the repaired emitters every history is equivalent to fresh copies -/
theorem pure_histories (n : Nat) (ir : IR) :
    runShared ir (List.replicate n emitPure) = runFresh ir (List.replicate n emitPure) :=
  shared_eq_fresh _ ir (fun f hf t => by rw [List.eq_of_mem_replicate hf]; rfl)

def wIR : IR := { doc := ['d'], params := [(['a'], {})], returns := some {} }

/-- D10, kernel-checked: class then function on one shared description — the function artefact gains a
    `return_type` argument that a fresh copy does not have -/
theorem old_class_then_function_differs :
    runShared wIR [emitClassOld, emitPure] ≠ runFresh wIR [emitClassOld, emitPure] := by decide

end Shared
end Py
