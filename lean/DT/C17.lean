import DT.Proofs
/-! C17: `extract_default` on a line that `set_default_doc` produced, for every value kind. -/
namespace Py

/-! ### stage 1: the announcement is found where it was written -/

theorem announced_locate (p txt : Str)
    (hp : NoOccBefore phrase0 (p ++ announce ++ txt) (p.length + 1)) :
    locate (p ++ announce ++ txt) phrases = some (p.length + 1, p.length + 13) := by
  have hfind : findCI phrase0 (p ++ announce ++ txt) = some (p.length + 1) := by
    have e : p ++ announce ++ txt
        = (p ++ [' ']) ++ (['D', 'e', 'f', 'a', 'u', 'l', 't', 's', ' ', 't', 'o', ' '] ++ txt) := by
      rw [announce_split]; simp only [List.append_assoc]
    have hlen : (p ++ [' ']).length = p.length + 1 := by simp
    rw [e, ← hlen]
    apply findCI_at
    · decide
    · rw [casefold_phrase0]
      unfold casefold
      rw [List.map_append]
      have := casefold_cap
      unfold casefold at this
      rw [this]
      exact List.isPrefixOf_iff_prefix.mpr (List.prefix_append phrase0 (List.map lowerAscii txt))
    · rw [hlen, ← e]; exact hp
  have hlenline : (p ++ announce ++ txt).length = p.length + 13 + txt.length := by
    simp only [List.length_append, announce_len]
  rw [phrases_eq]
  unfold locate
  have h12 : phrase0.length = 12 := by rfl
  have : ¬ (phrase0.length > (p ++ announce ++ txt).length) := by rw [hlenline, h12]; omega
  rw [if_neg this, hfind, h12]

theorem announced_drop (p txt : Str) : (p ++ announce ++ txt).drop (p.length + 13) = txt := by
  have hl : (p ++ announce).length = p.length + 13 := by simp only [List.length_append, announce_len]
  rw [← hl, List.drop_left]

/-- **keep mode**: the line is returned unchanged, the value is whatever stages 2–3 make of the text -/
theorem extract_announced_keep (p txt : Str) (typ : Option Str)
    (hp : NoOccBefore phrase0 (p ++ announce ++ txt) (p.length + 1))
    (hscan : scanDefault txt false = txt) :
    extractDefault (p ++ announce ++ txt) typ true
      = (valueStage (trimStage txt) typ).bind fun v => .ok ⟨p ++ announce ++ txt, some v⟩ := by
  unfold extractDefault
  rw [announced_locate p txt hp]
  simp only [announced_drop, hscan, resultStage, if_true]

/-- **removal mode**: exactly the prose in front of the sentence comes back -/
theorem extract_announced_remove (p txt : Str) (typ : Option Str)
    (hp : NoOccBefore phrase0 (p ++ announce ++ txt) (p.length + 1))
    (hscan : scanDefault txt false = txt) :
    extractDefault (p ++ announce ++ txt) typ false
      = (valueStage (trimStage txt) typ).bind fun v => .ok ⟨p, some v⟩ := by
  unfold extractDefault
  rw [announced_locate p txt hp]
  simp only [announced_drop, hscan, resultStage, Bool.false_eq_true, if_false]
  have hlen : (p ++ announce ++ txt).length = p.length + 13 + txt.length := by
    simp only [List.length_append, announce_len]
  have hd : (p ++ announce ++ txt).drop (p.length + 13 + txt.length) = [] := by
    rw [← hlen]; exact List.drop_length
  have h0 : (p.length + 1 == 0) = false := by simp
  have ht : (p ++ announce ++ txt).take (p.length + 1 - 1) = p := by
    have : p.length + 1 - 1 = p.length := by omega
    rw [this, List.append_assoc, List.take_left]
  simp only [hd, List.takeWhile_nil, List.length_nil, Nat.add_zero, h0, Bool.false_eq_true, if_false, ht,
    List.append_nil]

/-! ### stage 2 helpers -/

theorem scanDefault_noDot (txt : Str) (h : '.' ∉ txt) (seen : Bool) : scanDefault txt seen = txt := by
  induction txt generalizing seen with
  | nil => rfl
  | cons c t ih =>
    have hc : (c == '.') = false := by
      have : c ≠ '.' := fun e => h (by simp [e])
      simpa using this
    simp only [scanDefault, hc, Bool.false_and, Bool.false_eq_true, if_false]
    rw [ih (fun m => h (by simp [m]))]

/-- text that starts and ends with characters `.strip(" \t`")` keeps, does not start with `(`, does not end with `).` -/
structure TrimStable (txt : Str) : Prop where
  headKeep : ∀ c, txt.head? = some c → [' ', '\t', '`'].contains c = false
  lastKeep : ∀ c, txt.getLast? = some c → [' ', '\t', '`'].contains c = false
  notDotEnd : endsWith txt [')', '.'] = false

theorem strip_keep (chars txt : Str) (h1 : ∀ c, txt.head? = some c → chars.contains c = false)
    (h2 : ∀ c, txt.getLast? = some c → chars.contains c = false) : strip chars txt = txt := by
  unfold strip stripRight
  have hl : stripLeft chars txt = txt := by
    cases txt with
    | nil => rfl
    | cons c t =>
      have := h1 c rfl
      simp only [stripLeft, this, Bool.false_eq_true, if_false]
  rw [hl]
  cases hr : txt.reverse with
  | nil => simp [stripLeft]; simpa using hr
  | cons c t =>
    have hc : chars.contains c = false := h2 c (by rw [← List.head?_reverse, hr]; rfl)
    simp only [stripLeft, hc, Bool.false_eq_true, if_false]
    rw [← hr]; simp

theorem trimStage_stable (txt : Str) (h : TrimStable txt) : trimStage txt = txt := by
  unfold trimStage
  rw [strip_keep _ txt h.headKeep h.lastKeep]
  simp only [h.notDotEnd, Bool.and_false, Bool.false_eq_true, if_false]

/-! ### stage 3, kind by kind -/

/-- non-negative integers, written canonically (`str(int)` never has a leading zero unless it is "0") -/
theorem valueStage_digits_untyped (d : Str) (hd : isDecimal d = true) (typ : Option Str)
    (ht : ∀ t, typ = some t → simpleTypes.contains t = false) :
    valueStage d typ = .ok (.int false d) := by
  unfold valueStage
  cases typ with
  | none => simp only [Bool.false_eq_true, if_false, untypedValue, hd, if_true]
  | some t =>
    simp only [ht t rfl, Bool.false_and, Bool.false_eq_true, if_false, untypedValue, hd, if_true]

theorem noneTypes_digits (d : Str) (hd : isDecimal d = true) : noneTypes.contains d = false := by
  have hall : d.all isAsciiDigit = true := by
    simp only [isDecimal, Bool.and_eq_true] at hd; exact hd.2
  have hne : d ≠ [] := by intro h; simp [isDecimal, h] at hd
  cases d with
  | nil => exact absurd rfl hne
  | cons c t =>
    simp only [List.all_cons, Bool.and_eq_true] at hall
    have hc := hall.1
    -- both none-type spellings start with 'N' or '`', never with a digit
    simp only [noneTypes, List.contains_cons, List.contains_nil, Bool.or_false]
    have h1 : (c :: t == "None".toList) = false := by
      have : "None".toList = ['N', 'o', 'n', 'e'] := rfl
      rw [this]
      rcases Decidable.em (c = 'N') with rfl | hne'
      · simp [isAsciiDigit] at hc
      · simp [hne']
    have h2 : (c :: t == "```(None)```".toList) = false := by
      have : "```(None)```".toList = ['`', '`', '`', '(', 'N', 'o', 'n', 'e', ')', '`', '`', '`'] := rfl
      rw [this]
      rcases Decidable.em (c = '`') with rfl | hne'
      · simp [isAsciiDigit] at hc
      · simp [hne']
    rw [h1, h2]; rfl

/-- `literal_eval` of canonical digits -/
theorem literalEval_digits (d : Str) (hd : isDecimal d = true)
    (hcanon : ¬ (d.length > 1 ∧ d.head? = some '0' ∧ d.any (· != '0') = true)) :
    literalEval d = .ok (.int false d) := by
  have hall : d.all isAsciiDigit = true := by
    simp only [isDecimal, Bool.and_eq_true] at hd; exact hd.2
  have hstrip : strip [' ', '\t'] d = d := by
    apply strip_digits _ _ hall
    intro c hc; simp at hc; rcases hc with rfl | rfl <;> decide
  have hnn := noneTypes_digits d hd
  have hne : d ≠ [] := by intro h; simp [isDecimal, h] at hd
  obtain ⟨c, t, rfl⟩ : ∃ c t, d = c :: t := by
    cases d with
    | nil => exact absurd rfl hne
    | cons c t => exact ⟨c, t, rfl⟩
  simp only [List.all_cons, Bool.and_eq_true] at hall
  have hc := hall.1
  have hN : c ≠ 'N' := by rintro rfl; simp [isAsciiDigit] at hc
  have hT : c ≠ 'T' := by rintro rfl; simp [isAsciiDigit] at hc
  have hF : c ≠ 'F' := by rintro rfl; simp [isAsciiDigit] at hc
  have hm : c ≠ '-' := by rintro rfl; simp [isAsciiDigit] at hc
  have hp : c ≠ '+' := by rintro rfl; simp [isAsciiDigit] at hc
  have e1 : (c :: t == "None".toList) = false := by
    have : "None".toList = ['N', 'o', 'n', 'e'] := rfl
    rw [this]; simp [hN]
  have e2 : (c :: t == "True".toList) = false := by
    have : "True".toList = ['T', 'r', 'u', 'e'] := rfl
    rw [this]; simp [hT]
  have e3 : (c :: t == "False".toList) = false := by
    have : "False".toList = ['F', 'a', 'l', 's', 'e'] := rfl
    rw [this]; simp [hF]
  have hint : isIntTok (c :: t) = true := by
    unfold isIntTok
    split
    · rename_i t' heq; injection heq with h1; exact absurd h1 hm
    · rename_i t' heq; injection heq with h1; exact absurd h1 hp
    · exact hd
  unfold literalEval
  simp only [hstrip, bne_self_eq_false, Bool.false_eq_true, if_false, e1, e2, e3, hint, if_true]
  have hsplit : splitSign (c :: t) = (false, c :: t) := by
    unfold splitSign
    split
    · rename_i heq; injection heq with h1; exact absurd h1 hm
    · rename_i heq; injection heq with h1; exact absurd h1 hp
    · rfl
  rw [hsplit]
  simp only
  have : ¬ ((c :: t).length > 1 && (c :: t).head? == some '0' && (c :: t).any (· != '0')) = true := by
    intro h
    simp only [Bool.and_eq_true, decide_eq_true_eq, beq_iff_eq] at h
    exact hcanon ⟨h.1.1, h.1.2, h.2⟩
  simp only [this, if_false]
  simp

/-! ### C17, kind by kind -/

theorem digits_trimStable (d : Str) (hd : isDecimal d = true) : TrimStable d := by
  have hall : d.all isAsciiDigit = true := by
    simp only [isDecimal, Bool.and_eq_true] at hd; exact hd.2
  have hmem : ∀ c ∈ d, isAsciiDigit c = true := fun c hc => (List.all_eq_true.mp hall) c hc
  have hkeep : ∀ c, isAsciiDigit c = true → [' ', '\t', '`'].contains c = false := by
    intro c hc
    rcases Decidable.em (c = ' ') with rfl | h1
    · simp [isAsciiDigit] at hc
    rcases Decidable.em (c = '\t') with rfl | h2
    · simp [isAsciiDigit] at hc
    rcases Decidable.em (c = '`') with rfl | h3
    · simp [isAsciiDigit] at hc
    simp [h1, h2, h3]
  refine ⟨fun c hc => hkeep c (hmem c (List.mem_of_mem_head? hc)),
          fun c hc => hkeep c (hmem c (List.mem_of_mem_getLast? hc)), ?_⟩
  unfold endsWith
  cases hr : d.reverse with
  | nil => rfl
  | cons c t =>
    have hc : isAsciiDigit c = true := hmem c (by
      have : c ∈ d.reverse := by rw [hr]; simp
      simpa using this)
    have : c ≠ '.' := by rintro rfl; simp [isAsciiDigit] at hc
    simp [List.isPrefixOf, this]
    intro h; exact absurd h.symm this

/-- a non-negative integer default, no scalar type declared: comes back as the same `int`, doc kept or removed -/
theorem C17_int (p d : Str) (typ : Option Str) (keep : Bool) (hd : isDecimal d = true)
    (ht : ∀ t, typ = some t → simpleTypes.contains t = false)
    (hp : NoOccBefore phrase0 (p ++ announce ++ d) (p.length + 1)) :
    extractDefault (p ++ announce ++ d) typ keep
      = .ok ⟨if keep then p ++ announce ++ d else p, some (.int false d)⟩ := by
  have hdig : d.all isAsciiDigit = true := by
    simp only [isDecimal, Bool.and_eq_true] at hd; exact hd.2
  have hscan := scanDefault_digits d hdig
  have hval : valueStage (trimStage d) typ = .ok (.int false d) := by
    rw [trimStage_stable d (digits_trimStable d hd)]
    exact valueStage_digits_untyped d hd typ ht
  cases keep with
  | true => rw [extract_announced_keep p d typ hp hscan, hval]; rfl
  | false => rw [extract_announced_remove p d typ hp hscan, hval]; rfl

/-- the same with `:type: int` — the typed branch (`literal_eval` + `int()`) -/
theorem C17_int_typed (p d : Str) (keep : Bool) (hd : isDecimal d = true)
    (hcanon : ¬ (d.length > 1 ∧ d.head? = some '0' ∧ d.any (· != '0') = true))
    (hp : NoOccBefore phrase0 (p ++ announce ++ d) (p.length + 1)) :
    extractDefault (p ++ announce ++ d) (some "int".toList) keep
      = .ok ⟨if keep then p ++ announce ++ d else p, some (.int false d)⟩ := by
  have hdig : d.all isAsciiDigit = true := by
    simp only [isDecimal, Bool.and_eq_true] at hd; exact hd.2
  have hscan := scanDefault_digits d hdig
  have hval : valueStage (trimStage d) (some "int".toList) = .ok (.int false d) := by
    rw [trimStage_stable d (digits_trimStable d hd)]
    unfold valueStage
    have hs : simpleTypes.contains "int".toList = true := by decide
    simp only [hs, noneTypes_digits d hd, Bool.not_false, Bool.and_self, if_true, Option.getD_some,
      literalEval_digits d hd hcanon, Res.bind]
    rfl
  cases keep with
  | true => rw [extract_announced_keep p d _ hp hscan, hval]; rfl
  | false => rw [extract_announced_remove p d _ hp hscan, hval]; rfl

/-- closed value texts: booleans and None, any declared type that is not a scalar name -/
theorem C17_true (p : Str) (keep : Bool)
    (hp : NoOccBefore phrase0 (p ++ announce ++ "True".toList) (p.length + 1)) :
    extractDefault (p ++ announce ++ "True".toList) none keep
      = .ok ⟨if keep then p ++ announce ++ "True".toList else p, some (.bool true)⟩ := by
  have hscan : scanDefault "True".toList false = "True".toList := by decide
  have hval : valueStage (trimStage "True".toList) none = .ok (.bool true) := by decide
  cases keep with
  | true => rw [extract_announced_keep p _ none hp hscan, hval]; rfl
  | false => rw [extract_announced_remove p _ none hp hscan, hval]; rfl

theorem C17_false_typed (p : Str) (keep : Bool)
    (hp : NoOccBefore phrase0 (p ++ announce ++ "False".toList) (p.length + 1)) :
    extractDefault (p ++ announce ++ "False".toList) (some "bool".toList) keep
      = .ok ⟨if keep then p ++ announce ++ "False".toList else p, some (.bool false)⟩ := by
  have hscan : scanDefault "False".toList false = "False".toList := by decide
  have hval : valueStage (trimStage "False".toList) (some "bool".toList) = .ok (.bool false) := by decide
  cases keep with
  | true => rw [extract_announced_keep p _ _ hp hscan, hval]; rfl
  | false => rw [extract_announced_remove p _ _ hp hscan, hval]; rfl

/-- D4 as repaired by `fix:` 74e4195: an un-typed negative integer comes back as an `int`
    (before the repair the model, like the code, answered `.float "-2"`; that witness was
    kernel-checked in round 0 and is what made the defect a finding). -/
theorem C17_negint_untyped_witness :
    extractDefault ("size.".toList ++ announce ++ "-2".toList) none true
      = .ok ⟨"size.".toList ++ announce ++ "-2".toList, some (.int true ['2'])⟩ := by decide

theorem scanDefault_negdigits (d : Str) (h : d.all isAsciiDigit = true) :
    scanDefault ('-' :: d) false = '-' :: d := by
  have : '.' ∉ ('-' :: d) := by
    intro hm
    rcases List.mem_cons.mp hm with h1 | h1
    · exact absurd h1 (by decide)
    · have := (List.all_eq_true.mp h) _ h1
      simp [isAsciiDigit] at this
  exact scanDefault_noDot _ this false

theorem negdigits_trimStable (d : Str) (hd : isDecimal d = true) : TrimStable ('-' :: d) := by
  have hs := digits_trimStable d hd
  have hne : d ≠ [] := by
    intro h; subst h; simp [isDecimal] at hd
  refine ⟨?_, ?_, ?_⟩
  · intro c hc
    simp only [List.head?_cons, Option.some.injEq] at hc
    subst hc; decide
  · intro c hc
    rw [List.getLast?_cons_of_ne_nil hne] at hc
    exact hs.lastKeep c hc
  · have hall : d.all isAsciiDigit = true := by
      simp only [isDecimal, Bool.and_eq_true] at hd; exact hd.2
    unfold endsWith
    have e : ('-' :: d).reverse = d.reverse ++ ['-'] := List.reverse_cons
    have e2 : [')', '.'].reverse = ['.', ')'] := rfl
    rw [e, e2]
    cases hr : d.reverse with
    | nil => exact absurd (List.reverse_eq_nil_iff.mp hr) hne
    | cons a t =>
      have ha : isAsciiDigit a = true := (List.all_eq_true.mp hall) a (by
        have : a ∈ d.reverse := by rw [hr]; simp
        simpa using this)
      have : ('.' == a) = false := by
        cases h : ('.' == a) with
        | false => rfl
        | true =>
          have := eq_of_beq h
          subst this
          simp [isAsciiDigit] at ha
      simp [List.isPrefixOf, this]

/-- a negative integer default with no scalar type declared: the same `int` comes back (both modes) -/
theorem C17_negint (p d : Str) (typ : Option Str) (keep : Bool) (hd : isDecimal d = true)
    (ht : ∀ t, typ = some t → simpleTypes.contains t = false)
    (hp : NoOccBefore phrase0 (p ++ announce ++ ('-' :: d)) (p.length + 1)) :
    extractDefault (p ++ announce ++ ('-' :: d)) typ keep
      = .ok ⟨if keep then p ++ announce ++ ('-' :: d) else p, some (.int true d)⟩ := by
  have hdig : d.all isAsciiDigit = true := by
    simp only [isDecimal, Bool.and_eq_true] at hd; exact hd.2
  have hscan := scanDefault_negdigits d hdig
  have hnd : isDecimal ('-' :: d) = false := by simp [isDecimal, isAsciiDigit]
  have hval : valueStage (trimStage ('-' :: d)) typ = .ok (.int true d) := by
    rw [trimStage_stable _ (negdigits_trimStable d hd)]
    unfold valueStage
    cases typ with
    | none => simp [untypedValue, hnd, hd]
    | some t =>
      have := ht t rfl
      simp only [this, Bool.false_and, Bool.false_eq_true, if_false]
      simp [untypedValue, hnd, hd]
  cases keep with
  | true => rw [extract_announced_keep p _ typ hp hscan, hval]; rfl
  | false => rw [extract_announced_remove p _ typ hp hscan, hval]; rfl

/-- …while with `:type: int` it is an int -/
theorem C17_negint_typed :
    extractDefault ("size.".toList ++ announce ++ "-2".toList) (some "int".toList) true
      = .ok ⟨"size.".toList ++ announce ++ "-2".toList, some (.int true ['2'])⟩ := by decide

/-! ### quoted string defaults with `:type: str` -/

structure StrOK (s : Str) : Prop where
  noDot : '.' ∉ s
  noQuote : '"' ∉ s
  noBackslash : '\\' ∉ s
  noNl : '\n' ∉ s

def quoted (s : Str) : Str := '"' :: s ++ ['"']

theorem quoted_getLast (s : Str) : (quoted s).getLast? = some '"' := by
  unfold quoted
  rw [show '"' :: s ++ ['"'] = ('"' :: s) ++ ['"'] from rfl, List.getLast?_append]; rfl

theorem quoted_trimStable (s : Str) : TrimStable (quoted s) := by
  refine ⟨?_, ?_, ?_⟩
  · intro c hc; simp [quoted] at hc; subst hc; decide
  · intro c hc; rw [quoted_getLast] at hc; injection hc with hc; subst hc; decide
  · unfold endsWith quoted
    simp [List.isPrefixOf]

theorem literalEval_quoted (s : Str) (hs : StrOK s) : literalEval (quoted s) = .ok (.str s) := by
  have hstrip : strip [' ', '\t'] (quoted s) = quoted s := by
    apply strip_keep
    · intro c hc; simp [quoted] at hc; subst hc; decide
    · intro c hc; rw [quoted_getLast] at hc; injection hc with hc; subst hc; decide
  have e1 : (quoted s == "None".toList) = false := by
    have : "None".toList = ['N', 'o', 'n', 'e'] := rfl
    rw [this]; simp [quoted]
  have e2 : (quoted s == "True".toList) = false := by
    have : "True".toList = ['T', 'r', 'u', 'e'] := rfl
    rw [this]; simp [quoted]
  have e3 : (quoted s == "False".toList) = false := by
    have : "False".toList = ['F', 'a', 'l', 's', 'e'] := rfl
    rw [this]; simp [quoted]
  have hint : isIntTok (quoted s) = false := by
    simp [isIntTok, quoted, isDecimal, isAsciiDigit]
  have hfl : isFloatTok (quoted s) = false := by
    have hq : isAsciiDigit '"' = false := by decide
    have hds : dropSign (quoted s) = quoted s := by simp [dropSign, quoted]
    unfold isFloatTok
    simp only [hds]
    simp [quoted, List.takeWhile, List.dropWhile, hq]
  have hrev : (s ++ ['"']).reverse = '"' :: s.reverse := by simp
  unfold literalEval
  simp only [hstrip, bne_self_eq_false, Bool.false_eq_true, if_false, e1, e2, e3, hint, hfl]
  have hq : quoted s = '"' :: (s ++ ['"']) := rfl
  rw [hq]
  simp only [beq_self_eq_true, Bool.true_or, if_true, hrev, List.reverse_reverse]
  have c1 : s.contains '"' = false := by simpa using hs.noQuote
  have c2 : s.contains '\\' = false := by simpa using hs.noBackslash
  have c3 : s.contains '\n' = false := by simpa using hs.noNl
  simp only [c1, c2, c3, Bool.not_false, Bool.and_self, if_true]

theorem C17_str_typed (p s : Str) (keep : Bool) (hs : StrOK s)
    (hp : NoOccBefore phrase0 (p ++ announce ++ quoted s) (p.length + 1)) :
    extractDefault (p ++ announce ++ quoted s) (some "str".toList) keep
      = .ok ⟨if keep then p ++ announce ++ quoted s else p, some (.str s)⟩ := by
  have hdot : '.' ∉ quoted s := by
    intro hm
    simp only [quoted, List.mem_cons, List.mem_append, List.mem_nil_iff, or_false] at hm
    rcases hm with (h | h) | h
    · exact absurd h (by decide)
    · exact hs.noDot h
    · exact absurd h (by decide)
  have hscan := scanDefault_noDot (quoted s) hdot false
  have hnn : noneTypes.contains (quoted s) = false := by
    have h1 : "None".toList = ['N', 'o', 'n', 'e'] := rfl
    have h2 : "```(None)```".toList = ['`', '`', '`', '(', 'N', 'o', 'n', 'e', ')', '`', '`', '`'] := rfl
    simp [noneTypes, h1, h2, quoted]
  have hval : valueStage (trimStage (quoted s)) (some "str".toList) = .ok (.str s) := by
    rw [trimStage_stable _ (quoted_trimStable s)]
    unfold valueStage
    have hst : simpleTypes.contains "str".toList = true := by decide
    simp only [hst, hnn, Bool.not_false, Bool.and_self, if_true, Option.getD_some, literalEval_quoted s hs,
      Res.bind]
    rfl
  cases keep with
  | true => rw [extract_announced_keep p _ _ hp hscan, hval]; rfl
  | false => rw [extract_announced_remove p _ _ hp hscan, hval]; rfl

#print axioms C17_str_typed
#print axioms C17_int
#print axioms C17_int_typed
#print axioms C17_negint

end Py
