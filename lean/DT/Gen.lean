import DT.Str
/-! C19: the assembly step of `gen.gen` — the order of the top-level statements of the generated module
    (imports hoisted, `__future__` imports first, everything else in the order it was produced). -/
namespace Py
namespace Gen

inductive GStmt where
  | imp (future : Bool) (text : Str)     -- `import x` / `from x import y`; `future` = from __future__
  | other (name : Option Str) (text : Str)   -- anything else; `name` = the name a def/class statement defines
deriving DecidableEq, Repr

def isFuture : GStmt → Bool | .imp true _ => true | _ => false
def isPlainImp : GStmt → Bool | .imp false _ => true | _ => false
def isOther : GStmt → Bool | .other _ _ => true | _ => false

/-- `sorted(imports, key=is_future, reverse=True) + non-imports` (Python's sort is stable) -/
def hoist (l : List GStmt) : List GStmt := l.filter isFuture ++ l.filter isPlainImp ++ l.filter isOther

def defName : GStmt → Option Str | .other n _ => n | _ => none

/-- the module gen assembles: prepended statements, imports from the named file, one definition per mapping
    entry (named by the template, in mapping order), then `__all__` -/
def genBody (prepend imports : List GStmt) (names : List Str) (tpl : Str → Str) : List GStmt :=
  hoist (prepend ++ imports ++ names.map (fun n => .other (some (tpl n)) []) ++ [.other none ['_', '_', 'a', 'l', 'l', '_', '_']])

theorem filter_other_hoist (l : List GStmt) : (hoist l).filter isOther = l.filter isOther := by
  unfold hoist
  simp only [List.filter_append, List.filter_filter]
  have h1 : l.filter (fun a => isOther a && isFuture a) = [] := by
    apply List.filter_eq_nil_iff.mpr; intro a _; cases a <;> simp [isOther, isFuture]
  have h2 : l.filter (fun a => isOther a && isPlainImp a) = [] := by
    apply List.filter_eq_nil_iff.mpr; intro a _; cases a <;> simp [isOther, isPlainImp]
  have h3 : l.filter (fun a => isOther a && isOther a) = l.filter isOther := by
    congr 1; funext a; simp
  rw [h1, h2, h3]; simp

/-- nothing is lost or duplicated by the hoisting -/
theorem hoist_length (l : List GStmt) : (hoist l).length = l.length := by
  induction l with
  | nil => rfl
  | cons a t ih =>
    unfold hoist at ih ⊢
    cases a with
    | imp f x => cases f <;> simp [List.filter_cons, isFuture, isPlainImp, isOther] at ih ⊢ <;> omega
    | other n x => simp [List.filter_cons, isFuture, isPlainImp, isOther] at ih ⊢; omega

/-- imports come first: the result is a block of imports followed by a block without imports -/
theorem hoist_split (l : List GStmt) :
    ∃ a b, hoist l = a ++ b ∧ (∀ x ∈ a, isOther x = false) ∧ (∀ x ∈ b, isOther x = true) := by
  refine ⟨l.filter isFuture ++ l.filter isPlainImp, l.filter isOther, by simp [hoist], ?_, ?_⟩
  · intro x hx
    simp only [List.mem_append, List.mem_filter] at hx
    rcases hx with ⟨_, h⟩ | ⟨_, h⟩ <;> cases x <;> simp_all [isFuture, isPlainImp, isOther]
  · intro x hx
    exact (List.mem_filter.mp hx).2

/-- **C19**: the generated definitions are exactly one per mapping entry, named by the template, in mapping
    order (provided the prepended text defines nothing itself) -/
theorem genBody_defs (prepend imports : List GStmt) (names : List Str) (tpl : Str → Str)
    (hp : ∀ x ∈ prepend, defName x = none) (hi : ∀ x ∈ imports, isOther x = false) :
    (genBody prepend imports names tpl).filterMap defName = names.map tpl := by
  unfold genBody
  have key : ∀ l : List GStmt, (hoist l).filterMap defName = l.filterMap defName := by
    intro l
    have : ∀ m : List GStmt, m.filterMap defName = (m.filter isOther).filterMap defName := by
      intro m
      induction m with
      | nil => rfl
      | cons a t ih =>
        cases a with
        | imp f x => simp only [List.filterMap_cons, defName, List.filter_cons, isOther, Bool.false_eq_true, if_false]; exact ih
        | other n x =>
          simp only [List.filter_cons, isOther, if_true, List.filterMap_cons]
          cases n <;> simp [defName, ih]
    rw [this (hoist l), filter_other_hoist, ← this l]
  rw [key]
  simp only [List.filterMap_append]
  have h1 : prepend.filterMap defName = [] := by
    apply List.filterMap_eq_nil_iff.mpr; exact hp
  have h2 : imports.filterMap defName = [] := by
    apply List.filterMap_eq_nil_iff.mpr
    intro x hx; have := hi x hx; cases x <;> simp_all [isOther, defName]
  rw [h1, h2]
  have h3 : ∀ ns : List Str, List.filterMap defName (ns.map fun n => GStmt.other (some (tpl n)) []) = ns.map tpl := by
    intro ns
    induction ns with
    | nil => rfl
    | cons n t ih => simp [defName, ih]
  rw [h3]
  simp [defName]

end Gen
end Py
