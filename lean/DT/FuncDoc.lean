import DT.ToDocstring
/-! The docstring half of the function and class kinds, whole descriptions, at statement level:
    `to_docstring` (what the emitter writes) -> `inspect.cleandoc` (what `ast.get_docstring` hands to the parser) ->
    `parse_docstring` (ReST). Composed of models that are each tied to the code; the composition itself is tied by the
    driver operation `func_doc_rt` (the real `emit.function` / `ast.get_docstring` / `parse.docstring`). -/
namespace Py
namespace FuncDoc
open DocScan ToDocstring

/-- number of leading blanks of a line (`len(line) - len(line.lstrip())` on text without tabs) -/
def leading (l : Str) : Nat := (l.takeWhile isPySpace).length

def isBlankLine (l : Str) : Bool := l.all isPySpace

def dropLeadingBlank : List Str → List Str
  | [] => []
  | l :: r => if l.isEmpty then dropLeadingBlank r else l :: r

/-- `inspect.cleandoc(doc)` for text without tabs -/
def cleandoc (doc : Str) : Res Str :=
  if doc.contains '\t' then .unmodelled "tabs (expandtabs)" else
  match splitOnChar '\n' doc with
  | [] => .ok []
  | l0 :: rest =>
    let margins := (rest.filter fun l => !isBlankLine l).map leading
    let rest' := match margins.min? with
      | some m => rest.map fun l => l.drop m
      | none => rest
    let lines := stripLeft (pyWs ++ ['\x1c', '\x1d', '\x1e', '\x1f']) l0 :: rest'
    -- `while lines and not lines[-1]: lines.pop()` / `while lines and not lines[0]: lines.pop(0)`
    let lines := (dropLeadingBlank lines.reverse).reverse
    let lines := dropLeadingBlank lines
    .ok (joinWith ['\n'] lines)

/-- the docstring half of `parse.function(emit.function(ir))`: what `parse.docstring` reads from the docstring the
    function emitter wrote -/
def funcDocRT (ir : IR) (edd : Bool) (level : Nat) (emitTypes emitSepTab : Bool) : Res IR :=
  (toDocstring ir edd level emitTypes emitSepTab).bind fun text =>
  (cleandoc text).bind fun doc =>
  if doc.isEmpty then .unmodelled "no docstring" else
  if !isRestStyle doc then .unmodelled "not read as ReST" else
  parseDocstringRest doc true

end FuncDoc
end Py
