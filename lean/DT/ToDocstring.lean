import DT.DocScan
/-! Statement-level model of `emitter_utils.to_docstring` (ReST, `word_wrap=False`): the docstring the function and
    class emitters put into the definitions they build - header, one block per entry (`_param2docstring_param`:
    `extract_default`, `set_default_doc`, `indent_all_but_first`, `multiline`, `emit_param_str`, the `_joiner`), the
    return block. Tied to the code by the driver operation `to_docstring`. -/
namespace Py
namespace ToDocstring
open DocScan

def tabs (n : Nat) : Str := (List.replicate n tab).flatten

/-- `indent_all_but_first(s, indent_level)` (`wipe_indents=False`) -/
def indentAllButFirstN (level : Nat) (s : Str) : Str :=
  match splitOnChar '\n' (indentLines (tabs level) s) with
  | [] => []
  | l0 :: rest => joinWith ['\n'] (stripLeft pyWs l0 :: rest)

/-- `multiline(s, quote_with=("", ""))`: every line followed by ` \` and a line break, the pieces joined by a tab, the
    end right-stripped of blanks, line breaks and back-slashes -/
def multiline (s : Str) : Str :=
  stripRight [' ', '\n', '\\'] (joinWith tab ((splitLines s).map fun l => l ++ [' ', '\\', '\n']))

/-- `s.replace("\n", "\n" + sep)` -/
def reindent (sep : Str) (s : Str) : Str := joinWith (['\n'] ++ sep) (splitOnChar '\n' s)

/-- `":{key}: {doc}"` / `":{key_typ}: ```{typ}```"` through `indent_all_but_first` (level 1), as `emit_param_str` does
    for the ReST style with one of `emit_doc` / `emit_type` off -/
def keyOf (name : Str) : Str := if name == retName then kReturns else kParam ++ name
def keyTypOf (name : Str) : Str := if name == retName then kRtype else kType ++ name

/-- `_param2docstring_param((name, param))`: the block (`none` = the entry writes nothing) and the entry as the
    function leaves it (it works on the dict it is given: the default read from the prose, the prose with its default
    sentence, a `NoneStr` default rewritten to None all stay - the class emitter builds its attributes from that) -/
def entryBlockP (name : Str) (p : Param) (edd : Bool) (level : Nat) (emitTypes : Bool) : Res (Option Str × Param) :=
  let sepIn := tabs level
  -- `if "doc" in _param: doc, default = extract_default(...); if default is not None: _param["default"] = default`
  let p1 : Res Param := match p.doc with
    | some d => (extractDefault d none edd).bind fun e =>
        .ok (match e.default with | some v => { p with default := some v } | none => p)
    | none => .ok p
  p1.bind fun p1 =>
  let docTruthy := match p1.doc with | some d => !d.isEmpty | none => false
  let first : Res (Option Str × Param) :=
    if docTruthy then
      (setDefaultDoc name p1 edd).bind fun p2 =>
      match p2.doc with
      | none => .raises "KeyError"
      | some sdd =>
        let ml := multiline (indentAllButFirstN (level - 1) sdd)
        let p3 := { p2 with doc := some ml }
        -- `emit_param_str(..., emit_type=False)`
        if ml.isEmpty then .ok (some [], p3) else
        (setDefaultDoc name p3 edd).bind fun p4 =>
        match p4.doc with
        | some d4 => .ok (some (indentAllButFirst ([':'] ++ keyOf name ++ [':', ' '] ++ d4)), p4)
        | none => .raises "KeyError"
    else .ok (none, p1)
  first.bind fun (a, pa) =>
  let b : Option Str := match pa.typ with
    | some t => if t.isEmpty || !emitTypes then none
                else some (indentAllButFirst ([':'] ++ keyTypOf name ++ [':', ' ', '`', '`', '`'] ++ t ++ ['`', '`', '`']))
    | none => none
  -- `_joiner(__param, param_type)`
  match a, b with
  | some a, none => .ok (some (a ++ ['\n'] ++ sepIn), pa)
  | none, _ => .ok (none, pa)
  | some a, some b => .ok (some (reindent sepIn a ++ ['\n'] ++ sepIn ++ reindent sepIn b ++ ['\n'] ++ sepIn), pa)

def entryBlock (name : Str) (p : Param) (edd : Bool) (level : Nat) (emitTypes : Bool) : Res (Option Str) :=
  (entryBlockP name p edd level emitTypes).bind fun x => .ok x.1

/-- the entries as `to_docstring` leaves them -/
def mutatedParams (edd : Bool) (level : Nat) (emitTypes : Bool) : List (Str × Param) → Res (List (Str × Param))
  | [] => .ok []
  | (n, p) :: rest =>
    (entryBlockP n p edd level emitTypes).bind fun x =>
    (mutatedParams edd level emitTypes rest).bind fun r => .ok ((n, x.2) :: r)

def entryBlocks (edd : Bool) (level : Nat) (emitTypes : Bool) : List (Str × Param) → Res (List Str)
  | [] => .ok []
  | (n, p) :: rest =>
    (entryBlock n p edd level emitTypes).bind fun b =>
    (entryBlocks edd level emitTypes rest).bind fun bs =>
    .ok (match b with | some s => if s.isEmpty then bs else s :: bs | none => bs)     -- `filter(None, ...)`

/-- `to_docstring(ir, emit_default_doc, docstring_format="rest", indent_level, emit_types, emit_separating_tab,
    word_wrap=False)` -/
def toDocstring (ir : IR) (edd : Bool) (level : Nat) (emitTypes emitSepTab : Bool) : Res Str :=
  if otherSeparators ir.doc || ir.params.any (fun kp => otherSeparators (kp.2.doc.getD [])) ||
      otherSeparators ((ir.returns.bind (·.doc)).getD []) then .unmodelled "line separators other than \\n" else
  let sep := if emitSepTab then tabs level else []
  let header : Str :=
    if ir.doc.isEmpty then []
    else ['\n'] ++ indentLines sep ir.doc ++
      (if endsWith (stripRight [' ', '\t'] ir.doc) ['\n'] then [] else ['\n']) ++ sep
  (entryBlocks edd level emitTypes ir.params).bind fun blocks =>
  let params : Str :=
    if ir.params.isEmpty then []
    else ['\n'] ++ sep ++ joinWith (['\n'] ++ sep) blocks ++ ['\n'] ++ sep
  let returns : Res Str := match ir.returns with
    | none => .ok []
    | some r =>
      -- (`{"return_type": {}}`: an empty entry writes nothing)
      if r.doc.isNone && r.typ.isNone && r.default.isNone then .ok [] else
      (entryBlock retName r edd level emitTypes).bind fun b =>
      match b with
      | some s => if s.isEmpty then .ok [] else .ok (stripRight pyWs s ++ ['\n'] ++ sep)
      | none => .ok []
  returns.bind fun rs => .ok (header ++ params ++ rs)

end ToDocstring
end Py
