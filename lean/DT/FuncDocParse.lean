import DT.RestRT
/-! The ReST parser on the text `inspect.cleandoc` hands it for a function / class doctrans wrote: the summary, an empty
    line, the entries one empty line apart - NO line break in front, none after the last `:type` line. (The text of
    `RestRT.parse_emitted` is what `emit.docstring` writes: it starts with a line break and ends with two.) -/
namespace Py
namespace FuncDocParse

/-- the `:type` segment of the LAST entry: nothing after the closing back-ticks -/
def typeBody0 (n t : Str) : Str := ' ' :: n ++ ':' :: ' ' :: (bt3 ++ t ++ bt3)

theorem line_type0_eq (n t : Str) :
    tokType ++ typeBody0 n t = tokType ++ (' ' :: n ++ ':' :: (' ' :: (bt3 ++ t ++ bt3))) := by
  simp [typeBody0]

theorem parseStep_type0 (st : ParseSt) (n d t : Str) (hn : NameOK n) (hd : DocOK d) (ht : TypOK t)
    (hcur : st.cur = some (some n, { doc := some d })) :
    parseStepRest true false true st (true, tokType ++ typeBody0 n t) =
      .ok { st with cur := some (some n, { doc := some d, typ := some t }) } := by
  have hsurg := surgery tokType n (' ' :: (bt3 ++ t ++ bt3)) (by simp [tokType]) hn 5 rfl
  simp only at hsurg
  obtain ⟨h1, h2, h3, h4⟩ := hsurg
  have hval : strip pyWs (' ' :: (bt3 ++ t ++ bt3)) = bt3 ++ t ++ bt3 := by
    have := strip_ws_both [' '] [] (bt3 ++ t ++ bt3) ws_space (by intro c hc; simp at hc) (ticks_trimmed t) (by simp [bt3])
    simpa using this
  unfold parseStepRest
  simp only [if_true, not_return_token_type, Bool.false_eq_true, if_false]
  rw [line_type0_eq, h1, h2, h3, h4, hval, hcur]
  simp only [Option.getD_some, typeTok_eq]
  rw [← line_type0_eq]
  have hsame : (some n != some n) = false := by simp
  have hstart : startsWith (tokType ++ typeBody0 n t) tokType = true := type_is_type (typeBody0 n t)
  simp only [Option.isSome_some, Bool.true_and, hsame, Bool.false_and, Bool.false_eq_true, if_false, setParamValue,
    hstart, if_true]
  have hbt : (['`', '`', '`'] : Str) = bt3 := rfl
  rw [hbt, replace_ticks t ht.noTick]
  simp only [ht.noStars, Bool.false_eq_true, if_false]
  rw [interpolate_nodefault _ d hd rfl]
  simp only [Res.bind]
  rw [setNameAndType_plain n d (some t) hn hd (by intro t' ht'; cases ht'; exact ht)]

theorem typeBody0_clean (n t : Str) (hn : NameOK n) (ht : TypOK t) : Clean restTokens (typeBody0 n t) := by
  apply ncl_clean
  have e : typeBody0 n t = (' ' :: n ++ [':']) ++ ' ' :: (['`', '`'] ++ '`' :: (t ++ '`' :: ['`', '`'])) := by
    simp [typeBody0, bt3]
  rw [e]
  apply ncl_append_glue _ _ ' ' (by decide) (by decide) (nameColon_ncl n hn)
  apply ncl_append_glue _ _ '`' (by decide) (by decide) rfl
  exact ncl_append_glue t _ '`' (by decide) (by decide) ht.clean rfl

/-- the summary and the empty line after it -/
def pre0 (D : Str) : Str := D ++ ['\n', '\n']

theorem pre0_clean (D : Str) (hD : ncl D = true) : Clean restTokens (pre0 D) := by
  apply ncl_clean
  have e : pre0 D = D ++ '\n' :: ['\n'] := rfl
  rw [e]
  exact ncl_append_glue D _ '\n' (by decide) (by decide) hD rfl

def lastSegs (l : Triple) : List (Str × Str) := [(tokParam, paramBody l.1 l.2.1), (tokType, typeBody0 l.1 l.2.2)]

/-- the text handed to the parser: entries of `ts` with their usual separators, then the last entry -/
def text0 (D : Str) (ts : List Triple) (l : Triple) : Str := pre0 D ++ segText (segsOf ts ++ lastSegs l)

def lastItems (l : Triple) : List (Bool × Str) :=
  [(true, tokParam ++ paramBody l.1 l.2.1), (true, tokType ++ typeBody0 l.1 l.2.2)]

theorem fold_last (st : ParseSt) (cn : Option Str) (cp : Param) (x : Triple) (hx : TripleOK x)
    (hcur : st.cur = some (cn, cp))
    (hstate : (cn = none ∧ cp = {}) ∨ (∃ m, cn = some m ∧ m ≠ x.1 ∧ m ≠ [] ∧ m.head? ≠ some '*')) :
    foldRes (parseStepRest true false true) st (lastItems x) =
      .ok { st with params := flushInto st.params cn cp, cur := some (some x.1, mkParam x.2.1 x.2.2) } := by
  obtain ⟨hn, hd, ht⟩ := hx
  simp only [lastItems, foldRes]
  rw [parseStep_param st cn cp x.1 x.2.1 hn hd hcur hstate]
  simp only [Res.bind]
  rw [parseStep_type0 _ x.1 x.2.1 x.2.2 hn hd ht rfl]
  simp only [Res.bind, mkParam]

theorem lastSegs_items (l : Triple) : (lastSegs l).map (fun tb => (true, tb.1 ++ tb.2)) = lastItems l := rfl

theorem lastSegs_ok (l : Triple) (hl : TripleOK l) : SegsOK restTokens (lastSegs l) := by
  intro tb htb
  simp only [lastSegs, List.mem_cons, List.mem_nil_iff, or_false] at htb
  rcases htb with h | h
  · subst h; exact ⟨(by decide : tokParam ∈ restTokens), paramBody_clean l.1 l.2.1 hl.1 hl.2.1⟩
  · subst h; exact ⟨(by decide : tokType ∈ restTokens), typeBody0_clean l.1 l.2.2 hl.1 hl.2.2⟩

/-- the final flush and the closing passes, on the state the fold leaves -/
theorem finish (D : Str) (ps : List Triple) (l : Triple) (hok : ∀ x ∈ ps ++ [l], TripleOK x)
    (hnd : ((ps ++ [l]).map (·.1)).Nodup) (st : ParseSt)
    (hst : st = { doc := D, params := ps.map entryOf, returns := none, cur := some (some l.1, mkParam l.2.1 l.2.2) }) :
    ((match st.cur with
      | some (some n, p) =>
        (interpolateDefaults p true).bind fun p1 =>
        (setNameAndType (some n) p1 false true).bind fun (n2, p2) =>
        (Res.ok { st with params := st.params.set n2 p2 } : Res ParseSt)
      | _ => .ok st).bind fun st =>
      (mapParams (fun p => interpolateDefaults p true) st.params).bind fun ps' =>
      (match st.returns with
        | some r => (interpolateDefaults r true).bind fun r' => (Res.ok (some r') : Res (Option Param))
        | none => .ok none).bind fun r => (Res.ok { doc := st.doc, params := ps', returns := r } : Res IR))
      = .ok (mkIR D (ps ++ [l])) := by
  subst hst
  have hl := hok l (by simp)
  simp only
  rw [interpolate_nodefault (mkParam l.2.1 l.2.2) l.2.1 hl.2.1 rfl]
  simp only [Res.bind]
  have hsnt := setNameAndType_plain l.1 l.2.1 (some l.2.2) hl.1 hl.2.1 (by intro t ht; cases ht; exact hl.2.2)
  simp only [mkParam] at hsnt ⊢
  rw [hsnt]
  simp only [Res.bind]
  have hlfresh : l.1 ∉ keys (ps.map entryOf) := by
    simp only [keys, List.map_map]
    have : ((ps.map (·.1)) ++ [l.1]).Nodup := by simpa using hnd
    have := (List.nodup_append.mp this).2.2
    intro hm
    have hm' : l.1 ∈ ps.map (·.1) := by simpa [entryOf, Function.comp] using hm
    exact this l.1 hm' l.1 (by simp) rfl
  have hset := set_fresh (ps.map entryOf) l.1 { doc := some l.2.1, typ := some l.2.2, default := none } hlfresh
  rw [hset]
  have hall : ps.map entryOf ++ [(l.1, ({ doc := some l.2.1, typ := some l.2.2, default := none } : Param))]
      = (ps ++ [l]).map entryOf := by
    simp [entryOf, mkParam]
  rw [hall, mapParams_id (ps ++ [l]) hok]
  simp only [Res.bind, mkIR]

theorem ws_nlnl0 : ∀ c ∈ ['\n', '\n'], pyWs.contains c = true := ws_nlnl

/-- **the ReST parser on the cleaned docstring of a doctrans-written function / class** (default-free domain): it reads
    back the summary and every entry - any number of entries, texts of any length -/
theorem parse_text0 (D : Str) (ts : List Triple) (l : Triple)
    (hDne : D ≠ []) (hDt : Trimmed D) (hDc : ncl D = true)
    (hok : ∀ x ∈ ts ++ [l], TripleOK x) (hnd : ((ts ++ [l]).map (·.1)).Nodup) :
    parseDocstringRest (text0 D ts l) true = .ok (mkIR D (ts ++ [l])) := by
  unfold parseDocstringRest text0
  have hne : (pre0 D ++ segText (segsOf ts ++ lastSegs l)).isEmpty = false := by
    cases D with
    | nil => exact absurd rfl hDne
    | cons _ _ => simp [pre0]
  simp only [hne, Bool.false_eq_true, if_false]
  have hl := hok l (by simp)
  have hokts : ∀ x ∈ ts, TripleOK x := fun x hx => hok x (by simp [hx])
  -- scan
  have hall : SegsOK restTokens (segsOf ts ++ lastSegs l) := by
    intro tb htb
    rcases List.mem_append.mp htb with h | h
    · exact segsOf_ok ts hokts tb h
    · exact lastSegs_ok l hl tb h
  obtain ⟨a, b, hab⟩ : ∃ a b, segsOf ts ++ lastSegs l = a :: b := by
    cases h : segsOf ts ++ lastSegs l with
    | nil => simp [lastSegs] at h
    | cons a b => exact ⟨a, b, rfl⟩
  have hscan := scanRest_spec_cons (pre0 D) a b (pre0_clean D hDc) (hab ▸ hall)
  rw [← hab, List.map_append, segsOf_items, lastSegs_items] at hscan
  rw [hscan]
  -- the summary item
  have hstrip : strip pyWs (pre0 D) = D := by
    have := strip_ws_both [] ['\n', '\n'] D (by intro c hc; simp at hc) ws_nlnl0 hDt hDne
    simpa [pre0] using this
  simp only [foldRes, parseStepRest, Bool.false_eq_true, if_false, List.isEmpty_nil, if_true, hstrip, Res.bind]
  rw [foldRes_append]
  rcases List.eq_nil_or_concat ts with rfl | ⟨init, l0, rfl⟩
  · -- a single entry
    simp only [itemsOf, List.flatMap_nil, foldRes, Res.bind]
    rw [fold_last ({ doc := D } : ParseSt) none {} l hl rfl (Or.inl ⟨rfl, rfl⟩)]
    simp only [Res.bind, flushInto]
    exact finish D [] l (by simpa using hok) (by simpa using hnd) _ rfl
  · -- the entries before the last leave the last of THEM pending; the last entry flushes it
    simp only [List.concat_eq_append] at *
    have hok0 : ∀ x ∈ init ++ [l0], TripleOK x := by
      intro x hx
      apply hok x
      simp only [List.mem_append, List.mem_cons, List.mem_nil_iff, or_false] at hx ⊢
      rcases hx with h | h
      · exact Or.inl (Or.inl h)
      · exact Or.inl (Or.inr h)
    have hnd_all : (((init ++ [l0]) ++ [l]).map (·.1)).Nodup := by simpa using hnd
    have hnd0 : ((init ++ [l0]).map (·.1)).Nodup := by
      rw [List.map_append] at hnd_all; exact (List.nodup_append.mp hnd_all).1
    have hfold := fold_items init l0 ({ doc := D } : ParseSt) none {} hok0 hnd0 rfl (Or.inl ⟨rfl, rfl⟩)
      (by intro x _; simp [flushInto, keys])
    rw [hfold]
    simp only [Res.bind, flushInto, List.nil_append]
    have hl0 := hok0 l0 (by simp)
    have hne01 : l0.1 ≠ l.1 := by
      rw [List.map_append] at hnd_all
      have hd := (List.nodup_append.mp hnd_all).2.2
      intro e
      exact hd l0.1 (by simp) l.1 (by simp) e
    rw [fold_last _ (some l0.1) (mkParam l0.2.1 l0.2.2) l hl rfl (Or.inr ⟨l0.1, rfl, hne01, hl0.1.ne, hl0.1.noStar⟩)]
    simp only [Res.bind, flushInto]
    have hfresh : l0.1 ∉ keys (init.map entryOf) := by
      simp only [keys, List.map_map]
      have : ((init.map (·.1)) ++ [l0.1]).Nodup := by simpa using hnd0
      have hd := (List.nodup_append.mp this).2.2
      intro hm
      have hm' : l0.1 ∈ init.map (·.1) := by simpa [entryOf, Function.comp] using hm
      exact hd l0.1 hm' l0.1 (by simp) rfl
    have hset : ODict.set (init.map entryOf) l0.1 (mkParam l0.2.1 l0.2.2) = (init ++ [l0]).map entryOf := by
      rw [set_fresh _ _ _ hfresh]; simp [entryOf]
    rw [hset]
    exact finish D (init ++ [l0]) l (by simpa using hok) (by simpa using hnd) _ rfl

end FuncDocParse
end Py
