import DT.DocScan
/-! What the numpydoc / google line grouping guarantees: on a section none of whose lines is dedented below the
    first line's indentation, every line ends up in exactly one unit, in order. -/
namespace Py
namespace DocScan
open DocEmit

theorem scanLoop_flatten (style : Style) (lines : List Str) (fi : Nat) :
    ∀ (fuel lineNo : Nat) (lp : Loop),
      lines.length ≤ lineNo + fuel →
      (∀ l ∈ lines.drop lineNo, fi ≤ lws l) →
      (lp.stacker ≠ [] ∨ ∀ l, lines[lineNo]? = some l → lws l = fi) →
      ∃ lp', scanLoop style lines fi fuel lineNo lp = .ok lp' ∧
        lp'.stacker.flatten = lp.stacker.flatten ++ lines.drop lineNo ∧ lp'.sc = lp.sc ∧ lp'.broke = lp.broke
  | 0, lineNo, lp, hlen, _, _ => by
    have : lines.drop lineNo = [] := List.drop_eq_nil_of_le (by omega)
    exact ⟨lp, rfl, by simp [this], rfl, rfl⟩
  | fuel + 1, lineNo, lp, hlen, hind, hst => by
    unfold scanLoop
    cases hl : lines[lineNo]? with
    | none =>
      have : lines.drop lineNo = [] := by
        apply List.drop_eq_nil_of_le
        exact List.getElem?_eq_none_iff.mp hl
      exact ⟨lp, rfl, by simp [this], rfl, rfl⟩
    | some line =>
      have hlt : lineNo < lines.length := by
        rcases List.getElem?_eq_some_iff.mp hl with ⟨h, _⟩; exact h
      have hdrop : lines.drop lineNo = line :: lines.drop (lineNo + 1) := by
        rw [List.drop_eq_getElem_cons hlt]
        congr 1
        rcases List.getElem?_eq_some_iff.mp hl with ⟨_, h2⟩; exact h2
      have hge : fi ≤ lws line := hind line (by rw [hdrop]; simp)
      have hind' : ∀ l ∈ lines.drop (lineNo + 1), fi ≤ lws l := by
        intro l hl'; exact hind l (by rw [hdrop]; simp [hl'])
      simp only
      by_cases heq : lws line = fi
      · have hb : (lws line == fi) = true := by simp [heq]
        simp only [hb, if_true]
        obtain ⟨lp', h1, h2, h3, h4⟩ := scanLoop_flatten style lines fi fuel (lineNo + 1)
          { lp with stacker := lp.stacker ++ [[line]] } (by omega) hind' (Or.inl (by simp))
        exact ⟨lp', h1, by rw [h2, hdrop]; simp, h3, h4⟩
      · have hb : (lws line == fi) = false := by simp [heq]
        have hnlt : ¬ (lws line < fi) := by omega
        simp only [hb, Bool.false_eq_true, if_false, hnlt]
        have hne : lp.stacker ≠ [] := by
          rcases hst with h | h
          · exact h
          · exact absurd (h line hl) heq
        obtain ⟨last, hlast⟩ : ∃ last, lp.stacker.getLast? = some last := by
          cases hs : lp.stacker.getLast? with
          | none => exact absurd (List.getLast?_eq_none_iff.mp hs) hne
          | some x => exact ⟨x, rfl⟩
        rw [hlast]
        simp only
        obtain ⟨lp', h1, h2, h3, h4⟩ := scanLoop_flatten style lines fi fuel (lineNo + 1)
          { lp with stacker := lp.stacker.dropLast ++ [last ++ [line]] } (by omega) hind' (Or.inl (by simp))
        refine ⟨lp', h1, ?_, h3, h4⟩
        rw [h2, hdrop]
        have hsplit : lp.stacker = lp.stacker.dropLast ++ [last] := by
          have h1 := (List.dropLast_concat_getLast hne).symm
          have h2 : lp.stacker.getLast hne = last := by
            have := List.getLast?_eq_some_getLast hne
            rw [hlast] at this
            exact (Option.some.inj this).symm
          rw [h2] at h1
          exact h1
        conv => rhs; rw [hsplit]
        simp

/-- **no line of a section is dropped, duplicated or reordered by the grouping** -/
theorem scanLoop_keeps_lines (style : Style) (l0 : Str) (rest : List Str)
    (h : ∀ l ∈ rest, lws l0 ≤ lws l) (sc : Scanned) (ns : Bool) :
    ∃ lp', scanLoop style (l0 :: rest) (lws l0) ((l0 :: rest).length + 1) 0 { sc := sc, nsArgs := ns } = .ok lp' ∧
      lp'.stacker.flatten = l0 :: rest ∧ lp'.broke = false := by
  obtain ⟨lp', h1, h2, _, h4⟩ := scanLoop_flatten style (l0 :: rest) (lws l0) ((l0 :: rest).length + 1) 0
    { sc := sc, nsArgs := ns } (by simp) (by
      intro l hl
      simp only [List.drop_zero, List.mem_cons] at hl
      rcases hl with rfl | hl
      · exact Nat.le_refl _
      · exact h l hl) (Or.inr (by intro l hl; simp at hl; rw [← hl]))
  exact ⟨lp', h1, by simpa using h2, h4⟩

end DocScan
end Py
