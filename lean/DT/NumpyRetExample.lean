import DT.NumpyRet
import DT.NumpyRTExample
/-! non-vacuity: the two-parameter description of `RestRTExample`, with the second triple reused as the return entry,
    satisfies every hypothesis of `C01_numpydoc_return_partial`. -/
namespace Py
namespace NumpyRT
open DocEmit DocParse

example : ((emitDocstring .numpydoc (mkIRr exD [exA, exB] exB.2.1 exB.2.2) true).bind fun text => parseDocstring .numpydoc text true)
    = .ok (mkIRr exD [exA, exB] exB.2.1 exB.2.2) :=
  C01_numpydoc_return_partial exD [exA, exB] exB.2.1 exB.2.2 (by simp)
    (by intro x hx; simp at hx; rcases hx with rfl | rfl; exact exA_ok'; exact exB_ok')
    (by intro x hx; simp at hx; rcases hx with rfl | rfl <;> exact margin_dec _ (by decide))
    (by intro x hx; simp at hx; rcases hx with rfl | rfl <;> exact trimmed_dec _ (by decide) (by decide))
    (by intro x hx; simp at hx; rcases hx with rfl | rfl <;> decide)
    exB_ok'.2.1 exB_ok'.2.2 (margin_dec _ (by decide))
    (by decide) (trimmed_dec _ (by decide) (by decide)) (by decide) (by decide +kernel) (by decide) true true

#eval (emitDocstring .numpydoc (mkIRr exD [exA, exB] exB.2.1 exB.2.2) true) |> fun r => match r with | .ok t => String.ofList t | _ => "?"
end NumpyRT
end Py
