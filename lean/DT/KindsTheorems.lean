import DT.Kinds
/-! Theorems about the interface-level normal forms (C02, C03, C04, C05, C08). -/
namespace Py
namespace Kinds

/-! ### what a conversion may do to one entry -/

/-- prose and type unchanged; an explicit (non-None) default unchanged -/
def Pres (p q : Param) : Prop :=
  q.doc = p.doc ∧ q.typ = p.typ ∧ ∀ v, p.default = some v → isNoneVal v = false → q.default = some v

theorem Pres.refl (p : Param) : Pres p p := ⟨rfl, rfl, fun _ h _ => h⟩

theorem Pres.trans {p q r : Param} (h1 : Pres p q) (h2 : Pres q r) : Pres p r :=
  ⟨h2.1.trans h1.1, h2.2.1.trans h1.2.1, fun v hv hn => h2.2.2 v (h1.2.2 v hv hn) hn⟩

theorem classFill_doc (p : Param) : (classFill p).doc = p.doc := by
  unfold classFill; cases p.typ <;> rfl
theorem classFill_typ (p : Param) : (classFill p).typ = p.typ := by
  unfold classFill; cases h : p.typ <;> simp
theorem argFill_doc (t : Str) (p : Param) : (argFill t p).doc = p.doc := by
  unfold argFill; split
  · rfl
  · split
    · rfl
    · split <;> rfl
theorem argFill_typ (t : Str) (p : Param) : (argFill t p).typ = p.typ := by
  unfold argFill; split
  · rfl
  · split
    · rfl
    · split <;> rfl

/-- a function that leaves an entry alone unless its default is absent or none-like, and then only
    touches the default, preserves the entry -/
theorem pres_of_fill (f : Param → Param) (p : Param) (hd : (f p).doc = p.doc) (ht : (f p).typ = p.typ) :
    Pres p (match p.default with | some v => if isNoneVal v then f p else p | none => f p) := by
  cases h : p.default with
  | none => exact ⟨hd, ht, fun v hv _ => by rw [h] at hv; cases hv⟩
  | some v =>
    by_cases hn : isNoneVal v = true
    · simp only [hn, if_true]
      refine ⟨hd, ht, fun w hw hwn => ?_⟩
      rw [h] at hw
      cases hw; rw [hn] at hwn; cases hwn
    · simp only [hn, Bool.false_eq_true, if_false]
      exact ⟨rfl, rfl, fun w hw _ => hw⟩

theorem pres_class (p : Param) : Pres p (normClassParam p) :=
  pres_of_fill classFill p (classFill_doc p) (classFill_typ p)

theorem pres_func (p : Param) : Pres p (normFuncParam p) :=
  pres_of_fill (fun q => { q with default := some vNoneStr }) p rfl rfl

theorem pres_argparse (p : Param) : Pres p (normArgparseParam p) := by
  unfold normArgparseParam
  cases ht : p.typ with
  | none => exact Pres.refl p
  | some t => exact pres_of_fill (argFill t) p (argFill_doc t p) (argFill_typ t p)

theorem pres_doc (st : DocStyle) (n : Str) (p : Param) : Pres p (normDocEntry st n p) := by
  unfold normDocEntry
  cases hd : p.default with
  | none =>
    simp only
    split
    · exact ⟨rfl, rfl, fun v hv _ => by simp [hd] at hv⟩
    · exact Pres.refl p
  | some v =>
    by_cases hn : isNoneVal v = true
    · simp only [hn, if_true]
      refine ⟨rfl, rfl, fun w hw hwn => ?_⟩
      rw [hd] at hw; cases hw; rw [hn] at hwn; cases hwn
    · simp only [hn, Bool.false_eq_true, if_false]
      exact ⟨rfl, rfl, fun w hw _ => hw⟩

/-! ### lists of entries: same names in the same order, each entry preserved -/

def PresList : ODict Param → ODict Param → Prop
  | [], [] => True
  | (k, p) :: r, (k', p') :: r' => k = k' ∧ Pres p p' ∧ PresList r r'
  | _, _ => False

theorem PresList.refl : ∀ l, PresList l l
  | [] => trivial
  | (_, p) :: r => ⟨rfl, Pres.refl p, PresList.refl r⟩

theorem PresList.trans : ∀ {a b c : ODict Param}, PresList a b → PresList b c → PresList a c
  | [], [], [], _, _ => trivial
  | (_, _) :: _, (_, _) :: _, (_, _) :: _, h1, h2 =>
    ⟨h1.1.trans h2.1, h1.2.1.trans h2.2.1, PresList.trans h1.2.2 h2.2.2⟩
  | [], [], _ :: _, _, h2 => h2.elim
  | [], _ :: _, _, h1, _ => h1.elim
  | _ :: _, [], _, h1, _ => h1.elim
  | (_, _) :: _, (_, _) :: _, [], _, h2 => h2.elim

theorem PresList.keys : ∀ {a b : ODict Param}, PresList a b → a.map (·.1) = b.map (·.1)
  | [], [], _ => rfl
  | (k, _) :: r, (k', _) :: r', h => by
    simp only [List.map_cons, h.1, PresList.keys h.2.2]
  | [], _ :: _, h => h.elim
  | _ :: _, [], h => h.elim

theorem presList_mapKey (f : Str → Param → Param) (hf : ∀ n p, Pres p (f n p)) :
    ∀ l : ODict Param, PresList l (l.map fun kp => (kp.1, f kp.1 kp.2))
  | [] => trivial
  | (k, p) :: r => ⟨rfl, hf k p, presList_mapKey f hf r⟩

theorem presList_map (f : Param → Param) (hf : ∀ p, Pres p (f p)) : ∀ l, PresList l (mapParams f l)
  | [] => trivial
  | (k, p) :: r => ⟨rfl, hf p, presList_map f hf r⟩

/-! ### whole descriptions -/

/-- same summary; same parameter names in the same order; prose, type and explicit default of every
    parameter kept; the return entry kept in the same sense, or lost — never invented -/
structure PresIR (a b : IR) : Prop where
  doc : b.doc = a.doc
  params : PresList a.params b.params
  returns : b.returns = none ∨ ∃ r r', a.returns = some r ∧ b.returns = some r' ∧ Pres r r'

theorem PresIR.refl (a : IR) : PresIR a a :=
  ⟨rfl, PresList.refl _, by cases h : a.returns with
    | none => exact Or.inl rfl
    | some r => exact Or.inr ⟨r, r, rfl, rfl, Pres.refl r⟩⟩

theorem PresIR.trans {a b c : IR} (h1 : PresIR a b) (h2 : PresIR b c) : PresIR a c := by
  refine ⟨h2.doc.trans h1.doc, PresList.trans h1.params h2.params, ?_⟩
  rcases h2.returns with h | ⟨r, r', hb, hc, hp⟩
  · exact Or.inl h
  · rcases h1.returns with h | ⟨q, q', ha, hb', hp'⟩
    · rw [h] at hb; cases hb
    · rw [hb'] at hb; cases hb
      exact Or.inr ⟨q, r', ha, hc, hp'.trans hp⟩

/-- **C02 / C03 / C04 at interface level**: one conversion keeps names, order, prose, types and
    explicit defaults; it only fills absent defaults (the documented normalisation) and, for argparse,
    may drop a return entry that carries no default. -/
theorem norm_pres (k : Kind) (ir : IR) : PresIR ir (norm k ir) := by
  cases k with
  | cls =>
    refine ⟨rfl, presList_map _ pres_class _, ?_⟩
    simp only [norm]
    cases h : ir.returns with
    | none => exact Or.inl rfl
    | some r => exact Or.inr ⟨r, normClassParam r, rfl, rfl, pres_class r⟩
  | func i =>
    refine ⟨rfl, presList_map _ pres_func _, ?_⟩
    simp only [norm]
    cases h : ir.returns with
    | none => exact Or.inl rfl
    | some r => exact Or.inr ⟨r, r, rfl, rfl, Pres.refl r⟩
  | argparse =>
    refine ⟨rfl, presList_map _ pres_argparse _, ?_⟩
    simp only [norm]
    cases h : ir.returns with
    | none => exact Or.inl rfl
    | some r =>
      by_cases hd : r.default.isSome = true
      · simp only [hd, if_true]; exact Or.inr ⟨r, r, rfl, rfl, Pres.refl r⟩
      · simp only [hd, Bool.false_eq_true, if_false]; exact Or.inl trivial
  | doc st =>
    refine ⟨rfl, presList_mapKey _ (pres_doc st) _, ?_⟩
    simp only [norm]
    cases h : ir.returns with
    | none => exact Or.inl rfl
    | some r => exact Or.inr ⟨r, normDocEntry .rest [] r, rfl, rfl, pres_doc .rest [] r⟩

/-- **C05**: a chain of conversions of ANY length through ANY kinds preserves the interface in the
    sense of `PresIR` (names, order, prose, types, explicit defaults; nothing invented or swapped
    between parameters — `PresList` relates the entry at position i only to the entry at position i). -/
theorem chain_pres : ∀ (ks : List Kind) (ir : IR), PresIR ir (ks.foldl (fun a k => norm k a) ir)
  | [], ir => PresIR.refl ir
  | k :: ks, ir => by
    simp only [List.foldl_cons]
    exact (norm_pres k ir).trans (chain_pres ks (norm k ir))

/-- the executable chain (with its domain checks) is the fold of the norms, so `chain_pres` applies -/
theorem chain_eq_fold : ∀ (ks : List Kind) (ir out : IR), chain ks ir = some out →
    out = ks.foldl (fun a k => norm k a) ir
  | [], ir, out, h => by simp [chain] at h; exact h.symm
  | k :: ks, ir, out, h => by
    simp only [chain] at h
    split at h
    · simp only [List.foldl_cons]; exact chain_eq_fold ks _ out h
    · cases h

theorem chain_ok_pres (ks : List Kind) (ir out : IR) (h : chain ks ir = some out) : PresIR ir out := by
  rw [chain_eq_fold ks ir out h]; exact chain_pres ks ir

theorem chain_names (ks : List Kind) (ir : IR) :
    (ks.foldl (fun a k => norm k a) ir).params.map (·.1) = ir.params.map (·.1) :=
  (PresList.keys (chain_pres ks ir).params).symm

/-! ### C08: one normalising pass -/

theorem isNoneVal_zeroOf (t : Str) : isNoneVal (zeroOf t) = false := by
  unfold zeroOf
  split
  · rfl
  · split
    · rfl
    · split
      · rfl
      · decide

theorem isNoneVal_vNoneStr : isNoneVal vNoneStr = true := by decide

theorem classFill_idem (p : Param) : classFill (classFill p) = classFill p := by
  unfold classFill
  cases h : p.typ with
  | none => rfl
  | some t => simp

theorem normClassParam_fill (p : Param) : normClassParam (classFill p) = classFill p := by
  cases ht : p.typ with
  | none =>
    have hd : (classFill p).default = some vNoneStr := by unfold classFill; rw [ht]
    unfold normClassParam; rw [hd]
    simp only [isNoneVal_vNoneStr, if_true]
    exact classFill_idem p
  | some t =>
    by_cases hs : isScalar t = true
    · have hd : (classFill p).default = some (zeroOf t) := by unfold classFill; rw [ht]; simp [hs]
      unfold normClassParam; rw [hd]
      simp only [isNoneVal_zeroOf, Bool.false_eq_true, if_false]
    · have hd : (classFill p).default = some vNoneStr := by unfold classFill; rw [ht]; simp [hs]
      unfold normClassParam; rw [hd]
      simp only [isNoneVal_vNoneStr, if_true]
      exact classFill_idem p

theorem normClassParam_idem (p : Param) : normClassParam (normClassParam p) = normClassParam p := by
  cases hd : p.default with
  | none =>
    have : normClassParam p = classFill p := by unfold normClassParam; rw [hd]
    rw [this]; exact normClassParam_fill p
  | some v =>
    by_cases hn : isNoneVal v = true
    · have : normClassParam p = classFill p := by unfold normClassParam; rw [hd]; simp [hn]
      rw [this]; exact normClassParam_fill p
    · have : normClassParam p = p := by unfold normClassParam; rw [hd]; simp [hn]
      rw [this, this]

theorem normFuncParam_idem (p : Param) : normFuncParam (normFuncParam p) = normFuncParam p := by
  cases hd : p.default with
  | none =>
    have : normFuncParam p = { p with default := some vNoneStr } := by unfold normFuncParam; rw [hd]
    rw [this]; unfold normFuncParam; simp [isNoneVal_vNoneStr]
  | some v =>
    by_cases hn : isNoneVal v = true
    · have : normFuncParam p = { p with default := some vNoneStr } := by
        unfold normFuncParam; rw [hd]; simp [hn]
      rw [this]; unfold normFuncParam; simp [isNoneVal_vNoneStr]
    · have : normFuncParam p = p := by unfold normFuncParam; rw [hd]; simp [hn]
      rw [this, this]

theorem mapParams_idem (f : Param → Param) (hf : ∀ p, f (f p) = f p) (l : ODict Param) :
    mapParams f (mapParams f l) = mapParams f l := by
  unfold mapParams
  simp only [List.map_map]
  apply List.map_congr_left
  intro kp _
  simp [hf]

theorem norm_cls_idem (ir : IR) : norm .cls (norm .cls ir) = norm .cls ir := by
  simp only [norm, mapParams_idem _ normClassParam_idem]
  cases ir.returns <;> simp [normClassParam_idem]

theorem norm_func_idem (i : Bool) (ir : IR) : norm (.func i) (norm (.func i) ir) = norm (.func i) ir := by
  simp only [norm, mapParams_idem _ normFuncParam_idem]

/-! #### argparse and docstring kinds -/

theorem argFill_default_typ (t : Str) (p q : Param) (hd : q.doc = p.doc) (ht : q.typ = p.typ) :
    argFill t q = argFill t p := by
  unfold argFill
  cases p; cases q
  simp only at hd ht
  subst hd; subst ht
  split
  · rfl
  · split
    · rfl
    · split <;> rfl

theorem argFill_idem (t : Str) (p : Param) : argFill t (argFill t p) = argFill t p :=
  argFill_default_typ t p (argFill t p) (argFill_doc t p) (argFill_typ t p)

/-- the default `argFill` writes is none-like only in its last case, where a second pass writes it again -/
theorem normArgparseParam_fill (t : Str) (p : Param) (ht : p.typ = some t) :
    normArgparseParam (argFill t p) = argFill t p := by
  have htt : (argFill t p).typ = some t := by rw [argFill_typ, ht]
  unfold normArgparseParam
  rw [htt]
  cases hd : (argFill t p).default with
  | none => exact argFill_idem t p
  | some v =>
    by_cases hn : isNoneVal v = true
    · simp only [hn, if_true]; exact argFill_idem t p
    · simp [hn]

theorem normArgparseParam_idem (p : Param) :
    normArgparseParam (normArgparseParam p) = normArgparseParam p := by
  cases ht : p.typ with
  | none =>
    have : normArgparseParam p = p := by unfold normArgparseParam; rw [ht]
    rw [this, this]
  | some t =>
    cases hd : p.default with
    | none =>
      have : normArgparseParam p = argFill t p := by unfold normArgparseParam; rw [ht, hd]
      rw [this]; exact normArgparseParam_fill t p ht
    | some v =>
      by_cases hn : isNoneVal v = true
      · have : normArgparseParam p = argFill t p := by unfold normArgparseParam; rw [ht, hd]; simp [hn]
        rw [this]; exact normArgparseParam_fill t p ht
      · have : normArgparseParam p = p := by unfold normArgparseParam; rw [ht, hd]; simp [hn]
        rw [this, this]

theorem isNoneVal_sNone : isNoneVal (.str sNone) = true := by decide

theorem normDocEntry_idem (st : DocStyle) (n : Str) (p : Param) :
    normDocEntry st n (normDocEntry st n p) = normDocEntry st n p := by
  cases hd : p.default with
  | none =>
    by_cases hk : kwargsName n = true
    · have : normDocEntry st n p = { p with default := some vNoneStr } := by
        unfold normDocEntry; simp [hd, hk]
      rw [this]; unfold normDocEntry; simp [isNoneVal_vNoneStr, hk]
    · have : normDocEntry st n p = p := by unfold normDocEntry; simp [hd, hk]
      rw [this, this]
  | some v =>
    by_cases hn : isNoneVal v = true
    · by_cases hk : kwargsName n = true
      · have : normDocEntry st n p = { p with default := some vNoneStr } := by
          unfold normDocEntry; simp [hd, hn, hk]
        rw [this]; unfold normDocEntry; simp [isNoneVal_vNoneStr, hk]
      · cases st with
        | rest =>
          have : normDocEntry .rest n p = { p with default := some (.str sNone) } := by
            unfold normDocEntry; simp [hd, hn, hk]
          rw [this]; unfold normDocEntry; simp [isNoneVal_sNone, hk]
        | numpydoc =>
          have : normDocEntry .numpydoc n p = { p with default := some vNoneStr } := by
            unfold normDocEntry; simp [hd, hn, hk]
          rw [this]; unfold normDocEntry; simp [isNoneVal_vNoneStr, hk]
        | google =>
          have : normDocEntry .google n p = { p with default := some vNoneStr } := by
            unfold normDocEntry; simp [hd, hn, hk]
          rw [this]; unfold normDocEntry; simp [isNoneVal_vNoneStr, hk]
    · have : normDocEntry st n p = p := by unfold normDocEntry; simp [hd, hn]
      rw [this, this]

theorem norm_argparse_idem (ir : IR) : norm .argparse (norm .argparse ir) = norm .argparse ir := by
  simp only [norm, mapParams_idem _ normArgparseParam_idem]
  cases hr : ir.returns with
  | none => rfl
  | some r => by_cases h : r.default.isSome = true <;> simp [h]

theorem norm_doc_idem (st : DocStyle) (ir : IR) : norm (.doc st) (norm (.doc st) ir) = norm (.doc st) ir := by
  simp only [norm, List.map_map]
  congr 1
  · apply List.map_congr_left
    intro kp _
    simp [normDocEntry_idem]
  · cases ir.returns <;> simp [normDocEntry_idem]

/-- **C08 in the model, every kind**: a second conversion through the same kind changes nothing -/
theorem norm_idem (k : Kind) (ir : IR) : norm k (norm k ir) = norm k ir := by
  cases k with
  | cls => exact norm_cls_idem ir
  | func i => exact norm_func_idem i ir
  | argparse => exact norm_argparse_idem ir
  | doc st => exact norm_doc_idem st ir

/-- … and any number of further conversions through the same kind: the chain `k, k, …, k` (n+1 times),
    when it stays inside the kind's domain, ends where the first conversion ended -/
theorem chain_replicate_idem (k : Kind) : ∀ (n : Nat) (ir out : IR),
    chain (List.replicate (n + 1) k) ir = some out → out = norm k ir
  | 0, ir, out, h => by
    simp only [List.replicate, chain] at h
    by_cases hd : dom k ir = true
    · simp [hd] at h; exact h.symm
    · simp [hd] at h
  | n + 1, ir, out, h => by
    rw [List.replicate_succ] at h
    simp only [chain] at h
    by_cases hd : dom k ir = true
    · simp only [hd, if_true] at h
      have := chain_replicate_idem k n (norm k ir) out h
      rw [this, norm_idem]
    · simp [hd] at h

end Kinds
end Py

namespace Py
namespace Kinds

/-! ### entries are converted independently (what the per-entry correspondence of C02–C05 rests on) -/

/-- what kind `k` does to one entry -/
def entryFn (k : Kind) (n : Str) (p : Param) : Param :=
  match k with
  | .cls => normClassParam p
  | .func _ => normFuncParam p
  | .argparse => normArgparseParam p
  | .doc st => normDocEntry st n p

/-- the description that holds one parameter only -/
def single (n : Str) (p : Param) : IR := { doc := [], params := [(n, p)], returns := none }

theorem norm_params (k : Kind) (ir : IR) :
    (norm k ir).params = ir.params.map (fun kp => (kp.1, entryFn k kp.1 kp.2)) := by
  cases k <;> simp [norm, mapParams, entryFn]

theorem norm_single (k : Kind) (n : Str) (p : Param) : norm k (single n p) = single n (entryFn k n p) := by
  cases k <;> simp [norm, mapParams, entryFn, single]

theorem noUndefaulted_single (n : Str) (p : Param) : noUndefaultedAfterDefaulted [(n, p)] false = true := by
  unfold noUndefaultedAfterDefaulted
  by_cases h : p.default.isSome = true
  · simp [h, noUndefaultedAfterDefaulted]
  · simp [h, noUndefaultedAfterDefaulted]

/-- an entry of a description inside a kind's domain is, taken alone, inside that domain -/
theorem dom_single (k : Kind) (ir : IR) (n : Str) (p : Param) (h : dom k ir = true) (hm : (n, p) ∈ ir.params) :
    dom k (single n p) = true := by
  cases k with
  | cls =>
    simp only [dom, Bool.and_eq_true, List.all_eq_true] at h
    have := h.1 (n, p) hm
    simp [dom, single, this]
  | func i =>
    simp only [dom, Bool.and_eq_true, List.all_eq_true] at h
    have := h.1 (n, p) hm
    simp [dom, single, this]
  | argparse =>
    simp only [dom, Bool.and_eq_true, List.all_eq_true] at h
    have := h.1 (n, p) hm
    simp [dom, single, this]
  | doc st =>
    simp only [dom, Bool.and_eq_true, List.all_eq_true] at h
    have := h.1.1 (n, p) hm
    cases st <;> simp [dom, single, this, noUndefaulted_single]

/-- **entry-wise chains**: when a whole description goes through a chain of kinds inside their domains, every
    one of its entries, taken alone, goes through the same chain inside the domains, and comes out as the entry the
    whole result has under that name -/
theorem chain_single : ∀ (ks : List Kind) (ir out : IR), chain ks ir = some out →
    ∀ n p, (n, p) ∈ ir.params → ∃ p', chain ks (single n p) = some (single n p') ∧ (n, p') ∈ out.params
  | [], ir, out, h, n, p, hm => by
    simp only [chain, Option.some.injEq] at h
    subst h
    exact ⟨p, rfl, hm⟩
  | k :: ks, ir, out, h, n, p, hm => by
    simp only [chain] at h
    by_cases hd : dom k ir = true
    · simp only [hd, if_true] at h
      have hm' : (n, entryFn k n p) ∈ (norm k ir).params := by
        rw [norm_params]
        exact List.mem_map.mpr ⟨(n, p), hm, rfl⟩
      obtain ⟨p', hc, ho⟩ := chain_single ks (norm k ir) out h n (entryFn k n p) hm'
      refine ⟨p', ?_, ho⟩
      simp only [chain, dom_single k ir n p hd hm, if_true, norm_single]
      exact hc
    · simp [hd] at h

end Kinds
end Py
