import DT.Kinds
/-! Theorems about the interface-level normal forms (C02, C03, C04, C05, C08). -/
namespace Py
namespace Kinds

/-! ### what a conversion may do to one entry -/

/-- prose and type unchanged; an explicit (non-None) default unchanged -/
def Pres (p q : Param) : Prop :=
  q.doc = p.doc ∧ q.typ = p.typ ∧ ∀ v, p.default = some v → isNoneVal v = false → q.default = some v

theorem Pres.refl (p : Param) : Pres p p := ⟨rfl, rfl, fun _ h _ => h⟩

theorem Pres.trans {p q r : Param} (h1 : Pres p q) (h2 : Pres q r) : Pres p r :=
  ⟨h2.1.trans h1.1, h2.2.1.trans h1.2.1, fun v hv hn => h2.2.2 v (h1.2.2 v hv hn) hn⟩

theorem pres_class (p : Param) : Pres p (normClassParam p) := by
  unfold normClassParam
  cases hd : p.default with
  | none =>
    cases ht : p.typ <;> exact ⟨rfl, by simp [ht], fun v hv _ => by simp [hd] at hv⟩
  | some v =>
    by_cases hn : isNoneVal v = true
    · simp only [hn, if_true]
      refine ⟨rfl, rfl, fun w hw hwn => ?_⟩
      rw [hd] at hw; cases hw; rw [hn] at hwn; cases hwn
    · simp only [hn, Bool.false_eq_true, if_false]
      exact ⟨rfl, rfl, fun w hw _ => hw⟩

theorem pres_func (p : Param) : Pres p (normFuncParam p) := by
  unfold normFuncParam
  cases hd : p.default with
  | none => exact ⟨rfl, rfl, fun v hv _ => by simp [hd] at hv⟩
  | some v =>
    by_cases hn : isNoneVal v = true
    · simp only [hn, if_true]
      refine ⟨rfl, rfl, fun w hw hwn => ?_⟩
      rw [hd] at hw; cases hw; rw [hn] at hwn; cases hwn
    · simp only [hn, Bool.false_eq_true, if_false]
      exact ⟨rfl, rfl, fun w hw _ => hw⟩

theorem pres_argparse (p : Param) : Pres p (normArgparseParam p) := by
  unfold normArgparseParam
  cases ht : p.typ with
  | none => exact Pres.refl p
  | some t =>
    cases hd : p.default with
    | none =>
      simp only
      refine ⟨?_, ?_, fun v hv _ => by simp [hd] at hv⟩ <;>
        (split <;> (try rfl) <;> (try simp [ht]) <;> (split <;> (try rfl) <;> (try simp [ht]) <;> (split <;> simp [ht])))
    | some v =>
      simp only
      by_cases hn : isNoneVal v = true
      · simp only [hn, if_true]
        refine ⟨?_, ?_, fun w hw hwn => ?_⟩
        · split <;> rfl
        · split <;> simp [ht]
        · rw [hd] at hw; cases hw; rw [hn] at hwn; cases hwn
      · simp only [hn, Bool.false_eq_true, if_false]
        exact ⟨rfl, ht.symm ▸ rfl, fun w hw _ => by rw [hd] at hw ⊢; exact hw⟩

/-! ### lists of entries: same names in the same order, each entry preserved -/

def PresList : ODict Param → ODict Param → Prop
  | [], [] => True
  | (k, p) :: r, (k', p') :: r' => k = k' ∧ Pres p p' ∧ PresList r r'
  | _, _ => False

theorem PresList.refl : ∀ l, PresList l l
  | [] => trivial
  | (_, p) :: r => ⟨rfl, Pres.refl p, PresList.refl r⟩

theorem PresList.trans : ∀ {a b c : ODict Param}, PresList a b → PresList b c → PresList a c
  | [], [], [], _, _ => trivial
  | (_, _) :: _, (_, _) :: _, (_, _) :: _, h1, h2 =>
    ⟨h1.1.trans h2.1, h1.2.1.trans h2.2.1, PresList.trans h1.2.2 h2.2.2⟩
  | [], [], _ :: _, _, h2 => h2.elim
  | [], _ :: _, _, h1, _ => h1.elim
  | _ :: _, [], _, h1, _ => h1.elim
  | (_, _) :: _, (_, _) :: _, [], _, h2 => h2.elim

theorem PresList.keys : ∀ {a b : ODict Param}, PresList a b → a.map (·.1) = b.map (·.1)
  | [], [], _ => rfl
  | (k, _) :: r, (k', _) :: r', h => by
    simp only [List.map_cons, h.1, PresList.keys h.2.2]
  | [], _ :: _, h => h.elim
  | _ :: _, [], h => h.elim

theorem presList_map (f : Param → Param) (hf : ∀ p, Pres p (f p)) : ∀ l, PresList l (mapParams f l)
  | [] => trivial
  | (k, p) :: r => ⟨rfl, hf p, presList_map f hf r⟩

/-! ### whole descriptions -/

/-- same summary; same parameter names in the same order; prose, type and explicit default of every
    parameter kept; the return entry kept in the same sense, or lost — never invented -/
structure PresIR (a b : IR) : Prop where
  doc : b.doc = a.doc
  params : PresList a.params b.params
  returns : b.returns = none ∨ ∃ r r', a.returns = some r ∧ b.returns = some r' ∧ Pres r r'

theorem PresIR.refl (a : IR) : PresIR a a :=
  ⟨rfl, PresList.refl _, by cases h : a.returns with
    | none => exact Or.inl rfl
    | some r => exact Or.inr ⟨r, r, rfl, rfl, Pres.refl r⟩⟩

theorem PresIR.trans {a b c : IR} (h1 : PresIR a b) (h2 : PresIR b c) : PresIR a c := by
  refine ⟨h2.doc.trans h1.doc, PresList.trans h1.params h2.params, ?_⟩
  rcases h2.returns with h | ⟨r, r', hb, hc, hp⟩
  · exact Or.inl h
  · rcases h1.returns with h | ⟨q, q', ha, hb', hp'⟩
    · rw [h] at hb; cases hb
    · rw [hb'] at hb; cases hb
      exact Or.inr ⟨q, r', ha, hc, hp'.trans hp⟩

/-- **C02 / C03 / C04 at interface level**: one conversion keeps names, order, prose, types and
    explicit defaults; it only fills absent defaults (the documented normalisation) and, for argparse,
    may drop a return entry that carries no default. -/
theorem norm_pres (k : Kind) (ir : IR) : PresIR ir (norm k ir) := by
  cases k with
  | cls =>
    refine ⟨rfl, presList_map _ pres_class _, ?_⟩
    simp only [norm]
    cases h : ir.returns with
    | none => exact Or.inl rfl
    | some r => exact Or.inr ⟨r, normClassParam r, rfl, rfl, pres_class r⟩
  | func i =>
    refine ⟨rfl, presList_map _ pres_func _, ?_⟩
    simp only [norm]
    cases h : ir.returns with
    | none => exact Or.inl rfl
    | some r => exact Or.inr ⟨r, r, rfl, rfl, Pres.refl r⟩
  | argparse =>
    refine ⟨rfl, presList_map _ pres_argparse _, ?_⟩
    simp only [norm]
    cases h : ir.returns with
    | none => exact Or.inl rfl
    | some r =>
      by_cases hd : r.default.isSome = true
      · simp only [hd, if_true]; exact Or.inr ⟨r, r, rfl, rfl, Pres.refl r⟩
      · simp only [hd, Bool.false_eq_true, if_false]; exact Or.inl trivial

/-- **C05**: a chain of conversions of ANY length through ANY kinds preserves the interface in the
    sense of `PresIR` (names, order, prose, types, explicit defaults; nothing invented or swapped
    between parameters — `PresList` relates the entry at position i only to the entry at position i). -/
theorem chain_pres : ∀ (ks : List Kind) (ir : IR), PresIR ir (ks.foldl (fun a k => norm k a) ir)
  | [], ir => PresIR.refl ir
  | k :: ks, ir => by
    simp only [List.foldl_cons]
    exact (norm_pres k ir).trans (chain_pres ks (norm k ir))

theorem chain_names (ks : List Kind) (ir : IR) :
    (ks.foldl (fun a k => norm k a) ir).params.map (·.1) = ir.params.map (·.1) :=
  (PresList.keys (chain_pres ks ir).params).symm

/-! ### C08: one normalising pass -/

theorem normClassParam_idem (p : Param) : normClassParam (normClassParam p) = normClassParam p := by
  unfold normClassParam
  cases hd : p.default with
  | none => cases ht : p.typ <;> simp [isNoneVal, zeroOf] <;> (repeat' split) <;> simp_all [isNoneVal]
  | some v => cases v <;> simp [isNoneVal, hd]

theorem normFuncParam_idem (p : Param) : normFuncParam (normFuncParam p) = normFuncParam p := by
  unfold normFuncParam
  cases hd : p.default with
  | none => simp [isNoneVal]
  | some v => cases v <;> simp [isNoneVal, hd]

theorem mapParams_idem (f : Param → Param) (hf : ∀ p, f (f p) = f p) (l : ODict Param) :
    mapParams f (mapParams f l) = mapParams f l := by
  unfold mapParams
  simp only [List.map_map]
  apply List.map_congr_left
  intro kp _
  simp [hf]

theorem norm_cls_idem (ir : IR) : norm .cls (norm .cls ir) = norm .cls ir := by
  simp only [norm, mapParams_idem _ normClassParam_idem]
  cases ir.returns <;> simp [normClassParam_idem]

theorem norm_func_idem (i : Bool) (ir : IR) : norm (.func i) (norm (.func i) ir) = norm (.func i) ir := by
  simp only [norm, mapParams_idem _ normFuncParam_idem]

end Kinds
end Py
