import DT.RestRet
import DT.RestRTExample
/-! non-vacuity: the two-parameter description of `RestRTExample`, with the second triple reused as the return entry,
    satisfies every hypothesis of `C01_rest_return_partial`. -/
namespace Py

example : ((emitDocstringRest (mkIRr exD ([exA] ++ [exB]) exB.2.1 exB.2.2) true).bind fun text => parseDocstringRest text true)
    = .ok (mkIRr exD ([exA] ++ [exB]) exB.2.1 exB.2.2) :=
  C01_rest_return_partial exD [exA] exB exB.2.1 exB.2.2 (by decide) (trimmed_dec _ (by decide) (by decide)) (by decide)
    (by intro x hx; simp at hx; rcases hx with rfl | rfl; exact exA_ok; exact exB_ok) (by decide)
    exB_ok.2.1 exB_ok.2.2

#eval (emitDocstringRest (mkIRr exD ([exA] ++ [exB]) exB.2.1 exB.2.2) true) |> fun r => match r with | .ok t => String.ofList t | _ => "?"
end Py
