import DT.Find
/-! Soundness of `find_in_ast`: a returned node carries the searched location, or is named by a segment of it. -/
namespace PyAst

instance : LawfulBEq Atom where
  eq_of_beq := by
    intro a b h
    cases a <;> cases b <;> simp [BEq.beq, instBEqAtom.beq] at h <;> simp [h]
  rfl := by intro a; cases a <;> simp [BEq.beq, instBEqAtom.beq]

/-- the node is "named" `q`: a definition called `q`, an argument `q`, or an annotated assignment to `q` -/
def NamedBy (n : Node) (q : Atom) : Prop :=
  (n.hasName = true ∧ n.name = q) ∨ n.atomField "arg" = some q ∨
  ((n.nodeField "target").bind (·.atomField "id")) = some q

/-- what a successful lookup may return -/
def Sound (search : List Atom) : Found → Prop
  | .node n => n.loc = some search ∨ ∃ q ∈ search, NamedBy n q
  | _ => True

theorem setDflt_atomField (a : Node) (d : Item) (k : String) : (a.setDflt d).atomField k = a.atomField k := by
  cases a; rfl

theorem find?_zipIdx_arg (args : List Node) (q : Atom) (a : Node) (i : Nat)
    (h : (args.zipIdx).find? (fun (x : Node × Nat) => x.1.atomField "arg" == some q) = some (a, i)) :
    a.atomField "arg" = some q := by
  have := List.find?_some h
  simpa using this

mutual
  theorem whileT_sound (search : List Atom) : ∀ (fuel : Nat) (childNode : Node) (cursor : Sum (List Item) Node)
      (cs : List Atom), (∀ q ∈ cs, q ∈ search) → Sound search (whileT search fuel childNode cursor cs)
    | 0, _, _, _, _ => by unfold whileT; trivial
    | fuel + 1, childNode, cursor, cs, hcs => by
      unfold whileT
      cases cs with
      | nil => trivial
      | cons query cs =>
        simp only
        have hq : query ∈ search := hcs query (by simp)
        have hcs' : ∀ q ∈ cs, q ∈ search := fun q h => hcs q (by simp [h])
        split
        · rename_i hc
          simp only [Bool.and_eq_true, beq_iff_eq] at hc
          exact Or.inr ⟨query, hq, Or.inl ⟨hc.1.2, hc.2⟩⟩
        · cases cursor with
          | inr _ => trivial
          | inl items => exact forT_sound search fuel items childNode (.inl items) query cs hq hcs'
  theorem forT_sound (search : List Atom) : ∀ (fuel : Nat) (items : List Item) (childNode : Node)
      (cursor : Sum (List Item) Node) (query : Atom) (cs : List Atom),
      query ∈ search → (∀ q ∈ cs, q ∈ search) → Sound search (forT search fuel items childNode cursor query cs)
    | 0, _, _, _, _, _, _, _ => by unfold forT; trivial
    | fuel + 1, items, childNode, cursor, query, cs, hq, hcs => by
      unfold forT
      cases items with
      | nil => exact whileT_sound search fuel childNode cursor cs hcs
      | cons it rest =>
        cases it with
        | atom _ => trivial
        | node ch =>
          simp only
          split
          · rename_i hloc
            exact Or.inl (by simpa using hloc)
          · split
            · -- FunctionDef: the next segment addresses an argument
              cases cs with
              | nil =>
                simp only
                split
                · rename_i a i hfind
                  have harg := find?_zipIdx_arg _ _ a i hfind
                  simp only [List.isEmpty_nil, if_true]
                  refine Or.inr ⟨query, hq, Or.inr (Or.inl ?_)⟩
                  split
                  · split
                    · rw [setDflt_atomField]; exact harg
                    · exact harg
                  · exact harg
                · exact forT_sound search fuel rest ch cursor query [] hq (by intro x hx; simp at hx)
              | cons q cs' =>
                simp only
                have hq' : q ∈ search := hcs q (by simp)
                have hcs'' : ∀ x ∈ cs', x ∈ search := fun x hx => hcs x (by simp [hx])
                split
                · rename_i a i hfind
                  have harg := find?_zipIdx_arg _ _ a i hfind
                  split
                  · refine Or.inr ⟨q, hq', Or.inr (Or.inl ?_)⟩
                    split
                    · split
                      · rw [setDflt_atomField]; exact harg
                      · exact harg
                    · exact harg
                  · exact forT_sound search fuel rest ch _ q cs' hq' hcs''
                · exact forT_sound search fuel rest ch cursor q cs' hq' hcs''
            · split
              · rename_i hann
                simp only [Bool.and_eq_true, beq_iff_eq] at hann
                exact Or.inr ⟨query, hq, Or.inr (Or.inr hann.2)⟩
              · split
                · cases hb : bodyOf ch with
                  | none => simp only; trivial
                  | some b => simp only; exact whileT_sound search fuel ch (.inl b) cs hcs
                · exact forT_sound search fuel rest ch cursor query cs hq hcs
end

/-- what the top-level call may return -/
def SoundTop (search : List Atom) : Found → Prop
  | .node n => search = [] ∨ n.loc = some search ∨ ∃ q ∈ search, NamedBy n q
  | _ => True

theorem Sound.toTop {search : List Atom} : ∀ {r : Found}, Sound search r → SoundTop search r
  | .node _, h => Or.inr h
  | .none, _ => trivial
  | .raises _, _ => trivial

/-- **whatever `find_in_ast` returns carries the searched location or is named by one of its segments** -/
theorem find_sound (fuel : Nat) (search : List Atom) (node : Node) : SoundTop search (findTotal fuel search node) := by
  unfold findTotal
  by_cases h : (search.isEmpty || node.loc == some search) = true
  · simp only [h, if_true]
    simp only [Bool.or_eq_true, List.isEmpty_iff, beq_iff_eq] at h
    rcases h with h | h
    · exact Or.inl h
    · exact Or.inr (Or.inl h)
  · simp only [h, Bool.false_eq_true, if_false]
    cases hb : bodyOf node with
    | none => trivial
    | some body0 => exact (whileT_sound search fuel node (.inl body0) search (fun q h => h)).toTop

end PyAst
