import DT.Rest
/-! Impl = Spec for the ReST scanner: on a text `pre ++ t₁ ++ b₁ ++ … ++ tₙ ++ bₙ` whose pieces contain no
    token, `_scan_phase_rest` returns `(False, pre), (True, t₁ ++ b₁), …`. Generic in the token list. -/
namespace Py

/-! ### generic fold lemmas -/

theorem foldl_if_none {α β} (p : β → Bool) (f : α → β → α) (a : α) (l : List β)
    (h : ∀ x ∈ l, p x = false) :
    l.foldl (fun acc x => if p x then f acc x else acc) a = a := by
  induction l generalizing a with
  | nil => rfl
  | cons x xs ih =>
    have hx := h x (by simp)
    simp only [List.foldl_cons, hx, Bool.false_eq_true, if_false]
    exact ih a (fun y hy => h y (by simp [hy]))

theorem foldl_if_single {α β} (p : β → Bool) (f : α → β → α) (a : α) (l1 l2 : List β) (t : β)
    (h1 : ∀ x ∈ l1, p x = false) (ht : p t = true) (h2 : ∀ x ∈ l2, p x = false) :
    (l1 ++ t :: l2).foldl (fun acc x => if p x then f acc x else acc) a = f a t := by
  rw [List.foldl_append, foldl_if_none p f a l1 h1]
  simp only [List.foldl_cons, ht, if_true]
  exact foldl_if_none p f _ l2 h2

/-! ### `matchesTok` is "is a suffix" -/

theorem matchesTok_iff (s tok : Str) : matchesTok s tok = true ↔ tok <:+ s := by
  unfold matchesTok
  rw [beq_iff_eq]
  constructor
  · intro h
    have : tok.reverse <+: s.reverse := by
      rw [List.prefix_iff_eq_take, List.length_reverse]; exact h.symm
    exact List.reverse_prefix.mp this
  · intro h
    have : tok.reverse <+: s.reverse := List.reverse_prefix.mpr h
    rw [List.prefix_iff_eq_take, List.length_reverse] at this
    exact this.symm

theorem matchesTok_false_iff (s tok : Str) : matchesTok s tok = false ↔ ¬ tok <:+ s := by
  rw [← matchesTok_iff]; cases matchesTok s tok <;> simp

/-! ### well-formed token sets -/

structure TokOK (toks : List Str) : Prop where
  /-- every token is `':' :: r` with `r` colon-free and non-empty -/
  shape : ∀ t ∈ toks, ∃ r, t = ':' :: r ∧ ':' ∉ r ∧ r ≠ []
  /-- no token is a proper prefix of another -/
  prefixFree : ∀ t ∈ toks, ∀ u ∈ toks, t <+: u → t = u
  nodup : toks.Nodup

theorem restTokens_ok : TokOK restTokens := by
  refine ⟨?_, ?_, by decide⟩
  · intro t ht
    simp only [restTokens, List.mem_cons, List.mem_nil_iff, or_false] at ht
    rcases ht with rfl | rfl | rfl | rfl | rfl | rfl | rfl <;> exact ⟨_, rfl, by decide, by decide⟩
  · intro t ht u hu
    simp only [restTokens, List.mem_cons, List.mem_nil_iff, or_false] at ht hu
    rcases ht with rfl | rfl | rfl | rfl | rfl | rfl | rfl <;>
      rcases hu with rfl | rfl | rfl | rfl | rfl | rfl | rfl <;>
      first | (intro _; rfl) | (intro h; exact absurd h (by decide))

/-- no token occurs anywhere inside `b` -/
def Clean (toks : List Str) (b : Str) : Prop := ∀ t ∈ toks, ¬ t <:+: b

/-! ### a token that is a suffix of `tok ++ b` (b clean) is `tok` itself with `b = []` -/

theorem suffix_of_token_body {toks : List Str} (ok : TokOK toks) {t u b : Str}
    (ht : t ∈ toks) (hu : u ∈ toks) (hb : Clean toks b) (h : u <:+ t ++ b) : b = [] ∧ u = t := by
  -- either `u` is a suffix of `b` (impossible unless …) or `b` is a suffix of `u`
  rcases List.suffix_or_suffix_of_suffix h (List.suffix_append t b) with hub | hbu
  · -- `u <:+ b` contradicts cleanliness
    exact absurd hub.isInfix (hb u hu)
  · -- `b <:+ u`: write `u = a ++ b`; then `a <:+ t` and `a` starts with ':' (or is empty)
    obtain ⟨a, ha⟩ := hbu
    have hat : a <:+ t := by
      have : a ++ b <:+ t ++ b := by rw [ha]; exact h
      exact List.suffix_append_self_iff.mp this
    obtain ⟨ru, hu_eq, hu_col, hu_ne⟩ := ok.shape u hu
    obtain ⟨rt, ht_eq, ht_col, _⟩ := ok.shape t ht
    cases a with
    | nil =>
      -- then `u = b`, so `u` occurs in `b`
      simp only [List.nil_append] at ha
      exact absurd (by rw [ha]; exact List.infix_refl u) (hb u hu)
    | cons c a' =>
      -- `c = ':'` and `c :: a'` is a suffix of `':' :: rt`; a proper suffix would put ':' inside `rt`
      have hc : c = ':' := by
        have : (c :: a' ++ b).head? = u.head? := by rw [ha]
        rw [hu_eq] at this; simpa using this
      subst hc
      rw [ht_eq] at hat
      rcases List.suffix_cons_iff.mp hat with heq | hsuf
      · -- `a = t`: then `t <+: u`, so `t = u`, so `b = []`
        have hta : (':' :: a') = t := by rw [ht_eq]; exact heq
        have hpre : t <+: u := ⟨b, by rw [← hta]; exact ha⟩
        have htu := ok.prefixFree t ht u hu hpre
        refine ⟨?_, htu.symm⟩
        have : t ++ b = t ++ [] := by rw [List.append_nil, ← hta]; rw [← hta] at htu; rw [ha]; exact htu.symm
        exact List.append_cancel_left this
      · -- ':' ∈ rt, contradiction
        have : ':' ∈ rt := hsuf.subset (by simp)
        exact absurd this ht_col

/-- same, for the text before the first token (no token on the stack yet) -/
theorem suffix_of_clean {toks : List Str} {u b : Str} (hu : u ∈ toks) (hb : Clean toks b) : ¬ u <:+ b :=
  fun h => hb u hu h.isInfix

/-! ### single steps -/

theorem scanStep_quiet (toks : List Str) (sc : List (Bool × Str)) (s : Str) (c : Char)
    (h : ∀ u ∈ toks, ¬ u <:+ s ++ [c]) :
    scanStepG toks ⟨sc, s⟩ c = ⟨sc, s ++ [c]⟩ := by
  unfold scanStepG
  exact foldl_if_none (fun tok => matchesTok (s ++ [c]) tok) cutAt _ toks
    (fun u hu => (matchesTok_false_iff _ _).mpr (h u hu))

theorem cutAt_token (sc : List (Bool × Str)) (s t : Str) :
    cutAt ⟨sc, s ++ t⟩ t = ⟨sc ++ [(!sc.isEmpty, s)], t⟩ := by
  unfold cutAt
  simp only [List.length_append, Nat.add_sub_cancel, List.take_left', List.drop_left',
    List.take_length]

theorem scanStep_cut {toks : List Str} (ok : TokOK toks) (sc : List (Bool × Str)) (s' s t : Str) (c : Char)
    (ht : t ∈ toks) (heq : s' ++ [c] = s ++ t) (honly : ∀ u ∈ toks, u <:+ s ++ t → u = t) :
    scanStepG toks ⟨sc, s'⟩ c = ⟨sc ++ [(!sc.isEmpty, s)], t⟩ := by
  obtain ⟨l1, l2, hsplit⟩ := List.append_of_mem ht
  have hnd := ok.nodup
  rw [hsplit] at hnd
  have hn1 : t ∉ l1 := by
    intro hm
    have := List.nodup_append.mp hnd
    exact this.2.2 t hm t (by simp) rfl
  have hn2 : t ∉ l2 := by
    have := (List.nodup_append.mp hnd).2.1
    exact (List.nodup_cons.mp this).1
  unfold scanStepG
  simp only
  rw [hsplit, heq]
  have := foldl_if_single (fun tok => matchesTok (s ++ t) tok) cutAt (⟨sc, s ++ t⟩ : ScanSt) l1 l2 t
    (fun x hx => by
      apply (matchesTok_false_iff _ _).mpr
      intro hsuf
      have hxt := honly x (by rw [hsplit]; simp [hx]) hsuf
      exact hn1 (hxt ▸ hx))
    ((matchesTok_iff _ _).mpr (List.suffix_append s t))
    (fun x hx => by
      apply (matchesTok_false_iff _ _).mpr
      intro hsuf
      have hxt := honly x (by rw [hsplit]; simp [hx]) hsuf
      exact hn2 (hxt ▸ hx))
  rw [this, cutAt_token]

/-! ### runs -/

/-- a stretch of characters during which no token ever becomes a suffix of the stack -/
theorem run_quiet (toks : List Str) (sc : List (Bool × Str)) (w s : Str)
    (h : ∀ k, 1 ≤ k → k ≤ w.length → ∀ u ∈ toks, ¬ u <:+ s ++ w.take k) :
    w.foldl (scanStepG toks) ⟨sc, s⟩ = ⟨sc, s ++ w⟩ := by
  induction w generalizing s with
  | nil => simp
  | cons c w ih =>
    have h1 := h 1 (by omega) (by simp)
    simp only [List.take_succ_cons, List.take_zero] at h1
    rw [List.foldl_cons, scanStep_quiet toks sc s c h1]
    have := ih (s ++ [c]) (fun k hk1 hk2 u hu => by
      have := h (k + 1) (by omega) (by simp; omega) u hu
      simpa [List.take_succ_cons, List.append_assoc] using this)
    rw [this]; simp

/-- colon facts: a token that is a suffix of `s ++ p`, `p` a non-empty prefix of a token `t'`, starts at `p`'s colon -/
theorem suffix_into_token {toks : List Str} (ok : TokOK toks) {u t' p s : Str}
    (hu : u ∈ toks) (ht' : t' ∈ toks) (hp : p <+: t') (hpne : p ≠ []) (h : u <:+ s ++ p) : u = p := by
  obtain ⟨ru, hu_eq, hu_col, _⟩ := ok.shape u hu
  obtain ⟨rt, ht_eq, ht_col, _⟩ := ok.shape t' ht'
  -- p = ':' :: p' with p' colon-free
  obtain ⟨q, hq⟩ := hp
  cases p with
  | nil => exact absurd rfl hpne
  | cons c p' =>
    have hc : c = ':' := by
      have : (c :: p' ++ q).head? = t'.head? := by rw [hq]
      rw [ht_eq] at this; simpa using this
    subst hc
    have hp'col : ':' ∉ p' := by
      intro hm
      have : ':' ∈ rt := by
        have : p' ++ q = rt := by
          have := hq; rw [ht_eq] at this; simpa using this
        rw [← this]; simp [hm]
      exact ht_col this
    rcases List.suffix_or_suffix_of_suffix h (List.suffix_append s (':' :: p')) with hup | hpu
    · rcases List.suffix_cons_iff.mp hup with heq | hsuf
      · exact heq
      · have : ':' ∈ p' := hsuf.subset (by rw [hu_eq]; simp)
        exact absurd this hp'col
    · obtain ⟨a, ha⟩ := hpu
      cases a with
      | nil => simpa using ha.symm
      | cons d a' =>
        -- then ':' occurs inside `ru`
        have : ':' ∈ ru := by
          have h2 : d :: (a' ++ ':' :: p') = ':' :: ru := by rw [← hu_eq, ← ha]; simp
          have h3 : a' ++ ':' :: p' = ru := by injection h2
          rw [← h3]; simp
        exact absurd this hu_col

/-! ### one segment, then all of them -/

/-- stacks that can occur between tokens: the text before the first token, or `token ++ clean text` -/
inductive StackOK (toks : List Str) : Str → Prop where
  | pre (s : Str) (h : Clean toks s) : StackOK toks s
  | seg (t b : Str) (ht : t ∈ toks) (hb : Clean toks b) : StackOK toks (t ++ b)

theorem Clean.take {toks : List Str} {b : Str} (h : Clean toks b) (k : Nat) : Clean toks (b.take k) :=
  fun t ht hin => h t ht (hin.trans (List.take_prefix k b).isInfix)

/-- while a clean text `w` is appended to an OK stack, no token becomes a suffix -/
theorem quiet_body {toks : List Str} (ok : TokOK toks) {t b : Str} (ht : t ∈ toks) (hb : Clean toks b)
    (k : Nat) (hk1 : 1 ≤ k) (hk2 : k ≤ b.length) : ∀ u ∈ toks, ¬ u <:+ t ++ b.take k := by
  intro u hu hsuf
  have := (suffix_of_token_body ok ht hu (hb.take k) hsuf).1
  have hl : (b.take k).length = k := by simp; omega
  rw [this] at hl; simp at hl; omega

/-- processing `t ++ b` (token, then clean body) from an OK stack `s` closes `s` as one scanned item -/
theorem run_segment {toks : List Str} (ok : TokOK toks) (sc : List (Bool × Str)) {s t b : Str}
    (ht : t ∈ toks) (hb : Clean toks b) :
    (t ++ b).foldl (scanStepG toks) ⟨sc, s⟩ = ⟨sc ++ [(!sc.isEmpty, s)], t ++ b⟩ := by
  obtain ⟨r, ht_eq, _, hr_ne⟩ := ok.shape t ht
  -- split the token into its proper prefix `p` and last character `c`
  have htne : t ≠ [] := by rw [ht_eq]; simp
  obtain ⟨p, c, hpc⟩ : ∃ p c, t = p ++ [c] := ⟨t.dropLast, t.getLast htne, (List.dropLast_concat_getLast htne).symm⟩
  have hpne : p ≠ [] := by
    intro hp; rw [hp] at hpc; rw [ht_eq] at hpc
    simp at hpc; exact hr_ne hpc.2
  have hplt : p.length < t.length := by rw [hpc]; simp
  rw [List.foldl_append, hpc, List.foldl_append]
  -- (1) the proper prefixes of the token: quiet
  have h1 := run_quiet toks sc p s (fun k hk1 hk2 u hu hsuf => by
    have hpk : p.take k <+: t := by
      rw [hpc]; exact (List.take_prefix k p).trans (List.prefix_append p [c])
    have hne : p.take k ≠ [] := by
      intro h0
      have : (p.take k).length = k := by simp; omega
      rw [h0] at this; simp at this; omega
    have heq := suffix_into_token ok hu ht hpk hne hsuf
    -- then `u` is a proper prefix of `t`
    have : u = t := ok.prefixFree u hu t ht (heq ▸ hpk)
    have hl : (p.take k).length ≤ p.length := by
      rw [List.length_take]; exact Nat.min_le_right k p.length
    rw [← heq, this] at hl; omega)
  rw [h1]
  -- (2) the last character of the token: exactly one match
  simp only [List.foldl_cons, List.foldl_nil]
  have h2 := scanStep_cut ok sc (s ++ p) s (p ++ [c]) c (hpc ▸ ht) (by simp)
    (fun u hu hsuf => by
      have hne : (p ++ [c]) ≠ [] := by simp
      exact suffix_into_token ok hu (hpc ▸ ht) (List.prefix_refl _) hne hsuf)
  rw [h2]
  -- (3) the body: quiet
  have h3 := run_quiet toks (sc ++ [(!sc.isEmpty, s)]) b (p ++ [c]) (fun k hk1 hk2 u hu => by
    rw [← hpc]; exact quiet_body ok ht hb k hk1 hk2 u hu)
  rw [h3]

def segText (segs : List (Str × Str)) : Str := (segs.map fun tb => tb.1 ++ tb.2).flatten

def SegsOK (toks : List Str) (segs : List (Str × Str)) : Prop := ∀ tb ∈ segs, tb.1 ∈ toks ∧ Clean toks tb.2

/-- the whole fold: every segment after the first closes its predecessor with flag `True` -/
theorem run_segments {toks : List Str} (ok : TokOK toks) (segs : List (Str × Str)) (hs : SegsOK toks segs)
    (sc : List (Bool × Str)) (s : Str) (t b : Str) (ht : t ∈ toks) (hb : Clean toks b) :
    (segText ((t, b) :: segs)).foldl (scanStepG toks) ⟨sc, s⟩ =
      ⟨sc ++ (!sc.isEmpty, s) :: ((t, b) :: segs).dropLast.map (fun tb => (true, tb.1 ++ tb.2)),
       (((t, b) :: segs).getLast (by simp)).1 ++ (((t, b) :: segs).getLast (by simp)).2⟩ := by
  induction segs generalizing sc s t b with
  | nil =>
    simp only [segText, List.map_cons, List.map_nil, List.flatten_cons, List.flatten_nil, List.append_nil,
      List.dropLast_singleton, List.getLast_singleton]
    rw [run_segment ok sc ht hb]
  | cons tb rest ih =>
    have htb := hs tb (by simp)
    have hrest : SegsOK toks rest := fun x hx => hs x (by simp [hx])
    have : segText ((t, b) :: tb :: rest) = (t ++ b) ++ segText (tb :: rest) := by
      simp [segText]
    rw [this, List.foldl_append, run_segment ok sc ht hb]
    have := ih hrest (sc ++ [(!sc.isEmpty, s)]) (t ++ b) tb.1 tb.2 htb.1 htb.2
    rw [this]
    simp

/-! ### the statement about `_scan_phase_rest` itself -/

theorem any_startsWith_of_mem {t b : Str} (ht : t ∈ restTokens) :
    restTokens.any (fun u => startsWith (t ++ b) u) = true := by
  rw [List.any_eq_true]
  exact ⟨t, ht, by unfold startsWith; exact List.isPrefixOf_iff_prefix.mpr (List.prefix_append t b)⟩

theorem any_startsWith_clean {s : Str} (h : Clean restTokens s) :
    restTokens.any (fun u => startsWith s u) = false := by
  rw [List.any_eq_false]
  intro u hu hst
  unfold startsWith at hst
  exact h u hu (List.isPrefixOf_iff_prefix.mp hst).isInfix

/-- **Impl = Spec for the ReST scanner.** -/
theorem scanRest_spec (pre : Str) (segs : List (Str × Str))
    (hpre : Clean restTokens pre) (hs : SegsOK restTokens segs) :
    scanRest (pre ++ segText segs) =
      match segs with
      | [] => if pre.isEmpty then [] else [(false, pre)]
      | _ :: _ => (false, pre) :: segs.map (fun tb => (true, tb.1 ++ tb.2)) := by
  unfold scanRest scanStep
  rw [List.foldl_append]
  have hq := run_quiet restTokens [] pre [] (fun k _ _ u hu hsuf => by
    simp only [List.nil_append] at hsuf
    exact hpre u hu (hsuf.isInfix.trans (List.take_prefix k pre).isInfix))
  have hq' : pre.foldl (scanStepG restTokens) ({} : ScanSt) = ⟨[], pre⟩ := by simpa using hq
  rw [hq']
  cases segs with
  | nil =>
    simp only [segText, List.map_nil, List.flatten_nil, List.foldl_nil]
    unfold scanFinish
    by_cases hp : pre.isEmpty = true
    · simp [hp]
    · simp only [hp, Bool.false_eq_true, if_false, List.getLast?_nil, any_startsWith_clean hpre, Bool.or_self,
        List.nil_append]
  | cons tb rest =>
    have htb := hs tb (by simp)
    have hrest : SegsOK restTokens rest := fun x hx => hs x (by simp [hx])
    have hrun := run_segments restTokens_ok rest hrest [] pre tb.1 tb.2 htb.1 htb.2
    have hpair : ((tb.1, tb.2) : Str × Str) = tb := rfl
    rw [hpair] at hrun
    rw [hrun]
    unfold scanFinish
    have hlast_mem : ((tb :: rest).getLast (by simp)) ∈ tb :: rest := List.getLast_mem _
    have hlast := hs _ hlast_mem
    obtain ⟨r, hr, _, _⟩ := restTokens_ok.shape _ hlast.1
    have hne : (((tb :: rest).getLast (by simp)).1 ++ ((tb :: rest).getLast (by simp)).2).isEmpty = false := by
      rw [hr]; rfl
    simp only [hne, Bool.false_eq_true, if_false, any_startsWith_of_mem hlast.1, Bool.or_true,
      List.isEmpty_nil, Bool.not_true, List.nil_append]
    have hsplit := List.dropLast_concat_getLast (l := tb :: rest) (by simp)
    have hmap := congrArg (List.map (fun tb : Str × Str => (true, tb.1 ++ tb.2))) hsplit
    rw [List.map_append] at hmap
    simp only [List.map_cons, List.map_nil] at hmap
    rw [List.map_cons, ← hmap, List.cons_append]

theorem scanRest_spec_cons (pre : Str) (tb : Str × Str) (rest : List (Str × Str))
    (hpre : Clean restTokens pre) (hs : SegsOK restTokens (tb :: rest)) :
    scanRest (pre ++ segText (tb :: rest)) = (false, pre) :: (tb :: rest).map (fun tb => (true, tb.1 ++ tb.2)) :=
  scanRest_spec pre (tb :: rest) hpre hs

#print axioms scanRest_spec

end Py
