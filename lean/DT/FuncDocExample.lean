import DT.FuncDocTheorems
import DT.ToDocstringExample
/-! non-vacuity: the two-parameter description of `RestRTExample` satisfies every hypothesis of `cleandoc_toDocstring`;
    and what the parser is handed is the summary, an empty line, and the entries one empty line apart. -/
namespace Py
namespace FuncDoc
open ToDocstring NumpyRT

example : ((toDocstring (mkIR exD [exA, exB]) false 2 true true).bind cleandoc) =
    .ok (joinWith ['\n'] (trimBlank ([] :: contentLines exD [exA, exB]))) :=
  cleandoc_toDocstring exD [exA, exB] (by simp)
    (by intro x hx; simp at hx; rcases hx with rfl | rfl; exact bA; exact bB)
    (by decide) (trimmed_dec _ (by decide) (by decide)) (by decide) (margin_dec _ (by decide)) (by decide) (by decide)
    (by intro x hx; simp at hx; rcases hx with rfl | rfl <;> decide)
    (by intro x hx; simp at hx; rcases hx with rfl | rfl <;> exact ⟨by decide, by decide, by decide⟩) false 2

theorem ex_clean : trimBlank ([] :: contentLines exD [exA, exB]) =
    [exD, [], docLine exA.1 exA.2.1, typLine exA.1 exA.2.2, [], docLine exB.1 exB.2.1, typLine exB.1 exB.2.2] := by decide

#eval String.ofList (joinWith ['\n'] (trimBlank ([] :: contentLines exD [exA, exB])))
end FuncDoc
end Py
