"""
The generic check engine (DESIGN §5).

A property module supplies a `Prop` subclass; the engine runs

  1. Lean obligations (build, forbidden tokens, axiom audit),
  2. the correspondence: the model driver and the implementation on the same
     operations (corpus first, then generated cases),
  3. the property predicate itself on the real code for every generated input
     (this is also the failing-input search),
  4. the verdict.
"""
import json
import os
import sys
import time

from . import common
from .common import HarnessError


class Prop:
    id = "C00"
    rule = ""
    trusted_base = None
    assumptions = ()
    quick_cases = 1500
    thorough_cases = 40000
    time_budget = {"quick": 100, "thorough": 900}

    # ---- to override ---------------------------------------------------
    def setup(self, run):
        pass

    def corpus(self):
        """inputs that run before the generated ones (past divergences, finding witnesses)"""
        d = os.path.join(common.VERIF, "corpus", self.id)
        res = []
        if os.path.isdir(d):
            for f in sorted(os.listdir(d)):
                if f.endswith(".json"):
                    with open(os.path.join(d, f)) as fh:
                        res.append(json.load(fh))
        return res

    def gen(self, rng, i, run):
        raise NotImplementedError

    def nontrivial(self, inp):
        return True

    def corr(self, inp, run):
        """-> list of (layer, op, impl_canonical). `op` goes to the model driver."""
        return []

    def canon_model(self, layer, op, answer):
        return answer

    def oracle(self, inp, run):
        """Evaluate the property on the REAL code. -> list of failure dicts ({'what':..., ...})"""
        return []

    def classify(self, inp, failure):
        """-> id of the known finding class this failure belongs to, or None"""
        return None

    def shrink_candidates(self, inp):
        return []

    def extra(self, run):
        """property-specific extra phases (sub-process sweeps etc.)"""
        pass

    def describe(self, inp):
        return inp


def _n_cases(prop, tier):
    n = prop.quick_cases if tier == "quick" else prop.thorough_cases
    scale = os.environ.get("VERIF_SCALE")
    return max(1, int(n * float(scale))) if scale else n


def run_check(prop, tier, seed, replay=None):
    run = common.Run(prop.id, tier, seed)
    run.rule = prop.rule
    if prop.trusted_base:
        run.trusted_base = list(prop.trusted_base)
    run.assumptions = list(prop.assumptions)
    try:
        common.prime()
        # -- 1. obligations ---------------------------------------------
        tb = common.ensure_built()
        run.notes.append("lake build %.1fs" % tb)
        run.obligations, run.discharged, run.obl_details, forb = common.audit(prop.id)
        if forb:
            raise HarnessError("forbidden tokens in Lean sources: %s" % forb[:5])
        if run.obligations == 0:
            raise HarnessError("no obligations registered for %s" % prop.id)
        if run.discharged != run.obligations:
            bad = [d for d in run.obl_details if d["status"] != "ok"]
            raise HarnessError("undischarged obligations on the framework side: %s" % bad)
        if tier == "thorough" and replay is None:
            ok, secs, msg = common.recheck()
            run.notes.append("leanchecker %.1fs: %s" % (secs, msg))
            if not ok:
                raise HarnessError("leanchecker rejected the compiled library: %s" % msg)
        prop.setup(run)

        if replay is not None:
            return _replay(prop, run, replay)

        # -- 2/3. correspondence + property predicate --------------------
        inputs = []
        for c in prop.corpus():
            inputs.append(("corpus", c["input"] if isinstance(c, dict) and "input" in c else c))
        n = getattr(prop, "total_cases", None) or _n_cases(prop, tier)
        budget = prop.time_budget[tier]
        # the code under test is not the code the model was last validated against: search harder (a superset of the
        # usual sample - case i is a function of the run seed and i), up to about four minutes of quick tier
        drift, usual = common.source_drift()
        if drift:
            factor = 1.0
            if tier == "quick" and not getattr(prop, "total_cases", None) and not os.environ.get("VERIF_NO_ESCALATION"):
                factor = max(1.0, min(4.0, 240.0 / max(1.0, float(usual.get(prop.id, 60.0)))))
                n, budget = int(n * factor), budget * factor
            run.notes.append("source differs from the validated baseline in %s: sample x%.1f" % (", ".join(drift), factor))
        pending = []  # (inp, layer, op, impl)
        t_gen = time.time()
        i = 0
        while i < n:
            if time.time() - t_gen > budget:
                run.notes.append("time budget reached after %d generated cases" % i)
                break
            inputs.append(("gen", prop.gen(run.sub_rng("case", i), i, run)))
            i += 1
            if len(inputs) >= 500 or i == n:
                _process(prop, run, inputs, pending)
                inputs = []
        if inputs:
            _process(prop, run, inputs, pending)
        _flush(prop, run, pending)
        prop.extra(run)
        _flush(prop, run, pending)

        # -- known findings: replay the recorded witnesses ----------------
        for f in run.findings:
            if f.get("status", "open") != "open":
                # a fixed entry suppresses nothing; its witness must now pass
                if "witness" in f:
                    for fl in prop.oracle(f["witness"], run):
                        run.failures.append((f["witness"], fl))
                continue
            hit = False
            if "witness" in f:
                open_ids = {g["id"] for g in run.findings if g.get("status", "open") == "open"}
                for fl in prop.oracle(f["witness"], run):
                    cid = prop.classify(f["witness"], fl)
                    if cid == f["id"]:
                        hit = True
                    elif cid not in open_ids:
                        run.failures.append((f["witness"], fl))
            if "witness" not in f and run.known_hits.get(f["id"], 0) > 0:
                hit = True  # no stored witness: the class was hit by generated inputs of this very run
            if hit:
                line = "KNOWN-FINDING: property=%s %s [%s]" % (prop.id, f["what_fails"], f["id"])
                run.known_lines.append(line)
                print(line)
            else:
                run.notes.append("finding %s: recorded witness no longer fails" % f["id"])

        # -- 4. verdict ---------------------------------------------------
        _verdict(prop, run)
    except HarnessError as e:
        run.notes.append("harness error: %s" % e)
        try:
            run.write_evidence()
        except Exception:
            pass
        sys.stderr.write("HARNESS-ERROR %s: %s\n" % (prop.id, e))
        return 2
    run.write_evidence()
    for v in run.violations:
        print(v)
    print(
        "%s %s seed=%d: obligations %d/%d, evaluations %d, distinct non-trivial %d, divergences %d, "
        "property failures %d, known-finding inputs %d, %.1fs"
        % (
            prop.id,
            tier,
            seed,
            run.discharged,
            run.obligations,
            run.evaluations,
            len(run.distinct),
            len(run.divergences),
            len(run.failures),
            sum(run.known_hits.values()),
            run.elapsed(),
        )
    )
    return 1 if run.violations else 0


def _process(prop, run, inputs, pending):
    for origin, inp in inputs:
        run.count("inputs:" + origin)
        run.seen(inp, prop.nontrivial(inp))
        run.sample(prop.describe(inp))
        try:
            for layer, op, impl in prop.corr(inp, run):
                pending.append((inp, layer, op, impl))
        except HarnessError:
            raise
        except Exception as e:  # the harness itself must not die on a mutated repo
            run.divergences.append(
                {"layer": "harness", "input": inp, "impl": "exception in correspondence: %r" % (e,), "model": None}
            )
        try:
            fails = prop.oracle(inp, run)
        except HarnessError:
            raise
        except Exception as e:
            import traceback

            fails = [{"what": "oracle raised %s" % type(e).__name__, "detail": traceback.format_exc()[-1500:]}]
        for fl in fails:
            fid = prop.classify(inp, fl)
            if fid is not None and any(f["id"] == fid and f.get("status", "open") == "open" for f in run.findings):
                run.known_hits[fid] += 1
            else:
                run.failures.append((inp, fl))
    if len(pending) >= 4000:
        _flush(prop, run, pending)


def _flush(prop, run, pending):
    if not pending:
        return
    answers = run.driver.run([p[2] for p in pending])
    for (inp, layer, op, impl), ans in zip(pending, answers):
        if "unmodelled" in ans:
            run.count("corr:%s:unmodelled" % layer)
            run.dist["unmodelled"][str(ans["unmodelled"])[:60]] += 1
            continue
        if "bad" in ans:
            raise HarnessError("driver rejected op %s: %s" % (json.dumps(op)[:300], ans))
        model = prop.canon_model(layer, op, ans)
        if model == impl:
            kind = "raises" if isinstance(impl, dict) and "raises" in impl else "ok"
            run.count("corr:%s:agree-%s" % (layer, kind))
        else:
            run.count("corr:%s:DIVERGE" % layer)
            if len(run.divergences) < 50:
                run.divergences.append({"layer": layer, "op": op, "impl": impl, "model": model, "input": inp})
    del pending[:]


def _verdict(prop, run):
    # (a) property failures on the real code, not covered by a finding
    reported = 0
    seen_what = set()
    for inp, fl in run.failures:
        key = fl.get("what")
        if key in seen_what:
            continue
        seen_what.add(key)
        if reported >= 3:
            break

        def still(c, fl=fl):
            return any(
                g.get("what") == fl.get("what") and prop.classify(c, g) is None for g in prop.oracle(c, run)
            )

        try:
            small = common.shrink(inp, still, prop.shrink_candidates)
            fl2 = [g for g in prop.oracle(small, run) if g.get("what") == fl.get("what")]
            fl_small = fl2[0] if fl2 else fl
        except Exception:
            small, fl_small = inp, fl
        path = run.write_replay("property-failure", {"input": small, "failure": fl_small, "original_input": inp})
        run.violation(path)
        reported += 1
    if run.failures:
        return
    # (b) correspondence broken but no failing input found
    if run.divergences:
        by_layer = {}
        for d in run.divergences:
            by_layer.setdefault(d["layer"], d)
        for layer, d in by_layer.items():
            # failing-input search, step 1: the diverging inputs themselves. A known-finding class only
            # excuses the behaviour the model reproduces; where the implementation no longer matches the
            # model AND the property fails there, that failure is not the recorded one.
            hit = None
            for dd in run.divergences:
                if dd["layer"] != layer or dd.get("input") is None:
                    continue
                try:
                    fl = prop.oracle(dd["input"], run)
                except Exception:
                    fl = []
                if fl:
                    hit = (dd, fl)
                    break
            if hit is not None:
                dd, fl = hit
                path = run.write_replay(
                    "property-failure",
                    {
                        "input": dd["input"],
                        "failure": fl[0],
                        "note": "the property fails on this input and the implementation's behaviour differs from the "
                        "model of the recorded behaviour (so this is not the recorded finding)",
                        "divergence": {k: dd[k] for k in ("layer", "impl", "model")},
                    },
                )
                run.violation(path)
                continue
            path = run.write_replay(
                "correspondence",
                {
                    "no_longer_checks": "correspondence:%s (model driver vs implementation)" % layer,
                    "first_divergence": d,
                    "searched": "property predicate evaluated on %d inputs of this run, none failed" % run.evaluations,
                },
            )
            run.violation(path, "no-failing-input-found")


def _replay(prop, run, path):
    with open(path) as f:
        body = json.load(f)
    inp = body.get("input", body.get("first_divergence", {}).get("input"))
    fails = prop.oracle(inp, run) if inp is not None else []
    pend = []
    if inp is not None:
        for layer, op, impl in prop.corr(inp, run):
            pend.append((inp, layer, op, impl))
        _flush(prop, run, pend)
    print(json.dumps({"input": inp, "property_failures": fails, "divergences": run.divergences}, indent=1, default=repr))
    bad = [fl for fl in fails if prop.classify(inp, fl) is None]
    if bad or run.divergences:
        print("VIOLATION property=%s replay=%s" % (prop.id, path))
        return 1
    return 0
