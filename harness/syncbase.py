"""Shared machinery of the sync properties C09 / C10 / C11: run `sync` on a generated project, observe."""
import ast
import contextlib
import io
import os
import shutil
import tempfile

from . import gen as G
from . import irutil, projgen
from .common import exc_kind
from .props.c15 import members, resolve


class Observer:
    """records, per target file, what `_conform_filename` observed and did"""

    def __init__(self, root=None):
        self.root = root
        self.files = []  # one dict per _conform_filename call, in order

    def __enter__(self):
        import doctrans.conformance as C
        import doctrans.emit as E

        self.C, self.E = C, E
        self.saved = {
            "conform": C._conform_filename,
            "find": C.find_in_ast,
            "cmp": C.cmp_ast,
            "RW": C.RewriteAtQuery,
            "file": E.file,
            "same": getattr(E, "_same_module", None),
        }
        obs = self

        def conform(filename, *a, **kw):
            rec = {"file": os.path.relpath(os.path.realpath(os.path.expanduser(filename)), obs.root) if obs.root else os.path.basename(filename), "exists": os.path.isfile(filename), "found": None, "cmp_eq": None,
                   "replaced": None, "same_program": None, "writes": []}  # fmt: skip
            obs.files.append(rec)
            obs.cur = rec
            try:
                res = obs.saved["conform"](filename, *a, **kw)
                rec["report"] = bool(res[1])
                return res
            finally:
                obs.cur = None

        def find(search, node):
            r = obs.saved["find"](search, node)
            if getattr(obs, "cur", None) is not None:
                obs.cur["found"] = r is not None
            return r

        def cmp(a, b):
            r = obs.saved["cmp"](a, b)
            if getattr(obs, "cur", None) is not None:
                obs.cur["cmp_eq"] = bool(r)
            return r

        class RW(obs.saved["RW"]):
            def visit(self, node):
                out = super().visit(node)
                if getattr(obs, "cur", None) is not None and node.__class__.__name__ == "Module":
                    obs.cur["replaced"] = bool(self.replaced)
                return out

        def file(node, filename, mode="a", skip_black=False):
            r = obs.saved["file"](node, filename, mode=mode, skip_black=skip_black)
            if getattr(obs, "cur", None) is not None:
                obs.cur["writes"].append([mode, r])
            return r

        def same(a, b):
            r = obs.saved["same"](a, b)
            if getattr(obs, "cur", None) is not None:
                obs.cur["same_program"] = bool(r)
            return r

        C._conform_filename, C.find_in_ast, C.cmp_ast, C.RewriteAtQuery = conform, find, cmp, RW
        E.file = file
        if self.saved["same"] is not None:
            E._same_module = same
        return self

    def __exit__(self, *a):
        C, E = self.C, self.E
        C._conform_filename, C.find_in_ast, C.cmp_ast, C.RewriteAtQuery = (
            self.saved["conform"], self.saved["find"], self.saved["cmp"], self.saved["RW"])  # fmt: skip
        E.file = self.saved["file"]
        if self.saved["same"] is not None:
            E._same_module = self.saved["same"]
        return False


def action_of(rec):
    """what was done to the file, from the emit.file calls"""
    for mode, r in rec["writes"]:
        if mode.startswith("a"):
            return "append"
        if not rec["exists"]:
            return "create"
        if r is None or r:
            return "rewrite"
    return "none"


def run_syncs(cfg, n_runs=2, via_cli=False, truths=None):
    """
    materialise the project, run `sync` n_runs times; -> dict with snapshots s[0..n], per-run outcome,
    per-run observation records. `truths` optionally gives the truth kind of each run.
    """
    from doctrans.conformance import ground_truth

    root = tempfile.mkdtemp(prefix="syncp")
    res = {"snap": [], "runs": []}
    try:
        projgen.materialise(cfg, root)
        res["snap"].append(projgen.snapshot(root))
        for i in range(n_runs):
            c = dict(cfg)
            if truths:
                c["truth"] = truths[i]
            out = io.StringIO()
            rec = {"truth": c["truth"]}
            with Observer(os.path.realpath(root)) as ob:
                try:
                    with contextlib.redirect_stdout(out), contextlib.redirect_stderr(out):
                        if via_cli:
                            from doctrans.__main__ import main

                            eff = main(projgen.argv(c, root))
                        else:
                            eff = ground_truth(projgen.namespace(c, root), projgen.truth_path(c, root))
                    rec["outcome"] = "ok"
                    rec["effect"] = None if eff is None else {os.path.relpath(os.path.realpath(k), os.path.realpath(root)): bool(v) for k, v in eff.items()}
                except SystemExit as e:
                    rec["outcome"] = "exit:%s" % e.code
                except Exception as e:
                    rec["outcome"] = "raises:" + exc_kind(e)
            rec["files"] = ob.files
            rec["printed"] = out.getvalue().replace(os.path.realpath(root) + os.sep, "").replace(root + os.sep, "")
            res["runs"].append(rec)
            res["snap"].append(projgen.snapshot(root))
    finally:
        shutil.rmtree(root, ignore_errors=True)
    return res


def locate(src, name):
    """independent resolver: the definition node named `name` ('C.method') in source text, or None"""
    try:
        m = ast.parse(src)
    except SyntaxError:
        return "syntax-error"
    ms = resolve(m.body, name.split("."))
    return ms[0][0] if ms else None


def parse_def(kind, src, name):
    from doctrans import parse

    node = locate(src, name)
    if node is None or node == "syntax-error":
        return node
    if kind == "class":
        return parse.class_(node)
    if kind == "argparse_function":
        return parse.argparse_ast(node)
    return parse.function(node)


def agrees(truth_ir, got):
    """
    C09's `Agrees`: same names and order, prose, types and explicit defaults; where the truth has no
    default the target kind may supply its documented normalisation (zero value / None), and a type may
    gain or lose an `Optional[...]` wrapper with it (argparse: not required <-> Optional).
    """
    out = []
    wn, gn = list(truth_ir["params"].keys()), list(got["params"].keys())
    if wn != gn:
        return ["parameter names/order %r -> %r" % (wn, gn)]
    if (truth_ir.get("doc") or "").strip() != (got.get("doc") or "").strip():
        out.append("summary %r -> %r" % (truth_ir.get("doc"), got.get("doc")))
    for n in wn:
        w, g = truth_ir["params"][n], got["params"][n]
        if irutil.prose_core(w.get("doc")) != irutil.prose_core(g.get("doc")):
            out.append("%s: prose %r -> %r" % (n, w.get("doc"), g.get("doc")))
        wt, gt = w.get("typ"), g.get("typ")
        if wt != gt and _unopt(wt) != _unopt(gt):
            out.append("%s: typ %r -> %r" % (n, wt, gt))
        if "default" in w and w["default"] not in irutil.NONE_TYPES:
            if not irutil.same_default(True, w["default"], "default" in g, g.get("default")):
                out.append("%s: default %r -> %r" % (n, w["default"], g.get("default", "<absent>")))
    return out


def _unopt(t):
    if t is None:
        return None
    return t[len("Optional[") : -1] if t.startswith("Optional[") and t.endswith("]") else t


def other_statements(src, names):
    """ast dumps of every top-level statement except the addressed ones (for each addressed name, the first statement
    that binds its simple name) and, for a method, of every other member of its class"""
    if isinstance(names, str):
        names = [names]
    m = ast.parse(src)
    out = []
    pending = [n.split(".") for n in names]
    for stmt in m.body:
        hit = next((segs for segs in pending if segs[0] in members(stmt)), None)
        if hit is not None:
            pending.remove(hit)
            if len(hit) > 1 and isinstance(stmt, ast.ClassDef):
                out.append("class %s:" % stmt.name)
                done = False
                for s2 in stmt.body:
                    if not done and hit[1] in members(s2) and isinstance(s2, (ast.FunctionDef, ast.ClassDef)):
                        done = True
                        continue
                    out.append("  " + ast.dump(s2))
            continue
        out.append(ast.dump(stmt))
    return out
