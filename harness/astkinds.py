"""C02 / C03 / C04: round trips through the AST kinds (class, function/method, argparse function)."""
import ast
import copy

from . import gen as G
from . import irutil, kinds
from .common import canon_val, exc_kind, val_to_json
from .engine import Prop
from .props.c01 import classify_ir as classify_doc_ir

NONE_STRS = ("None", "```(None)```")
ZERO = {"int": 0, "float": 0.0, "str": "", "bool": False}


def unify_none(j):
    """(kept for callers) the transport IR unchanged: Python None and the NoneStr string are distinct inputs"""
    return copy.deepcopy(j)


def canon_for_model(j, optional_absent_is_none=False):
    j = copy.deepcopy(j)
    # the two string spellings of "no value" ("None" from the ReST parser, NoneStr from the others) are one
    # result; Python None stays distinct (the argparse emitter treats it differently on input)
    for p in [q for _, q in j["params"]] + ([j["returns"]] if j.get("returns") else []):
        d = p.get("default")
        if d is not None and d.get("t") == "str" and d.get("v") == "None":
            p["default"] = {"t": "str", "v": "```(None)```"}
    if optional_absent_is_none:
        # argparse: `Optional[...]` <-> not required; an absent default and NoneStr are the same reading
        for _, p in j["params"]:
            if "default" not in p and (p.get("typ") or "").startswith("Optional["):
                p["default"] = {"t": "str", "v": "```(None)```"}
    # prose is compared modulo the default sentence and the single full stop set_default_doc inserts
    # ... and modulo line breaks / runs of whitespace (wrapping is layout)
    for _, p in j["params"]:
        if "doc" in p:
            p["doc"] = _ws(irutil.prose_core(_ws(p["doc"])))
    if j.get("returns") and "doc" in j["returns"]:
        j["returns"]["doc"] = _ws(irutil.prose_core(_ws(j["returns"]["doc"])))
    if j.get("doc") is not None:
        j["doc"] = _ws(j["doc"])
    return irutil.canon_ir(j)


def _ws(x):
    return None if x is None else " ".join(x.split())


def pres_diff(want, got, absent_may_become, ws=False):
    """
    Python mirror of Kinds.PresIR: names/order, prose, types, explicit defaults kept; an absent (or None)
    default may only become what `absent_may_become(typ)` allows. -> list of differences
    """
    out = []
    nz = _ws if ws else (lambda x: x)
    if nz((want.get("doc") or "").strip()) != nz((got.get("doc") or "").strip()):
        out.append("summary %r -> %r" % (want.get("doc"), got.get("doc")))
    wn, gn = list(want["params"].keys()), list(got["params"].keys())
    if wn != gn:
        out.append("parameter names/order %r -> %r" % (wn, gn))
        return out

    def entry(n, w, g):
        if (w.get("typ") or None) != (g.get("typ") or None):
            out.append("%s: typ %r -> %r" % (n, w.get("typ"), g.get("typ")))
        if nz(irutil.prose_core(nz(w.get("doc") or None))) != nz(irutil.prose_core(nz(g.get("doc") or None))):
            out.append("%s: prose %r -> %r" % (n, w.get("doc"), g.get("doc")))
        if "default" in w and w["default"] not in irutil.NONE_TYPES:
            if not irutil.same_default(True, w["default"], "default" in g, g.get("default")):
                out.append("%s: default %r -> %r" % (n, w["default"], g.get("default", "<absent>")))
        elif "default" in g:
            allowed = absent_may_become(w.get("typ"))
            gd = g["default"]
            if not (gd in irutil.NONE_TYPES or any(type(gd) is type(a) and gd == a for a in allowed)):
                out.append("%s: absent default became %r" % (n, gd))

    for n in wn:
        entry(n, want["params"][n], got["params"][n])
    wr = (want.get("returns") or {}).get("return_type")
    gr = (got.get("returns") or {}).get("return_type")
    if wr is None and gr is not None:
        out.append("return entry invented: %r" % (gr,))
    elif wr is not None and gr is None:
        out.append("return entry lost: %r" % (wr,))
    elif wr is not None:
        entry("return_type", wr, gr)
    return out


def covered_by(ex, diffs):
    """the first finding that explains the first difference when EVERY difference is explained, else None"""
    first = None
    for d in diffs:
        name, field = diff_key(d)
        hit = None
        for cid, names, keys in ex:
            if field in keys or (name != "" and (names is None or (name in names and (names[name] is None or field in names[name])))):
                hit = cid
                break
        if hit is None:
            return None
        first = first or hit
    return first


def diff_key(d):
    """(entry name, field) a difference reported by pres_diff is about; structural ones have the name ''"""
    if d.startswith("summary "):
        return "", "summary"
    if d.startswith("parameter names/order"):
        return "", "order"
    if d.startswith("return entry invented"):
        return "", "invented"
    if d.startswith("return entry lost"):
        return "", "lost"
    if d.startswith("return entry "):  # irutil.diff_ir: "return entry X -> Y"
        return "", "lost" if d.endswith("-> None") else "invented"
    name, _, rest = d.partition(": ")
    for f in ("typ", "prose", "default", "absent default"):
        if rest.startswith(f):
            return name, f.split()[0]
    return name, "?"


def entry_ops(ir, back_j, model_kinds, chain, arg):
    """
    Per-entry correspondence: the model is asked what the chain does to a description holding ONE entry of the
    input; where it answers (the entry alone is inside every kind's regular domain) the entry that came back from
    the real conversion of the WHOLE description must be that. Skipped where the real code lets entries influence
    each other: numpydoc/google invent a default for an entry that follows a defaulted one (finding D7), and any
    change of names/order is left to the whole-description predicate.
    """
    res = []
    names = [n for n, _ in ir["params"]]
    if names != [n for n, _ in back_j["params"]]:
        return res
    d7 = any(k in ("numpydoc", "google") for k in chain)
    seen_default = False
    ents = [(n, p, bp, False) for (n, p), (_, bp) in zip(ir["params"], back_j["params"])]
    if ir.get("returns") is not None:
        ents.append(("return_type", ir["returns"], back_j.get("returns"), True))
    for n, p, bp, is_ret in ents:
        safe = "default" in p or not (d7 and seen_default)
        if "default" in p or len(chain) > 1:
            seen_default = True  # (on a chain an earlier kind may have given the earlier entries a default)
        if not safe:
            continue
        one = {"doc": "", "params": [] if is_ret else [[n, p]], "returns": p if is_ret else None}
        got = {"doc": "", "params": [] if is_ret else [[n, bp]], "returns": bp if is_ret else None}
        op = {"op": "norm_chain", "kinds": model_kinds, "ir": copy.deepcopy(one), "_arg": arg, "_entry": n}
        res.append(("entry_" + "_".join(chain) if len(chain) == 1 else "entry_chain", op, {"ok": canon_for_model(got, arg)}))
    return res


def _dotted_first(code):
    """a '.' not followed by a digit occurs before any bracket (extract_default cuts the value there)"""
    inner = code[3:-3]
    for i, ch in enumerate(inner):
        if ch in "{[()]}":
            return False
        if ch == "." and not (i + 1 < len(inner) and inner[i + 1].isdigit()):
            return True
    return False


def is_code(d):
    return d is not None and d.get("t") == "str" and len(d["v"]) > 6 and d["v"].startswith("```") and d["v"].endswith("```") and d["v"] != "```(None)```"


def code_breaks_roundtrip(kind, is_return, typ, code, edd):
    """where a back-tick quoted code default does NOT survive one round trip today (measured matrix, DESIGN §6)"""
    typ = typ or ""
    quoted, bracket, dotted = "str" in typ, "[" in typ, _dotted_first(code)
    if typ == "dict" or kind == "argparse":
        return True
    if kind == "class":
        return (edd and dotted) or (not is_return and not bracket)
    if kind in ("function", "method"):
        if is_return:
            return True
        # (a code default under a type without brackets makes `_infer_default` drop the type, default text or not)
        return (edd and (dotted or not quoted)) or not bracket
    return edd and (dotted or not quoted)


def code_breaks_stability(kind, is_return, typ, code, edd):
    """where a code default makes the second and third emission differ (or the parse raise) today"""
    typ = typ or ""
    quoted, dotted = "str" in typ, _dotted_first(code)
    if kind == "argparse":
        return True
    if kind == "class":
        return edd and dotted
    if kind in ("function", "method"):
        return (not is_return) and edd and (dotted or not quoted)
    return edd and typ in ("int", "float", "bool", "str", "complex")


def _entries(ir):
    return [(n, p, False) for n, p in ir["params"]] + ([("return_type", ir["returns"], True)] if ir["returns"] else [])


def nonstr_under_str_breaks(kind, edd, direct, negative):
    """where a numeric / boolean default under a str-mentioning type does not survive (measured): the function kinds
    carry it when no default text is written - except a negative number that went through the emitted text, which comes
    back as an ast.UnaryOp; every other kind (and default text anywhere: quote() on a number) breaks"""
    if kind in ("function", "method"):
        return edd or (negative and not direct)
    return True


def _mentions_str(typ):
    """`needs_quoting(typ)`: the type names `str` or holds a string literal"""
    if not typ:
        return False
    try:
        t = ast.parse(typ, mode="eval")
    except SyntaxError:
        return False
    return any((isinstance(n, ast.Name) and n.id == "str") or (isinstance(n, ast.Constant) and isinstance(n.value, str)) for n in ast.walk(t))


def empty_breaks(kinds_here, typ):
    """where an empty-string default is still treated as absent (truthiness tests) after fix ee47c47: the class and
    argparse emitters, unless the declared type is plain `str` (whose zero value it is)"""
    return typ != "str" and any(k in ("class", "argparse") for k in kinds_here)


def optional_prose(p):
    """`_set_name_and_type`: prose starting with "(Optional)" / "Optional" makes the parsers wrap the type"""
    d, t = p.get("doc") or "", p.get("typ")
    return t is not None and (d.startswith("(Optional)") or d.startswith("Optional")) and not t.startswith("Optional[")


def untyped_breaks(kind, ir):
    """where an entry without a type does not survive one round trip today (measured, DESIGN §6)"""
    for n, p, is_ret in _entries(ir):
        if "typ" in p:
            continue
        has_def = "default" in p
        if kind == "rest":
            if has_def and not is_ret:
                return True
        elif kind == "numpydoc":
            return True
        elif kind == "google":
            if not is_ret:
                return True
        elif kind in ("function", "method"):
            if has_def:
                return True
        else:  # class, argparse
            return True
    return False


def prose_less_breaks(kind, ir, inline_types=True):
    """where an entry without prose does not survive one round trip today (measured, DESIGN §6)"""
    ents = _entries(ir)
    for i, (n, p, is_ret) in enumerate(ents):
        if "doc" in p:
            continue
        if kind in ("rest", "numpydoc", "google"):
            if "default" in p or "typ" not in p or (is_ret and kind == "numpydoc"):
                return True
        elif kind in ("class", "function", "method"):
            if "typ" not in p and not is_ret:
                return True  # an entry with neither type nor prose
            if kind != "class" and not inline_types:
                # (for the return entry too: `:rtype:` is only written next to `:returns:`)
                return True  # the type lives in a `:type` line that is only written next to a `:param` line
            # documented parameters are listed first: a prose-less parameter followed by a described one moves
            if not is_ret and any("doc" in q and not r for _, q, r in ents[i + 1 :]):
                return True
    return False


def zlib_mod(c):
    import json
    import zlib

    return zlib.crc32(json.dumps(c, sort_keys=True, default=repr).encode())


def zero_allowed(typ):
    return [ZERO[typ]] if typ in ZERO else []


class AstKindProp(Prop):
    kind = "class"
    model_kind = "class"
    quick_cases = 2000
    thorough_cases = 20000
    rule = (
        "case = (IR of the property domain, emitter options). 65% of the IRs have every entry typed and described "
        "(where the property holds), the rest exercise the recorded finding classes. The artefact is unparsed to text and "
        "re-parsed before the parser runs. Model tie: Kinds.norm on every in-domain IR. Non-trivial = at least one "
        "parameter or a return entry; distinct by canonical JSON of (IR, options)."
    )

    def gen_opts(self, r):
        return {"emit_default_doc": r.random() < 0.6, "word_wrap": r.random() < 0.3, "direct": r.random() < 0.3, "emitted_before": r.random() < 0.2}

    def gen(self, r, i, run):
        full = r.random() < 0.65
        irj = G.gen_ir(r, rich=r.random() < 0.6, p_typ=1.0 if full else 0.85, p_doc=1.0 if full else 0.85)
        irj = self.restrict(irj, r)
        opts = self.gen_opts(r)
        if (opts.get("word_wrap") and r.random() < 0.7) or (not opts.get("word_wrap") and r.random() < 0.15):
            irj = G.lengthen(r, irj)  # (long prose with wrapping off too: nothing may be wrapped then)
        if any(isinstance(p.get("default"), (int, float)) and not isinstance(p.get("default"), bool) and p["default"] < 0 for _, p in irj["params"]):
            # a negative number is a Constant in the emitted tree and a UnaryOp after unparse / re-parse: both routes, evenly
            opts["direct"] = r.random() < 0.5
        c = {"ir": irutil.ir_to_json(irj), "opts": opts}
        run.dist["n_params"][len(irj["params"])] += 1
        for _, p in irj["params"]:
            run.dist["typ"][(p.get("typ") or "<none>").split("[")[0]] += 1
            run.dist["default"][type(p["default"]).__name__ if "default" in p else "absent"] += 1
        return c

    def restrict(self, irj, r):
        return irj

    def nontrivial(self, c):
        return bool(c["ir"]["params"]) or c["ir"]["returns"] is not None

    def shrink_candidates(self, c):
        ir = c["ir"]
        for k in range(len(ir["params"])):
            d = copy.deepcopy(c)
            del d["ir"]["params"][k]
            yield d
        if ir["returns"] is not None:
            d = copy.deepcopy(c)
            d["ir"]["returns"] = None
            yield d
        for k, (n, p) in enumerate(ir["params"]):
            for f in ("default",):
                if f in p:
                    d = copy.deepcopy(c)
                    del d["ir"]["params"][k][1][f]
                    yield d

    def py_ir(self, j):
        from .common import val_of_json

        def P(p):
            q = {k: v for k, v in p.items() if k != "default"}
            if "default" in p:
                q["default"] = val_of_json(p["default"])
            return q

        ir = G.to_py_ir({"doc": j["doc"], "params": [(n, P(p)) for n, p in j["params"]], "returns": None if j["returns"] is None else P(j["returns"])})
        return ir

    def emit_opts(self, c):
        return dict(c["opts"])

    def conv(self, c):
        ir = self.py_ir(c["ir"])
        if c["opts"].get("emitted_before"):
            # the same description object has been through the emitter once already (with default text on); a round
            # trip must not depend on that (emit_nocopy hands the emitter the object itself)
            try:
                kinds.emit_nocopy(self.kind, ir, dict(self.emit_opts(c), emit_default_doc=True))
            except Exception:
                pass
            art = kinds.emit_nocopy(self.kind, ir, self.emit_opts(c))
            return ir, art, kinds.parse(self.kind, art, via_text=not c["opts"].get("direct"))
        art = kinds.emit(self.kind, ir, self.emit_opts(c))
        # through the emitted TEXT, or (30% of the cases) handing the emitted tree straight to the parser
        return ir, art, kinds.parse(self.kind, art, via_text=not c["opts"].get("direct"))

    def corr(self, c, run):
        op = {"op": "norm", "kind": self.model_kind, "inline": bool(c["opts"].get("inline_types")), "ir": unify_none(c["ir"])}
        back_j = None
        try:
            _, _, back = self.conv(c)
            back_j = irutil.ir_to_json(back)
            impl = {"ok": canon_for_model(back_j, self.model_kind == "argparse")}
        except Exception as e:
            impl = {"raises": exc_kind(e)}
        res = [("norm_" + self.model_kind, op, impl)]
        if back_j is not None:
            mk = [{"kind": self.model_kind, "inline": bool(c["opts"].get("inline_types"))}]
            res += entry_ops(c["ir"], back_j, mk, [self.kind_of(c)], self.model_kind == "argparse")
        return res

    def canon_model(self, layer, op, ans):
        if "ok" in ans:
            j = dict(ans["ok"], doc="") if layer.startswith("entry_") else ans["ok"]
            return {"ok": canon_for_model(j, op.get("_arg", self.model_kind == "argparse"))}
        return ans

    def absent_may_become(self, typ):
        return zero_allowed(typ)

    def extra_checks(self, c, ir, art, back):
        return []

    def oracle(self, c, run):
        cls = self.classify(c, {})
        run.count("oracle:" + (cls or "in-domain"))
        try:
            ir, art, back = self.conv(c)
        except Exception as e:
            import traceback

            return [{"what": "round trip raised", "exc": exc_kind(e), "tb": traceback.format_exc()[-500:]}]
        fails = []
        d = pres_diff(ir, back, self.absent_may_become, ws=bool(c["opts"].get("word_wrap")))
        if d:
            fails.append({"what": "round trip changed the interface", "diffs": d, "source": kinds.to_source(self.kind, art)[:1500]})
        fails += self.extra_checks(c, ir, art, back)
        return fails

    # finding classes shared by the AST kinds. Every class explains differences of NAMED entries only (and the
    # structural differences listed with it); a failure is excused when each of its differences is explained.
    scoped_excuses = False

    # fields of the named entry a finding explains (measured on the unchanged tree, tools/field_stats)
    FIELDS = {
        "AST-untyped-entry": {"typ", "absent", "default"},
        "AST-entry-without-prose": {"typ"},
        "AST-empty-or-dotted-string-default": {"default", "prose", "typ"},
        "C17-D9-prose-mentions-defaults": {"default", "prose"},
        "C18-D20-wrapped-type-line-keeps-the-line-break": {"typ", "prose"},
        "C18-D20-wrapping-changes-content": {"prose"},
    }
    # exceptions a finding explains when the round trip raises
    RAISES = {
        "AST-code-default": {"SyntaxError", "TypeError", "ValueError", "AttributeError"},
        "AST-untyped-entry": {"ValueError", "AttributeError"},
        "C02-dict-typed-attribute": {"TypeError"},
        "AST-non-string-default-under-a-str-mentioning-type": {"AttributeError", "TypeError"},
    }

    def explain(self, c):
        """-> [(finding id, {entry name: fields it explains there | None = all}, structural keys it explains)]"""
        ir = c["ir"]
        out = []
        kinds_here = c.get("chain") or [self.kind_of(c)]
        ents = _entries(ir)
        inline = bool(c.get("opts", {}).get("inline_types", c.get("inline", True)))
        F = self.FIELDS
        if any(untyped_breaks(k, ir) for k in kinds_here):
            out.append(("AST-untyped-entry", {n: F["AST-untyped-entry"] for n, p, _ in ents if "typ" not in p}, set()))
        if any(prose_less_breaks(k, ir, inline) for k in kinds_here):
            out.append(("AST-entry-without-prose", {n: F["AST-entry-without-prose"] for n, p, _ in ents if "doc" not in p},
                        {"order"} | ({"lost"} if any(r and "doc" not in p for _, p, r in ents) else set())))  # fmt: skip
        for n, p, is_ret in ents:
            d = p.get("default")
            if is_code(d) and self.code_breaks(c, is_ret, p.get("typ"), d["v"]):
                out.append(("AST-code-default", {n: {"default", "typ"} | ({"prose"} if _dotted_first(d["v"]) else set())}, set()))
            if d is not None and d["t"] == "str" and ((d["v"] == "" and empty_breaks(kinds_here, p.get("typ"))) or _dotted_first("```" + d["v"] + "```")):
                out.append(("AST-empty-or-dotted-string-default", {n: F["AST-empty-or-dotted-string-default"]}, set()))
            if d is not None and "efaults" in (p.get("doc") or "") and not G.has_own_default_sentence(p):
                out.append(("C17-D9-prose-mentions-defaults", {n: F["C17-D9-prose-mentions-defaults"]}, set()))
            if d is not None and d["t"] in ("int", "float", "bool") and _mentions_str(p.get("typ")):
                o = c.get("opts", {})
                edd = o.get("emit_default_doc", c.get("edd", True))
                neg = d["t"] != "bool" and str(d["v"]).startswith("-")
                if any(nonstr_under_str_breaks(k, edd, bool(o.get("direct")), neg) for k in kinds_here):
                    out.append(("AST-non-string-default-under-a-str-mentioning-type", {n: {"default", "typ", "prose"}}, set()))
            if optional_prose(p) and not all(k == "argparse" for k in kinds_here):
                out.append(("AST-prose-starting-with-optional-wraps-the-type", {n: {"typ"}}, set()))
        out += self.explain_kind(c)
        if c.get("opts", {}).get("word_wrap") and self.kind_of(c) in ("function", "method") and not c["opts"].get("inline_types") and _long_type(ir):
            out.append(("C18-D20-wrapped-type-line-keeps-the-line-break",
                        {n: F["C18-D20-wrapped-type-line-keeps-the-line-break"] for n, p, _ in ents if len(p.get("typ") or "") + len(n) + 24 > 100}, set()))  # fmt: skip
        return out

    def explain_kind(self, c):
        k = self.classify_kind(c, {})
        return [(k, None, {"order", "summary", "lost", "invented"})] if k else []

    def classify(self, c, fl):
        ex = self.explain(c)
        if not ex:
            return None
        if not self.scoped_excuses or not isinstance(fl, dict) or not fl.get("what"):
            return ex[0][0]
        if fl.get("what") == "round trip raised":
            return next((cid for cid, _, _ in ex if fl.get("exc") in self.RAISES.get(cid, ())), None)
        diffs = fl.get("diffs")
        if diffs is None:
            return ex[0][0]
        for d in diffs:
            if d.startswith("parameter names/order") and not c.get("chain"):
                # the recorded reordering is exact: entries with prose first (in order), the others after them (in
                # order), a **kwargs entry last; any other order is not explained by it
                try:
                    got = ast.literal_eval(d.split(" -> ", 1)[1])
                except Exception:
                    return None
                names = [n for n, _ in c["ir"]["params"]]
                doc = [n for n, p in c["ir"]["params"] if "doc" in p]
                first = doc + [n for n in names if n not in doc]
                kw = [n for n in names if n.endswith("kwargs")]
                k = self.kind_of(c)
                last = [n for n in first if n not in kw] + kw
                # (parse.function pops a documented **kwargs and re-appends it after the merge; the class kind leaves it)
                allowed = [last] if k in ("function", "method") else ([first] if k == "class" else [first, last])
                if got not in allowed:
                    return None
        return covered_by(ex, diffs)

    def classify_kind(self, c, fl):
        return None

    def kind_of(self, c):
        return c.get("kind") or self.kind

    def code_breaks(self, c, is_return, typ, code):
        return code_breaks_roundtrip(self.kind_of(c), is_return, typ, code, c["opts"].get("emit_default_doc", True))


def _long_type(ir, width=100):
    return any(len(p.get("typ") or "") + len(n) + 24 > width for n, p, _ in _entries(ir))


def _would_wrap(ir, width=100):
    longest = max([len(l) for l in (ir["doc"] or "").split("\n")] + [0])
    for n, p in ir["params"] + ([["return_type", ir["returns"]]] if ir["returns"] else []):
        longest = max(longest, len(n) + len(p.get("doc") or "") + len(p.get("typ") or "") + 40)
    return longest > width - 10


# ------------------------------------------------------------------------------------------------
class C02(AstKindProp):
    id = "C02"
    kind = "class"
    model_kind = "class"
    scoped_excuses = True

    def classify_kind(self, c, fl):
        for _, p in c["ir"]["params"] + ([["r", c["ir"]["returns"]]] if c["ir"]["returns"] else []):
            if p.get("typ") == "dict":
                return "C02-dict-typed-attribute"
        return None

    def explain_kind(self, c):
        names = {n: {"absent", "default"} for n, p, _ in _entries(c["ir"]) if p.get("typ") == "dict"}
        return [("C02-dict-typed-attribute", names, set())] if names else []

    # statement-level tie (ClassAttr.lean): param2ast, and the attribute branch of parse.class_ + _infer_default
    def corr(self, c, run):
        res = AstKindProp.corr(self, c, run)
        from doctrans import ast_utils, parse

        # the WHOLE kind at statement level (ClassKind.lean: emit.class_ -> text -> parse.class_, every statement modelled)
        # against the real round trip of this very case
        if not c["opts"].get("word_wrap") and not c["opts"].get("emitted_before"):
            try:
                _, _, back = self.conv(c)
                implk = {"ok": irutil.canon_ir(_canon_types_ir(irutil.ir_to_json(back)))}
            except Exception as e:
                implk = {"raises": exc_kind(e)}
            res.append(("class_kind", {"op": "class_kind", "ir": c["ir"], "emit": bool(c["opts"].get("emit_default_doc", True))}, implk))

        from .common import val_of_json, val_to_json

        for n, p, _ in _entries(c["ir"]):
            q = {k: v for k, v in p.items() if k != "default"}
            if "default" in p:
                q["default"] = val_of_json(p["default"])
            node = None
            try:
                node = ast_utils.param2ast((n, copy.deepcopy(q)))
                impl = {"ok": _canon_attr(_attr_json(node))}
            except Exception as e:
                impl = {"raises": exc_kind(e)}
            res.append(("param2ast", {"op": "param2ast", "param": p}, impl))
            if node is None or n == "return_type":
                continue  # (the return entry does not go through `_set_name_and_type`)
            try:
                # what the class parser sees: the statement after unparse / re-parse
                stmt = ast.parse(ast.unparse(ast.fix_missing_locations(ast.Module(body=[node], type_ignores=[])))).body[0]
            except Exception:
                continue  # (the emitted statement cannot be unparsed: the dict-typed attribute finding)
            try:
                cls = ast.ClassDef(name="ConfigClass", bases=[], keywords=[], body=[stmt], decorator_list=[], type_params=[])
                back = parse.class_(ast.fix_missing_locations(cls))["params"][n]
                impl2 = {"ok": {"typ": _canon_type(back.get("typ")), "default": canon_val(val_to_json(back["default"])) if "default" in back else None}}
            except Exception as e:
                impl2 = {"raises": exc_kind(e)}
            a = _attr_json(stmt) if node is not None else None
            op = {"op": "class_attr", "ann": a["ann"]}
            if isinstance(a["value"], dict):
                op.update(a["value"])
            res.append(("class_attr", op, impl2))
        return res

    def canon_model(self, layer, op, ans):
        if layer == "class_kind":
            return {"ok": irutil.canon_ir(_canon_types_ir(ans["ok"]))} if "ok" in ans else ans
        if layer == "param2ast" and "ok" in ans:
            return {"ok": _canon_attr(ans["ok"])}
        if layer == "class_attr" and "ok" in ans:
            o = ans["ok"]
            return {"ok": {"typ": _canon_type(o.get("typ")), "default": canon_val(o.get("default"))}}
        return AstKindProp.canon_model(self, layer, op, ans)


def _canon_types_ir(j):
    j = copy.deepcopy(j)
    for _, p in j["params"] + ([["return_type", j["returns"]]] if j.get("returns") else []):
        if p.get("typ"):
            p["typ"] = _canon_type(p["typ"])
    return j


def _canon_type(t):
    if t is None:
        return None
    try:
        return ast.unparse(ast.parse(t, mode="eval").body)
    except SyntaxError:
        return t


def _attr_json(node):
    """`name: ann = value` -> {"ann": text, "value": {"const": v} | {"expr": text} | "dict"}"""
    from .common import val_to_json

    v = node.value
    if isinstance(v, ast.UnaryOp) and isinstance(v.op, (ast.USub, ast.UAdd)) and isinstance(v.operand, ast.Constant) and isinstance(v.operand.value, (int, float)) and not isinstance(v.operand.value, bool):
        v = ast.Constant(-v.operand.value if isinstance(v.op, ast.USub) else v.operand.value)
    if isinstance(v, ast.Constant):
        val = {"const": val_to_json(v.value)}
    elif isinstance(v, ast.Dict) and not v.keys:
        val = "dict"
    else:
        val = {"expr": ast.unparse(v)}
    return {"ann": ast.unparse(node.annotation), "value": val}


def _canon_attr(a):
    v = a["value"]
    if isinstance(v, dict) and "const" in v:
        v = {"const": canon_val(v["const"])}
    return {"ann": _canon_type(a["ann"]), "value": v}


class C03(AstKindProp):
    id = "C03"
    kind = "function"
    model_kind = "function"
    scoped_excuses = True

    # statement-level tie (FuncAttr.lean): one typed parameter through emit.function (inline types) and parse.function
    def corr(self, c, run):
        res = AstKindProp.corr(self, c, run)
        from doctrans import emit, parse

        from .common import val_of_json, val_to_json

        for n, p in c["ir"]["params"]:
            if "typ" not in p or n.endswith("kwargs") or optional_prose(p):
                continue  # (prose starting with "Optional" re-types the entry: the docstring side's rule, a recorded finding)
            q = {k: v for k, v in p.items() if k != "default"}
            if "default" in p:
                q["default"] = val_of_json(p["default"])
            try:
                ir = G.to_py_ir({"doc": "Summary.", "params": [(n, q)], "returns": None})
                fn = emit.function(ir, function_name="call_peril", function_type="static", inline_types=True, emit_default_doc=False, word_wrap=False)
                node = ast.parse(ast.unparse(ast.fix_missing_locations(ast.Module(body=[fn], type_ignores=[])))).body[0]
                back = parse.function(node)["params"][n]
                impl = {"ok": {"typ": _canon_type(back.get("typ")), "default": canon_val(val_to_json(back["default"])) if "default" in back else None}}
            except Exception as e:
                impl = {"raises": exc_kind(e)}
            res.append(("func_attr", {"op": "func_attr", "param": p}, impl))
        # the WHOLE kind at statement level (FuncKind.lean: emit.function -> text -> parse.function, every statement
        # modelled) against the real round trip of this very case
        if not c["opts"].get("word_wrap") and not c["opts"].get("emitted_before"):
            try:
                _, _, back = self.conv(c)
                implk = {"ok": irutil.canon_ir(_canon_types_ir(irutil.ir_to_json(back)))}
            except Exception as e:
                implk = {"raises": exc_kind(e)}
            res.append(("func_kind", {"op": "func_kind", "ir": c["ir"], "emit": bool(c["opts"].get("emit_default_doc", True)), "inline": bool(c["opts"].get("inline_types")),
                                      "indent_level": int(c["opts"].get("indent_level", 1)), "emit_separating_tab": bool(c["opts"].get("emit_separating_tab", False))}, implk))  # fmt: skip
        # the docstring the function / class emitters build (ToDocstring.lean), on the whole description, with the options
        # of this case and one more combination drawn from the case itself
        from doctrans import emitter_utils

        k = zlib_mod(c)
        for edd, lvl, et, st in {(bool(c["opts"].get("emit_default_doc", True)), int(c["opts"].get("indent_level", 1)), not c["opts"].get("inline_types"), True),
                                 (k % 2 == 0, (k // 2) % 3, (k // 6) % 2 == 0, (k // 12) % 2 == 0)}:
            try:
                text = emitter_utils.to_docstring(self.py_ir(c["ir"]), emit_default_doc=edd, indent_level=lvl, emit_types=et, emit_separating_tab=st, word_wrap=False)
                impl = {"ok": text}
            except Exception as e:
                impl = {"raises": exc_kind(e)}
            res.append(("to_docstring", {"op": "to_docstring", "ir": c["ir"], "emit": edd, "indent_level": lvl, "emit_types": et, "emit_separating_tab": st}, impl))
            # ... and the docstring half of the round trip: that text through inspect.cleandoc (what ast.get_docstring
            # hands on) and the real parse.docstring, against FuncDoc.funcDocRT (to_docstring -> cleandoc -> ReST parser)
            if "ok" in impl:
                try:
                    import inspect

                    back = parse.docstring(inspect.cleandoc(impl["ok"]).replace(":cvar", ":param"))
                    impl2 = {"ok": irutil.canon_ir(irutil.ir_to_json(back))}
                except Exception as e:
                    impl2 = {"raises": exc_kind(e)}
                res.append(("func_doc_rt", {"op": "func_doc_rt", "ir": c["ir"], "emit": edd, "indent_level": lvl, "emit_types": et, "emit_separating_tab": st}, impl2))
        return res

    def canon_model(self, layer, op, ans):
        if layer == "func_attr" and "ok" in ans:
            o = ans["ok"]
            return {"ok": {"typ": _canon_type(o.get("typ")), "default": canon_val(o.get("default"))}}
        if layer == "to_docstring":
            return ans
        if layer == "func_kind":
            return {"ok": irutil.canon_ir(_canon_types_ir(ans["ok"]))} if "ok" in ans else ans
        if layer == "func_doc_rt":
            return {"ok": irutil.canon_ir(ans["ok"])} if "ok" in ans else ans
        return AstKindProp.canon_model(self, layer, op, ans)

    def explain_kind(self, c):
        ir = c["ir"]
        out = []
        if c["opts"].get("inline_types"):
            names = {n: {"typ"} for n, p in ir["params"] if p.get("default") is not None and p["default"]["t"] != "none" and p.get("typ") not in ("int", "float", "str", "bool")}
            if names:
                out.append(("C03-D27-inline-type-replaced-by-type-of-default", names, set()))
        r = ir["returns"]
        if r is not None and "default" in r:
            out.append(("C03-return-default", {"return_type": {"default", "typ"}}, {"lost"}))
        return out

    def gen_opts(self, r):
        o = super().gen_opts(r)
        o.update(
            {
                "function_type": r.choice(["static", "self", "cls"]),
                "inline_types": r.random() < 0.5,
                "emit_as_kwonlyargs": r.random() < 0.5,
                "indent_level": r.choice([0, 1, 2]),
            }
        )
        if r.random() < 0.4:
            o["emit_separating_tab"] = r.random() < 0.5  # (left out: the emitter's own default)
        return o

    def emit_opts(self, c):
        return dict(c["opts"])

    def absent_may_become(self, typ):
        return []

    def classify(self, c, fl):
        if isinstance(fl, dict) and str(fl.get("what", "")).startswith("a returned default appears"):
            return None  # no recorded finding is about state carried from one conversion to the next
        return AstKindProp.classify(self, c, fl)

    def extra_checks(self, c, ir, art, back):
        fails = []
        want = c["opts"]["function_type"]
        if back.get("type") != want:
            fails.append({"what": "function kind not preserved", "want": want, "got": back.get("type")})
        # right after a description with a returned default: the same description WITHOUT it (its docstring text is
        # identical - nothing remembered about that text may carry the default over)
        r = c["ir"].get("returns")
        if r is not None and "default" in r and (r.get("doc") or c["opts"].get("inline_types")) and not fails:
            c2 = copy.deepcopy(c)
            del c2["ir"]["returns"]["default"]
            try:
                ir2, _, back2 = self.conv(c2)
                got = ((back2.get("returns") or {}).get("return_type") or {}).get("default")
                if got is not None:
                    fails.append({"what": "a returned default appears in the round trip of a description that has none (converted right after one that has)", "got": repr(got)[:80]})
            except Exception:
                pass
        # ... and the prose-less variant (every 8th case): a function that returns a value and declares only `-> T`, then one
        # that declares only `-> U`: nothing of the first return entry may show in the second
        if not fails and zlib_mod(c) % 8 == 0:
            base = copy.deepcopy(c)
            base["opts"] = dict(base["opts"], inline_types=True, emitted_before=False)
            c1, c2 = copy.deepcopy(base), copy.deepcopy(base)
            c1["ir"]["returns"] = {"typ": "int", "default": {"t": "str", "v": "```[1, 2]```"}}
            c2["ir"]["returns"] = {"typ": "Optional[str]"}
            try:
                self.conv(c1)
                _, _, back2 = self.conv(c2)
                got = ((back2.get("returns") or {}).get("return_type") or {})
                if got.get("default") is not None or got.get("typ") not in (None, "Optional[str]"):
                    fails.append({"what": "a returned default appears in the round trip of a description that has none (converted right after one that has)", "got": repr(got)[:120]})
            except Exception:
                pass
        return fails

    def classify_kind(self, c, fl):
        ir = c["ir"]
        if c["opts"].get("inline_types"):
            for _, p in ir["params"]:
                d = p.get("default")
                if d is not None and d["t"] != "none" and p.get("typ") not in ("int", "float", "str", "bool"):
                    return "C03-D27-inline-type-replaced-by-type-of-default"
        r = ir["returns"]
        if r is not None and "default" in r:
            return "C03-return-default"
        return None


class C04(AstKindProp):
    id = "C04"
    kind = "argparse"
    model_kind = "argparse"
    allow_handwritten = True

    def restrict(self, irj, r):
        """argparse-expressible types only (scalars, Optional/List/Literal of scalars, kwargs dict)"""
        out = []
        for n, p in irj["params"]:
            t = p.get("typ")
            if t is not None and not _expressible(t) and not n.endswith("kwargs"):
                t = r.choice(["int", "str", "float", "bool", "Optional[int]", "Optional[str]", "List[str]", "List[int]", "Literal['alpha', 'beta']"])
                p = dict(p, typ=t)
                p.pop("default", None)
                if "doc" in p and " Defaults to " in p["doc"]:
                    p["doc"] = p["doc"].split(" Defaults to ")[0]  # (the sentence of the default that is replaced)
                d = G.gen_default(r, t, allow_code=False)
                if d[0] == "val":
                    p["default"] = d[1]
            out.append((n, p))
        irj = dict(irj, params=out)
        if getattr(self, "allow_handwritten", False) and r.random() < 0.12:
            # hand-written style: the default sentence is in the prose without quotes ("Defaults to 8080" for a str)
            irj["params"] = [(n, dict(p, doc=p["doc"].split(" Defaults to ")[0]) if "doc" in p else p) for n, p in irj["params"]]
            irj = G.post_parse_shape(r, irj, unquoted=True)
        rt = irj.get("returns")
        if rt is not None and "default" not in rt:
            irj["returns"] = None if r.random() < 0.7 else rt
        # a directed family: a return entry with a default and LONG prose, emitted WITHOUT wrapping (the docstring of the
        # generated function must then carry the prose on one line, whatever its length)
        self._force_nowrap = False
        if r.random() < 0.05:
            irj["returns"] = {"typ": r.choice(["int", "str", "Optional[List[str]]"]), "doc": G.sized_prose(r, r.randint(85, 150)).rstrip(".,") + ".",
                              "default": r.choice(["```n```", "```foo(1)```", "```[1, 2]```"])}  # fmt: skip
            self._force_nowrap = True
        return irj

    def gen_opts(self, r):
        o = AstKindProp.gen_opts(self, r)
        if getattr(self, "_force_nowrap", False):
            o["word_wrap"] = False
            o["emitted_before"] = False
        return o

    # statement-level tie (ArgAttr.lean): param2argparse_param -> the add_argument keywords; parse_out_param on the
    # call as the parser sees it (after unparse / re-parse), with both values of require_default over the run
    def corr(self, c, run):
        res = AstKindProp.corr(self, c, run)
        from doctrans import ast_utils, emitter_utils

        from .common import val_of_json

        edd = bool(c["opts"].get("emit_default_doc", True))
        # the whole list of options at statement level (the `require_default` thread of parse.argparse_ast), against the
        # real emit -> text -> parse of the whole description; prose exactly as it comes back
        if not c["opts"].get("word_wrap") and not c["opts"].get("emitted_before") and c["ir"]["params"] and c["ir"]["returns"] is None:
            try:
                _, _, back = self.conv(c)
                impl = {"ok": [[n, _canon_param_out(q)] for n, q in back["params"].items()]}
            except Exception as e:
                impl = {"raises": exc_kind(e)}
            res.append(("argparse_params", {"op": "argparse_params", "ir": c["ir"], "emit": edd}, impl))
        for k, (n, p) in enumerate(c["ir"]["params"]):
            q = {key: v for key, v in p.items() if key != "default"}
            if "default" in p:
                q["default"] = val_of_json(p["default"])
            node = None
            try:
                node = ast_utils.param2argparse_param((n, copy.deepcopy(q)), word_wrap=False, emit_default_doc=edd)
                call = _addarg_json(node)
                impl = {"ok": _canon_addarg(call)} if call is not None else None
            except Exception as e:
                impl = {"raises": exc_kind(e)}
            if impl is not None:
                res.append(("param2argparse", {"op": "param2argparse", "name": n, "param": p, "emit": edd}, impl))
            if node is None:
                continue
            try:
                stmt = ast.parse(ast.unparse(ast.fix_missing_locations(ast.Module(body=[node], type_ignores=[])))).body[0]
            except Exception:
                continue
            call = _addarg_json(stmt)
            if call is None:
                continue
            rd = (k + len(c["ir"]["params"])) % 2 == 1
            edd2 = (k % 3) == 2
            try:
                bn, back = emitter_utils.parse_out_param(stmt, require_default=rd, emit_default_doc=edd2)
                impl2 = {"ok": _canon_param_out(back)} if bn == n else {"ok": {"name": bn}}
            except Exception as e:
                impl2 = {"raises": exc_kind(e)}
            res.append(("parse_out_param", {"op": "parse_out_param", "call": call, "require_default": rd, "emit": edd2}, impl2))
        return res

    def canon_model(self, layer, op, ans):
        if layer == "param2argparse" and "ok" in ans:
            return {"ok": _canon_addarg(ans["ok"])}
        if layer == "argparse_params" and "ok" in ans:
            return {"ok": [[n, {"typ": _canon_type(o.get("typ")), "doc": o.get("doc"), "default": canon_val(o.get("default"))}] for n, o in ans["ok"]]}
        if layer == "parse_out_param" and "ok" in ans:
            o = ans["ok"]
            return {"ok": {"typ": _canon_type(o.get("typ")), "doc": o.get("doc"), "default": canon_val(o.get("default"))}}
        return AstKindProp.canon_model(self, layer, op, ans)

    def absent_may_become(self, typ):
        if typ in ZERO:
            return [ZERO[typ]]
        if typ and typ.startswith("List[") and typ[5:-1] in ZERO:
            return [ZERO[typ[5:-1]]]
        if typ and typ.startswith("Literal["):
            return [""]
        return []

    scoped_excuses = True

    def explain_kind(self, c):
        ir = c["ir"]
        out = []
        if ir["returns"] is not None:
            out.append(("C04-return-entry", {"return_type": {"default"}}, {"lost"}))
            if c.get("opts", {}).get("word_wrap") and len(ir["returns"].get("doc") or "") > 60:
                # only the first line of a wrapped return description is read back
                out.append(("C18-D20-wrapping-changes-content", {"return_type": {"prose"}}, set()))
        for n, p in ir["params"]:
            k = C04.classify_kind(self, {"ir": dict(ir, params=[(n, p)], returns=None), "opts": c.get("opts", {})}, {})
            if k:
                out.append((k, {n: C04.KIND_FIELDS.get(k)}, set()))
        return out

    KIND_FIELDS = {
        "C04-D28-bool-without-default-becomes-optional": {"typ"},
        "C04-single-choice-literal": {"typ"},
        "C04-non-string-literal": {"typ", "default"},
        "C04-list-with-explicit-default": {"default", "typ"},
        "C04-scalar-with-none-default": {"default"},
        "C04-inexpressible-type": {"typ", "absent", "default"},
        "C04-kwargs-dict": {"typ", "default", "absent"},
    }

    def classify_kind(self, c, fl):
        ir = c["ir"]
        if ir["returns"] is not None:
            return "C04-return-entry"
        for n, p in ir["params"]:
            t = p.get("typ") or ""
            d = p.get("default")
            if t in ("bool", "List[bool]") and (d is None or d["t"] == "none"):
                return "C04-D28-bool-without-default-becomes-optional"
            if t.startswith("Literal[") and not t.startswith("Literal['"):
                return "C04-non-string-literal"
            if t.startswith("Literal['") and "," not in t:
                return "C04-single-choice-literal"
            if n.endswith("kwargs") or t in ("dict", "Optional[dict]"):
                return "C04-kwargs-dict"
            if t.startswith("List[") and d is not None and d["t"] != "none":
                return "C04-list-with-explicit-default"
            if t in ("int", "float", "str") and d is not None and d["t"] == "none":
                return "C04-scalar-with-none-default"
            if not _expressible(t):
                return "C04-inexpressible-type"
        return None


def _addarg_json(node):
    """`argument_parser.add_argument('--n', ...)` -> the keywords in transport form; None when a keyword holds
    something the model's structure cannot carry (a non-Name type, non-string choices, a non-constant default)"""
    from .common import val_to_json

    out = {"type": None, "choices": None, "action": None, "help": None, "required": False, "default": None}
    for kw in node.value.keywords:
        v = kw.value
        if isinstance(v, ast.UnaryOp) and isinstance(v.op, (ast.USub, ast.UAdd)) and isinstance(v.operand, ast.Constant) and isinstance(v.operand.value, (int, float)) and not isinstance(v.operand.value, bool):
            v = ast.Constant(-v.operand.value if isinstance(v.op, ast.USub) else v.operand.value)
        if kw.arg == "type":
            if not isinstance(v, ast.Name):
                return None
            out["type"] = v.id
        elif kw.arg == "choices":
            if not (isinstance(v, ast.Tuple) and all(isinstance(e, ast.Constant) and isinstance(e.value, str) for e in v.elts)):
                return None
            out["choices"] = [e.value for e in v.elts]
        elif kw.arg in ("action", "help"):
            if not (isinstance(v, ast.Constant) and isinstance(v.value, str)):
                return None
            out[kw.arg] = v.value
        elif kw.arg == "required":
            if not (isinstance(v, ast.Constant) and isinstance(v.value, bool)):
                return None
            out["required"] = v.value
        elif kw.arg == "default":
            if not isinstance(v, ast.Constant) or val_to_json(v.value)["t"] in ("other", "none"):
                return None
            out["default"] = val_to_json(v.value)
        else:
            return None
    return out


def _canon_addarg(a):
    a = dict(a)
    a["default"] = canon_val(a.get("default"))
    for k in ("type", "choices", "action", "help"):
        a.setdefault(k, None)
    a["required"] = bool(a.get("required"))
    return a


def _canon_param_out(back):
    from .common import val_to_json

    return {"typ": _canon_type(back.get("typ")), "doc": back.get("doc"), "default": canon_val(val_to_json(back["default"])) if "default" in back else None}


def _expressible(t):
    sc = ("int", "float", "str", "bool")
    if t in sc:
        return True
    for pre in ("Optional[", "List["):
        if t.startswith(pre) and t.endswith("]") and t[len(pre) : -1] in sc:
            return True
    if t.startswith("Literal['"):
        return True
    return False
