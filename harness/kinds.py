"""The seven representation kinds behind one interface: emit / to source / parse (real doctrans code)."""
import ast
import copy

from . import gen as G

KINDS = ("rest", "numpydoc", "google", "class", "function", "method", "argparse")
AST_KINDS = ("class", "function", "method", "argparse")


def emit(kind, ir, opts=None):
    """-> artefact: str for docstring kinds, ast node for the others. `ir` is a python IR (deep-copied here)."""
    return emit_nocopy(kind, copy.deepcopy(ir), opts)


def emit_nocopy(kind, ir, opts=None):
    """the emitter is handed THIS description object"""
    from doctrans import emit as E

    o = dict(opts or {})
    if kind in ("rest", "numpydoc", "google"):
        return E.docstring(ir, docstring_format=kind, word_wrap=o.get("word_wrap", False), emit_default_doc=o.get("emit_default_doc", True))
    if kind == "class":
        return E.class_(ir, class_name=o.get("name", "ConfigClass"), emit_default_doc=o.get("emit_default_doc", True), word_wrap=o.get("word_wrap", False),
                        **({"emit_call": bool(o["emit_call"])} if "emit_call" in o else {}))  # fmt: skip
    if kind == "argparse":
        return E.argparse_function(ir, function_name=o.get("name", "set_cli_args"), emit_default_doc=o.get("emit_default_doc", True), word_wrap=o.get("word_wrap", False),
                                   **{k: o[k] for k in ("wrap_description", "docstring_format") if k in o})  # fmt: skip
    ftype = o.get("function_type", "self" if kind == "method" else "static")
    return E.function(
        ir,
        function_name=o.get("name", "call_peril"),
        function_type=ftype,
        emit_default_doc=o.get("emit_default_doc", True),
        word_wrap=o.get("word_wrap", False),
        inline_types=o.get("inline_types", True),
        emit_as_kwonlyargs=o.get("emit_as_kwonlyargs", False),
        indent_level=o.get("indent_level", 2),
        **({"emit_separating_tab": bool(o["emit_separating_tab"])} if "emit_separating_tab" in o else {}),
    )


def to_source(kind, artefact):
    if isinstance(artefact, str):
        return artefact
    return ast.unparse(ast.fix_missing_locations(ast.Module(body=[artefact], type_ignores=[])))


def parse(kind, artefact, via_text=True):
    """artefact -> python IR through the real parser (AST kinds: re-parsed from their source text)"""
    from doctrans import parse as P

    if kind in ("rest", "numpydoc", "google"):
        return P.docstring(artefact)
    node = artefact
    if via_text:
        node = ast.parse(to_source(kind, artefact)).body[0]
    if kind == "class":
        return P.class_(node)
    if kind == "argparse":
        return P.argparse_ast(node)
    return P.function(node)


def conv(kind, ir, opts=None):
    return parse(kind, emit(kind, ir, opts))
