"""Sub-process worker of C13: in a FRESH interpreter, the same conversions of the same (fresh) inputs several times in a
row; prints one JSON line per round. The first round of a process must give what every later round gives: nothing a
conversion does may depend on its being the first call (a module-level iterator consumed once, a table filled lazily)."""
import ast
import json
import re
import sys

sys.path.insert(0, sys.argv[1])
from harness import common  # noqa: E402

common.prime()

SRC = '''
LOW, HIGH = 0, 9


def clip(values, bounds=[LOW, HIGH], pair=(LOW, HIGH), names={LOW, HIGH}, scale=HIGH - LOW, tag="x"):
    """
    Clip the values

    :param values: the values
    :param bounds: the bounds
    :param pair: the pair
    :param names: the names
    :param scale: the scale
    :param tag: the tag
    """
    return values


class Holder(object):
    """
    A holder

    :cvar bounds: the bounds
    :cvar pair: the pair
    """

    bounds: list = [LOW, HIGH]
    pair: tuple = (LOW, HIGH)
'''


def one_round():
    from doctrans import emit, parse
    from doctrans.source_transformer import to_code

    out = {}
    mod = ast.parse(SRC)
    fn, cls = mod.body[1], mod.body[2]
    for label, ir_of in (("function", lambda: parse.function(fn)), ("class", lambda: parse.class_(cls))):
        try:
            ir = ir_of()
            out[label + ".params"] = {k: repr(v.get("default")) for k, v in ir["params"].items()}
            for to, em in (("argparse", lambda i: emit.argparse_function(i)), ("class", lambda i: emit.class_(i, class_name="Out")),
                           ("function", lambda i: emit.function(i, function_name="out", function_type="static"))):
                try:
                    out["%s->%s" % (label, to)] = to_code(em(ir_of()))
                except Exception as e:
                    out["%s->%s" % (label, to)] = "raises:" + type(e).__name__
        except Exception as e:
            out[label] = "raises:" + type(e).__name__
    return json.loads(re.sub(r" object at 0x[0-9a-fA-F]+>", " object>", json.dumps(out)))


def main():
    for _ in range(3):
        print(json.dumps(one_round(), sort_keys=True))


if __name__ == "__main__":
    main()
