"""
Shared machinery of the doctrans verification harness.

 * environment priming (the `meta` import quirk on 3.12, repo on sys.path, no .pyc)
 * the Lean side: incremental `lake build`, forbidden-token grep, axiom audit of
   the theorems listed in obligations.json, the compiled model driver
 * verdict bookkeeping: divergences, property failures, known findings, replays
 * evidence writing (schema /root/.vp/EVIDENCE.schema.json, level "proof")
"""
import os
import sys

VERIF = os.path.dirname(os.path.dirname(os.path.abspath(__file__)))
REPO = os.environ.get("VERIF_REPO", "/repo")
os.environ.setdefault("PYTHONDONTWRITEBYTECODE", "1")
sys.dont_write_bytecode = True
if REPO not in sys.path:
    sys.path.insert(0, REPO)

import warnings

warnings.simplefilter("ignore")

import collections
import fcntl
import hashlib
import json
import random
import re
import subprocess
import time
import traceback

LEAN_DIR = os.path.join(VERIF, "lean")
DRIVER = os.path.join(LEAN_DIR, ".lake", "build", "bin", "dtmodel")
ALLOWED_AXIOMS = {"propext", "Classical.choice", "Quot.sound"}
FORBIDDEN = re.compile(
    r"\bsorry\b|\badmit\b|^\s*axiom\s|\bnative_decide\b|\bbv_decide\b|implemented_by|\bunsafe\s|maxHeartbeats\s+0\b"
)


class HarnessError(Exception):
    """An internal problem of the machinery (exit status 2, never a violation)."""


def prime():
    """Make `doctrans` importable on this interpreter (see DESIGN §0)."""
    try:
        from meta.asttools import cmp_ast  # noqa: F401
    except Exception:
        pass
    from meta.asttools import cmp_ast  # noqa: F401,F811


# --------------------------------------------------------------------------
# Lean side
# --------------------------------------------------------------------------


def _strip_comments(src):
    """Remove `--` line comments and (nested) `/- -/` block comments."""
    out, i, depth, n = [], 0, 0, len(src)
    while i < n:
        two = src[i : i + 2]
        if two == "/-":
            depth += 1
            i += 2
        elif two == "-/" and depth:
            depth -= 1
            i += 2
        elif depth:
            if src[i] == "\n":
                out.append("\n")
            i += 1
        elif two == "--":
            while i < n and src[i] != "\n":
                i += 1
        else:
            out.append(src[i])
            i += 1
    return "".join(out)


def lean_sources():
    res = []
    for root, dirs, files in os.walk(LEAN_DIR):
        dirs[:] = [d for d in dirs if d not in (".lake", "build")]
        for f in sorted(files):
            if f.endswith(".lean") and not f.startswith("Audit_"):
                res.append(os.path.join(root, f))
    return sorted(res)


def lean_digest():
    h = hashlib.sha256()
    for p in lean_sources() + [os.path.join(VERIF, "obligations.json")]:
        h.update(p.encode())
        with open(p, "rb") as f:
            h.update(f.read())
    return h.hexdigest()


def forbidden_tokens():
    hits = []
    for p in lean_sources():
        with open(p) as f:
            code = _strip_comments(f.read())
        # string literals may legitimately contain the words (e.g. "unsafe ")
        code = re.sub(r'"(?:\\.|[^"\\])*"', '""', code)
        for ln, line in enumerate(code.split("\n"), 1):
            if FORBIDDEN.search(line):
                hits.append("%s:%d:%s" % (os.path.relpath(p, VERIF), ln, line.strip()[:80]))
    return hits


class _Lock:
    def __init__(self, name):
        self.path = os.path.join(LEAN_DIR, name)

    def __enter__(self):
        os.makedirs(os.path.dirname(self.path), exist_ok=True)
        self.f = open(self.path, "w")
        fcntl.flock(self.f, fcntl.LOCK_EX)

    def __exit__(self, *a):
        fcntl.flock(self.f, fcntl.LOCK_UN)
        self.f.close()


def ensure_built():
    """Incremental build of the model, the proofs and the driver."""
    with _Lock(".build.lock"):
        t = time.time()
        r = subprocess.run(["lake", "build"], cwd=LEAN_DIR, capture_output=True, text=True)
        if r.returncode != 0 or not os.path.exists(DRIVER):
            raise HarnessError("lake build failed:\n" + (r.stdout + r.stderr)[-4000:])
        return time.time() - t


def load_obligations():
    with open(os.path.join(VERIF, "obligations.json")) as f:
        return json.load(f)


def audit(prop_id):
    """
    Kernel-side obligations of one property: every theorem named in
    obligations.json[prop_id] must exist and depend on allowed axioms only.
    Returns (obligations, discharged, details). Cached on the digest of the
    Lean sources (the proofs do not read /repo, so a repository change cannot
    alter this result; it is re-established from the sources on every run).
    """
    obl = load_obligations()
    names = obl.get(prop_id, {}).get("theorems", [])
    digest = lean_digest()
    cache_path = os.path.join(LEAN_DIR, ".lake", "audit_cache.json")
    with _Lock(".audit.lock"):
        cache = {}
        if os.path.exists(cache_path):
            try:
                with open(cache_path) as f:
                    cache = json.load(f)
            except Exception:
                cache = {}
        if cache.get("digest") != digest:
            cache = {"digest": digest, "axioms": _run_audit(obl), "forbidden": forbidden_tokens()}
            with open(cache_path, "w") as f:
                json.dump(cache, f)
    details, ok = [], 0
    for n in names:
        ax = cache["axioms"].get(n)
        if ax is None:
            details.append({"theorem": n, "status": "missing"})
        elif set(ax) - ALLOWED_AXIOMS:
            details.append({"theorem": n, "status": "bad-axioms", "axioms": ax})
        else:
            ok += 1
            details.append({"theorem": n, "status": "ok", "axioms": ax})
    return len(names), ok, details, cache["forbidden"]


def recheck():
    """
    Thorough tier: the toolchain's independent checker replays every declaration of the compiled library
    (`lake env leanchecker DT`) through the kernel. Cached on the digest of the Lean sources.
    -> (ok, seconds, message)
    """
    digest = lean_digest()
    cache_path = os.path.join(LEAN_DIR, ".lake", "recheck_cache.json")
    with _Lock(".recheck.lock"):
        if os.path.exists(cache_path):
            try:
                with open(cache_path) as f:
                    c = json.load(f)
                if c.get("digest") == digest:
                    return c["ok"], c["seconds"], c["message"] + " (cached)"
            except Exception:
                pass
        t = time.time()
        try:
            r = subprocess.run(["lake", "env", "leanchecker", "DT"], cwd=LEAN_DIR, capture_output=True, text=True, timeout=1200)
            ok, msg = r.returncode == 0, (r.stdout + r.stderr).strip()[-500:] or "leanchecker DT: all declarations replayed"
        except FileNotFoundError:
            ok, msg = True, "leanchecker not on PATH: skipped"
        except subprocess.TimeoutExpired:
            ok, msg = True, "leanchecker timed out after 1200 s: skipped"
        c = {"digest": digest, "ok": ok, "seconds": round(time.time() - t, 1), "message": msg}
        with open(cache_path, "w") as f:
            json.dump(c, f)
        return c["ok"], c["seconds"], c["message"]


def _run_audit(obl):
    names = sorted({n for v in obl.values() for n in v.get("theorems", [])})
    path = os.path.join(LEAN_DIR, "Audit_gen.lean")
    with open(path, "w") as f:
        f.write("import DT\n")
        for n in names:
            f.write("#print axioms %s\n" % n)
    r = subprocess.run(["lake", "env", "lean", "Audit_gen.lean"], cwd=LEAN_DIR, capture_output=True, text=True)
    out = r.stdout + r.stderr
    res = {}
    for m in re.finditer(r"'([^']+)' depends on axioms: \[([^\]]*)\]", out):
        res[m.group(1)] = [a.strip() for a in m.group(2).split(",") if a.strip()]
    for m in re.finditer(r"'([^']+)' does not depend on any axioms", out):
        res[m.group(1)] = []
    try:
        os.remove(path)
    except OSError:
        pass
    return res


class Driver:
    """Batch interface to the compiled Lean model (`dtmodel`, JSON lines)."""

    def __init__(self):
        self.calls = 0

    def run(self, ops):
        if not ops:
            return []
        data = "\n".join(json.dumps(o) for o in ops) + "\n"
        r = subprocess.run([DRIVER], input=data, capture_output=True, text=True)
        lines = r.stdout.splitlines()
        if len(lines) != len(ops):
            raise HarnessError(
                "driver returned %d lines for %d ops (rc=%s): %s"
                % (len(lines), len(ops), r.returncode, r.stderr[-2000:])
            )
        self.calls += len(ops)
        return [json.loads(l) for l in lines]


# --------------------------------------------------------------------------
# values / canonical forms shared by several layers
# --------------------------------------------------------------------------


def val_to_json(v):
    if v is None:
        return {"t": "none"}
    if isinstance(v, bool):
        return {"t": "bool", "v": v}
    if isinstance(v, int):
        return {"t": "int", "v": str(v)}
    if isinstance(v, float):
        return {"t": "float", "v": repr(v)}
    if isinstance(v, str):
        return {"t": "str", "v": v}
    return {"t": "other", "v": repr(v)}


def val_of_json(j):
    t = j["t"]
    if t == "none":
        return None
    if t == "int":
        return int(j["v"])
    if t == "float":
        return float(j["v"])
    return j["v"]


def canon_val(j):
    """Canonical, comparable form of a value in transport encoding."""
    if j is None:
        return None
    t = j["t"]
    if t == "int":
        try:
            return ["int", int(j["v"])]
        except Exception:
            return ["int?", j["v"]]
    if t == "float":
        try:
            return ["float", repr(float(j["v"]))]
        except Exception:
            return ["float?", j["v"]]
    if t == "none":
        return ["none"]
    return [t, j["v"]]


def exc_kind(e):
    return type(e).__name__


# --------------------------------------------------------------------------
# verdict + evidence
# --------------------------------------------------------------------------


def load_known_findings(prop_id):
    p = os.path.join(VERIF, "known_findings.json")
    if not os.path.exists(p):
        return []
    with open(p) as f:
        data = json.load(f)
    return [e for e in data.get("findings", []) if e["property"] == prop_id]


class Run:
    """State of one check run for one property."""

    def __init__(self, prop_id, tier, seed):
        self.prop_id, self.tier, self.seed = prop_id, tier, seed
        self.t0 = time.time()
        self.rng = random.Random("%s/%s/%d" % (prop_id, tier, seed))
        self.driver = Driver()
        self.counters = collections.Counter()
        self.dist = collections.defaultdict(collections.Counter)
        self.samples = []
        self.distinct = set()
        self.evaluations = 0
        self.divergences = []  # (layer, op/input, impl, model)
        self.failures = []  # property failures on the real code not covered by a finding
        self.known_hits = collections.Counter()  # finding id -> failing inputs matched
        self.known_lines = []
        self.violations = []
        self.notes = []
        self.obligations = self.discharged = 0
        self.obl_details = []
        self.findings = [f for f in load_known_findings(prop_id)]
        self.trusted_base = []
        self.rule = ""
        self.assumptions = []

    # ---- bookkeeping helpers -------------------------------------------
    def count(self, key, n=1):
        self.counters[key] += n

    def sample(self, obj, cap=6):
        if len(self.samples) < cap:
            self.samples.append(obj)

    def seen(self, obj, nontrivial=True):
        self.evaluations += 1
        if nontrivial:
            self.distinct.add(hashlib.sha1(json.dumps(obj, sort_keys=True, default=repr).encode()).hexdigest())

    def sub_rng(self, *key):
        return random.Random("%s/%s/%d/%s" % (self.prop_id, self.tier, self.seed, "/".join(map(str, key))))

    def elapsed(self):
        return time.time() - self.t0

    # ---- replay files ---------------------------------------------------
    def write_replay(self, kind, payload):
        d = os.path.join(os.environ.get("VERIF_OUT", VERIF), "replays", self.prop_id)
        os.makedirs(d, exist_ok=True)
        body = {
            "property": self.prop_id,
            "kind": kind,
            "tier": self.tier,
            "seed": self.seed,
            "replay_cmd": "./check %s --replay {this file}" % self.prop_id,
        }
        body.update(payload)
        blob = json.dumps(body, indent=1, sort_keys=True, default=repr)
        name = "%s-%s.json" % (kind, hashlib.sha1(blob.encode()).hexdigest()[:12])
        path = os.path.join(d, name)
        with open(path, "w") as f:
            f.write(blob + "\n")
        return os.path.relpath(path, VERIF)

    def violation(self, replay_path, tail=""):
        line = "VIOLATION property=%s replay=%s" % (self.prop_id, replay_path)
        if tail:
            line += " " + tail
        self.violations.append(line)

    # ---- evidence -------------------------------------------------------
    def write_evidence(self):
        cov = {
            "obligations": self.obligations,
            "discharged": self.discharged,
            "checker_cmd": "cd lean && lake build && lake env lean Audit_gen.lean  (#print axioms on every theorem of obligations.json[%s])"
            % self.prop_id,
            "trusted_base": self.trusted_base
            or [
                "Lean 4.33.0 kernel; axioms allowed: propext, Classical.choice, Quot.sound",
                "hand-written Lean model, tied to /repo by the differential run counted below (tested, not proved)",
                "harness generators, canonicaliser and JSON transport",
            ],
            "evaluations": self.evaluations,
            "distinct_nontrivial": len(self.distinct),
            "rule": self.rule,
            "samples": self.samples or [{"note": "no generated case in this run"}],
            "theorems": self.obl_details,
            "counters": dict(self.counters),
            "distributions": {k: dict(v.most_common(40)) for k, v in self.dist.items()},
            "known_finding_lines": self.known_lines,
            "known_finding_inputs_matched": dict(self.known_hits),
            "divergences": len(self.divergences),
            "notes": self.notes,
        }
        ev = {
            "property_id": self.prop_id,
            "tier": self.tier,
            "seed": self.seed,
            "level": "proof",
            "coverage": cov,
            "assumptions": self.assumptions,
            "wall_s": round(self.elapsed(), 2),
            "violations": len(self.violations),
            "violation_lines": self.violations,
        }
        d = os.path.join(os.environ.get("VERIF_OUT", VERIF), "evidence")
        os.makedirs(d, exist_ok=True)
        with open(os.path.join(d, "%s.json" % self.prop_id), "w") as f:
            json.dump(ev, f, indent=1, sort_keys=True, default=repr)
            f.write("\n")


def shrink(inp, still_fails, candidates, budget=200):
    """
    Greedy delta-debugging: `candidates(inp)` yields smaller variants; keep the
    first that still fails; stop when none does or the budget is spent.
    """
    cur = inp
    while budget > 0:
        for c in candidates(cur):
            budget -= 1
            try:
                if still_fails(c):
                    cur = c
                    break
            except Exception:
                pass
            if budget <= 0:
                break
        else:
            break
    return cur


def source_drift():
    """files of the doctrans package whose syntax tree differs from the record the model was last validated against
    (source_baseline.json); [] when the tree under test is that very code"""
    import ast
    import glob
    import hashlib

    bp = os.path.join(VERIF, "source_baseline.json")
    if not os.path.exists(bp):
        return [], {}
    base = json.load(open(bp))
    if base.get("python") != "%d.%d" % sys.version_info[:2]:
        return [], {}  # (the digests are of ast.dump, which differs between interpreter versions: nothing to compare)
    cur = {}
    for p in sorted(glob.glob(os.path.join(REPO, "doctrans", "*.py"))):
        try:
            cur[os.path.relpath(p, REPO)] = hashlib.sha256(ast.dump(ast.parse(open(p).read())).encode()).hexdigest()[:20]
        except SyntaxError:
            cur[os.path.relpath(p, REPO)] = "syntax-error"
    changed = sorted(f for f in set(cur) | set(base["files"]) if cur.get(f) != base["files"].get(f))
    return changed, base.get("quick_wall_s", {})
