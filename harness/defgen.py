"""User-written definitions for C07 / C12: signatures with positional, keyword-only and **kwargs parameters,
docstrings in three styles documenting all / some / none of them, in or out of order, possibly conflicting."""
PNAMES = ["dataset_name", "epochs", "lr", "verbose", "path", "mode", "k"]
ANN = {"int": ["5", "-3", "0"], "str": ["'mnist'", "'a b'", "''"], "float": ["0.5", "1e-07"], "bool": ["True", "False"], "Optional[int]": ["None", "7"], "List[str]": ["None"]}
CONTAINERS = ["[]", "(1, 2)", "{}", "['a', 'b']"]  # list / tuple / dict literals as signature defaults
DOC_TYPES = ["int", "str", "float", "bool", "Optional[int]"]


def gen_def(r, allow_kwonly=True, allow_kwargs=True, method=None, containers=False, doc_defaults=False):
    """-> facts: dict(name, method, params=[{name, kind, ann, default}], kwargs, doc=[{name, prose, typ, default}], style, summary)"""
    n = r.randint(1, 4)
    names = r.sample(PNAMES, n)
    n_kw = r.randint(0, min(2, n - 1)) if allow_kwonly and r.random() < 0.35 else 0
    params = []
    seen_default = False
    for i, nm in enumerate(names):
        kind = "kwonly" if i >= n - n_kw else "pos"
        ann = r.choice(list(ANN)) if r.random() < 0.6 else None
        want_default = r.random() < 0.55 or (seen_default and kind == "pos")
        if want_default:
            default = r.choice(ANN[ann]) if ann else r.choice(["5", "'mnist'", "0.5", "True", "None", "''", "0", "False"])
            if containers and (ann in (None, "List[str]")) and r.random() < 0.15:
                default = r.choice(CONTAINERS)
            if kind == "pos":
                seen_default = True
        else:
            default = None
        params.append({"name": nm, "kind": kind, "ann": ann, "default": default})
    kwargs = allow_kwargs and r.random() < 0.25
    coverage = r.choice(["all", "all", "some", "none"])
    documented = {"all": list(names), "some": r.sample(names, r.randint(1, max(1, n - 1))) if n > 1 else [], "none": []}[coverage]
    if kwargs and coverage != "none" and r.random() < 0.5:
        documented.append("kwargs")
    if r.random() < 0.3:
        r.shuffle(documented)
    else:
        documented.sort(key=lambda x: (names + ["kwargs"]).index(x))
    doc = []
    for nm in documented:
        e = {"name": nm, "prose": "the %s of it." % nm.replace("_", " ")}
        if r.random() < 0.5 and nm != "kwargs":
            e["typ"] = r.choice(DOC_TYPES)
        doc.append(e)
    style = r.choice(["rest", "numpydoc", "google"])
    if style == "numpydoc":
        for e in doc:  # a numpydoc entry always has a type after the colon
            if "typ" not in e and e["name"] != "kwargs":
                e["typ"] = r.choice(DOC_TYPES)
    if doc_defaults:
        # a documented default ("Defaults to 0"), usually different from the signature's: documented information takes
        # precedence - zero-like values included
        ann_of = {p["name"]: p["ann"] for p in params}
        for e in doc:
            if e["name"] == "kwargs" or r.random() >= 0.3:
                continue
            t = e.get("typ") or ann_of.get(e["name"])
            vals = [v for v in ANN.get(t, ["5", "0", "0.5", "True", "False", "'mnist'"]) if v not in ("None", "''")]
            if t == "float":
                vals = vals + ["0.0"]
            if vals:
                e["default"] = r.choice(vals)
    if method is None:
        method = r.random() < 0.4
    receiver = r.choice(["self", "self", "cls"]) if method else None
    return {
        "receiver": receiver,
        "name": "call_peril", "method": method, "params": params, "kwargs": kwargs, "doc": doc, "coverage": coverage,
        "style": style, "summary": "Summary of the thing.",
        "trailer": r.random() < 0.3, "brace_opts": r.random() < 0.2,
        # numpydoc as people write it: `name : type`, but also `name: type` and `name :type`
        "np_colon": " : " if r.random() < 0.7 else r.choice([": ", " :"]),
    }  # fmt: skip


def _prose(e):
    return e["prose"] + (" Defaults to %s" % e["default"] if "default" in e else "")


def docstring(f, indent):
    pad = " " * indent
    lines = [f["summary"], ""]
    if f["style"] == "rest":
        for e in f["doc"]:
            lines.append(":param %s: %s" % (e["name"], _prose(e)))
            if "typ" in e:
                lines.append(":type %s: ```%s```" % (e["name"], e["typ"]))
            lines.append("")
    elif f["style"] == "numpydoc":
        if f["doc"]:
            lines += ["Parameters", "----------"]
            for e in f["doc"]:
                lines.append("%s%s%s" % (e["name"], f.get("np_colon", " : "), e.get("typ", "object")))
                lines.append("    " + _prose(e))
            lines.append("")
        if f.get("trailer"):
            lines += ["Raises", "------", "ValueError", "    when the input is bad", ""]
    else:
        if f["doc"]:
            lines.append("Args:")
            for i, e in enumerate(f["doc"]):
                prose = _prose(e)
                if f.get("brace_opts") and i == 0 and e.get("typ") == "str":
                    prose = "{'cos', 'exp', 'step', 'linear'}"  # PyTorch-style option list
                lines.append("  %s%s: %s" % (e["name"], " (%s)" % e["typ"] if "typ" in e else "", prose))
            lines.append("")
        if f.get("trailer"):
            lines += ["Raises:", "  ValueError: when the input is bad", "", "Example:", "  >>> call_peril()", ""]
    body = ("\n" + pad).join(lines)
    return '%s"""\n%s%s\n%s"""\n' % (pad, pad, body, pad)


def signature_src(f):
    parts = []
    if f["method"]:
        parts.append(f.get("receiver") or "self")
    star_done = False
    for p in f["params"]:
        if p["kind"] == "kwonly" and not star_done:
            parts.append("*")
            star_done = True
        s = p["name"]
        if p["ann"]:
            s += ": " + p["ann"]
        if p["default"] is not None:
            s += (" = " if p["ann"] else "=") + p["default"]
        parts.append(s)
    if f["kwargs"]:
        parts.append("**kwargs")
    return ", ".join(parts)


def function_src(f, indent=0):
    pad = " " * indent
    return "%sdef %s(%s):\n%s%s    return None\n" % (pad, f["name"], signature_src(f), docstring(f, indent + 4), pad)


def module_src(f):
    """the definition as a module: a top-level function, or a class C holding the method"""
    if f["method"]:
        return "class C(object):\n" + ("    @classmethod\n" if f.get("receiver") == "cls" else "") + function_src(f, 4)
    return function_src(f)


def class_init_src(f):
    """class documented in its own docstring, parameters in __init__ (parse.class_(..., merge_inner_function='__init__'))"""
    g = dict(f, method=True, name="__init__", receiver="self")
    init = "    def __init__(%s):\n        pass\n" % signature_src(g)
    return "class ConfigClass(object):\n" + docstring(f, 4) + "\n" + init
