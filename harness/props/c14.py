"""
C14 — sync_properties changes exactly the addressed property.

Model tie: the composite annotate -> find_in_ast -> RewriteAtQuery per pair (model driver op `sync_props`) vs
the real sync_property applied to the same trees. Predicate: files before/after on the real code, an
independent resolver deciding which node each address denotes.
"""
import ast
import copy
import os
import random
import shutil
import tempfile

from ..astjson import node_to_json
from ..common import exc_kind
from ..engine import Prop
from .c15 import all_locations, key, members, resolve

INPUT_SRC = '''import os
from typing import Literal, Optional

T = "T"
opt: Literal['adam', 'sgd'] = 'adam'
depth: int = 3
rate = 0.5
shuffle: bool = True
seed: Optional[int] = 11
choices = ("sgd", "adam")
sizes = [3, 1, 2]
flags = (0, False, 1, 2)


class Config(object):
    lr: float = 0.1
    name: Optional[str] = None
    tags = ("a", "b")

    def fit(self, epochs: int = 10, rate: float = 0.5, *, seed: Optional[int] = None):
        return epochs


def train(epochs: Literal[1, 2, 3] = 1, mode: str = 'fast', *, verbose: bool = False):
    return epochs
'''


def gen_output_src(r):
    """a module with addressable locations of every kind; helpers before/after that share simple names"""
    parts = []
    if r.random() < 0.4:
        parts.append("import sys\n")
    if r.random() < 0.5:
        parts.append("epochs = 5\n")
    if r.random() < 0.35:
        # a helper defined BEFORE the module-level variables, with same-named annotated locals inside a nested block
        parts.append("def setup(flag, momentum=1):\n    if flag:\n        threshold: float = 9.5\n        for _ in range(2):\n            label: str = 'inner'\n    return flag\n")
    parts.append("threshold: float = 0.25\nlabel = 'x'\n")
    if r.random() < 0.3:
        parts.append("def fit(epochs=2, lr=3):\n    return lr\n")  # a module-level namesake of the method, before its class
    parts.append(
        "class Trainer(object):\n    momentum: float = 0.9\n    optimiser: str = 'sgd'\n    other = 1\n"
        + ("    def fit(self, epochs: int = 3, lr: float = 0.1, *, shuffle: bool = True):\n        return epochs\n" if r.random() < 0.8 else "")
    )
    if r.random() < 0.5:
        parts.append("class Other(object):\n    momentum: int = 1\n    def fit(self, epochs=1):\n        return epochs\n")
    if r.random() < 0.35:
        # positional-only parameters WITH defaults: more stored defaults than ordinary arguments
        parts.append("def connect(host, port=5432, /, timeout: float = 10.0, mode: str = 'slow', *, retry: bool = False):\n    return port\n")
    parts.append("def run(epochs: int = 1, lr: float = 0.5, *, shuffle: bool = False):\n    return epochs\n")
    if r.random() < 0.4 and not any(x.startswith("def fit(") for x in parts):
        parts.append("def fit(epochs=2, lr=3):\n    return lr\n")
    src = "".join(parts)
    if r.random() < 0.3:
        src = src.rstrip("\n")
    return src


def kind_of(node):
    return "arg" if isinstance(node, ast.arg) else ("annassign" if isinstance(node, ast.AnnAssign) else ("assign" if isinstance(node, ast.Assign) else "def"))


class C14(Prop):
    id = "C14"
    quick_cases = 500
    thorough_cases = 12000
    rule = (
        "case = (input module with module-level assignments, class attributes, function and method arguments incl. "
        "keyword-only; generated output module with same-named helpers before/after; 1-3 (input address, output address) "
        "pairs of compatible kinds, 15% with an address that does not resolve; wrap template on/off; eval on/off for "
        "top-level inputs). Non-trivial = at least one pair addressing a nested location; distinct by (output source, pairs, options)."
    )

    def setup(self, run):
        from doctrans import sync_properties as SP

        self.SP = SP

    def gen(self, r, i, run):
        out_src = gen_output_src(random.Random(r.randrange(1 << 30)))
        in_tree, out_tree = ast.parse(INPUT_SRC), ast.parse(out_src)
        in_locs = [l for l in all_locations(in_tree.body) if kind_of(resolve(in_tree.body, l)[0][0]) != "def"]
        out_locs = [l for l in all_locations(out_tree.body) if kind_of(resolve(out_tree.body, l)[0][0]) != "def"]
        pairs = []
        for _ in range(r.randint(1, 3)):
            ol = r.choice(out_locs)
            ok = kind_of(resolve(out_tree.body, ol)[0][0])
            cands = [l for l in in_locs if (kind_of(resolve(in_tree.body, l)[0][0]) == "arg") == (ok == "arg") or (ok == "arg" and kind_of(resolve(in_tree.body, l)[0][0]) == "annassign")]
            il = r.choice(cands)
            # a namesake: the input binds the very name the addressed output argument has (`shuffle: bool = True` ->
            # `run.shuffle`), half of the time when there is one
            same = [l for l in cands if l[-1] == ol[-1]]
            if same and r.random() < 0.5:
                il = r.choice(same)
            if ol not in [p[1] for p in pairs]:
                pairs.append([il, ol])
        bad = r.random() < 0.15
        if bad:
            k = r.randrange(len(pairs))
            if r.random() < 0.5:
                pairs[k][1] = pairs[k][1][:-1] + ["nope"]
            else:
                pairs[k][0] = pairs[k][0][:-1] + ["nope"]
        wrap = r.choice([None, None, "Optional[{output_param}]", "Union[{output_param}, str]"])
        ev = r.random() < 0.15 and not bad
        if ev:
            # eval mode: top-level inputs only; mostly the iterable ones (the others are a recorded finding)
            for p in pairs:
                p[0] = [r.choice(["choices", "sizes", "flags"] if r.random() < 0.8 else ["depth", "opt"])]
            pairs = [p for p in pairs if kind_of(resolve(out_tree.body, p[1])[0][0]) != "arg"] or pairs[:1]
            wrap = None
        run.dist["pairs"][len(pairs)] += 1
        run.dist["wrap"][str(wrap)] += 1
        run.dist["eval"][ev] += 1
        run.dist["bad_address"][bad] += 1
        return {"output": out_src, "pairs": pairs, "wrap": wrap, "eval": ev, "bad": bad}

    def nontrivial(self, c):
        return any(len(p[1]) > 1 for p in c["pairs"])

    def shrink_candidates(self, c):
        for k in range(len(c["pairs"])):
            if len(c["pairs"]) > 1:
                d = copy.deepcopy(c)
                del d["pairs"][k]
                yield d

    # ---- run the real thing on files ---------------------------------------------------------------
    def run_twice_eval(self, c):
        """eval mode, same input path twice with the input edited in between: the second call must see the edit"""
        d = tempfile.mkdtemp(prefix="c14h")
        try:
            ip, op = os.path.join(d, "input.py"), os.path.join(d, "output.py")
            outs = []
            for src in (INPUT_SRC, INPUT_SRC.replace('choices = ("sgd", "adam")', 'choices = ("rmsprop",)').replace("sizes = [3, 1, 2]", "sizes = [7]").replace("flags = (0, False, 1, 2)", "flags = (9,)")):
                with open(ip, "w") as f:
                    f.write(src)
                with open(op, "w") as f:
                    f.write(c["output"])
                self.SP.sync_properties(input_eval=True, input_filename=ip, input_params=[".".join(p[0]) for p in c["pairs"]],
                                        output_filename=op, output_params=[".".join(p[1]) for p in c["pairs"]], output_param_wrap=None)  # fmt: skip
                with open(op) as f:
                    outs.append(f.read())
            return outs
        finally:
            shutil.rmtree(d, ignore_errors=True)

    def run_after_wrapped_call(self, c):
        """the same input PATH, unmodified, used twice in one process: first with a wrap template, then as the case says;
        -> the output of the second call (nothing of the first may show)"""
        d = tempfile.mkdtemp(prefix="c14w")
        try:
            ip, op = os.path.join(d, "input.py"), os.path.join(d, "output.py")
            with open(ip, "w") as f:
                f.write(INPUT_SRC)
            for wrap in ("List[{output_param}]", c["wrap"]):
                with open(op, "w") as f:
                    f.write(c["output"])
                self.SP.sync_properties(input_eval=False, input_filename=ip, input_params=[".".join(p[0]) for p in c["pairs"]],
                                        output_filename=op, output_params=[".".join(p[1]) for p in c["pairs"]], output_param_wrap=wrap)  # fmt: skip
            with open(op) as f:
                return f.read()
        finally:
            shutil.rmtree(d, ignore_errors=True)

    def run_real(self, c):
        d = tempfile.mkdtemp(prefix="c14")
        try:
            ip, op = os.path.join(d, "input.py"), os.path.join(d, "output.py")
            with open(ip, "w") as f:
                f.write(INPUT_SRC)
            with open(op, "w") as f:
                f.write(c["output"])
            try:
                self.SP.sync_properties(
                    input_eval=c["eval"], input_filename=ip, input_params=[".".join(p[0]) for p in c["pairs"]],
                    output_filename=op, output_params=[".".join(p[1]) for p in c["pairs"]], output_param_wrap=c["wrap"],
                )  # fmt: skip
                outcome = "ok"
            except Exception as e:
                outcome = "raises:" + exc_kind(e)
            with open(ip) as f:
                i_after = f.read()
            with open(op) as f:
                o_after = f.read()
            return outcome, i_after, o_after
        finally:
            shutil.rmtree(d, ignore_errors=True)

    def corr(self, c, run):
        if c["wrap"] is not None or c["eval"]:
            return []
        from doctrans.source_transformer import ast_parse

        in_ast = ast_parse(INPUT_SRC, skip_docstring_remit=True)
        out_ast = ast_parse(c["output"], skip_docstring_remit=True)
        try:
            cur = out_ast
            for il, ol in c["pairs"]:
                cur = self.SP.sync_property(False, ".".join(il), in_ast, "input.py", ".".join(ol), None, cur)
            impl = {"ok": node_to_json(cur)}
        except Exception as e:
            impl = {"raises": exc_kind(e)}
        op = {"op": "sync_props", "input": node_to_json(ast.parse(INPUT_SRC)), "output": node_to_json(ast.parse(c["output"])), "pairs": c["pairs"]}
        return [("sync_props", op, impl)]

    # ---- the property on the real code -------------------------------------------------------------
    def oracle(self, c, run):
        outcome, i_after, o_after = self.run_real(c)
        fails = []
        if i_after != INPUT_SRC:
            fails.append({"what": "the input file was modified"})
        in_tree, out_tree = ast.parse(INPUT_SRC), ast.parse(c["output"])
        if any(len(resolve(in_tree.body, il)) > 1 or len(resolve(out_tree.body, ol)) > 1 for il, ol in c["pairs"]):
            run.count("oracle:ambiguous-address-skipped")
            return fails
        resolvable = all(len(resolve(in_tree.body, il)) == 1 and len(resolve(out_tree.body, ol)) == 1 for il, ol in c["pairs"])
        cls = classify_case(c, in_tree, out_tree)
        run.count("oracle:" + (cls or ("in-domain" if resolvable else "unresolvable-address")))
        if not resolvable:
            if outcome == "ok":
                fails.append({"what": "an address that does not resolve was not reported as an error", "after": o_after[:500], "_class": cls})
            elif o_after != c["output"]:
                fails.append({"what": "output file changed although an address did not resolve", "_class": cls})
            return fails
        if outcome != "ok":
            fails.append({"what": "sync_properties raised on resolvable addresses", "outcome": outcome, "_class": cls})
            return fails
        try:
            got = ast.parse(o_after)
        except SyntaxError:
            fails.append({"what": "output file no longer parses", "after": o_after[:500], "_class": cls})
            return fails
        # every node that was not addressed keeps an identical syntax tree
        addressed_stmts, addressed_fns = set(), {}
        for il, ol in c["pairs"]:
            node, path = resolve(out_tree.body, ol)[0]
            if isinstance(node, ast.arg):
                addressed_fns.setdefault(tuple(path[:-1]), set()).add(tuple(path[-1]))
            else:
                addressed_stmts.add(tuple(path))
        want_dumps = frame_dumps(out_tree, addressed_stmts, addressed_fns)
        got_dumps = frame_dumps(got, addressed_stmts, addressed_fns)
        if want_dumps != got_dumps:
            fails.append({"what": "a node that was not addressed changed", "_class": cls, "before": [x for x in want_dumps if x not in got_dumps][:3], "after": [x for x in got_dumps if x not in want_dumps][:3]})
        # the addressed nodes now carry the input's annotation (wrapped) / Literal of values
        for il, ol in c["pairs"]:
            src_node = resolve(in_tree.body, il)[0][0]
            _, path = resolve(out_tree.body, ol)[0]
            new = node_at(got, path)
            want_ann = expected_annotation(c, il, src_node)
            got_ann = ast.unparse(new.annotation) if getattr(new, "annotation", None) is not None else None
            if want_ann is not None and got_ann != want_ann:
                fails.append({"what": "addressed node does not carry the input's (wrapped) annotation", "pair": [il, ol], "want": want_ann, "got": got_ann, "_class": cls})
        if not c["eval"] and cls is None and not fails:
            try:
                again = self.run_after_wrapped_call(c)
                if again != o_after:
                    fails.append({"what": "the result depends on an earlier call in the same process (same unmodified input file, another wrap template)", "alone": o_after[:600], "after_an_earlier_call": again[:600], "_class": None})
            except Exception as e:
                fails.append({"what": "second call on the same unmodified input raised", "exc": exc_kind(e), "_class": None})
        if c["eval"] and cls is None and not fails:
            try:
                first, second = self.run_twice_eval(c)
                if "'rmsprop'" not in second and "Literal[7]" not in second and "Literal[9]" not in second:
                    fails.append({"what": "a second call on the same input path does not see the edited input", "second": second[:600], "_class": None})
            except Exception as e:
                fails.append({"what": "second call on the same input path raised", "exc": exc_kind(e), "_class": None})
        return fails

    def classify(self, c, fl):
        return fl.get("_class")


def node_at(module, path):
    cur = module
    for fld, i in path:
        cur = (cur.body if fld == "body" else getattr(cur.args, fld))[i]
    return cur


def frame_dumps(tree, skip_stmts, skip_fns, prefix=()):
    """dumps of everything except the addressed statements; an addressed function contributes its body and its
    non-addressed parts (decorators, name) only"""
    out = []

    def walk(body, path):
        for i, stmt in enumerate(body):
            p = path + (("body", i),)
            if p in skip_stmts:
                out.append("<addressed>")
            elif p in skip_fns:
                # ... and every argument that was not addressed, with its annotation and its own default
                a = stmt.args
                others = []
                npos, ndef = len(a.args), len(a.defaults)
                for j, arg in enumerate(a.args):
                    if ("args", j) not in skip_fns[p]:
                        d = a.defaults[j - (npos - ndef)] if j - (npos - ndef) >= 0 else None
                        others.append(("args", j, ast.dump(arg), None if d is None else ast.dump(d)))
                for j, arg in enumerate(a.kwonlyargs):
                    if ("kwonlyargs", j) not in skip_fns[p]:
                        d = a.kw_defaults[j] if j < len(a.kw_defaults) else None
                        others.append(("kwonlyargs", j, ast.dump(arg), None if d is None else ast.dump(d)))
                out.append("def %s: %s %s" % (stmt.name, [ast.dump(s) for s in stmt.body], others))
            elif isinstance(stmt, ast.ClassDef):
                out.append("class %s:" % stmt.name)
                walk(stmt.body, p)
            else:
                out.append(ast.dump(stmt))

    walk(tree.body, prefix)
    return out


def expected_annotation(c, il, src_node):
    if c["eval"]:
        ns = {}
        exec(compile(INPUT_SRC, "input.py", "exec"), dict(__builtins__=__builtins__, Literal=None, Optional=None) and _typing_ns(), ns)
        v = ns[il[0]]
        vals = list(v) if isinstance(v, (tuple, list)) else [v]
        ann = "Literal[%s]" % ", ".join(repr(x) for x in vals)
    else:
        a = getattr(src_node, "annotation", None)
        if a is None:
            return None
        ann = ast.unparse(a)
    if c["wrap"]:
        ann = ast.unparse(ast.parse(c["wrap"].format(output_param=ann)).body[0].value)
    return ann


def _typing_ns():
    import typing

    return dict(vars(typing))


def classify_case(c, in_tree, out_tree):
    """recorded findings of find_in_ast / RewriteAtQuery that reach sync_properties (see C15)"""
    from .c15 import classify as c15_classify

    if c["eval"] and any(p[0][0] not in ("choices", "sizes", "flags") for p in c["pairs"]):
        return "C14-eval-of-a-scalar-or-string-value"
    if c["eval"] and any(resolve(out_tree.body, p[1]) and isinstance(resolve(out_tree.body, p[1])[0][0], ast.arg) for p in c["pairs"]):
        return "C14-eval-onto-a-function-argument-raises"
    ins = [tuple(p[0]) for p in c["pairs"]]
    if c["wrap"] is not None and len(set(ins)) < len(ins):
        return "C14-wrap-applied-again-when-an-input-address-repeats"
    rewrite_side = ("C15-D12-nesting-deeper-than-two", "C15-D13-function-node-never-replaced", "C15-D25-string-constant-equals-segment")
    for il, ol in c["pairs"]:
        f = None if c["eval"] else c15_classify({"search": il}, in_tree, resolve(in_tree.body, il))  # eval mode does not search the input tree
        if f:
            return f.replace("C15-", "C14-")
        # the output side is addressed by RewriteAtQuery alone: only its own recorded findings apply there
        f = c15_classify({"search": ol}, out_tree, resolve(out_tree.body, ol))
        if f in rewrite_side:
            return f.replace("C15-", "C14-")
    return None


PROP = C14()
