"""
C08 — conversion is a normalisation that stabilises after one pass.

Predicate (real code): emit, parse, emit, parse, emit — the second and third emissions are byte-identical.
Model tie: Kinds.chain [k, k] (norm twice) vs the real double conversion; Kinds.norm_*_idem says the second
norm changes nothing, so the third emission is the emission of the same description.
"""
import copy

from .. import gen as G
from .. import irutil, kinds
from ..astkinds import C02, C03, C04, AstKindProp, canon_for_model
from ..common import exc_kind
from .c01 import classify_ir as classify_doc_ir
from .c05 import model_kind


class C08(AstKindProp):
    id = "C08"
    quick_cases = 1500
    thorough_cases = 20000
    rule = (
        "case = (IR, kind in rest/numpydoc/google/class/function/method/argparse, emitter options: default text on/off, "
        "inline types, keyword-only, indent level, function kind); three emissions through the emitted text. Non-trivial = "
        "at least one parameter or a return entry; distinct by (IR, kind, options)."
    )

    def gen(self, r, i, run):
        kind = r.choice(kinds.KINDS)
        full = r.random() < 0.65
        irj = G.gen_ir(r, rich=r.random() < 0.6, p_typ=1.0 if full else 0.85, p_doc=1.0 if full else 0.85)
        if kind == "argparse":
            irj = C04.restrict(self, irj, r)
        opts = {"emit_default_doc": r.random() < 0.7, "word_wrap": r.random() < 0.35}
        if opts["word_wrap"] and r.random() < 0.8:
            irj = G.lengthen(r, irj)
        if kind in ("function", "method"):
            opts.update({"inline_types": r.random() < 0.5, "emit_as_kwonlyargs": r.random() < 0.5, "indent_level": r.choice([0, 1, 2]),
                         "function_type": r.choice(["static", "self", "cls"]) if kind == "function" else "self"})  # fmt: skip
            # a function that returns an expression over its own parameters (the parsed description then carries a body)
            idents = [n for n, _ in irj["params"] if n.isidentifier() and not n.endswith("kwargs")]
            if idents and r.random() < 0.2:
                ret = dict(irj.get("returns") or {})
                ret["default"] = "```(%s, 1)```" % idents[0] if r.random() < 0.5 else "```%s```" % " + ".join(idents[:2])
                irj["returns"] = ret
                opts["returns_parameters"] = True
        if kind == "argparse" and r.random() < 0.3:
            opts["wrap_description"] = True  # (the description is re-flowed: a second pass must leave it alone)
            if r.random() < 0.6:
                irj["doc"] = G.sized_prose(r, r.randint(105, 180)) + ("\n" + G.sized_prose(r, 40) if r.random() < 0.4 else "")
        run.dist["kind"][kind] += 1
        return {"ir": irutil.ir_to_json(irj), "kind": kind, "opts": opts}

    def describe(self, c):
        return {"kind": c["kind"], "opts": c["opts"], "ir": c["ir"]}

    def emissions(self, c):
        ir = self.py_ir(c["ir"])
        k, o = c["kind"], c["opts"]
        texts, cur = [], ir
        for _ in range(3):
            art = kinds.emit(k, cur, o)
            texts.append(kinds.to_source(k, art))
            cur = kinds.parse(k, art)
        return texts

    def corr(self, c, run):
        k, o = c["kind"], c["opts"]
        mk = model_kind(k, bool(o.get("inline_types")))
        arg = k == "argparse"
        res = []
        if self.wrap_class(c):
            return res  # wrapping acted on a numpydoc entry / :type line: recorded C18 findings, not modelled
        if k in ("rest", "numpydoc", "google") and not o.get("emit_default_doc", True):
            return res  # without default text the defaults are, by construction, not in the docstring
        try:
            ir = self.py_ir(c["ir"])
            one = kinds.conv(k, ir, o)
            two = kinds.conv(k, one, o)
            impl1 = {"ok": canon_for_model(irutil.ir_to_json(one), arg)}
            impl2 = {"ok": canon_for_model(irutil.ir_to_json(two), arg)}
        except Exception as e:
            impl1 = impl2 = {"raises": exc_kind(e)}
        res.append(("norm_once", {"op": "norm_chain", "kinds": [mk], "ir": c["ir"], "_arg": arg}, impl1))
        res.append(("norm_twice", {"op": "norm_chain", "kinds": [mk, mk], "ir": c["ir"], "_arg": arg}, impl2))
        return res

    def canon_model(self, layer, op, ans):
        if "ok" in ans:
            return {"ok": canon_for_model(ans["ok"], op.get("_arg", False))}
        return ans

    def oracle(self, c, run):
        cls = self.classify(c, {})
        run.count("oracle:%s:%s" % (c["kind"], cls or "in-domain"))
        try:
            t = self.emissions(c)
        except Exception as e:
            return [{"what": "emit/parse raised during the three emissions", "exc": exc_kind(e), "kind": c["kind"]}]
        if t[1] != t[2]:
            return [{"what": "second and third emission differ", "kind": c["kind"], "second": t[1][:1200], "third": t[2][:1200]}]
        if c["kind"] in ("function", "method"):
            # "a definition doctrans produced is never changed again by converting it to itself" - also when the parsed
            # description has, in between, been handed to the emitter of ANOTHER kind (what sync does with one description)
            try:
                k, o = c["kind"], c["opts"]
                d = kinds.parse(k, kinds.emit(k, self.py_ir(c["ir"]), o))
                ref = kinds.to_source(k, kinds.emit(k, d, o))
                try:
                    kinds.emit_nocopy("class", d, {"emit_default_doc": False})
                except Exception:
                    pass
                got = kinds.to_source(k, kinds.emit_nocopy(k, d, o))
                if got != ref:
                    return [{"what": "the emission of a parsed definition changes once the same description has been emitted as a class", "kind": k, "alone": ref[:1200], "after_class": got[:1200]}]
            except Exception:
                pass
        return []

    def code_breaks(self, c, is_return, typ, code):
        from ..astkinds import code_breaks_stability

        return code_breaks_stability(c["kind"], is_return, typ, code, c["opts"].get("emit_default_doc", True))

    def wrap_class(self, c):
        """the C18 findings, recognised on the artefact itself: did wrapping act on a numpydoc entry / a :type line"""
        k, o = c["kind"], c["opts"]
        if not o.get("word_wrap") or k not in ("numpydoc", "rest", "function", "method"):
            return None
        try:
            ir = self.py_ir(c["ir"])
            wt = kinds.to_source(k, kinds.emit(k, ir, o))
            ut = kinds.to_source(k, kinds.emit(k, ir, dict(o, word_wrap=False)))
        except Exception:
            return None
        if k == "numpydoc":
            return "C18-D20-numpydoc-continuation-lines-lose-their-indent" if wt != ut else None
        for line in wt.split("\n"):
            ls = line.strip()
            if (ls.startswith(":type ") or ls.startswith(":rtype:")) and not ls.endswith("```"):
                return "C18-D20-wrapped-type-line-keeps-the-line-break"
        return None

    def classify(self, c, fl):
        w = self.wrap_class(c)
        if w:
            return w
        k = c["kind"]
        if k in ("rest", "numpydoc", "google"):
            from ..astkinds import code_breaks_stability, is_code

            edd = c["opts"].get("emit_default_doc", True)
            ir = copy.deepcopy(c["ir"])
            ents = [(False, p) for _, p in ir["params"]] + ([(True, ir["returns"])] if ir["returns"] else [])
            for r, p in ents:
                if is_code(p.get("default")):
                    if code_breaks_stability(k, r, p.get("typ"), p["default"]["v"], edd):
                        return "C17-code-default-unquoted"
                    p["default"] = {"t": "int", "v": "1"}  # harmless here: look for the other classes
            f = classify_doc_ir(ir, k, edd)
            return f
        helper = {"class": C02, "function": C03, "method": C03, "argparse": C04}[k]
        if fl.get("what") == "second and third emission differ":
            # measured on the unchanged tree: the function kinds are stable after the first pass whatever the entries
            # look like; for class and argparse only these findings make the emissions drift
            drift = {"class": ("AST-code-default", "AST-untyped-entry", "AST-prose-starting-with-optional-wraps-the-type"),
                     "argparse": ("AST-code-default", "AST-untyped-entry")}.get(k, ())  # fmt: skip
            return next((cid for cid, _, _ in self.explain(c) if cid in drift), None)
        base = AstKindProp.classify(self, c, fl)
        if base:
            return base
        return helper.classify_kind(self, c, fl)


PROP = C08()
