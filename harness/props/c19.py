"""
C19 — gen writes one well-formed, correctly named definition per mapping entry.

Model tie: Gen.hoist (the statement order of the assembled module: __future__ imports, imports, the rest in
production order) vs the top-level statement order of the real output file.
Predicate: the output parses; exactly one definition per mapping entry, named by the template, in mapping
order; __all__ lists exactly those names; prepended text and imports once, before the definitions; each
definition describes the interface of its source object; an existing output file is refused.
"""
import ast
import contextlib
import importlib
import io
import json
import os
import random
import shutil
import sys
import tempfile

from .. import defgen
from ..common import exc_kind
from ..engine import Prop

IMPORT_LINES = ["import os", "from typing import Optional", "from collections import OrderedDict", "import sys", "from __future__ import annotations"]
TEMPLATES = ["{name}Config", "{name}", "Gen{name}", "{name}_cfg"]
_counter = [0]


def _type_of_default(d):
    if d is None or d == "None":
        return "Optional[int]" if d == "None" else "int"
    if d in ("True", "False"):
        return "bool"
    if d.startswith("'"):
        return "str"
    return "float" if ("." in d or "e" in d) else "int"


def make_module(r):
    """-> (source text of an input module, entries [(mapping key, kind, facts)])"""
    n = r.randint(1, 4)
    entries = []
    parts = []
    annotated = r.random() < 0.35  # annotated callables are a recorded finding (gen raises)
    for i in range(n):
        f = defgen.gen_def(random.Random(r.randrange(1 << 30)), allow_kwargs=False)
        if annotated is False:
            for p in f["params"]:
                p["ann"] = None
        # documented types consistent with the signature defaults (conflicting information is C07's subject)
        by_name = {p["name"]: p for p in f["params"]}
        for e in f["doc"]:
            d = (by_name.get(e["name"]) or {}).get("default")
            if "typ" in e or f["style"] == "numpydoc":
                e["typ"] = _type_of_default(d)
        f["trailer"] = False
        f["brace_opts"] = False
        if r.random() < 0.5:
            name = "Thing%d" % i
            f["method"] = True
            src = defgen.class_init_src(f).replace("class ConfigClass", "class %s" % name)
            if r.random() < 0.3:
                # a nested class with a constructor of its own (Django/pydantic style `class Meta:` / `class Config:`)
                src += "\n    class %s(object):\n        def __init__(self, managed=True, label='x'):\n            self.managed = managed\n" % r.choice(["Meta", "Config"])
            entries.append((name, "class", f))
        else:
            name = "func%d" % i
            f["method"] = False
            f["name"] = name
            src = defgen.function_src(f).replace("    return None\n", "    value = %d\n    return value\n" % i)
            entries.append((name, "function", f))
        parts.append(src)
    imports = r.sample(IMPORT_LINES[:4], r.randint(0, 3))
    if r.random() < 0.35:
        imports = [IMPORT_LINES[4]] + imports
    head = "".join(l + "\n" for l in imports)
    if "from typing import Optional" not in imports:
        head += "from typing import Optional\n"
        imports = imports + ["from typing import Optional"]
    if "from collections import OrderedDict" not in imports:
        head += "from collections import OrderedDict\n"
        imports = imports + ["from collections import OrderedDict"]
    head += "from typing import List, Literal\n"
    imports = imports + ["from typing import List, Literal"]
    pairs = "(%s,)" % ", ".join("(%r, %s)" % (n_, n_) for n_, _, _ in entries)
    # the mapping as projects keep it: an OrderedDict, a plain dict, a sequence of pairs, a read-only view, a UserDict,
    # a ChainMap (every one of them ordered; named without an import line of its own)
    form = r.choice(["OrderedDict(%s)"] * 5 + ["dict(%s)", "%s", '__import__("types").MappingProxyType(OrderedDict(%s))',
                                                '__import__("collections").UserDict(OrderedDict(%s))', '__import__("collections").ChainMap(OrderedDict(%s))'])  # fmt: skip
    mapping = "MAPPING = %s\n" % (form % pairs)
    return head + "\n\n" + "\n\n".join(parts) + "\n\n" + mapping, entries, imports, annotated


def dotted_name(c):
    """name of the input module of a case (a function of its contents): `c19m_<crc>`, or `c19p_<crc>.mod` inside a package"""
    import zlib

    crc = zlib.crc32(json.dumps([c["module"], c["type"], c["tpl"], c.get("imports_form")], sort_keys=True).encode())
    return ("c19p_%08x.mod" if c.get("imports_form") == "pkg_symbol" else "c19m_%08x") % crc


def effective_prepend(c):
    return c["prepend"].replace("@MOD@", dotted_name(c)) if c["prepend"] else c["prepend"]


class C19(Prop):
    id = "C19"
    quick_cases = 400
    thorough_cases = 3000
    time_budget = {"quick": 150, "thorough": 1500}
    rule = (
        "case = a generated input module (1-4 entries: classes documented in their docstring with parameters in "
        "__init__, and functions; annotated or not; 0-4 import lines incl. __future__) x output type in "
        "class/function/argparse x name template x with/without prepend text and imports-from-file. Each run imports the "
        "module from a scratch directory and calls the real gen(). Non-trivial = at least 2 entries; distinct by (module "
        "source, options)."
    )

    def setup(self, run):
        from doctrans.gen import gen

        self.gen_fn = gen

    def gen(self, r, i, run):
        src, entries, imports, annotated = make_module(r)
        c = {
            "annotated": annotated,
            "module": src,
            "entries": [[n, k] for n, k, _ in entries],
            "imports": imports,
            "type": r.choice(["class", "function", "argparse"]),
            "tpl": r.choice(TEMPLATES),
            # (the last three: text that CONTAINS the text of an import line of the input module without being it)
            "prepend": r.choice([None, None, "PREPENDED = 1\n", '"""Generated module."""\n', "import json\nLEVEL = 2\n",
                                 "import os.path as osp\n", "import sysconfig\nfrom typing import Optional, List\n",
                                 "NOTE = 'needs import sys and import os'\n", "REGISTRY = {}\nKNOWN = {'a', 'b'}\n"]),
            "use_imports": r.random() < 0.5,
        }
        # how --imports-from-file names the file: its path, the module's name, a symbol of the module / of a module inside
        # a package (resolved through the import the prepended text makes)
        c["imports_form"] = "path"
        if c["use_imports"] and r.random() < 0.4:
            c["imports_form"] = r.choice(["module", "symbol", "pkg_symbol"])
            if c["imports_form"] != "module":
                c["prepend"] = "import @MOD@\n"
        run.dist["type"][c["type"]] += 1
        run.dist["entries"][len(entries)] += 1
        run.dist["prepend"][str(bool(c["prepend"]))] += 1
        run.dist["imports_from_file"][c["use_imports"]] += 1
        run.dist["imports_form"][c["imports_form"] if c["use_imports"] else "-"] += 1
        return c

    def nontrivial(self, c):
        return len(c["entries"]) >= 2

    def describe(self, c):
        return c

    def shrink_candidates(self, c):
        return []

    def run_gen(self, c):
        d = tempfile.mkdtemp(prefix="c19")
        _counter[0] += 1
        modname = dotted_name(c)
        form = c.get("imports_form", "path")
        try:
            if form == "pkg_symbol":
                os.mkdir(os.path.join(d, modname.split(".")[0]))
                open(os.path.join(d, modname.split(".")[0], "__init__.py"), "w").close()
            modfile = os.path.join(d, *modname.split(".")) + ".py"
            with open(modfile, "w") as f:
                f.write(c["module"])
            sys.path.insert(0, d)
            importlib.invalidate_caches()
            out = os.path.join(d, "generated.py")
            buf = io.StringIO()
            named = {"path": modfile, "module": modname}.get(form, "%s.%s" % (modname, c["entries"][0][0]))
            try:
                with contextlib.redirect_stdout(buf):
                    self.gen_fn(
                        name_tpl=c["tpl"], input_mapping="%s.MAPPING" % modname, type_=c["type"], output_filename=out,
                        prepend=effective_prepend(c), imports_from_file=named if c["use_imports"] else None,
                    )  # fmt: skip
                outcome = "ok"
            except Exception as e:
                import traceback

                outcome = "raises:%s:%s" % (exc_kind(e), traceback.format_exc()[-400:])
            text = open(out).read() if os.path.exists(out) else None
            return outcome, text
        finally:
            if d in sys.path:
                sys.path.remove(d)
            sys.modules.pop(modname, None)
            sys.modules.pop(modname.split(".")[0], None)
            shutil.rmtree(d, ignore_errors=True)

    def refusal(self, c):
        """`gen` through the CLI with an output file that already exists, named in one of four spellings (absolute,
        relative to the working directory, through an unexpanded `~` with HOME = the scratch directory, through a `..`
        detour); -> None when refused with the file and its directory untouched, else a failure"""
        import json
        import zlib

        how = ["absolute", "relative", "tilde", "dotdot"][zlib.crc32(json.dumps(c, sort_keys=True).encode()) % 4]
        d = tempfile.mkdtemp(prefix="c19r")
        _counter[0] += 1
        modname = "c19ref_%d_%d" % (os.getpid(), _counter[0])
        old_home, old_cwd = os.environ.get("HOME"), os.getcwd()
        try:
            with open(os.path.join(d, modname + ".py"), "w") as f:
                f.write(c["module"])
            os.mkdir(os.path.join(d, "sub"))
            out = os.path.join(d, "existing.py")
            with open(out, "w") as f:
                f.write("KEEP = 1\n")
            spelled = {"absolute": out, "relative": "existing.py", "tilde": "~/existing.py", "dotdot": os.path.join(d, "sub", "..", "existing.py")}[how]
            os.environ["HOME"] = d
            os.chdir(d)
            sys.path.insert(0, d)
            importlib.invalidate_caches()
            before = {n: open(os.path.join(d, n)).read() for n in sorted(os.listdir(d)) if n.endswith(".py")}
            buf = io.StringIO()
            outcome = "completed"
            try:
                with contextlib.redirect_stdout(buf), contextlib.redirect_stderr(buf):
                    from doctrans.__main__ import main

                    main(["gen", "--name-tpl", c["tpl"], "--input-mapping", modname + ".MAPPING", "--type", c["type"], "-o", spelled]
                         + (["--prepend", c["prepend"].replace("@MOD@", modname)] if c["prepend"] else [])
                         + (["--imports-from-file", os.path.join(d, modname + ".py")] if c["use_imports"] else []))  # fmt: skip
            except SystemExit as e:
                outcome = "exit-%s" % e.code
            except Exception as e:
                outcome = "raises:" + exc_kind(e)
            after = {n: open(os.path.join(d, n)).read() for n in sorted(os.listdir(d)) if n.endswith(".py")}
            stray = [n for n in os.listdir(d) if n not in ("sub", "__pycache__") and not n.endswith(".py")]
            if outcome == "completed" or after != before or stray:
                return {"what": "gen did not refuse an output file that already exists (or touched it / its directory)", "spelled": how,
                        "outcome": outcome, "existing file changed": after.get("existing.py") != before.get("existing.py"), "stray": stray}  # fmt: skip
            return None
        finally:
            os.chdir(old_cwd)
            if old_home is None:
                os.environ.pop("HOME", None)
            else:
                os.environ["HOME"] = old_home
            if d in sys.path:
                sys.path.remove(d)
            sys.modules.pop(modname, None)
            shutil.rmtree(d, ignore_errors=True)

    def _observe(self, c):
        import json

        k = json.dumps(c, sort_keys=True)
        if getattr(self, "_k", None) != k:
            self._v = self.run_gen(c)
            self._k = k
        return self._v

    def expected_names(self, c):
        return [c["tpl"].format(name=n) for n, _ in c["entries"]]

    def corr(self, c, run):
        outcome, text = self._observe(c)
        if outcome != "ok" or text is None:
            return []
        try:
            tree = ast.parse(text)
        except SyntaxError:
            return []
        # production order: prepend statements, imports of the file, one definition per entry, __all__
        stmts = []
        doc_first = False
        if c["prepend"]:
            for s in ast.parse(effective_prepend(c)).body:
                if isinstance(s, (ast.Import, ast.ImportFrom)):
                    stmts.append(["imp", getattr(s, "module", None) == "__future__", ast.unparse(s)])
                else:
                    if isinstance(s, ast.Expr) and isinstance(getattr(s, "value", None), ast.Constant) and isinstance(s.value.value, str) and not stmts:
                        doc_first = True
                    stmts.append(["other", None, ast.unparse(s)])
        if c["use_imports"]:
            for s in ast.parse(c["module"]).body:
                if isinstance(s, (ast.Import, ast.ImportFrom)):
                    stmts.append(["imp", s.module == "__future__" if isinstance(s, ast.ImportFrom) else False, ast.unparse(s)])
        for nm in self.expected_names(c):
            stmts.append(["other", nm, nm])
        stmts.append(["other", None, "__all__"])
        if doc_first:
            return []  # a module docstring is kept in front of the imports: outside the modelled assembly
        got = []
        for s in tree.body:
            if isinstance(s, (ast.Import, ast.ImportFrom)):
                got.append(["imp", getattr(s, "module", None) == "__future__", ast.unparse(s)])
            elif isinstance(s, (ast.ClassDef, ast.FunctionDef)):
                got.append(["other", s.name, s.name])
            elif isinstance(s, ast.Assign) and any(isinstance(t, ast.Name) and t.id == "__all__" for t in s.targets):
                got.append(["other", None, "__all__"])
            else:
                got.append(["other", None, ast.unparse(s)])
        return [("gen_hoist", {"op": "gen_hoist", "stmts": stmts}, {"ok": got})]

    def oracle(self, c, run):
        outcome, text = self._observe(c)
        ref = self.refusal(c)
        if outcome != "ok":
            return [{"what": "gen raised", "outcome": outcome[:600]}] + ([ref] if ref else [])
        fails = [ref] if ref else []
        try:
            tree = ast.parse(text)
        except SyntaxError as e:
            return [{"what": "generated module does not parse", "error": str(e), "text": text[:800]}]
        try:
            compile(text, "<generated>", "exec")
        except SyntaxError as e:
            fails.append({"what": "generated module parses but does not compile", "error": str(e), "text": text[:600]})
        want = self.expected_names(c)
        defs = [s for s in tree.body if isinstance(s, (ast.ClassDef, ast.FunctionDef))]
        got = [s.name for s in defs]
        if got != want:
            fails.append({"what": "definitions are not exactly one per mapping entry, named by the template, in mapping order", "want": want, "got": got})
        kind_ok = {"class": ast.ClassDef, "function": ast.FunctionDef, "argparse": ast.FunctionDef}[c["type"]]
        if any(not isinstance(s, kind_ok) for s in defs):
            fails.append({"what": "a generated definition is not of the requested type", "type": c["type"]})
        alls = [s for s in tree.body if isinstance(s, ast.Assign) and any(isinstance(t, ast.Name) and t.id == "__all__" for t in s.targets)]
        if len(alls) != 1:
            fails.append({"what": "__all__ is not defined exactly once", "count": len(alls)})
        else:
            try:
                listed = list(ast.literal_eval(alls[0].value))
            except Exception:
                listed = None
            if listed != want:
                fails.append({"what": "__all__ does not list exactly the generated names", "want": want, "got": listed})
            if tree.body.index(alls[0]) < max([tree.body.index(s) for s in defs] or [-1]):
                fails.append({"what": "__all__ does not follow the definitions"})
        first_def = min([tree.body.index(s) for s in defs] or [len(tree.body)])
        if c["prepend"]:
            for s in ast.parse(effective_prepend(c)).body:
                hits = [i for i, t in enumerate(tree.body) if ast.dump(t) == ast.dump(s)]
                if len(hits) != 1 or hits[0] > first_def:
                    fails.append({"what": "prepended statement does not appear exactly once before the definitions", "stmt": ast.unparse(s), "positions": hits})
        if c["use_imports"]:
            for s in ast.parse(c["module"]).body:
                if isinstance(s, (ast.Import, ast.ImportFrom)):
                    hits = [i for i, t in enumerate(tree.body) if ast.dump(t) == ast.dump(s)]
                    if len(hits) != 1 or hits[0] > first_def:
                        fails.append({"what": "import of the named file does not appear exactly once before the definitions", "stmt": ast.unparse(s), "positions": hits})
        # each definition describes the interface of its source object: parameter names, in source order
        from ..syncbase import parse_def

        src_tree = ast.parse(c["module"])
        for (name, kind), d in zip(c["entries"], defs):
            src_node = [s for s in src_tree.body if getattr(s, "name", None) == name][0]
            fdef = [n for n in (src_node.body if isinstance(src_node, ast.ClassDef) else [src_node]) if isinstance(n, ast.FunctionDef)][0]
            sig = [a.arg for a in fdef.args.args + fdef.args.kwonlyargs if a.arg not in ("self", "cls")]
            names = interface_names(c["type"], d)
            if c["type"] == "argparse":
                foreign = [ast.unparse(x) for x in d.body if not _argparse_stmt_ok(x)]
                last = d.body[-1] if d.body else None
                if foreign:
                    fails.append({"what": "foreign statement in a generated argparse function", "name": d.name, "statements": foreign[:3]})
                if not (isinstance(last, ast.Return) and "argument_parser" in ast.unparse(last)):
                    fails.append({"what": "generated argparse function does not end by returning the parser", "name": d.name})
            if sorted(names) != sorted(sig):
                fails.append({"what": "generated definition does not have the parameters of its source object", "name": d.name, "want": sig, "got": names})
            else:
                # ... and every literal default of the source signature belongs to the same parameter afterwards
                pos = fdef.args.args
                src_defaults = dict(zip([a.arg for a in pos[len(pos) - len(fdef.args.defaults):]], fdef.args.defaults))
                src_defaults.update({a.arg: dv for a, dv in zip(fdef.args.kwonlyargs, fdef.args.kw_defaults) if dv is not None})
                got_defaults = interface_defaults(c["type"], d)
                for pn, dv in src_defaults.items():
                    try:
                        want = ast.literal_eval(dv)
                    except Exception:
                        continue
                    if want is None or pn not in got_defaults:
                        continue
                    have = got_defaults[pn]
                    if not (type(have) is type(want) and have == want):
                        fails.append({"what": "a default of the source signature is not the default of the same parameter in the generated definition", "name": d.name, "param": pn, "want": repr(want), "got": repr(have)})
        return fails

    def classify(self, c, fl):
        # (measured on the unchanged tree: annotated callables make gen raise SyntaxError - the text "<class 'int'>" parsed
        # as a type - or IndexError - an empty default under such a type; nothing else, and never without annotations)
        if fl.get("what") == "gen raised" and c.get("annotated") and str(fl.get("outcome", "")).split(":")[1:2] in (["SyntaxError"], ["IndexError"]):
            return "C19-D18-annotated-callable-raises"
        return None


def _argparse_stmt_ok(x):
    if isinstance(x, ast.Expr) and isinstance(x.value, ast.Constant) and isinstance(x.value.value, str):
        return True
    if isinstance(x, ast.Assign) and ast.unparse(x.targets[0]) == "argument_parser.description":
        return True
    if isinstance(x, ast.Expr) and isinstance(x.value, ast.Call) and ast.unparse(x.value.func) == "argument_parser.add_argument":
        return True
    return isinstance(x, ast.Return)


_ABSENT = object()


def interface_defaults(type_, node):
    """{parameter name: literal default (or _ABSENT)} of a generated definition, read from its syntax tree; names whose
    default is not a literal are left out"""
    out = {}

    def lit(v):
        try:
            return ast.literal_eval(v)
        except Exception:
            return None

    if type_ == "class":
        for s in node.body:
            if isinstance(s, ast.AnnAssign) and isinstance(s.target, ast.Name):
                out[s.target.id] = _ABSENT if s.value is None else lit(s.value)
    elif type_ == "function":
        pos = node.args.args
        for a in pos + node.args.kwonlyargs:
            out[a.arg] = _ABSENT
        for a, dv in zip(pos[len(pos) - len(node.args.defaults):], node.args.defaults):
            out[a.arg] = lit(dv)
        for a, dv in zip(node.args.kwonlyargs, node.args.kw_defaults):
            if dv is not None:
                out[a.arg] = lit(dv)
    else:
        for s in ast.walk(node):
            if isinstance(s, ast.Call) and isinstance(s.func, ast.Attribute) and s.func.attr == "add_argument" and s.args:
                kw = {k.arg: k.value for k in s.keywords}
                out[s.args[0].value.lstrip("-")] = lit(kw["default"]) if "default" in kw else _ABSENT
    return out


def interface_names(type_, node):
    """the parameter names a generated definition declares, read directly from its syntax tree"""
    if type_ == "class":
        return [s.target.id for s in node.body if isinstance(s, ast.AnnAssign) and isinstance(s.target, ast.Name) and s.target.id != "return_type"]
    if type_ == "function":
        return [a.arg for a in node.args.args + node.args.kwonlyargs if a.arg not in ("self", "cls")]
    out = []
    for s in ast.walk(node):
        if isinstance(s, ast.Call) and isinstance(s.func, ast.Attribute) and s.func.attr == "add_argument" and s.args:
            out.append(s.args[0].value.lstrip("-"))
    return out


PROP = C19()
