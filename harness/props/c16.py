"""
C16 — implementation bodies are carried through conversions verbatim.

Model tie: Body.parseBody/emitBody (the list surgery of parse.function + emit.function) and Body.rwNode
(emitter_utils.RewriteName) over the generic tree vs the real code.
Predicate: statement lists compared by ast.dump (order, count, final return once); the __call__ body is
compared with an independent, scope-aware renamer.
"""
import ast
import copy
import random

from .. import gen as G
from ..astjson import node_to_json
from ..common import exc_kind
from ..engine import Prop

PARAMS = ["dataset_name", "epochs", "lr", "verbose"]
STMTS = [
    "data = load({p0}, {p1})",
    "total = compute(5, {p1}={p1})",
    "result = helper({p0}={p1}, other=3)",
    "for i in range({p1}):\n    total = step(total, i)",
    "if {p1} > 3:\n    return {p0}",
    "while total < {p1}:\n    total += 1",
    "values = [x * {p1} for x in range(3)]",
    "print({p0}, sep='')",
    "cfg = dict(name={p0})",
    "total = total + 1",
    "obj.{p0} = 5",
    "with open({p0}) as fh:\n    text = fh.read()",
    "try:\n    check({p1})\nexcept ValueError as e:\n    raise",
    # annotated statements; locals named like the keys the description uses internally
    "total: int = 0",
    "last: int",
    "seen: list = [{p0}]",
    "return_type = {p1} * 2",
    "params = dict(doc={p0})",
    "del total",
    "assert {p1} is not None, 'message'",
    "global CACHE",
]
SHADOWING = [
    "def inner({p1}):\n    return {p1} + 1",
    "fn = lambda {p1}: {p1} * 2",
    "squares = [{p1} for {p1} in range(3)]",
    "{p1} = {p1} + 1",
]


def normalise(stmt):
    """a statement as the parser would produce it from its own text"""
    return ast.parse(ast.unparse(stmt)).body[0]


def indent(s, n):
    return "\n".join(" " * n + l for l in s.split("\n"))


def gen_function_src(r, allow_shadow=True):
    n = r.randint(0, 3)
    ps = PARAMS[:n] if r.random() < 0.5 else r.sample(PARAMS, n)
    method = r.random() < 0.4
    sig = ", ".join((["self"] if method else []) + ["%s=%s" % (p, r.choice(["1", "'a'", "None", "0.5"])) for p in ps])
    doc = '    """\n    Summary of it.\n\n' + "".join("    :param %s: the %s.\n\n" % (p, p) for p in ps) + '    """\n'
    body = []
    shadow = False
    for _ in range(r.randint(0, 5)):
        if allow_shadow and r.random() < 0.12:
            t = r.choice(SHADOWING)
            shadow = True
        else:
            t = r.choice(STMTS)
        body.append(t.format(p0=ps[0] if ps else "name", p1=ps[-1] if ps else "count"))
    ret = r.choice([None, "return total", "return %s" % (ps[0] if ps else "name"), "return (%s, 1)" % (ps[-1] if ps else "count"), "return", "return helper(flag=True)",
                    "return 0", "return False", "return 0.0", "return 5", "return ''", "return 'done'", "return None", "return True", "return -1"])
    if ret:
        body.append(ret)
    if not body:
        body = ["pass"]
    src = "def call_peril(%s):\n%s%s\n" % (sig, doc, indent("\n".join(body), 4))
    return src, ps, method, shadow


class Renamer(ast.NodeTransformer):
    """independent, scope-aware reference renamer: free references to `names` become self.<name>"""

    def __init__(self, names):
        self.names = set(names)

    def visit_Name(self, node):
        if node.id in self.names:
            return ast.copy_location(ast.Attribute(ast.Name("self", ast.Load()), node.id, ast.Load()), node)
        return node

    def _scoped(self, node, bound):
        saved = self.names
        self.names = self.names - set(bound)
        self.generic_visit(node)
        self.names = saved
        return node

    def visit_FunctionDef(self, node):
        return self._scoped(node, [a.arg for a in node.args.args + node.args.kwonlyargs])

    def visit_Lambda(self, node):
        return self._scoped(node, [a.arg for a in node.args.args + node.args.kwonlyargs])

    def _comp(self, node):
        bound = [n.id for g in node.generators for n in ast.walk(g.target) if isinstance(n, ast.Name)]
        return self._scoped(node, bound)

    visit_ListComp = visit_SetComp = visit_GeneratorExp = visit_DictComp = _comp


class C16(Prop):
    id = "C16"
    quick_cases = 700
    thorough_cases = 20000
    rule = (
        "case = a generated function or method (1-3 parameters, ReST docstring) whose body is 0-5 statements drawn from "
        "assignments, calls with keyword arguments named like parameters, loops, conditionals with early returns, "
        "comprehensions, with/try blocks, attribute stores (12%: nested function / lambda / comprehension / assignment "
        "shadowing a parameter) and an optional final return; or an argparse function with extra statements. "
        "Non-trivial = body of at least 2 statements; distinct by source text."
    )

    def setup(self, run):
        from doctrans import emit, parse
        from doctrans.emitter_utils import RewriteName

        self.emit, self.parse, self.RewriteName = emit, parse, RewriteName

    def gen(self, r, i, run):
        if r.random() < 0.2:
            extra = [r.choice(STMTS[:3] + STMTS[7:10]).format(p0="argument_parser", p1="argument_parser") for _ in range(r.randint(1, 3))]
            if r.random() < 0.3:
                # `.add_argument` on another receiver (an argument group) is an ordinary statement, not an interface entry
                extra += r.choice([
                    ["verbosity = argument_parser.add_mutually_exclusive_group()", "verbosity.add_argument('--quiet', action='store_true')"],
                    # a sub-command's parser: its name ends like the interface parser's
                    ["subparser = argument_parser.add_subparsers().add_parser('fit')", "subparser.add_argument('--split', type=str, default='train')"],
                    ["arg_parser = make_parent()", "arg_parser.add_argument('--seed', type=int, default=3)"],
                ])
            run.dist["family"]["argparse"] += 1
            # the final return: the bare parser, the documented pair, or a tuple of another shape (all carried verbatim)
            ret = r.choice(["return argument_parser", "return argument_parser", "return argument_parser, total",
                            "return argument_parser, len(values), 'done'", "return argument_parser.parse_known_args, total"])  # fmt: skip
            run.dist["argparse_return"][ret] += 1
            return {"family": "argparse", "extra": extra, "ret": ret}
        src, ps, method, shadow = gen_function_src(r)
        run.dist["family"]["function"] += 1
        run.dist["shadowing"][shadow] += 1
        run.dist["stmts"][min(src.count("\n") - 6, 9)] += 1
        return {"family": "function", "src": src, "params": ps, "method": method, "shadow": shadow}

    def nontrivial(self, c):
        return c["family"] == "argparse" or c["src"].count("\n") > 10

    def describe(self, c):
        return c

    def shrink_candidates(self, c):
        if c["family"] != "function":
            return
        t = ast.parse(c["src"]).body[0]
        for k in range(1, len(t.body)):
            if len(t.body) <= 2:
                break
            t2 = copy.deepcopy(t)
            del t2.body[k]
            d = dict(c)
            d["src"] = ast.unparse(t2) + "\n"
            yield d

    # ---- helpers -------------------------------------------------------------------------------
    def _roundtrip_function(self, c):
        tree = ast.parse(c["src"]).body[0]
        ftype = "self" if c["method"] else "static"
        ir = self.parse.function(copy.deepcopy(tree))
        out = self.emit.function(ir, function_name="call_peril", function_type=ftype)
        return tree, ir, out

    def corr(self, c, run):
        if c["family"] != "function":
            return []
        res = []
        tree = ast.parse(c["src"]).body[0]
        # (1) RewriteName on the whole function body
        mod = ast.Module(body=copy.deepcopy(tree.body[1:]), type_ignores=[])
        try:
            got = self.RewriteName(list(c["params"])).visit(copy.deepcopy(mod))
            impl = {"ok": node_to_json(got)}
        except Exception as e:
            impl = {"raises": exc_kind(e)}
        res.append(("rewrite_names", {"op": "rewrite_names", "tree": node_to_json(mod), "names": list(c["params"])}, impl))
        # (2) the list surgery of parse.function + emit.function
        try:
            _, ir, out = self._roundtrip_function(c)
            stmts = [normalise(s) for s in tree.body]
            last = stmts[-1] if isinstance(stmts[-1], ast.Return) else None
            has_ret_default = bool(((ir.get("returns") or {}).get("return_type") or {}).get("default"))
            op = {
                "op": "emit_body",
                "doc": node_to_json(normalise(out.body[0])),
                "stmts": [node_to_json(s) for s in stmts],
                "ret": node_to_json(last) if (has_ret_default and last is not None) else None,
            }
            impl = {"ok": [{"n": node_to_json(normalise(s))} for s in out.body]}
            res.append(("emit_body", op, impl))
        except Exception as e:
            pass  # the predicate reports a raising round trip
        return res

    # ---- the property on the real code ---------------------------------------------------------------
    def oracle(self, c, run):
        if c["family"] == "argparse":
            return self.oracle_argparse(c, run)
        fails = []
        try:
            tree, ir, out = self._roundtrip_function(c)
        except Exception as e:
            return [{"what": "function round trip raised", "exc": exc_kind(e)}]
        want = [ast.dump(normalise(s)) for s in tree.body[1:]]
        got = [ast.dump(normalise(s)) for s in out.body[1:]]
        if want != ["Pass()"] and got != want:
            fails.append({"what": "function body not carried verbatim", "want": [ast.unparse(s) for s in tree.body[1:]], "got": [ast.unparse(s) for s in out.body[1:]]})
        # the same description OBJECT through the class emitter (which rewrites names in the body it is given) and then
        # through the function emitter again: the carried body is still the original one
        try:
            ir_shared = copy.deepcopy(ir)
            self.emit.class_(ir_shared, emit_call=True)
            again = self.emit.function(ir_shared, function_name="call_peril", function_type="self" if c["method"] else "static", emit_default_doc=False)
            got2 = [ast.dump(normalise(s)) for s in again.body[1:]]
            if want != ["Pass()"] and got2 != want:
                fails.append({"what": "function body not carried verbatim after the same description went through the class emitter", "want": [ast.unparse(s) for s in tree.body[1:]], "got": [ast.unparse(s) for s in again.body[1:]]})
        except Exception:
            pass
        # a method read through its class (`parse.class_(..., merge_inner_function=<method>)`): the description carries the
        # METHOD's body, and the function emitter gives it back as the plain round trip does
        if c["method"]:
            try:
                holder = "class Holder(object):\n    \"\"\"\n    Holder of it.\n\n    :cvar alpha0: an attribute\n    \"\"\"\n\n    alpha0: int = 1\n\n" + indent(c["src"], 4) + "\n"
                ir_m = self.parse.class_(ast.parse(holder).body[0], merge_inner_function="call_peril")
                out_m = self.emit.function(ir_m, function_name="call_peril", function_type="self", emit_default_doc=False)
                got_m = [ast.dump(normalise(s)) for s in out_m.body[1:]]
                if want != ["Pass()"] and got_m != got:
                    fails.append({"what": "method body not carried when the method is read through its class (merge_inner_function)", "want": [ast.unparse(s) for s in out.body[1:]], "got": [ast.unparse(s) for s in out_m.body[1:]]})
            except Exception as e:
                fails.append({"what": "reading a method through its class raised", "exc": exc_kind(e)})
        # __call__
        try:
            cls = self.emit.class_(copy.deepcopy(ir), emit_call=True)
        except Exception as e:
            fails.append({"what": "class emission with __call__ raised", "exc": exc_kind(e)})
            return fails
        calls = [s for s in cls.body if isinstance(s, ast.FunctionDef) and s.name == "__call__"]
        body_stmts = tree.body[1:]
        if body_stmts and ast.dump(body_stmts[0]) != "Pass()":
            if not calls:
                fails.append({"what": "__call__ missing although a body was carried"})
            else:
                expected = []
                ren = Renamer(c["params"])
                for s in body_stmts:
                    expected.append(ast.dump(normalise(ren.visit(copy.deepcopy(s)))))
                gotc = [ast.dump(normalise(s)) for s in calls[0].body if not (isinstance(s, ast.Expr) and isinstance(getattr(s, "value", None), ast.Constant) and isinstance(s.value.value, str))]
                if gotc != expected:
                    fails.append(
                        {
                            "what": "__call__ body is not the original body with exactly the parameter references renamed",
                            "want": [ast.unparse(normalise(Renamer(c["params"]).visit(copy.deepcopy(s)))) for s in body_stmts],
                            "got": [ast.unparse(s) for s in calls[0].body],
                        }
                    )
        return fails

    def oracle_argparse(self, c, run):
        ir_j = {"doc": "Summary of it.", "params": [("dataset_name", {"typ": "str", "doc": "the name.", "default": "mnist"})], "returns": None}
        if "," in c["ret"]:
            # a tuple is returned: the function documents `Tuple[ArgumentParser, T]` (what the parser reads the second type from)
            ir_j["returns"] = {"typ": "int", "doc": "the total", "default": "```total```"}
        try:
            base = self.emit.argparse_function(G.to_py_ir(ir_j), function_name="set_cli_args")
            src = ast.unparse(ast.fix_missing_locations(ast.Module(body=[base], type_ignores=[])))
            t = ast.parse(src).body[0]
            assert isinstance(t.body[-1], ast.Return)
            extra = [ast.parse(x).body[0] for x in c["extra"]]
            t.body = t.body[:-1] + extra + [ast.parse(c["ret"]).body[0]]
            t = ast.parse(ast.unparse(t)).body[0]
            ir = self.parse.argparse_ast(copy.deepcopy(t))
            out = self.emit.argparse_function(ir, function_name="set_cli_args")
        except Exception as e:
            return [{"what": "argparse round trip with extra statements raised", "exc": exc_kind(e)}]

        def nonif(body):
            res = []
            for s in body:
                d = ast.dump(normalise(s))
                # (interface statements: `argument_parser.add_argument(...)`, `argument_parser.description = ...`, the docstring;
                # `.add_argument` on any other receiver is an ordinary statement)
                if isinstance(s, ast.Expr) and isinstance(s.value, ast.Call) and ast.unparse(s.value.func) == "argument_parser.add_argument":
                    continue
                if isinstance(s, ast.Assign) and ast.unparse(s.targets[0]) == "argument_parser.description":
                    continue
                if isinstance(s, ast.Expr) and isinstance(s.value, ast.Constant):
                    continue
                res.append(d)
            return res

        want, got = nonif(t.body), nonif(out.body)
        if want != got:
            return [{"what": "extra statements of the argparse function not carried verbatim", "want": [ast.unparse(s) for s in t.body], "got": [ast.unparse(s) for s in out.body]}]
        return []

    def classify(self, c, fl):
        if c["family"] == "function" and c.get("shadow") and "__call__" in fl.get("what", ""):
            return "C16-D19-rewrite-name-ignores-scopes"
        return None


PROP = C16()
