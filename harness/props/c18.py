"""
C18 — word-wrapping and line-length configuration are semantically transparent.

Model tie: Wrap.fillSimple (greedy filling on the simple class of text) vs doctrans.pure_utils.fill
(= textwrap.fill at the configured width) in one sub-process per width.
Predicate (real code, per width): every emitter succeeds with word_wrap on; parse(wrapped) describes the
same interface as parse(unwrapped), prose compared modulo line breaks and runs of whitespace.
"""
import copy
import json
import os
import random
import subprocess

from .. import gen as G
from .. import irutil, kinds
from ..astkinds import AstKindProp
from ..common import VERIF, HarnessError
from ..engine import _n_cases
from ..irutil import diff_ir

QUICK_WIDTHS = [None, 40, 60, 80, 120, 200]
THOROUGH_WIDTHS = [None] + list(range(40, 201, 8))
KINDS = ("rest", "numpydoc", "google", "class", "function", "argparse")


def sized_prose(r, target):
    ws = []
    while len(" ".join(ws)) < target:
        ws.append(r.choice(G.WORDS))
    s = " ".join(ws)
    if len(s) > target + 6 and len(ws) > 1:
        s = " ".join(ws[:-1])
    return s + r.choice(["", ".", ","])


def exact_prose(r, n):
    """prose of exactly n characters (n >= 3), made of dictionary words plus one filler word"""
    ws = []
    while len(" ".join(ws)) + 8 < n:
        ws.append(r.choice(G.WORDS))
    s = " ".join(ws)
    rest = n - len(s) - (1 if s else 0)
    if rest > 0:
        s = (s + " " if s else "") + "q" * rest
    return s[:n]


class C18(AstKindProp):
    id = "C18"
    quick_cases = 420
    thorough_cases = 8000
    time_budget = {"quick": 200, "thorough": 1500}
    rule = (
        "case = (width in a sweep incl. unset, kind in rest/numpydoc/google/class/function/argparse, IR whose summary, "
        "prose and type strings are sized relative to the width: well below, about equal, 1.5-3x longer). Each width runs "
        "in its own sub-process (the setting is read at import). Per width a batch of simple texts goes through fill() "
        "for the model tie. Non-trivial = some text at least as long as the width; distinct by (width, kind, IR)."
    )

    def setup(self, run):
        widths = QUICK_WIDTHS if run.tier == "quick" else THOROUGH_WIDTHS
        n = _n_cases(self, run.tier)
        self.cases = []
        for i in range(n):
            r = run.sub_rng("c18", i)
            w = widths[i % len(widths)]
            weff = w or 100
            kind = r.choice(KINDS)
            sweep = r.random() < 0.35
            if sweep:
                kind = r.choice(["class", "rest", "function", "google", "argparse"])
            sizes = [r.choice([weff // 3, weff - 12, weff - 2, weff + 3, int(weff * 1.6), weff * 3]) for _ in range(6)]
            params = []
            for j, nm in enumerate(r.sample(G.NAMES, r.randint(1, 3))):
                typ = r.choice(["int", "str", "float", "bool", "Optional[int]", "Optional[str]"])
                if r.random() < 0.25:
                    k = max(2, sizes[j] // 10)
                    typ = "Literal[%s]" % ", ".join(repr(x) for x in r.sample(G.WORDS, min(k, len(G.WORDS))))
                if r.random() < 0.1:
                    typ = "Literal[%s]" % ", ".join(repr(x) for x in r.sample(["read only", "read write", "two words", "a b", "append only", "no access"], 4))
                p = {"typ": typ, "doc": sized_prose(r, sizes[j])}
                d = G.gen_default(r, typ, allow_code=False)
                if d[0] == "val" and d[1] != "":
                    p["default"] = d[1]
                if sweep:
                    # the line is "<indent>:param|:cvar <name>: <prose>. Defaults to <v>": slide its break point
                    # across the default sentence
                    p["doc"] = exact_prose(r, max(3, weff - len(nm) - 12 - (i // len(widths)) % 24 + 4))
                    if "default" not in p and not typ.startswith("Literal"):
                        p["default"] = {"int": 5, "str": "mnist", "float": 0.5, "bool": True, "Optional[int]": 7, "Optional[str]": "x"}.get(typ, 3)
                    opts_edd = True
                params.append((nm, p))
            ret = None
            if r.random() < 0.3 and kind not in ("argparse", "google"):
                ret = {"typ": r.choice(G.SCALARS), "doc": sized_prose(r, sizes[4])}
            irj = {"doc": sized_prose(r, sizes[5]), "params": params, "returns": ret}
            opts = {"emit_default_doc": True if sweep else r.random() < 0.7}
            if kind == "function":
                opts.update({"inline_types": r.random() < 0.5, "indent_level": r.choice([0, 1, 2])})
            self.cases.append({"width": w, "kind": kind, "ir": irutil.ir_to_json(irj), "opts": opts})
        # deterministic boundary sweep: slide the break point of an entry line across its default sentence
        sweep_widths = [None, 60, 120] if run.tier == "quick" else widths
        for w in sweep_widths:
            weff = w or 100
            for kind in ("class", "rest", "function"):
              # variant 0: prose on one line, the sentence written by the emitter; 1: the prose ALREADY ends with its
              # default sentence (what parse.docstring hands on); 2 / 3: the same with prose one line longer, so that the
              # sentence is broken on a continuation line
              for variant in (0, 1, 2, 3):
                for off in range(0, 26):
                    r = run.sub_rng("sweep", w, kind, off, variant)
                    names = r.sample(G.NAMES, 2)
                    params = []
                    for nm in names:
                        typ = r.choice(["int", "str", "float", "bool"])
                        dv = {"int": r.choice([5, 1024]), "str": "mnist", "float": 0.5, "bool": True}[typ]
                        n = max(3, weff - len(nm) - 4 - off) + (weff - 8 if variant >= 2 else 0)
                        doc = exact_prose(r, n)
                        if variant % 2 == 1:
                            doc = doc.rstrip(".") + ". Defaults to %s" % ('"%s"' % dv if typ == "str" else dv)
                        params.append((nm, {"typ": typ, "doc": doc, "default": dv}))
                    irj = {"doc": "Summary line.", "params": params, "returns": None}
                    opts = {"emit_default_doc": True}
                    if kind == "function":
                        opts.update({"inline_types": True, "indent_level": r.choice([0, 1, 2])})
                    self.cases.append({"width": w, "kind": kind, "ir": irutil.ir_to_json(irj), "opts": opts, "sweep": off + 1000 * variant})
        # ... and the argparse route with prose that already carries its default sentence (what parse.docstring hands on):
        # the sentence is taken out of the help text, wherever the line would have been broken
        for w in sweep_widths:
            weff = w or 100
            for off in range(0, 20):
                r = run.sub_rng("argsweep", w, off)
                names = r.sample(G.NAMES, 2)
                params = []
                for k, nm in enumerate(names):
                    typ = ["int", "str"][k]
                    dv = {"int": 32, "str": "mnist"}[typ]
                    params.append((nm, {"typ": typ, "doc": exact_prose(r, max(3, weff - off - 2 * k)).rstrip(".") + ". Defaults to %s" % dv, "default": dv}))
                irj = {"doc": "Summary line.", "params": params, "returns": None}
                self.cases.append({"width": w, "kind": "argparse", "ir": irutil.ir_to_json(irj), "opts": {"emit_default_doc": r.random() < 0.5}, "sweep": 300 + off})
        # deterministic sweeps of two more break situations: (a) one unbreakable token whose length slides up to the
        # width (it must not be cut), (b) a free-standing dash ("lo - hi") sliding across the end of a wrapped line
        for w in sweep_widths:
            weff = w or 100
            for kind in ("class", "rest", "function"):
                for off in range(0, 15):
                    r = run.sub_rng("token", w, kind, off)
                    nm = r.choice(G.NAMES)
                    tok = "/".join("seg%02d" % k for k in range(40))[: max(8, weff - off)]
                    params = [(nm, {"typ": "str", "doc": "the path " + tok + " is used"})]
                    opts = {"emit_default_doc": False}
                    if kind == "function":
                        opts.update({"inline_types": True, "indent_level": r.choice([0, 1, 2])})
                    self.cases.append({"width": w, "kind": kind, "ir": irutil.ir_to_json({"doc": "Summary line.", "params": params, "returns": None}), "opts": opts, "sweep": 100 + off})
                for off in range(0, 14):
                    r = run.sub_rng("dash", w, kind, off)
                    nm = r.choice(G.NAMES)
                    head = exact_prose(r, max(3, weff - len(nm) - 18 - off)).rstrip(".")
                    params = [(nm, {"typ": "int", "doc": head + " a4 - alpha_limit_028 and b7 - beta_limit_113 apply"})]
                    opts = {"emit_default_doc": False}
                    if kind == "function":
                        opts.update({"inline_types": True, "indent_level": r.choice([0, 1, 2])})
                    self.cases.append({"width": w, "kind": kind, "ir": irutil.ir_to_json({"doc": "Summary line.", "params": params, "returns": None}), "opts": opts, "sweep": 200 + off})
        # one sub-process per width
        by_w = {}
        for idx, c in enumerate(self.cases):
            by_w.setdefault(c["width"], []).append(idx)
        self.fill_probes = {}
        for w, idxs in by_w.items():
            r = run.sub_rng("fill", w)
            weff = w or 100
            probes = [sized_prose(r, r.choice([weff // 2, weff - 3, weff + 4, weff * 2, weff * 4])).rstrip(".,") for _ in range(40)]
            lines = [json.dumps({"fill": probes})] + [json.dumps(self.cases[i]) for i in idxs]
            env = dict(os.environ)
            env.pop("DOCTRANS_LINE_LENGTH", None)
            if w is not None:
                env["DOCTRANS_LINE_LENGTH"] = str(w)
            env["PYTHONDONTWRITEBYTECODE"] = "1"
            pr = subprocess.run(
                ["/venv/bin/python", os.path.join(VERIF, "harness", "c18_worker.py"), VERIF],
                input="\n".join(lines) + "\n", capture_output=True, text=True, env=env, cwd=VERIF,
            )  # fmt: skip
            outs = pr.stdout.splitlines()
            if len(outs) != len(lines):
                # the worker died: every emitter call at this width is a failure of "every emitter succeeds"
                self.fill_probes[w] = (probes, None, pr.stderr[-800:])
                for i in idxs:
                    self.cases[i]["_res"] = {"worker_died": pr.stderr[-300:]}
                continue
            first = json.loads(outs[0])
            self.fill_probes[w] = (probes, first["fill"], None)
            self.unwrap_probes = getattr(self, "unwrap_probes", {})
            self.unwrap_probes[w] = first.get("unwrap", [])
            for i, o in zip(idxs, outs[1:]):
                self.cases[i]["_res"] = json.loads(o)
        self._fill_done = False
        self.total_cases = len(self.cases)

    def gen(self, r, i, run):
        c = self.cases[i % len(self.cases)]
        run.dist["width"][str(c["width"])] += 1
        run.dist["kind"][c["kind"]] += 1
        return c

    def nontrivial(self, c):
        w = c["width"] or 100
        texts = [c["ir"]["doc"]] + [p.get("doc", "") for _, p in c["ir"]["params"]]
        return any(len(t) >= w for t in texts)

    def describe(self, c):
        return {k: c[k] for k in ("width", "kind", "opts", "ir")}

    def shrink_candidates(self, c):
        return []

    def corr(self, c, run):
        if self._fill_done:
            return []
        self._fill_done = True
        res = []
        for w, (probes, outs, err) in self.fill_probes.items():
            if outs is None:
                continue
            for t, o in zip(probes, outs):
                res.append(("fill", {"op": "fill", "text": t, "width": w or 100}, o))
        for w, uns in getattr(self, "unwrap_probes", {}).items():
            for u in uns:
                if "ok" in u and not u["ok"].startswith(("Optional", "(Optional)")):
                    res.append(("unwrap", {"op": "unwrap", "text": u["text"]}, {"ok": u["ok"]}))
        return res

    def canon_model(self, layer, op, ans):
        return ans

    def oracle(self, c, run):
        res = c["_res"]
        cls = self.classify(c, {})
        run.count("oracle:" + (cls or "in-domain"))
        if "worker_died" in res:
            return [{"what": "emitters could not run at this line length", "width": c["width"], "stderr": res["worker_died"]}]
        fails = []
        if "wrapped_emit" in res and "unwrapped_emit" not in res:
            fails.append({"what": "emitter raised with word_wrap on", "exc": res["wrapped_emit"], "width": c["width"], "kind": c["kind"]})
            return fails
        if "unwrapped_emit" in res:
            return fails  # not a wrapping matter (C01-C04)
        if "wrapped_parse" in res and "unwrapped_parse" not in res:
            fails.append({"what": "wrapped artefact no longer parses", "exc": res["wrapped_parse"], "width": c["width"], "kind": c["kind"], "text": res["wrapped_text"][:1500]})
            return fails
        if "unwrapped_parse" in res:
            return fails
        a = self.py_ir(res["unwrapped_ir"])
        b = self.py_ir(res["wrapped_ir"])
        d = diff_ir(a, b, ws=True, exact_prose=True)
        if d:
            fails.append({"what": "wrapped and unwrapped artefacts parse to different interfaces", "width": c["width"], "kind": c["kind"], "diffs": d, "text": res["wrapped_text"][:1500]})
        elif c["kind"] in ("function", "class") and "wrapped_again" in res and "unwrapped_again" in res:
            nw, nu = " ".join(res["wrapped_again"].split()), " ".join(res["unwrapped_again"].split())
            if nw != nu:
                fails.append({"what": "the next emission from the description read off the wrapped artefact differs from the one read off the unwrapped artefact", "width": c["width"], "kind": c["kind"],
                              "from_wrapped": res["wrapped_again"][:1200], "from_unwrapped": res["unwrapped_again"][:1200]})  # fmt: skip
        return fails

    def py_ir(self, j):
        return AstKindProp.py_ir(self, {"doc": j["doc"], "params": j["params"], "returns": j.get("returns")})

    def classify(self, c, fl):
        res = c.get("_res") or {}
        wt, ut = res.get("wrapped_text"), res.get("unwrapped_text")
        if wt is None or ut is None:
            return None
        differs = fl.get("what", "wrapped and unwrapped artefacts parse to different interfaces") == "wrapped and unwrapped artefacts parse to different interfaces"
        if c["kind"] == "numpydoc" and wt != ut and (differs or fl.get("what") == "wrapped artefact no longer parses"):
            return "C18-D20-numpydoc-continuation-lines-lose-their-indent"
        import re

        if c["kind"] == "function" and differs and re.search(r"Defaults\s*\n\s*to\b", wt):
            return "C18-D20-announcement-phrase-split-by-the-wrap"
        if c["kind"] in ("rest", "function") and differs and all(": typ " in d for d in fl.get("diffs", [])) and all(_only_line_break_kept(d) for d in fl.get("diffs", [])):
            for line in wt.split("\n"):
                ls = line.strip()
                if (ls.startswith(":type ") or ls.startswith(":rtype:")) and not ls.endswith("```"):
                    return "C18-D20-wrapped-type-line-keeps-the-line-break"
        return None


def _only_line_break_kept(d):
    """the recorded defect exactly: the wrapped type is the unwrapped one with a line break and its indentation where one
    blank was (nothing dropped, nothing merged)"""
    import ast
    import re

    m = re.match(r"^[^:]+: typ (.*) -> (.*)$", d, re.S)
    if not m:
        return False
    try:
        a, b = ast.literal_eval(m.group(1)), ast.literal_eval(m.group(2))
    except Exception:
        return False
    return isinstance(a, str) and isinstance(b, str) and "\n" in b and re.sub(r"[ \t]*\n[ \t]*", " ", b) == a


PROP = C18()
