"""
C07 — parsing source code is faithful to Python's own view of it.

Model tie: Merge.irMergeParams (parser_utils.ir_merge on the parameter maps, the set iteration order an
explicit argument) vs the real ir_merge. Predicate: inspect.signature of the executed definition vs the parsed
interface (names once, source order, signature defaults/annotations where the docstring is silent, documented
information wins, prose attached to the parameter it names).
"""
import ast
import copy
import inspect
import random
import typing

from .. import defgen, irutil
from ..common import canon_val, exc_kind, val_to_json
from ..engine import Prop
from ..irutil import canon_param, param_to_json

NS = dict(vars(typing))


def rt(v):
    return canon_val(val_to_json(v))


def _canon_default_text(v):
    if v is None or v in ("None", "```(None)```"):
        return "None"
    if isinstance(v, ast.AST):
        # (the recorded finding: a negative default under a documented str type is left as a node - it is the right
        # argument's default all the same, which is what this layer is about)
        try:
            v = ast.literal_eval(v)
        except Exception:
            return "<ast>"
    return "%s:%r" % (type(v).__name__, v)


class C07(Prop):
    id = "C07"
    quick_cases = 800
    thorough_cases = 25000
    rule = (
        "case = a generated function, method or class+__init__ (1-4 parameters: positional / keyword-only / **kwargs, "
        "annotated or not, with or without defaults; docstring in rest/numpydoc/google documenting all, some or none of "
        "them, in or out of signature order, with types that may conflict with the annotations). Every real ir_merge call "
        "made while parsing is one model-correspondence operation (recorded arguments, random iteration order for the "
        "model). Non-trivial = at least 2 parameters; distinct by source text."
    )

    def setup(self, run):
        from doctrans import parse, parser_utils

        self.parse, self.parser_utils = parse, parser_utils

    def gen(self, r, i, run):
        f = defgen.gen_def(r, containers=True, doc_defaults=True)
        form = r.choice(["function", "function", "class_init"])
        if form == "class_init":
            f["method"] = True
        run.dist["form"][form] += 1
        run.dist["coverage"][f["coverage"]] += 1
        run.dist["style"][f["style"]] += 1
        return {"facts": f, "form": form, "sigma_seed": r.randrange(1 << 30)}

    def nontrivial(self, c):
        return len(c["facts"]["params"]) >= 2

    def describe(self, c):
        return {"form": c["form"], "source": self.source(c)}

    def shrink_candidates(self, c):
        f = c["facts"]
        for k in range(len(f["params"])):
            if len(f["params"]) > 1:
                d = copy.deepcopy(c)
                nm = d["facts"]["params"][k]["name"]
                del d["facts"]["params"][k]
                d["facts"]["doc"] = [e for e in d["facts"]["doc"] if e["name"] != nm]
                yield d
        for k in range(len(f["doc"])):
            d = copy.deepcopy(c)
            del d["facts"]["doc"][k]
            yield d

    def source(self, c):
        return defgen.class_init_src(c["facts"]) if c["form"] == "class_init" else defgen.module_src(c["facts"])

    def parse_it(self, c, record=None, infer_type=False):
        src = self.source(c)
        mod = ast.parse(src)
        real = self.parser_utils.ir_merge
        if record is not None:

            def spy(target, other):
                t = [[k, param_to_json(v)] for k, v in (target.get("params") or {}).items()]
                o = [[k, param_to_json(v)] for k, v in (other.get("params") or {}).items()]
                res = real(target, other)
                record.append((t, o, [[k, param_to_json(v)] for k, v in (res.get("params") or {}).items()]))
                return res

            self.parser_utils.ir_merge = spy
            self.parse.ir_merge = spy
        try:
            kw = {"infer_type": True} if infer_type else {}
            if c["form"] == "class_init":
                return self.parse.class_(mod.body[0], merge_inner_function="__init__", **kw)
            node = mod.body[0].body[0] if c["facts"]["method"] else mod.body[0]
            return self.parse.function(node, **kw)
        finally:
            if record is not None:
                self.parser_utils.ir_merge = real
                self.parse.ir_merge = real

    def corr(self, c, run):
        rec = []
        try:
            self.parse_it(c, rec)
        except Exception:
            pass
        res = []
        res += self.pair_ops(c)
        r = random.Random(c["sigma_seed"])
        for t, o, out in rec:
            inter = [k for k, _ in o if k in {x for x, _ in t}]
            r.shuffle(inter)
            if any((p.get("default") or {}).get("t") == "other" for _, p in t + o):
                continue  # (a container default has no counterpart in the model's value grammar)
            op = {"op": "ir_merge", "target": t, "other": o, "sigma": inter}
            res.append(("ir_merge", op, {"ok": [[k, canon_param(p)] for k, p in out]}))
        return res

    def pair_ops(self, c):
        """Sig.pairArgs (which stored default belongs to which argument) vs the defaults parse.function attaches"""
        if c["form"] == "class_init":
            return []
        src = self.source(c)
        mod = ast.parse(src)
        node = mod.body[0].body[0] if c["facts"]["method"] else mod.body[0]
        a = node.args
        pos = [x.arg for x in a.args if x.arg not in ("self", "cls")]
        op = {"op": "pair_args", "args": pos, "defaults": [ast.unparse(d) for d in a.defaults],
              "kwonly": [x.arg for x in a.kwonlyargs], "kw_defaults": [None if d is None else ast.unparse(d) for d in a.kw_defaults]}  # fmt: skip
        c0 = copy.deepcopy(c)  # (the same signature under a docstring that documents no default: this layer is about the signature's)
        for e in c0["facts"]["doc"]:
            e.pop("default", None)
        try:
            ir = self.parse_it(c0)
        except Exception:
            return []
        got = []
        for n in pos + op["kwonly"]:
            q = ir["params"].get(n, {})
            got.append([n, _canon_default_text(q["default"]) if "default" in q else None])
        return [("pair_args", op, {"ok": got})]

    def canon_model(self, layer, op, ans):
        if layer == "pair_args" and "ok" in ans:
            return {"ok": [[n, None if t is None else _canon_default_text(ast.literal_eval(t))] for n, t in ans["ok"]]}
        if "ok" in ans:
            return {"ok": [[k, canon_param(p)] for k, p in ans["ok"]]}
        return ans

    # ---- the property on the real code -------------------------------------------------------------
    def python_view(self, c):
        src = self.source(c)
        ns = dict(NS)
        exec(compile(src, "<def>", "exec"), ns)
        if c["form"] == "class_init":
            fn = ns["ConfigClass"].__init__
        elif c["facts"]["method"]:
            fn = ns["C"].call_peril
        else:
            fn = ns["call_peril"]
        out = []
        tree = ast.parse(src)
        fdef = [n for n in ast.walk(tree) if isinstance(n, ast.FunctionDef)][0]
        ann = {a.arg: ast.unparse(a.annotation) for a in fdef.args.args + fdef.args.kwonlyargs if a.annotation}
        for p in inspect.signature(fn).parameters.values():
            if p.name in ("self", "cls"):
                continue
            out.append({"name": p.name, "has_default": p.default is not inspect.Parameter.empty, "default": None if p.default is inspect.Parameter.empty else p.default, "ann": ann.get(p.name), "var_kw": p.kind is inspect.Parameter.VAR_KEYWORD})
        return out

    def oracle(self, c, run):
        f = c["facts"]
        try:
            ir = self.parse_it(c)
        except Exception as e:
            return [{"what": "parsing the definition raised", "exc": exc_kind(e)}]
        view = self.python_view(c)
        fails = []
        # the definition is the USER's: parsing it leaves the user's syntax tree alone, and parsing the same node again
        # gives the same interface
        try:
            mod = ast.parse(self.source(c))
            node = mod.body[0] if c["form"] == "class_init" or not c["facts"]["method"] else mod.body[0].body[0]
            before = ast.dump(mod)
            p = (lambda: self.parse.class_(node, merge_inner_function="__init__")) if c["form"] == "class_init" else (lambda: self.parse.function(node))
            first = p()
            if ast.dump(mod) != before:
                fails.append({"what": "parsing changed the caller's syntax tree"})
            second = p()
            sig = lambda d: [(k, v.get("typ"), v.get("doc"), (lambda x: ast.dump(x) if isinstance(x, ast.AST) else repr(x))(v.get("default", "<absent>"))) for k, v in d["params"].items()]
            if sig(first) != sig(second):
                fails.append({"what": "a second parse of the same definition gives another interface", "first": sig(first), "second": sig(second)})
        except Exception:
            pass
        got = list(ir["params"].keys())
        want = [p["name"] for p in view]
        if sorted(got) != sorted(want):
            fails.append({"what": "parameters dropped, duplicated or invented", "python": want, "doctrans": got})
            return fails
        if got != want:
            fails.append({"what": "parameter order differs from the source", "python": want, "doctrans": got})
        documented = {e["name"]: e for e in f["doc"]}
        for p in view:
            q = ir["params"][p["name"]]
            e = documented.get(p["name"])
            if p["var_kw"]:
                continue
            if e is not None and f.get("brace_opts") and f["style"] == "google" and f["doc"][0] is e and e.get("typ") == "str":
                # PyTorch-style option list: read as a Literal of the options, in the order written
                if q.get("typ") != "Literal['cos', 'exp', 'step', 'linear']":
                    fails.append({"what": "brace option list not read as a Literal in written order", "name": p["name"], "got": q.get("typ")})
                continue
            if e is not None and irutil.prose_core(q.get("doc")) != irutil.prose_core(e["prose"]):
                fails.append({"what": "docstring prose not attached to the parameter it names", "name": p["name"], "want": e["prose"], "got": q.get("doc")})
            if e is None and q.get("doc"):
                fails.append({"what": "undocumented parameter acquired prose", "name": p["name"], "got": q.get("doc")})
            want_typ = (e or {}).get("typ") or p["ann"]
            # (a documented default with no documented type: the type read off that default is documented information too)
            inferred = type(ast.literal_eval(e["default"])).__name__ if e is not None and "default" in e and "typ" not in e else None
            if want_typ is not None and q.get("typ") not in (want_typ, inferred) and not (e and "typ" not in e and p["ann"] is None):
                fails.append({"what": "type is neither the documented one nor the annotation", "name": p["name"], "want": want_typ, "got": q.get("typ")})
            if e is not None and "default" in e:
                want = ast.literal_eval(e["default"])
                if "default" not in q or rt(q["default"]) != rt(want):
                    fails.append({"what": "documented default does not take precedence", "name": p["name"], "want": rt(want), "signature": rt(p["default"]) if p["has_default"] else "<none>", "got": rt(q["default"]) if "default" in q else "<absent>"})
            elif p["has_default"] and p["default"] is not None:
                if "default" not in q or rt(q["default"]) != rt(p["default"]):
                    fails.append({"what": "signature default not carried", "name": p["name"], "want": rt(p["default"]), "got": rt(q["default"]) if "default" in q else "<absent>"})
        # `infer_type=True` may only FILL IN a type nobody gave: a type known from the annotation or the docstring stays
        if not fails:
            try:
                ir2 = self.parse_it(c, infer_type=True)
                for p in view:
                    q, q2 = ir["params"].get(p["name"]), ir2["params"].get(p["name"])
                    given = (documented.get(p["name"]) or {}).get("typ") or p["ann"]
                    if given is not None and q is not None and q2 is not None and q.get("typ") is not None and q2.get("typ") != q.get("typ"):
                        fails.append({"what": "with infer_type=True a type that was known is replaced", "name": p["name"], "known": q.get("typ"), "got": q2.get("typ")})
            except Exception:
                pass
        return fails

    def classify(self, c, fl):
        f = c["facts"]
        what = fl.get("what", "")
        names = [p["name"] for p in f["params"]] + (["kwargs"] if f["kwargs"] else [])
        documented = [e["name"] for e in f["doc"]]
        in_order = documented == [n for n in names if n in documented]
        complete = set(documented) >= set(n for n in names if n != "kwargs")
        if what == "parameters dropped, duplicated or invented" and f["kwargs"] and "kwargs" not in documented \
                and sorted(fl.get("python", [])) == sorted(fl.get("doctrans", []) + ["kwargs"]):
            return "C07-D3-undocumented-kwargs-dropped"
        if what == "parameter order differs from the source" and not (complete and in_order):
            # the recorded behaviour, exactly (Py.irMerge_keys): documented names in docstring order, then the
            # others in signature order, a documented **kwargs last
            sig = [p["name"] for p in f["params"]]
            doc_names = [n for n in documented if n != "kwargs"]
            if c["form"] == "class_init":  # the class merge keeps a documented kwargs where the docstring has it
                predicted = list(documented) + [n for n in sig if n not in documented]
            else:
                predicted = doc_names + [n for n in sig if n not in doc_names] + (["kwargs"] if "kwargs" in documented else [])
            if fl.get("doctrans") == predicted:
                return "C07-D3-documented-parameters-come-first"
        if f["style"] == "numpydoc" and f.get("trailer") and f["doc"]:
            return "C07-numpydoc-trailing-section-read-as-parameters"
        if what == "signature default not carried" and f["style"] in ("numpydoc", "google") and fl.get("name") in documented:
            # numpydoc / google: every entry documented after one with a documented default acquires an invented default
            # (the zero of its type or None) - and that invented "documented" default then beats the signature's
            k = documented.index(fl["name"])
            if any("default" in e for e in f["doc"][:k]):
                return "C07-D7-invented-default-beats-the-signature"
        if what == "signature default not carried" and "<ast." in str(fl.get("got")):
            p = [q for q in f["params"] if q["name"] == fl.get("name")]
            e = [d for d in f["doc"] if d["name"] == fl.get("name")]
            if p and e and (p[0]["default"] or "").startswith("-") and "str" in (e[0].get("typ") or ""):
                return "C07-negative-default-under-a-documented-str-type-left-as-ast"
            if p and (p[0]["default"] or "")[:1] in ("[", "(", "{"):
                return "C07-container-default-left-as-ast-node"
        return None


PROP = C07()
