"""C03 — see harness/astkinds.py"""
from ..astkinds import C03

PROP = C03()
