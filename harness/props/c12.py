"""
C12 — output is a deterministic function of the input.

Model tie: Merge.irMergeParams under two different iteration orders of the set of common names (the
theorem irMerge_deterministic says they agree) vs the real ir_merge.
Predicate: the same list of conversions, run in sub-processes under PYTHONHASHSEED 0..N and 'random', in
permuted orders and with repetitions, gives byte-identical output for every conversion.
"""
import json
import os
import random
import subprocess

from .. import defgen, irutil
from .. import gen as G
from ..common import VERIF, HarnessError
from ..irutil import canon_param
from .c07 import C07


# prose that announces a default more than once, with different announcing phrases (which one is read must not vary)
TWO_PHRASES = [
    "number of passes. Default: 10. When resuming, defaults to 1.",
    "the rate, defaults to 4. Default value is 3",
    "how many. Default value is 7; on a retry it defaults to 2.",
    "the mode. Defaults to\n5. Default: 6",
]


def _announce_twice(r, f):
    if f["doc"] and r.random() < 0.35:
        e = r.choice(f["doc"])
        if e["name"] != "kwargs":
            e["prose"] = r.choice(TWO_PHRASES)
    return f


import re

_ADDR = re.compile(r" object at 0x[0-9a-fA-F]+>")


LIVE_ANNS = ["Optional[int]", "Optional[float]", "Optional[str]", "List[str]", "Optional[List[int]]", "Union[int, str]"]


def live_src(r, name, form):
    """source of a module holding one annotated definition (typing generics only: a plain class as annotation is
    the recorded gen finding), documented in ReST style"""
    ps = [("p%d" % k, r.choice(LIVE_ANNS)) for k in range(r.randint(2, 4))]
    sig = ", ".join("%s: %s = None" % (n, a) for n, a in ps)
    doc = "".join("    :param %s: the %s value\n" % (n, n) for n, _ in ps)
    head = "from typing import List, Optional, Union\n\n\n"
    if form == "function":
        return head + 'def %s(image, %s):\n    """\n    Work on an image\n\n    :param image: the image\n%s    """\n    return image\n' % (name, sig, doc)
    ind = doc.replace("    :param", "        :param")
    return head + 'class %s(object):\n    """\n    A holder\n    """\n\n    def __init__(self, %s):\n        """\n        Make one\n\n%s        """\n        self.x = 1\n' % (name, sig, ind)


# hand-written definitions with bare container types (`list`, `dict`, `tuple`): what one conversion learns about such a
# type name must not leak into the next
HAND = [
    ("argparse", 'def set_cli_args(argument_parser):\n    """\n    Set CLI arguments\n\n    :param argument_parser: argument parser\n    :type argument_parser: ```ArgumentParser```\n\n    :returns: argument_parser\n    :rtype: ```ArgumentParser```\n    """\n    argument_parser.description = "A model"\n    argument_parser.add_argument("--layers", type=list, required=True, help="the layers")\n    argument_parser.add_argument("--extras", type=dict, required=True, help="the extras")\n    argument_parser.add_argument("--shape", type=tuple, required=True, help="the shape")\n    return argument_parser\n'),
    ("class", 'class Net(object):\n    """\n    A net\n\n    :cvar layers: the layers\n    :cvar extras: the extras\n    :cvar shape: the shape\n    """\n\n    layers: list = None\n    extras: dict = None\n    shape: tuple = None\n'),
    ("function", 'def fit(optimiser: Union[Literal["adam", "sgd", "rmsprop"], Literal["lbfgs", "adagrad"]] = "adam", schedule: Literal["cos", "exp", "step", "linear"] = "cos"):\n    """\n    Fit it\n\n    :param optimiser: the optimiser\n\n    :param schedule: the schedule\n    """\n    return optimiser\n'),
    ("function", 'def build(layers: list, extras: dict = None, shape: tuple = None):\n    """\n    Build it\n\n    :param layers: the layers\n\n    :param extras: the extras\n\n    :param shape: the shape\n    """\n    return layers\n'),
]


def make_jobs(r, n):
    jobs = [{"id": "h%d%s" % (k, to[0]), "kind": "hand", "from": frm, "src": src, "to": to}
            for k, (frm, src) in enumerate(HAND) for to in ("class", "function", "argparse")]  # fmt: skip
    jobs.append({"id": "hdeco", "kind": "hand_deco", "from": "class", "to": "class",
                 "src": 'class Net(object):\n    """\n    A net\n\n    :cvar layers: the layers\n    :cvar rate: the rate\n    """\n\n    layers: int = 3\n    rate: float = 0.5\n'})
    r.shuffle(jobs)
    for i in range(n):
        k = r.random()
        if k < 0.1:
            # in-memory definitions: annotations are objects whose text is cleaned up by the parser
            form = r.choice(["function", "function", "class"])
            name = "live%d" % i if form == "function" else "Live%d" % i
            jobs.append({"id": "j%d" % i, "kind": "parse_live", "form": form, "name": name, "src": live_src(r, name, form)})
        elif k < 0.5:
            f = _announce_twice(r, defgen.gen_def(random.Random(r.randrange(1 << 30))))
            if r.random() < 0.2 and f["doc"]:
                # PyTorch-style option list in a google docstring (read as a Literal: its member order must not vary)
                f["style"], f["brace_opts"] = "google", True
                f["doc"][0]["typ"] = "str"
            jobs.append({"id": "j%d" % i, "kind": "parse_def", "facts": f, "form": r.choice(["function", "class_init"])})
            if jobs[-1]["form"] == "class_init":
                f["method"] = True
        elif k < 0.8:
            irj = G.gen_ir(random.Random(r.randrange(1 << 30)), rich=False, p_typ=1.0, p_doc=1.0)
            for _, p in irj["params"]:
                if isinstance(p.get("default"), str) and p["default"].startswith("```"):
                    del p["default"]
            if irj["returns"] and "default" in irj["returns"]:
                del irj["returns"]["default"]
            jobs.append({"id": "j%d" % i, "kind": "emit", "ir": irutil.ir_to_json(irj), "to": r.choice(["rest", "numpydoc", "class", "function", "argparse"])})
        else:
            f = _announce_twice(r, defgen.gen_def(random.Random(r.randrange(1 << 30))))
            jobs.append({"id": "j%d" % i, "kind": "chain", "facts": f, "to": r.choice(["class", "argparse", "rest"])})
    return jobs


def run_worker(spec, hashseed):
    env = dict(os.environ)
    env["PYTHONHASHSEED"] = str(hashseed)
    env["PYTHONDONTWRITEBYTECODE"] = "1"
    pr = subprocess.run(["/venv/bin/python", os.path.join(VERIF, "harness", "c12_worker.py"), VERIF], input=json.dumps(spec),
                        capture_output=True, text=True, env=env, cwd=VERIF)  # fmt: skip
    out = {}
    for line in pr.stdout.splitlines():
        jid, _, rest = line.partition(" ")
        out.setdefault(jid, []).append(rest)
    if not out:
        raise HarnessError("C12 worker produced nothing: %s" % pr.stderr[-600:])
    return out


class C12(C07):
    id = "C12"
    quick_cases = 300
    thorough_cases = 6000
    rule = (
        "two families. (a) sub-process sweep: a batch of conversions (parse of partially documented functions / methods "
        "/ class+__init__, emission of every kind, parse->emit chains) is run once as reference, then under every "
        "PYTHONHASHSEED of the sweep (quick 0..7 + random, thorough 0..63 + random) and in permuted orders with "
        "repetitions inside one process; every conversion's output must be byte-identical to the reference. (b) every "
        "ir_merge call recorded while parsing generated definitions is replayed on the model under two random iteration "
        "orders of the set of common names. Non-trivial = definitions with >= 2 parameters; distinct by source."
    )

    def setup(self, run):
        C07.setup(self, run)
        self._sweep = None

    def extra(self, run):
        seeds = list(range(8)) + ["random"] if run.tier == "quick" else list(range(64)) + ["random", "random"]
        r = run.sub_rng("c12-batch")
        jobs = make_jobs(r, 80 if run.tier == "quick" else 240)
        ids = [j["id"] for j in jobs]
        ref = run_worker({"jobs": jobs, "order": ids}, 0)
        run.count("sweep:conversions", len(ids))
        bad = []
        for hs in seeds:
            order = list(ids)
            rr = run.sub_rng("c12-order", hs)
            rr.shuffle(order)
            order = order + rr.sample(ids, min(10, len(ids)))  # repetitions within the process
            got = run_worker({"jobs": jobs, "order": order}, hs)
            run.count("sweep:processes")
            for jid in ids:
                for o in got.get(jid, ["<missing>"]):
                    run.evaluations += 1
                    if o != ref[jid][0]:
                        bad.append({"job": [j for j in jobs if j["id"] == jid][0], "hashseed": hs, "reference": ref[jid][0][:300], "got": o[:300], "order": order})
        run.samples.append({"family": "sweep", "hashseeds": [str(s) for s in seeds], "conversions": len(ids), "first_job": jobs[0]})
        for b in bad[:3]:
            run.failures.append(({"family": "sweep", "job": b["job"], "hashseed": b["hashseed"], "order": b["order"]}, {"what": "output differs between processes / call orders", "reference": b["reference"], "got": b["got"]}))

    # family (b): ir_merge under two iteration orders
    def corr(self, c, run):
        rec = []
        try:
            self.parse_it(c, rec)
        except Exception:
            pass
        res = []
        r = random.Random(c["sigma_seed"])
        for t, o, out in rec:
            inter = [k for k, _ in o if k in {x for x, _ in t}]
            if any((p.get("default") or {}).get("t") == "other" for _, p in t + o):
                continue  # (a container default has no counterpart in the model's value grammar)
            for _ in range(2):
                r.shuffle(inter)
                op = {"op": "ir_merge", "target": t, "other": o, "sigma": list(inter)}
                res.append(("ir_merge", op, {"ok": [[k, canon_param(p)] for k, p in out]}))
        return res

    def oracle(self, c, run):
        # the same definition parsed twice in this process gives the same description
        if c.get("family") == "sweep":
            jobs = [c["job"]]
            a = run_worker({"jobs": jobs, "order": [c["job"]["id"]]}, 0)
            b = run_worker({"jobs": jobs, "order": c["order"] if all(x == c["job"]["id"] for x in c["order"]) else [c["job"]["id"]] * 2}, c["hashseed"])
            outs = set(a[c["job"]["id"]] + b[c["job"]["id"]])
            return [] if len(outs) == 1 else [{"what": "output differs between processes / call orders", "outputs": sorted(outs)[:3]}]
        try:
            # (an ast node left in the description by a recorded defect prints with its memory address)
            x = _ADDR.sub(" object>", json.dumps(irutil.ir_to_json(self.parse_it(c)), default=repr))
            y = _ADDR.sub(" object>", json.dumps(irutil.ir_to_json(self.parse_it(c)), default=repr))
        except Exception:
            return []
        return [] if x == y else [{"what": "two parses of the same source differ within one process", "first": x[:300], "second": y[:300]}]

    def classify(self, c, fl):
        return None


PROP = C12()
