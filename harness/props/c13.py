"""
C13 — conversions do not interfere through shared inputs.

Model tie: Shared.emitPure (the caller's description after an emitter call) vs the real post-call IR.
Predicate: a history of up to 4 emit/parse calls on ONE shared description (and one shared AST) gives every
call the artefact it gives on a fresh copy; parsing leaves the tree it was given unchanged.
"""
import ast
import copy
import json

from .. import defgen
from .. import gen as G
from .. import irutil, kinds
from ..astkinds import AstKindProp
from ..common import exc_kind

import re

_ADDR = re.compile(r" object at 0x[0-9a-fA-F]+>")
EMITS = ("rest", "numpydoc", "class", "function", "method", "argparse")
BODY_SRC = '''
def call_peril(dataset_name="mnist", epochs=3):
    """
    Summary of it.

    :param dataset_name: name of dataset.
    :type dataset_name: ```str```

    :param epochs: number of epochs.
    :type epochs: ```int```

    :returns: the epochs
    :rtype: ```int```
    """
    data = load(dataset_name, epochs)
    for i in range(epochs):
        data = step(data, epochs=i)
    return epochs
'''


AST_OPS = ["parse_function", "parse_function", "emit_class_call", "emit_class", "emit_function", "emit_argparse", "emit_docstring"]
BODIES = [
    "data = load({p0})\n    return data",
    "c = {p0} * 2\n    return c + len(str({p0}))",
    "for i in range(3):\n        {p0} = step({p0}, i)\n    return {p0}",
    "return 5",
    "return 'done'",
    "return ({p0}, 1)",
    "print({p0})",
    "if {p0}:\n        return None\n    return compute({p0}={p0})",
]


def gen_shared_src(r, i):
    """a user-written function (three docstring styles, partly documented, optional trailing sections, optional
    return line with or without a type) with a body; the summary is unique per case so that nothing the process
    may have remembered about an earlier text applies"""
    f = defgen.gen_def(r, allow_kwonly=False, allow_kwargs=False, method=False)
    f["summary"] = "Summary of case %d %s." % (i, G.prose(r, 1, 3, punct=False, rich=False))
    doc = defgen.docstring(f, 4)
    ret = r.choice(["none", "prose", "typed"])
    if ret != "none":
        if f["style"] == "rest":
            extra = "    :returns: the outcome of it\n" + ("    :rtype: ```int```\n" if ret == "typed" else "")
        elif f["style"] == "numpydoc":
            extra = "    Returns\n    -------\n    %s\n        the outcome of it\n" % ("int" if ret == "typed" else "object")
        else:
            extra = "    Returns:\n      %sthe outcome of it\n" % ("int: " if ret == "typed" else "")
        # before a trailing section when there is one? keep it simple: right before the closing quotes
        head, sep, tail = doc.rpartition('    """')
        doc = head + extra + sep + tail
    p0 = f["params"][0]["name"]
    body = r.choice(BODIES).format(p0=p0)
    src = "def call_peril(%s):\n%s    %s\n" % (defgen.signature_src(f), doc, body)
    return src, f["style"] + ("+trailer" if f.get("trailer") and f["style"] != "rest" else "")


def emit_text(kind, ir, opts):
    return kinds.to_source(kind, kinds.emit_nocopy(kind, ir, opts))


class C13(AstKindProp):
    id = "C13"
    quick_cases = 500
    thorough_cases = 15000
    rule = (
        "case = (IR with/without return entry - plain, with a default, untyped with a default, None default, prose with its "
        "own default sentence; a history of 1-4 emit calls drawn with repetition from rest/numpydoc/class/function/method/"
        "argparse, all given the SAME description object) or (a function AST with a body - the fixed one or a generated "
        "user-written definition in rest/numpydoc/google style, partly documented, with trailing sections, with or without "
        "a typed return line, unique summary per case; a history of 2-4 parse/emit calls sharing that tree and the "
        "description parsed from it). Every call is compared with the same call on a fresh copy AND with the first result "
        "the same call gave on a fresh copy earlier in the history. Each emitter call is one model-correspondence operation "
        "(post-call description). Non-trivial = history of length >= 2; distinct by (input, history)."
    )

    def gen(self, r, i, run):
        if r.random() < 0.35:
            hist = [r.choice(AST_OPS) for _ in range(r.randint(2, 4))]
            run.dist["family"]["shared-ast"] += 1
            if r.random() < 0.3:
                return {"family": "ast", "history": hist}
            src, style = gen_shared_src(r, i)
            run.dist["ast_style"][style] += 1
            return {"family": "ast", "history": hist, "src": src}
        irj = G.gen_ir(r, rich=r.random() < 0.4, p_typ=r.choice([1.0, 1.0, 0.8]), p_doc=1.0, returns=r.random() < 0.6)
        # keep to descriptions every emitter accepts
        for _, p in irj["params"]:
            if isinstance(p.get("default"), str) and p["default"].startswith("```"):
                del p["default"]
        if irj["returns"]:
            shape = r.choice(["plain", "plain", "default", "untyped-default", "none-default", "own-sentence"])
            run.dist["return_shape"][shape] += 1
            if shape == "plain":
                irj["returns"].pop("default", None)
            elif shape == "untyped-default":
                irj["returns"].pop("typ", None)
                irj["returns"]["default"] = r.choice(["```c + len(b)```", 5, "done"])
            elif shape == "none-default":
                irj["returns"]["default"] = "```(None)```"
            elif shape == "own-sentence":
                irj["returns"].pop("default", None)
                irj["returns"]["doc"] = (irj["returns"].get("doc") or "the result").rstrip(".") + ", defaults to 5"
        hist = [r.choice(EMITS) for _ in range(r.randint(1, 4))]
        run.dist["family"]["shared-ir"] += 1
        run.dist["history_len"][len(hist)] += 1
        # prose that already carries its default sentence (what a parser hands on), on a third of the defaulted entries
        for _, p in irj["params"]:
            if "default" in p and "doc" in p and isinstance(p["default"], (int, float)) and not isinstance(p["default"], bool) and r.random() < 0.33:
                p["doc"] = p["doc"].rstrip(".,") + ". Defaults to %s" % (p["default"],)
        c = {"family": "ir", "ir": irutil.ir_to_json(irj), "history": hist, "opts": {"emit_default_doc": r.random() < 0.7}}
        if r.random() < 0.5:
            # the default-text option varies from call to call
            c["edds"] = [r.random() < 0.5 for _ in hist]
        if r.random() < 0.15 and any(" Defaults to " in (p.get("doc") or "") for _, p in irj["params"]):
            # directed: a docstring without default text, then another emitter with it (the sentence in the prose must survive)
            c["history"] = [r.choice(["rest", "numpydoc"]), r.choice(["argparse", "class", "function"])]
            c["edds"] = [False, True]
        run.dist["per_call_options"]["edds" in c] += 1
        return c

    def nontrivial(self, c):
        return len(c["history"]) >= 2

    def describe(self, c):
        return c

    def shrink_candidates(self, c):
        h = c["history"]
        for k in range(len(h)):
            if len(h) > 1:
                d = copy.deepcopy(c)
                del d["history"][k]
                if "edds" in d:
                    del d["edds"][k]
                yield d
        if c["family"] == "ir":
            for k in range(len(c["ir"]["params"])):
                d = copy.deepcopy(c)
                del d["ir"]["params"][k]
                yield d

    # ---- shared IR -----------------------------------------------------------------------
    def _emit(self, kind, ir, opts):
        """the real emitter on THIS object (no defensive copy in the harness)"""
        from doctrans import emit as E

        o = dict(opts)
        if kind in ("rest", "numpydoc", "google"):
            return E.docstring(ir, docstring_format=kind, word_wrap=False, emit_default_doc=o.get("emit_default_doc", True))
        if kind == "class":
            return kinds.to_source(kind, E.class_(ir, class_name="ConfigClass", emit_default_doc=o.get("emit_default_doc", True), word_wrap=False))
        if kind == "argparse":
            return kinds.to_source(kind, E.argparse_function(ir, function_name="set_cli_args", emit_default_doc=o.get("emit_default_doc", True), word_wrap=False))
        return kinds.to_source(kind, E.function(ir, function_name="call_peril", function_type="self" if kind == "method" else "static",
                                                emit_default_doc=o.get("emit_default_doc", True), word_wrap=False))  # fmt: skip

    def corr(self, c, run):
        if c["family"] != "ir":
            return []
        res = []
        for kind in sorted(set(c["history"])):
            ir = self.py_ir(c["ir"])
            try:
                self._emit(kind, ir, c["opts"])
                impl = {"ok": irutil.canon_ir(irutil.ir_to_json(ir))}
            except Exception as e:
                continue  # a description this kind does not accept at all: not C13's matter (see the kind's own property)
            res.append(("effect_" + kind, {"op": "effect", "ir": c["ir"]}, impl))
        return res

    def canon_model(self, layer, op, ans):
        if "ok" in ans:
            return {"ok": irutil.canon_ir(ans["ok"])}
        return ans

    def oracle(self, c, run):
        if c.get("family") == "first-call":
            rounds, _ = self._first_call_rounds()
            return [] if len(rounds) == 3 and rounds[0] == rounds[1] == rounds[2] else [{"what": "the first conversion of a process differs from the same conversion made later"}]
        if c["family"] == "ast":
            return self.oracle_ast(c, run)
        fails = []
        shared = self.py_ir(c["ir"])
        first = {}
        for step, kind in enumerate(c["history"]):
            fresh = self.py_ir(c["ir"])
            opts = dict(c["opts"], emit_default_doc=c["edds"][step]) if "edds" in c and step < len(c["edds"]) else c["opts"]
            try:
                want = self._emit(kind, fresh, opts)
            except Exception as e:
                return fails  # the description is not emittable in this kind at all: not C13's matter
            if first.setdefault((kind, opts.get("emit_default_doc")), want) != want:
                fails.append({"what": "the same conversion of a fresh copy gives a different artefact later in the history (state kept outside the inputs)", "step": step, "kind": kind, "history": c["history"], "got": want[:600], "want": first[(kind, opts.get("emit_default_doc"))][:600]})
                break
            try:
                got = self._emit(kind, shared, opts)
            except Exception as e:
                fails.append({"what": "emit on the shared description raised", "step": step, "kind": kind, "exc": exc_kind(e)})
                break
            if got != want:
                fails.append({"what": "artefact differs from the one emitted from a fresh copy", "step": step, "kind": kind, "history": c["history"], "got": got[:600], "want": want[:600]})
                break
        return fails

    # ---- shared AST --------------------------------------------------------------------------
    def _ast_op_raw(self, op, tree, ir):
        """-> (result text, ir): one call of the history on `tree` / on the description parsed from it"""
        from doctrans import emit as E
        from doctrans import parse as P

        if op == "parse_function" or ir is None:
            ir = P.function(tree)
            if op == "parse_function":
                return _ir_key(ir), ir
        if op == "emit_class_call":
            return kinds.to_source("class", E.class_(ir, emit_call=True)), ir
        if op == "emit_class":
            return kinds.to_source("class", E.class_(ir)), ir
        if op == "emit_function":
            return kinds.to_source("function", E.function(ir, function_name="call_peril", function_type="static")), ir
        if op == "emit_docstring":
            return E.docstring(ir), ir
        return kinds.to_source("argparse", E.argparse_function(ir, function_name="call_peril")), ir

    def oracle_ast(self, c, run):
        return self._oracle_ast(c, run)

    def _ast_op(self, op, tree, ir):
        # (an object left in the description by a recorded defect prints with its memory address: not a difference)
        text, ir = self._ast_op_raw(op, tree, ir)
        return _ADDR.sub(" object>", text), ir

    def _oracle_ast(self, c, run):
        src = c.get("src") or BODY_SRC
        tree = ast.parse(src).body[0]
        original = ast.dump(tree)
        fails = []
        ir = None
        first = {}
        for step, op in enumerate(c["history"]):
            fresh_tree = ast.parse(src).body[0]
            try:
                b, _ = self._ast_op(op, fresh_tree, None)
            except Exception as e:
                if ir is None:
                    try:
                        ir = self._ast_op("parse_function", tree, None)[1]
                    except Exception:
                        return fails  # this definition cannot be parsed at all: not C13's matter
                continue  # this conversion does not accept the definition even alone: not C13's matter
            if first.setdefault(op, b) != b:
                fails.append({"what": "the same conversion of a fresh tree gives a different result later in the history (state kept outside the inputs)", "step": step, "op": op, "history": c["history"], "got": b[:700], "want": first[op][:700]})
                break
            try:
                a, ir = self._ast_op(op, tree, ir)
            except Exception as e:
                fails.append({"what": "call on the shared tree raised", "step": step, "op": op, "exc": exc_kind(e)})
                break
            if a != b:
                fails.append({"what": "result differs from the one obtained from a fresh tree", "step": step, "op": op, "history": c["history"], "got": a[:700], "want": b[:700]})
                break
            if ast.dump(tree) != original:
                fails.append({"what": "the tree given to the parser/emitter was altered", "step": step, "op": op, "history": c["history"]})
                break
        return fails

    # ---- the first call of a process ---------------------------------------------------------------
    def _first_call_rounds(self):
        import os
        import subprocess

        from ..common import VERIF

        pr = subprocess.run(["/venv/bin/python", os.path.join(VERIF, "harness", "c13_worker.py"), VERIF], capture_output=True, text=True, cwd=VERIF,
                            env=dict(os.environ, PYTHONDONTWRITEBYTECODE="1"))  # fmt: skip
        rounds = [json.loads(l) for l in pr.stdout.splitlines() if l.startswith("{")]
        return rounds, pr.stderr[-400:]

    def extra(self, run):
        """in a fresh interpreter the same conversions three times in a row: the first round is what the later ones are"""
        rounds, err = self._first_call_rounds()
        run.evaluations += 1
        run.count("first-call:rounds", len(rounds))
        if len(rounds) != 3:
            from ..common import HarnessError

            raise HarnessError("C13 first-call worker produced %d rounds: %s" % (len(rounds), err))
        for k in (1, 2):
            if rounds[k] != rounds[0]:
                diff = {key: [rounds[0].get(key), rounds[k].get(key)] for key in rounds[0] if rounds[0].get(key) != rounds[k].get(key)}
                run.failures.append(({"family": "first-call", "round": k}, {"what": "the first conversion of a process differs from the same conversion made later", "differences": {a: [str(x)[:300] for x in b] for a, b in list(diff.items())[:3]}}))
                break

    def classify(self, c, fl):
        return None


def _ir_key(ir):
    j = irutil.ir_to_json(ir)
    body = (ir.get("_internal") or {}).get("body") or []
    return json.dumps([irutil.canon_ir(j), [ast.dump(b) for b in body]], default=repr)


PROP = C13()
