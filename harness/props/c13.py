"""
C13 — conversions do not interfere through shared inputs.

Model tie: Shared.emitPure (the caller's description after an emitter call) vs the real post-call IR.
Predicate: a history of up to 4 emit/parse calls on ONE shared description (and one shared AST) gives every
call the artefact it gives on a fresh copy; parsing leaves the tree it was given unchanged.
"""
import ast
import copy
import json

from .. import gen as G
from .. import irutil, kinds
from ..astkinds import AstKindProp
from ..common import exc_kind

EMITS = ("rest", "numpydoc", "class", "function", "method", "argparse")
BODY_SRC = '''
def call_peril(dataset_name="mnist", epochs=3):
    """
    Summary of it.

    :param dataset_name: name of dataset.
    :type dataset_name: ```str```

    :param epochs: number of epochs.
    :type epochs: ```int```

    :returns: the epochs
    :rtype: ```int```
    """
    data = load(dataset_name, epochs)
    for i in range(epochs):
        data = step(data, epochs=i)
    return epochs
'''


def emit_text(kind, ir, opts):
    return kinds.to_source(kind, kinds.emit_nocopy(kind, ir, opts))


class C13(AstKindProp):
    id = "C13"
    quick_cases = 500
    thorough_cases = 15000
    rule = (
        "case = (IR with/without return entry, with/without a carried function body; a history of 1-4 emit calls drawn "
        "with repetition from rest/numpydoc/class/function/method/argparse, all given the SAME description object) or "
        "(a function AST with a body; a history of parse/emit calls sharing that tree). Each emitter call is one "
        "model-correspondence operation (post-call description). Non-trivial = history of length >= 2; distinct by "
        "(IR, history)."
    )

    def gen(self, r, i, run):
        if r.random() < 0.25:
            hist = [r.choice(["parse_function", "emit_class_call", "emit_function", "parse_function", "emit_argparse"]) for _ in range(r.randint(2, 4))]
            run.dist["family"]["shared-ast"] += 1
            return {"family": "ast", "history": hist}
        irj = G.gen_ir(r, rich=r.random() < 0.4, p_typ=1.0, p_doc=1.0, returns=r.random() < 0.5)
        # keep to descriptions every emitter accepts
        for _, p in irj["params"]:
            if isinstance(p.get("default"), str) and p["default"].startswith("```"):
                del p["default"]
        if irj["returns"] and "default" in irj["returns"]:
            del irj["returns"]["default"]
        hist = [r.choice(EMITS) for _ in range(r.randint(1, 4))]
        run.dist["family"]["shared-ir"] += 1
        run.dist["history_len"][len(hist)] += 1
        return {"family": "ir", "ir": irutil.ir_to_json(irj), "history": hist, "opts": {"emit_default_doc": r.random() < 0.7}}

    def nontrivial(self, c):
        return len(c["history"]) >= 2

    def describe(self, c):
        return c

    def shrink_candidates(self, c):
        h = c["history"]
        for k in range(len(h)):
            if len(h) > 1:
                d = copy.deepcopy(c)
                del d["history"][k]
                yield d
        if c["family"] == "ir":
            for k in range(len(c["ir"]["params"])):
                d = copy.deepcopy(c)
                del d["ir"]["params"][k]
                yield d

    # ---- shared IR -----------------------------------------------------------------------
    def _emit(self, kind, ir, opts):
        """the real emitter on THIS object (no defensive copy in the harness)"""
        from doctrans import emit as E

        o = dict(opts)
        if kind in ("rest", "numpydoc", "google"):
            return E.docstring(ir, docstring_format=kind, word_wrap=False, emit_default_doc=o.get("emit_default_doc", True))
        if kind == "class":
            return kinds.to_source(kind, E.class_(ir, class_name="ConfigClass", emit_default_doc=o.get("emit_default_doc", True), word_wrap=False))
        if kind == "argparse":
            return kinds.to_source(kind, E.argparse_function(ir, function_name="set_cli_args", emit_default_doc=o.get("emit_default_doc", True), word_wrap=False))
        return kinds.to_source(kind, E.function(ir, function_name="call_peril", function_type="self" if kind == "method" else "static",
                                                emit_default_doc=o.get("emit_default_doc", True), word_wrap=False))  # fmt: skip

    def corr(self, c, run):
        if c["family"] != "ir":
            return []
        res = []
        for kind in sorted(set(c["history"])):
            ir = self.py_ir(c["ir"])
            try:
                self._emit(kind, ir, c["opts"])
                impl = {"ok": irutil.canon_ir(irutil.ir_to_json(ir))}
            except Exception as e:
                impl = {"raises": exc_kind(e)}
            res.append(("effect_" + kind, {"op": "effect", "ir": c["ir"]}, impl))
        return res

    def canon_model(self, layer, op, ans):
        if "ok" in ans:
            return {"ok": irutil.canon_ir(ans["ok"])}
        return ans

    def oracle(self, c, run):
        if c["family"] == "ast":
            return self.oracle_ast(c, run)
        fails = []
        shared = self.py_ir(c["ir"])
        for step, kind in enumerate(c["history"]):
            fresh = self.py_ir(c["ir"])
            try:
                want = self._emit(kind, fresh, c["opts"])
            except Exception as e:
                return fails  # the description is not emittable in this kind at all: not C13's matter
            try:
                got = self._emit(kind, shared, c["opts"])
            except Exception as e:
                fails.append({"what": "emit on the shared description raised", "step": step, "kind": kind, "exc": exc_kind(e)})
                break
            if got != want:
                fails.append({"what": "artefact differs from the one emitted from a fresh copy", "step": step, "kind": kind, "history": c["history"], "got": got[:600], "want": want[:600]})
                break
        return fails

    # ---- shared AST --------------------------------------------------------------------------
    def oracle_ast(self, c, run):
        from doctrans import emit as E
        from doctrans import parse as P

        tree = ast.parse(BODY_SRC).body[0]
        original = ast.dump(tree)
        fails = []
        ir = None
        for step, op in enumerate(c["history"]):
            fresh_tree = ast.parse(BODY_SRC).body[0]
            try:
                if op == "parse_function":
                    ir = P.function(tree)
                    want = P.function(fresh_tree)
                    a, b = _ir_key(ir), _ir_key(want)
                else:
                    if ir is None:
                        ir = P.function(tree)
                    fresh_ir = P.function(fresh_tree)
                    if op == "emit_class_call":
                        a = kinds.to_source("class", E.class_(ir, emit_call=True))
                        b = kinds.to_source("class", E.class_(fresh_ir, emit_call=True))
                    elif op == "emit_function":
                        a = kinds.to_source("function", E.function(ir, function_name="call_peril", function_type="static"))
                        b = kinds.to_source("function", E.function(fresh_ir, function_name="call_peril", function_type="static"))
                    else:
                        a = kinds.to_source("argparse", E.argparse_function(ir, function_name="call_peril"))
                        b = kinds.to_source("argparse", E.argparse_function(fresh_ir, function_name="call_peril"))
            except Exception as e:
                fails.append({"what": "call on the shared tree raised", "step": step, "op": op, "exc": exc_kind(e)})
                break
            if a != b:
                fails.append({"what": "result differs from the one obtained from a fresh tree", "step": step, "op": op, "history": c["history"], "got": a[:700], "want": b[:700]})
                break
            if ast.dump(tree) != original:
                fails.append({"what": "the tree given to the parser/emitter was altered", "step": step, "op": op, "history": c["history"]})
                break
        return fails

    def classify(self, c, fl):
        return None


def _ir_key(ir):
    j = irutil.ir_to_json(ir)
    body = (ir.get("_internal") or {}).get("body") or []
    return json.dumps([irutil.canon_ir(j), [ast.dump(b) for b in body]], default=repr)


PROP = C13()
