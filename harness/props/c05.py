"""
C05 — any-to-any convertibility preserves the interface.

Model tie: Kinds.chain (norms composed, with the domain check of every step) vs the real chain of
emit -> text -> parse steps. Predicate: Kinds.PresIR mirrored on the real code (names, order, types, prose,
explicit defaults; loss only where documented; nothing invented or swapped).
"""
import copy
import json
import itertools

from .. import gen as G
from .. import irutil, kinds
from ..astkinds import ZERO, AstKindProp, canon_for_model, pres_diff, unify_none
from ..common import exc_kind
from .c01 import classify_ir as classify_doc_ir

ALL_CHAINS = [list(c) for n in (2, 3) for c in itertools.permutations(kinds.KINDS, n)]  # 42 pairs + 210 triples


def model_kind(k, inline):
    if k in ("function", "method"):
        return {"kind": "function", "inline": inline}
    return {"kind": k, "inline": False}


class C05(AstKindProp):
    id = "C05"
    quick_cases = 500
    thorough_cases = 12000
    rule = (
        "case = (IR, chain of 2-3 distinct kinds out of rest/numpydoc/google/class/function/method/argparse, inline-types "
        "flag); the thorough tier walks all 42 ordered pairs and 210 triples round-robin, the quick tier samples them. "
        "Every hop goes through the emitted TEXT. Non-trivial = at least one parameter; distinct by (IR, chain)."
    )

    def gen(self, r, i, run):
        irj = G.gen_ir(r, rich=r.random() < 0.4, p_typ=1.0 if r.random() < 0.75 else 0.85, p_doc=1.0 if r.random() < 0.75 else 0.85, returns=r.random() < 0.3)
        chain = ALL_CHAINS[i % len(ALL_CHAINS)] if run.tier == "thorough" else r.choice(ALL_CHAINS)
        if "argparse" in chain:
            from ..astkinds import C04

            irj = C04.restrict(self, irj, r)
        c = {"ir": irutil.ir_to_json(irj), "chain": chain, "inline": r.random() < 0.4, "opts": {}}
        run.dist["chain_len"][len(chain)] += 1
        for k in chain:
            run.dist["kind_on_chain"][k] += 1
        return c

    def describe(self, c):
        return {"chain": c["chain"], "inline": c["inline"], "ir": c["ir"]}

    def run_chain(self, c):
        ir = self.py_ir(c["ir"])
        cur = ir
        for k in c["chain"]:
            o = {"inline_types": c["inline"]} if k in ("function", "method") else {}
            cur = kinds.conv(k, cur, o)
        return ir, cur

    def corr(self, c, run):
        op = {"op": "norm_chain", "kinds": [model_kind(k, c["inline"]) for k in c["chain"]], "ir": unify_none(c["ir"])}
        arg = "argparse" in c["chain"]
        self._arg = arg
        try:
            _, back = self.run_chain(c)
            impl = {"ok": canon_for_model(irutil.ir_to_json(back), arg)}
        except Exception as e:
            impl = {"raises": exc_kind(e)}
        return [("norm_chain", dict(op, _arg=arg), impl)]

    def canon_model(self, layer, op, ans):
        if "ok" in ans:
            return {"ok": canon_for_model(ans["ok"], op.get("_arg", False))}
        return ans

    def oracle(self, c, run):
        cls = self.classify(c, {})
        run.count("oracle:" + (cls or "in-domain"))
        try:
            ir, back = self.run_chain(c)
        except Exception as e:
            return [{"what": "chain raised", "exc": exc_kind(e), "chain": c["chain"]}]

        def may(typ):
            out = list(ZERO.values()) if typ in ZERO else []
            if typ and typ.startswith("List[") and typ[5:-1] in ZERO:
                out.append(ZERO[typ[5:-1]])
            if typ and typ.startswith("Literal["):
                out.append("")
            return out

        d = pres_diff(ir, back, may)
        if "argparse" in c["chain"]:
            # documented loss: a return entry without default does not survive argparse
            d = [x for x in d if not x.startswith("return entry lost")]
        return [{"what": "chain changed the interface", "chain": c["chain"], "diffs": d}] if d else []

    def code_breaks(self, c, is_return, typ, code):
        from ..astkinds import code_breaks_roundtrip

        return any(code_breaks_roundtrip(k, is_return, typ, code, True) for k in c["chain"])

    def model_in_domain(self, c):
        key = json.dumps([c["chain"], c["inline"], c["ir"]], sort_keys=True)
        if getattr(self, "_dk", None) != key:
            op = {"op": "norm_chain", "kinds": [model_kind(k, c["inline"]) for k in c["chain"]], "ir": unify_none(c["ir"])}
            self._dv = "ok" in self._driver.run([op])[0]
            self._dk = key
        return self._dv

    def setup(self, run):
        self._driver = run.driver

    def classify(self, c, fl):
        ir = c["ir"]
        chain = c["chain"]
        base = AstKindProp.classify(self, {"ir": ir, "opts": {}, "chain": chain}, fl)
        if base:
            return base
        for k in chain:
            if k in ("numpydoc", "google"):
                f = classify_doc_ir(ir, k, True)
                if f:
                    return f
        if "argparse" in chain:
            from ..astkinds import C04

            f = C04.classify_kind(self, {"ir": ir, "opts": {}}, fl)
            if f and f != "C04-return-entry":
                return f
            if ir["returns"] is not None and "default" in ir["returns"]:
                return "C04-return-entry"
        if "class" in chain:
            from ..astkinds import C02

            f = C02.classify_kind(self, {"ir": ir, "opts": {}}, fl)
            if f:
                return f
        if any(k in ("function", "method") for k in chain) and c["inline"]:
            from ..astkinds import C03

            f = C03.classify_kind(self, {"ir": ir, "opts": {"inline_types": True}}, fl)
            if f:
                return f
        if ir["returns"] is not None and "default" in ir["returns"]:
            return "C03-return-default"
        if not self.model_in_domain(c):
            # every entry is fine for every kind taken alone, but an intermediate description (after the
            # normalisation of one kind) is outside what the next kind carries faithfully
            return "C05-intermediate-description-leaves-next-kinds-domain"
        return None


PROP = C05()
