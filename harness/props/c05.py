"""
C05 — any-to-any convertibility preserves the interface.

Model tie: Kinds.chain (norms composed, with the domain check of every step) vs the real chain of
emit -> text -> parse steps. Predicate: Kinds.PresIR mirrored on the real code (names, order, types, prose,
explicit defaults; loss only where documented; nothing invented or swapped).
"""
import copy
import json
import itertools

from .. import gen as G
from .. import irutil, kinds
from ..astkinds import ZERO, AstKindProp, canon_for_model, entry_ops, pres_diff, unify_none
from ..common import exc_kind
from .c01 import classify_ir as classify_doc_ir

ALL_CHAINS = [list(c) for n in (2, 3) for c in itertools.permutations(kinds.KINDS, n)]  # 42 pairs + 210 triples


def _entries_map(ir):
    return [(n, p) for n, p in ir["params"]] + ([("return_type", ir["returns"])] if ir["returns"] else [])


AST_ONLY_CHAINS = [c for c in ALL_CHAINS if all(k in ("class", "function", "method") for k in c)]  # 6 pairs + 6 triples


def model_kind(k, inline):
    if k in ("function", "method"):
        return {"kind": "function", "inline": inline}
    return {"kind": k, "inline": False}


class C05(AstKindProp):
    id = "C05"
    quick_cases = 900
    thorough_cases = 12000
    rule = (
        "case = (IR, chain of 2-3 distinct kinds out of rest/numpydoc/google/class/function/method/argparse, inline-types "
        "flag); the thorough tier walks all 42 ordered pairs and 210 triples round-robin, the quick tier samples them. "
        "Every hop goes through the emitted TEXT. Non-trivial = at least one parameter; distinct by (IR, chain)."
    )

    def gen(self, r, i, run):
        irj = G.gen_ir(r, rich=r.random() < 0.4, p_typ=1.0 if r.random() < 0.75 else 0.85, p_doc=1.0 if r.random() < 0.75 else 0.85, returns=r.random() < 0.3)
        chain = ALL_CHAINS[i % len(ALL_CHAINS)] if run.tier == "thorough" else r.choice(ALL_CHAINS if r.random() < 0.75 else AST_ONLY_CHAINS)
        if "argparse" in chain:
            from ..astkinds import C04

            irj = C04.restrict(self, irj, r)
        # default text in the docstring part of the class/function/argparse artefacts on or off (docstring kinds always
        # write it: without it they cannot carry a default at all)
        c = {"ir": irutil.ir_to_json(irj), "chain": chain, "inline": r.random() < 0.4, "opts": {}, "edd": r.random() < 0.6}
        # fan-out: on a fifth of the chains every intermediate description OBJECT is first emitted as a class and only then
        # as the next kind of the chain (what sync does with its one parsed truth); the class emission must not show
        c["fan_out"] = r.random() < 0.2
        run.dist["fan_out"][c["fan_out"]] += 1
        run.dist["default_text_in_ast_kinds"][c["edd"]] += 1
        run.dist["chain_len"][len(chain)] += 1
        for k in chain:
            run.dist["kind_on_chain"][k] += 1
        return c

    def describe(self, c):
        return {"chain": c["chain"], "inline": c["inline"], "edd": c.get("edd", True), "ir": c["ir"]}

    def run_chain(self, c):
        ir = self.py_ir(c["ir"])
        cur = ir
        for k in c["chain"]:
            o = {"inline_types": c["inline"]} if k in ("function", "method") else {}
            if k in kinds.AST_KINDS:
                o["emit_default_doc"] = c.get("edd", True)
            if c.get("fan_out") and k != "class":
                try:
                    kinds.emit_nocopy("class", cur, {"emit_default_doc": c.get("edd", True)})
                except Exception:
                    pass
                cur = kinds.parse(k, kinds.emit_nocopy(k, cur, o))
                continue
            cur = kinds.conv(k, cur, o)
        return ir, cur

    def corr(self, c, run):
        op = {"op": "norm_chain", "kinds": [model_kind(k, c["inline"]) for k in c["chain"]], "ir": unify_none(c["ir"])}
        arg = "argparse" in c["chain"]
        self._arg = arg
        back_j = None
        try:
            _, back = self.run_chain(c)
            back_j = irutil.ir_to_json(back)
            impl = {"ok": canon_for_model(back_j, arg)}
        except Exception as e:
            impl = {"raises": exc_kind(e)}
        res = [("norm_chain", dict(op, _arg=arg), impl)]
        if back_j is not None:
            res += entry_ops(c["ir"], back_j, op["kinds"], c["chain"], arg)
        # the same chain with every hop at STATEMENT level (StmtChain.lean), compared exactly (types modulo ast.unparse)
        if not c.get("fan_out"):
            from ..astkinds import _canon_types_ir

            impl2 = {"ok": irutil.canon_ir(_canon_types_ir(back_j))} if back_j is not None else impl
            res.append(("stmt_chain", {"op": "stmt_chain", "ir": c["ir"], "chain": c["chain"], "emit": c.get("edd", True), "inline": c["inline"]}, impl2))
        return res

    def canon_model(self, layer, op, ans):
        if layer == "stmt_chain":
            from ..astkinds import _canon_types_ir

            return {"ok": irutil.canon_ir(_canon_types_ir(ans["ok"]))} if "ok" in ans else ans
        if "ok" in ans:
            j = dict(ans["ok"], doc="") if layer.startswith("entry_") else ans["ok"]
            return {"ok": canon_for_model(j, op.get("_arg", False))}
        return ans

    def oracle(self, c, run):
        cls = self.classify(c, {})
        run.count("oracle:" + (cls or "in-domain"))
        try:
            ir, back = self.run_chain(c)
        except Exception as e:
            return [{"what": "chain raised", "exc": exc_kind(e), "chain": c["chain"]}]

        def may(typ):
            out = list(ZERO.values()) if typ in ZERO else []
            if typ and typ.startswith("List[") and typ[5:-1] in ZERO:
                out.append(ZERO[typ[5:-1]])
            if typ and typ.startswith("Literal["):
                out.append("")
            return out

        d = pres_diff(ir, back, may)
        if "argparse" in c["chain"]:
            # documented loss: a return entry without default does not survive argparse
            d = [x for x in d if not x.startswith("return entry lost")]
        return [{"what": "chain changed the interface", "chain": c["chain"], "diffs": d}] if d else []

    def code_breaks(self, c, is_return, typ, code):
        from ..astkinds import code_breaks_roundtrip

        return any(code_breaks_roundtrip(k, is_return, typ, code, c.get("edd", True) if k in kinds.AST_KINDS else True) for k in c["chain"])

    def model_in_domain(self, c):
        key = json.dumps([c["chain"], c["inline"], c["ir"]], sort_keys=True)
        if getattr(self, "_dk", None) != key:
            op = {"op": "norm_chain", "kinds": [model_kind(k, c["inline"]) for k in c["chain"]], "ir": unify_none(c["ir"])}
            self._dv = "ok" in self._driver.run([op])[0]
            self._dk = key
        return self._dv

    def setup(self, run):
        self._driver = run.driver

    scoped_excuses = True
    ALL = {"typ", "prose", "default", "absent"}

    def entry_domains(self, c):
        """which entries, taken alone, leave the regular domain of a kind on the chain (one model query per entry)"""
        key = json.dumps([c["chain"], c["inline"], c["ir"]], sort_keys=True)
        if getattr(self, "_ek", None) != key:
            ir = c["ir"]
            ks = [model_kind(k, c["inline"]) for k in c["chain"]]
            ents = [(n, {"doc": "", "params": [[n, p]], "returns": None}) for n, p in ir["params"]]
            if ir["returns"] is not None:
                ents.append(("return_type", {"doc": "", "params": [], "returns": ir["returns"]}))
            ans = self._driver.run([{"op": "norm_chain", "kinds": ks, "ir": copy.deepcopy(j)} for _, j in ents])
            self._ev = {n for (n, _), a in zip(ents, ans) if "ok" not in a}
            self._ek = key
        return self._ev

    def explain(self, c):
        from ..astkinds import C02, C03, C04, _entries
        from .c01 import _dot_outside_brackets, _is_code

        ir, chain = c["ir"], c["chain"]
        sub = {"ir": ir, "opts": {"inline_types": c["inline"]}, "chain": chain, "edd": c.get("edd", True), "inline": c["inline"]}
        out = AstKindProp.explain(self, sub)
        ents = _entries(ir)
        if any(k in ("numpydoc", "google") for k in chain) and any("typ" not in p for _, p, _ in ents):
            # numpydoc/google do not read an entry without a type as an entry: it and everything after it end up in
            # the summary, the parameters are gone
            out.append(("AST-untyped-entry", {}, {"order", "summary", "lost"}))
        if any(k in ("rest", "numpydoc", "google") for k in chain):
            for n, p, _ in ents:
                d = p.get("default")
                if d is None:
                    continue
                if _is_code(d):
                    out.append(("C17-code-default-unquoted", {n: {"default", "typ", "prose"}}, set()))
                if d["t"] == "str" and _dot_outside_brackets(d["v"]):
                    out.append(("C17-D5-dot-in-value", {n: {"default", "prose", "typ"}}, set()))
        if any(k in ("numpydoc", "google") for k in chain):
            # D7: an entry without default that follows a defaulted one gets one invented (on a chain an earlier kind
            # may already have given every parameter a default)
            seen = False
            names = {}
            for n, p, is_ret in ents:
                if "default" not in p and (seen or len(chain) > 1) and not n.endswith("kwargs"):
                    names[n] = {"absent", "default", "typ", "prose"}  # (an invented '' leaves a dangling "Defaults to")
                if "default" in p:
                    seen = True
            if names:
                out.append(("C01-D7-default-invented-after-defaulted", names, set()))
        if "google" in chain and ir["returns"] is not None:
            out.append(("C01-D8-google-return-type-as-prose", {"return_type": {"typ", "prose", "absent", "default"}}, {"lost"}))
        if "argparse" in chain:
            out += [e for e in C04.explain_kind(self, {"ir": ir, "opts": {}}) if e[0] != "C04-return-entry"]
            if ir["returns"] is not None and "default" in ir["returns"]:
                out.append(("C04-return-entry", {"return_type": {"default", "typ"}}, {"lost"}))
        if "class" in chain:
            out += C02.explain_kind(self, {"ir": ir, "opts": {}})
        if any(k in ("function", "method") for k in chain):
            out += C03.explain_kind(self, {"ir": ir, "opts": {"inline_types": c["inline"]}})
        bad = self.entry_domains(c)
        # (the model leaves every code default outside its domain; where such a default survives is decided by the
        # measured matrix behind AST-code-default above, not by the model)
        from ..astkinds import is_code

        bad = {n for n in bad if not is_code(dict(_entries_map(ir)).get(n, {}).get("default"))}
        if bad:
            # an entry that, taken alone, is outside what some kind on the chain carries faithfully (after the
            # normalisation of the kinds before it)
            out.append(("C05-intermediate-description-leaves-next-kinds-domain", {n: self.ALL for n in bad}, {"lost"} if "return_type" in bad else set()))
        if out and any(k in ("numpydoc", "google") for k in chain):
            # an entry in trouble reaches numpydoc/google without a type, prose or default (or with text their scanners
            # do not read as an entry): the entries are not recognised, their text ends up in the summary
            out.append(("C05-intermediate-description-leaves-next-kinds-domain", {}, {"order", "summary", "lost"}))
        return out

    def classify(self, c, fl):
        if isinstance(fl, dict) and fl.get("what") == "chain raised":
            ex = self.explain(c)
            return ex[0][0] if ex else None
        return AstKindProp.classify(self, c, fl)


PROP = C05()
