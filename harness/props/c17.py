"""
C17 — default values survive the trip through prose with value and type intact.

Correspondence layers: `setdoc` (defaults_utils.set_default_doc), `extract`
(defaults_utils.extract_default), `interp` (emitter_utils.interpolate_defaults).
Property predicate (real code): render with set_default_doc, read back with
interpolate_defaults, compare value, Python type and prose.
"""
import copy

from .. import gen as G
from ..common import canon_val, exc_kind, val_to_json
from ..engine import Prop

PHRASES = ["Defaults to ", "defaults to ", "Default value is ", "Default: ", "defaults to\n"]
TYPES = [
    None, "str", "int", "float", "bool", "Optional[str]", "Optional[int]", "Optional[float]", "Optional[bool]",
    "List[str]", "Literal['a', 'b']", "Union[int, str]", "np.ndarray", "dict", "Tuple[int, np.ndarray]",
]  # fmt: skip
NOISE = "alpha beta the of default defaults Defaults value 3.5 e.g., (see) `np` tf.x a.b end. ok, Default: x-y".split()
NONE_TYPES = (None, "None", "```(None)```")


def noisy_prose(r):
    n = r.randint(0, 6)
    s = " ".join(r.choice(NOISE) for _ in range(n))
    if r.random() < 0.3:
        s += r.choice([".", ",", " .", "\n more"])
    return s


def any_val(r):
    k = r.random()
    if k < 0.2:
        return r.choice(G.INTS)
    if k < 0.4:
        return r.choice(G.FLOATS)
    if k < 0.5:
        return r.choice([True, False])
    if k < 0.6:
        return None
    if k < 0.65:
        return "```(None)```"
    return r.choice(
        G.STRS + G.CODES
        + ["", "np.zeros(3)", "(1, 2)", "[1, 2]", "a.b", "it's", 'say "hi"', "foo(1).", "-3", "5", "True", "None", "1_0", "inf", "x."]
    )  # fmt: skip


def same_value(a, b):
    if a in NONE_TYPES and b in NONE_TYPES:
        return True
    return type(a) is type(b) and a == b


def expected_dot(p):
    return p if p[-1] in ".," else p + "."


class C17(Prop):
    id = "C17"
    quick_cases = 2500
    thorough_cases = 60000
    rule = (
        "case = (name, prose, declared type, value, phrase, removal flag): 60% from the property domain "
        "(generated prose with full stops, commas, parentheses, back-ticks, decimals; type-consistent value of every "
        "kind), 40% adversarial (stray 'default(s)', Default:, dots, brackets, newlines, inconsistent types) for the "
        "model/implementation correspondence only. Non-trivial = carries a default or an announcement word; distinct "
        "by canonical JSON of the case."
    )

    def setup(self, run):
        from doctrans.defaults_utils import extract_default, set_default_doc
        from doctrans.emitter_utils import interpolate_defaults

        self.extract_default, self.set_default_doc = extract_default, set_default_doc
        self.interpolate_defaults = interpolate_defaults

    # ---- generation ------------------------------------------------------
    def gen(self, r, i, run):
        if r.random() < 0.6:
            typ = G.gen_type(r) if r.random() < 0.8 else None
            d = G.gen_default(r, typ)
            case = {
                "dom": True,
                "name": r.choice(["a", "kwargs", "data_loader_kwargs", "lr"]) if r.random() < 0.2 else "a",
                "doc": G.prose(r),
                "typ": typ,
                "has_default": d[0] == "val",
                "default": val_to_json(d[1]) if d[0] == "val" else None,
                "phrase": r.choice(PHRASES),
            }
        else:
            hd = r.random() < 0.8
            case = {
                "dom": False,
                "name": r.choice(["a", "kwargs", "data_loader_kwargs"]),
                "doc": noisy_prose(r) if r.random() < 0.95 else None,
                "typ": r.choice(TYPES),
                "has_default": hd,
                "default": val_to_json(any_val(r)) if hd else None,
                "tail": r.choice(["", " Defaults to 5", " defaults to\n 7.", " Default value is `x`.", " Default: (a.b, 2). tail"]),
                "typ2": r.choice(TYPES),
            }
        run.dist["kind"]["domain" if case["dom"] else "adversarial"] += 1
        run.dist["value"][case["default"]["t"] if case["default"] else "absent"] += 1
        run.dist["typ"][str(case["typ"])[:24]] += 1
        return case

    def nontrivial(self, c):
        return bool(c.get("has_default")) or "efault" in (c.get("doc") or "") or bool(c.get("tail"))

    def shrink_candidates(self, c):
        doc = c.get("doc") or ""
        ws = doc.split(" ")
        for k in range(len(ws)):
            d = dict(c)
            d["doc"] = " ".join(ws[:k] + ws[k + 1 :])
            if d["doc"]:
                yield d
        if c.get("name") != "a":
            d = dict(c)
            d["name"] = "a"
            yield d

    # ---- implementation side ----------------------------------------------
    def _value(self, c):
        from ..common import val_of_json

        return val_of_json(c["default"]) if c.get("has_default") else None

    def py_setdoc(self, name, doc, typ, has_default, default, emit):
        p = {}
        if doc is not None:
            p["doc"] = doc
        if typ is not None:
            p["typ"] = typ
        if has_default:
            p["default"] = default
        try:
            _, q = self.set_default_doc((name, p), emit_default_doc=emit)
            return {"ok": {"doc": q.get("doc"), "default": canon_val(val_to_json(q["default"])) if "default" in q else None}}
        except Exception as e:
            return {"raises": exc_kind(e)}

    def py_extract(self, line, typ, emit):
        try:
            d, v = self.extract_default(line, typ=typ, emit_default_doc=emit)
            return {"ok": {"doc": d, "default": None if v is None else canon_val(val_to_json(v))}}
        except Exception as e:
            return {"raises": exc_kind(e)}

    def py_interp(self, doc, typ, emit):
        p = {}
        if doc is not None:
            p["doc"] = doc
        if typ is not None:
            p["typ"] = typ
        try:
            _, q = self.interpolate_defaults(("a", p), emit_default_doc=emit)
            return {"ok": {"doc": q.get("doc"), "default": canon_val(val_to_json(q["default"])) if "default" in q else None}}
        except Exception as e:
            return {"raises": exc_kind(e)}

    def corr(self, c, run):
        res = []
        v = self._value(c)
        for emit in (True, False):
            op = {"op": "setdoc", "name": c["name"], "doc": c["doc"], "typ": c["typ"], "emit": emit}
            if c["has_default"]:
                op["default"] = c["default"]
            impl = self.py_setdoc(c["name"], c["doc"], c["typ"], c["has_default"], v, emit)
            res.append(("setdoc", op, impl))
        rendered = self.py_setdoc(c["name"], c["doc"], c["typ"], c["has_default"], v, True)
        if c["dom"]:
            line = (rendered.get("ok") or {}).get("doc")
            if line is not None and c["has_default"] and c["phrase"] != "Defaults to ":
                line = line.replace(" Defaults to ", " " + c["phrase"], 1)
            typ2 = c["typ"]
        else:
            line = (c["doc"] or "") + c["tail"]
            if "ok" in rendered and rendered["ok"]["doc"] is not None and len(c["tail"]) % 2 == 0:
                line = rendered["ok"]["doc"]
            typ2 = c["typ2"]
        if line is not None:
            for emit in (True, False):
                res.append(("extract", {"op": "extract", "line": line, "typ": typ2, "emit": emit}, self.py_extract(line, typ2, emit)))
                res.append(("interp", {"op": "interp", "doc": line, "typ": typ2, "emit": emit}, self.py_interp(line, typ2, emit)))
        # the entry emitters of the three styles hand BOTH values of emit_default_doc on to set_default_doc
        if c["dom"] and c["doc"]:
            from doctrans.docstring_utils import emit_param_str

            pj = {"doc": c["doc"]}
            pp = {"doc": c["doc"]}
            if c["typ"] is not None:
                pj["typ"], pp["typ"] = c["typ"], c["typ"]
            if c["has_default"]:
                pj["default"], pp["default"] = c["default"], v
            for style in ("rest", "numpydoc", "google"):
                for emit in (True, False):
                    try:
                        impl = {"ok": emit_param_str((c["name"], copy.deepcopy(pp)), style=style, emit_doc=True, emit_type=True, word_wrap=False, emit_default_doc=emit)}
                    except Exception as e:
                        impl = {"raises": exc_kind(e)}
                    res.append(("emit_param_" + style, {"op": "emit_param_str", "name": c["name"], "param": pj, "style": style, "emit": emit}, impl))
        return res

    def canon_model(self, layer, op, ans):
        if layer.startswith("emit_param_"):
            return ans
        if "ok" in ans:
            o = ans["ok"]
            return {"ok": {"doc": o.get("doc"), "default": canon_val(o.get("default"))}}
        return ans

    # ---- the property on the real code -------------------------------------
    def oracle(self, c, run):
        if not c.get("dom"):
            return []
        fails = []
        v = self._value(c)
        doc, typ, name = c["doc"], c["typ"], c["name"]
        if not c["has_default"]:
            # prose without an announced value is never altered
            for emit in (True, False):
                r = self.py_interp(doc, typ, emit)
                if r != {"ok": {"doc": doc, "default": None}}:
                    fails.append({"what": "prose without announcement altered", "emit": emit, "got": r, "doc": doc})
            return fails
        rendered = self.py_setdoc(name, doc, typ, True, v, True)
        if "ok" not in rendered:
            return [{"what": "rendering raised", "got": rendered}]
        line = rendered["ok"]["doc"]
        if v is None and name.endswith("kwargs"):
            if line != doc:
                fails.append({"what": "kwargs None default rendered", "got": line})
            return fails
        if not line.startswith(expected_dot(doc) + " Defaults to "):
            fails.append({"what": "default sentence not rendered after the prose", "got": line})
            return fails
        if c["phrase"] != "Defaults to ":
            line = line.replace(" Defaults to ", " " + c["phrase"], 1)
        for emit in (True, False):
            try:
                p = {"doc": line}
                if typ is not None:
                    p["typ"] = typ
                _, q = self.interpolate_defaults((name, p), emit_default_doc=emit)
            except Exception as e:
                fails.append({"what": "extraction raised", "exc": exc_kind(e), "line": line, "emit": emit})
                continue
            got = q.get("default")
            if not same_value(got, v):
                fails.append(
                    {"what": "default value or type changed", "line": line, "typ": typ, "want": repr(v), "got": repr(got), "emit": emit}
                )
            want_doc = line if emit else expected_dot(doc)
            if q.get("doc") != want_doc and not (not emit and q.get("doc") == doc):
                fails.append({"what": "surrounding prose changed", "line": line, "want": want_doc, "got": q.get("doc"), "emit": emit})
        return fails

    def classify(self, c, fl):
        return classify(c, fl, self._value(c))


def classify(c, fl, v):
    """Known finding classes of C17 (narrow, by root cause). See known_findings.json."""
    doc = c.get("doc") or ""
    if not c.get("has_default"):
        return None
    text = v if isinstance(v, str) else None
    if "efaults" in doc:
        return "C17-D9-prose-mentions-defaults"
    if text is not None and len(text) > 6 and text.startswith("```") and text.endswith("```") and text != "```(None)```":
        return "C17-code-default-unquoted"
    if text is not None and _dot_outside_brackets(text):
        return "C17-D5-dot-in-value"
    return None


def _dot_outside_brackets(s):
    seen = False
    for i, ch in enumerate(s):
        if ch in "{[()]}":
            seen = True
        elif ch == "." and not seen and not (i + 1 < len(s) and s[i + 1].isdigit()):
            return True
    return False


PROP = C17()
