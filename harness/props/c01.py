"""
C01 — docstring round trip (rest / numpydoc / google).

Correspondence layers (ReST, statement-level model): `emit_rest` vs emit.docstring,
`parse_rest` vs parse.docstring on emitted and on mutated text.
Property predicate (real code, all three styles): emit -> parse gives the `Same`
interface; the style is recognised from the text; parsing never raises.
"""
import copy

from .. import gen as G
from ..common import exc_kind
from ..engine import Prop
from ..irutil import canon_ir, diff_ir, ir_to_json

STYLES = ("rest", "numpydoc", "google")
REST_TOKENS = (":param", ":cvar", ":ivar", ":var", ":type", ":return", ":rtype")


def mutate(r, t):
    k = r.random()
    if k < 0.2:
        return t.replace(":type", ":param", 1)
    if k < 0.35:
        i = r.randrange(len(t) + 1)
        return t[:i] + r.choice(
            [":param x: y", ":type", ":rtype: ```int```", ":return", ":par", "\n", "  ", " Defaults to 5", ":cvar a: b", ":ivar", ":var q: w"]
        ) + t[i:]  # fmt: skip
    if k < 0.5:
        ls = t.split("\n")
        r.shuffle(ls)
        return "\n".join(ls)
    if k < 0.6:
        return t.replace("\n\n", "\n")
    if k < 0.7:
        return t[: r.randrange(len(t) + 1)]
    if k < 0.8:
        return t.replace(":param ", ":param **", 1)
    return t


class C01(Prop):
    id = "C01"
    quick_cases = 1200
    thorough_cases = 30000
    rule = (
        "case = (IR of the property domain: 1-2 line summary, 0..5 uniquely named params with type grammar "
        "scalars/Optional/List/Literal/Union/Tuple/dotted, optional prose, type-consistent default of every kind, "
        "optional trailing kwargs, optional return entry) x style x default-text flag; for the ReST model tie 45% of "
        "the parsed texts are mutated (tokens mid-line, shuffled lines, truncation, ** names). Non-trivial = at least "
        "one parameter or a return entry; distinct by canonical JSON."
    )

    def setup(self, run):
        from doctrans import emit, parse
        from doctrans.docstring_parsers import parse_docstring

        self.emit, self.parse = emit, parse
        self.parse_docstring = parse_docstring

    def gen(self, r, i, run):
        full = r.random() < 0.6  # every entry typed and described: the part of the domain where the property holds
        ir = G.gen_ir(r, rich=r.random() < 0.7, p_typ=1.0 if full else 0.85, p_doc=1.0 if full else 0.85)
        if r.random() < 0.06:
            # a directed family: LONG one-line prose of the return entry / of an entry (nothing is wrapped here: the
            # conversions of this property run with word_wrap off, whatever the length)
            long = G.sized_prose(r, r.randint(110, 170)).rstrip(".,") + "."
            if ir["returns"] is not None and "default" not in ir["returns"]:
                ir["returns"] = dict(ir["returns"], doc=long)
            elif ir["params"]:
                n0, p0 = ir["params"][0]
                ir["params"][0] = (n0, dict(p0, doc=long))
        case = {
            "ir": ir_to_json(ir),
            "style": r.choice(STYLES),
            "emit_dd": r.random() < 0.75,
            "mut_seed": r.randrange(1 << 30) if r.random() < 0.45 else None,
        }
        run.dist["style"][case["style"]] += 1
        run.dist["n_params"][len(ir["params"])] += 1
        run.dist["returns"][ir["returns"] is not None] += 1
        for _, p in ir["params"]:
            run.dist["default_kind"][type(p["default"]).__name__ if "default" in p else "absent"] += 1
        return case

    def nontrivial(self, c):
        return bool(c["ir"]["params"]) or c["ir"]["returns"] is not None

    def describe(self, c):
        return {"style": c["style"], "emit_dd": c["emit_dd"], "ir": c["ir"]}

    def shrink_candidates(self, c):
        ir = c["ir"]
        for k in range(len(ir["params"])):
            d = copy.deepcopy(c)
            del d["ir"]["params"][k]
            yield d
        if ir["returns"] is not None:
            d = copy.deepcopy(c)
            d["ir"]["returns"] = None
            yield d
        for k, (n, p) in enumerate(ir["params"]):
            for f in ("default", "doc", "typ"):
                if f in p:
                    d = copy.deepcopy(c)
                    del d["ir"]["params"][k][1][f]
                    yield d
        if "\n" in (ir["doc"] or ""):
            d = copy.deepcopy(c)
            d["ir"]["doc"] = ir["doc"].split("\n")[0]
            yield d

    # ---- implementation -----------------------------------------------------
    def py_ir(self, j):
        from ..common import val_of_json

        def P(p):
            q = {k: v for k, v in p.items() if k != "default"}
            if "default" in p:
                q["default"] = val_of_json(p["default"])
            return q

        return G.to_py_ir({"doc": j["doc"], "params": [(n, P(p)) for n, p in j["params"]], "returns": None if j["returns"] is None else P(j["returns"])})

    def py_emit(self, ir, style, emit_dd):
        try:
            return {"ok": self.emit.docstring(copy.deepcopy(ir), docstring_format=style, word_wrap=False, emit_default_doc=emit_dd)}
        except Exception as e:
            return {"raises": exc_kind(e)}

    def py_parse(self, text, emit_dd):
        try:
            return {"ok": canon_ir(ir_to_json(self.parse.docstring(text, emit_default_doc=emit_dd)))}
        except Exception as e:
            return {"raises": exc_kind(e)}

    def corr(self, c, run):
        import random

        res = []
        ir = self.py_ir(c["ir"])
        # one entry -> its lines, in every style (docstring_utils.emit_param_str, word_wrap off)
        from doctrans.docstring_utils import emit_param_str

        ents = list(c["ir"]["params"]) + ([["return_type", c["ir"]["returns"]]] if c["ir"]["returns"] is not None else [])
        py_ents = list(ir["params"].items()) + ([("return_type", ir["returns"]["return_type"])] if ir.get("returns") else [])
        for (n, pj), (_, pp) in zip(ents, py_ents):
            for style in STYLES:
                try:
                    impl = {"ok": emit_param_str((n, copy.deepcopy(pp)), style=style, emit_doc=True, emit_type=True, word_wrap=False, emit_default_doc=c["emit_dd"])}
                except Exception as e:
                    impl = {"raises": exc_kind(e)}
                res.append(("emit_param_" + style, {"op": "emit_param_str", "name": n, "param": pj, "style": style, "emit": c["emit_dd"]}, impl))
        for style in ("numpydoc", "google"):
            res.append(("emit_" + style, {"op": "emit_docstring", "style": style, "ir": c["ir"], "emit": c["emit_dd"]}, self.py_emit(ir, style, c["emit_dd"])))
        # the numpydoc / google scanner on emitted (and, for 45% of the cases, mutated) text
        from doctrans.docstring_parsers import Style, _scan_phase
        from doctrans.docstring_utils import ARG_TOKENS, RETURN_TOKENS

        for style in ("numpydoc", "google"):
            pe2 = self.py_emit(ir, style, c["emit_dd"])
            if "ok" not in pe2:
                continue
            t = pe2["ok"]
            if c["mut_seed"] is not None:
                t = mutate_sections(random.Random(c["mut_seed"]), t)
            try:
                sc = _scan_phase(t, style=getattr(Style, style))
                at, rt = getattr(ARG_TOKENS, style)[0], getattr(RETURN_TOKENS, style)[0]
                impl = {"ok": {"doc": sc["doc"], "args": sc.get(at, []), "rets": sc.get(rt, []), "afterward": sc.get("scanned_afterward")}}
            except Exception as e:
                impl = {"raises": exc_kind(e)}
            res.append(("scan_" + style, {"op": "scan_doc", "style": style, "text": t}, impl))
            if self.detect_style(t) == style:
                for e2 in (True, False):
                    res.append(("parse_" + style, {"op": "parse_doc", "style": style, "text": t, "emit": e2}, self.py_parse(t, e2)))
        pe = self.py_emit(ir, "rest", c["emit_dd"])
        res.append(("emit_rest", {"op": "emit_rest", "ir": c["ir"], "emit": c["emit_dd"]}, pe))
        if "ok" in pe:
            t = pe["ok"]
            if c["mut_seed"] is not None:
                t = mutate(random.Random(c["mut_seed"]), t)
            if any(tok in t for tok in REST_TOKENS):
                for e2 in (True, False):
                    res.append(("parse_rest", {"op": "parse_rest", "text": t, "emit": e2}, self.py_parse(t, e2)))
        return res

    def canon_model(self, layer, op, ans):
        if layer in ("parse_rest", "parse_numpydoc", "parse_google") and "ok" in ans:
            j = ans["ok"]
            if isinstance(j, dict) and j.get("returns") == {}:
                j = dict(j, returns=None)  # (a return entry that holds nothing is transported as "no return entry")
            return {"ok": canon_ir(j)}
        return ans

    # ---- the property on the real code ---------------------------------------
    def oracle(self, c, run):
        ir = self.py_ir(c["ir"])
        style, e = c["style"], c["emit_dd"]
        run.count("oracle:%s:%s" % (style, classify_ir(c["ir"], style, e) or "in-domain"))
        try:
            text = self.emit.docstring(copy.deepcopy(ir), docstring_format=style, word_wrap=False, emit_default_doc=e)
        except Exception as ex:
            return [{"what": "emit raised", "exc": exc_kind(ex), "style": style}]
        fails = []
        has_entries = bool(ir["params"]) or ir["returns"] is not None
        if has_entries:
            got_style = self.detect_style(text)
            if got_style != style:
                fails.append({"what": "style misrecognised", "style": style, "recognised": got_style, "text": text})
        try:
            back = self.parse.docstring(text, emit_default_doc=True)
        except Exception as ex:
            return fails + [{"what": "parse raised", "exc": exc_kind(ex), "style": style, "text": text}]
        diffs = diff_ir(ir, back, check_default=e)
        if diffs:
            fails.append({"what": "round trip changed the interface", "style": style, "diffs": diffs, "text": text})
        return fails

    def detect_style(self, text):
        from doctrans.docstring_parsers import TOKENS

        if any(t in text for t in TOKENS.rest):
            return "rest"
        if any(t in text for t in TOKENS.google):
            return "google"
        return "numpydoc"

    RAISES = {
        "C01-untyped-entry": {"ValueError", "AttributeError", "IndexError", "KeyError", "TypeError", "SyntaxError"},
        "C01-entry-without-prose": {"ValueError", "AttributeError", "IndexError", "KeyError", "TypeError"},
        "C17-code-default-unquoted": {"SyntaxError", "ValueError", "TypeError"},
        "C17-D5-dot-in-value": {"SyntaxError", "ValueError"},
        "C17-D9-prose-mentions-defaults": {"SyntaxError", "ValueError"},
        "AST-non-string-default-under-a-str-mentioning-type": {"AttributeError"},
    }

    def classify(self, c, fl):
        """every difference must be explained by a finding that covers that field of that entry"""
        from ..astkinds import covered_by

        ex = explain_ir(c["ir"], c["style"], c["emit_dd"])
        if not ex:
            return None
        if not isinstance(fl, dict) or not fl.get("what"):
            return ex[0][0]
        if fl["what"] in ("parse raised", "emit raised"):
            return next((cid for cid, _, _ in ex if fl.get("exc") in self.RAISES.get(cid, ())), None)
        if fl["what"] == "style misrecognised":
            return next((cid for cid, _, keys in ex if "style" in keys), None)
        if fl.get("diffs") is None:
            return ex[0][0]
        return covered_by(ex, fl["diffs"])


def mutate_sections(r, t):
    """numpydoc / google text with one structural change: a trailing section, a blank line removed or added, a line
    dedented or indented, the Returns header moved, the text cut"""
    lines = t.split("\n")
    k = r.random()
    if k < 0.2:
        return t + r.choice(["Raises:\n  ValueError: when bad\n", "Raises\n------\nValueError\n    when bad\n", "Example:\n  >>> f()\n", "Notes\n-----\nfree text\n"])
    if k < 0.4 and len(lines) > 3:
        i = r.randrange(1, len(lines))
        return "\n".join(lines[:i] + lines[i + 1 :])
    if k < 0.55 and len(lines) > 3:
        i = r.randrange(1, len(lines))
        return "\n".join(lines[:i] + [""] + lines[i:])
    if k < 0.7 and len(lines) > 3:
        i = r.randrange(1, len(lines))
        return "\n".join(lines[:i] + [r.choice(["  ", "    ", ""]) + lines[i].lstrip()] + lines[i + 1 :])
    if k < 0.85:
        return t[: r.randrange(len(t) + 1)]
    return t.replace("Returns", r.choice(["Returns", "returns", "Return", "Yields"]), 1)


def _mentions_str(typ):
    from ..astkinds import _mentions_str as m

    return m(typ)


def _is_code(v):
    return v["t"] == "str" and len(v["v"]) > 6 and v["v"].startswith("```") and v["v"].endswith("```") and v["v"] != "```(None)```"


def _dot_outside_brackets(s):
    seen = False
    for i, ch in enumerate(s):
        if ch in "{[()]}":
            seen = True
        elif ch == "." and not seen and not (i + 1 < len(s) and s[i + 1].isdigit()):
            return True
    return False


def classify_ir(ir, style, emit_dd, kinds=("rest", "numpydoc", "google")):
    """
    Known finding classes of the docstring round trip, by root cause (narrowest first).
    Returns the id of the first class the input belongs to, or None (= inside Dom_style).
    """
    entries = list(ir["params"]) + ([["return_type", ir["returns"]]] if ir["returns"] is not None else [])
    from ..astkinds import prose_less_breaks, untyped_breaks

    if untyped_breaks(style, ir):
        return "C01-untyped-entry"
    if prose_less_breaks(style, ir):
        return "C01-entry-without-prose"
    for n, p in entries:
        d = p.get("default")
        if d is not None and emit_dd and d["t"] in ("int", "float", "bool") and _mentions_str(p.get("typ")):
            return "AST-non-string-default-under-a-str-mentioning-type"
        if d is not None and emit_dd:
            if _is_code(d):
                return "C17-code-default-unquoted"
            if d["t"] == "str" and _dot_outside_brackets(d["v"]):
                return "C17-D5-dot-in-value"
            if "efaults" in p.get("doc", "") and not G.has_own_default_sentence(p):
                return "C17-D9-prose-mentions-defaults"
    if style in ("numpydoc", "google"):
        seen_default = False
        for n, p in entries:
            if "default" in p:
                seen_default = True
            elif seen_default and not n.endswith("kwargs"):
                return "C01-D7-default-invented-after-defaulted"
    if style == "google" and ir["returns"] is not None:
        return "C01-D8-google-return-type-as-prose"
    return None


def explain_ir(ir, style, emit_dd):
    """scoped form of classify_ir: [(finding id, {entry: fields | None} | None = every entry, structural keys)]"""
    from ..astkinds import optional_prose, prose_less_breaks, untyped_breaks

    ALL = {"typ", "prose", "default"}
    STRUCT = {"order", "summary", "lost", "invented", "style"}
    entries = list(ir["params"]) + ([["return_type", ir["returns"]]] if ir["returns"] is not None else [])
    out = []
    loose = style in ("numpydoc", "google")  # an entry that is not recognised takes the following text with it
    if untyped_breaks(style, ir):
        out.append(("C01-untyped-entry", None if loose else {n: ALL for n, p in entries if "typ" not in p}, STRUCT if loose else set()))
    if prose_less_breaks(style, ir):
        # (ReST: an entry with neither prose nor type is not written at all)
        bare = any("doc" not in p and "typ" not in p for _, p in entries)
        out.append(("C01-entry-without-prose", None if loose else {n: ALL for n, p in entries if "doc" not in p}, STRUCT if loose else ({"lost"} | ({"order", "style"} if bare else set()))))
    for n, p in entries:
        d = p.get("default")
        if d is not None and emit_dd and d["t"] in ("int", "float", "bool") and _mentions_str(p.get("typ")):
            out.append(("AST-non-string-default-under-a-str-mentioning-type", {n: ALL}, set()))
        if d is not None and emit_dd:
            if _is_code(d):
                out.append(("C17-code-default-unquoted", {n: ALL}, set()))
            if d["t"] == "str" and _dot_outside_brackets(d["v"]):
                out.append(("C17-D5-dot-in-value", {n: {"default", "prose"}}, set()))
            if "efaults" in p.get("doc", "") and not G.has_own_default_sentence(p):
                out.append(("C17-D9-prose-mentions-defaults", {n: {"default", "prose"}}, set()))
        if optional_prose(p):
            out.append(("AST-prose-starting-with-optional-wraps-the-type", {n: {"typ"}}, set()))
    if loose:
        seen_default = False
        names = {}
        for n, p in entries:
            if "default" in p:
                seen_default = True
            elif seen_default and not n.endswith("kwargs"):
                names[n] = {"default"}
        if names:
            out.append(("C01-D7-default-invented-after-defaulted", names, set()))
    if style == "google" and ir["returns"] is not None:
        out.append(("C01-D8-google-return-type-as-prose", {"return_type": ALL}, {"lost", "invented"}))
    return out


PROP = C01()
