"""C04 — see harness/astkinds.py"""
from ..astkinds import C04

PROP = C04()
