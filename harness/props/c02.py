"""C02 — see harness/astkinds.py"""
from ..astkinds import C02

PROP = C02()
