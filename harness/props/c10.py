"""C10 — see harness/syncprops.py"""
from ..syncprops import C10

PROP = C10()
