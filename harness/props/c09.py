"""C09 — see harness/syncprops.py"""
from ..syncprops import C09

PROP = C09()
