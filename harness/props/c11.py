"""C11 — see harness/syncprops.py"""
from ..syncprops import C11

PROP = C11()
