"""
C15 — dotted locations address exactly one node, the right one.

Correspondence layers: `find` (annotate_ancestry + find_in_ast), `rewrite` (RewriteAtQuery.visit),
statement-level Lean model over the generic tree. Property predicate: an independent resolver
written directly over `ast` (below) decides which node a location denotes.
"""
import ast
import copy
import random

from .. import srcgen
from ..astjson import atom, item_to_json, node_to_json
from ..common import exc_kind
from ..engine import Prop


# ---- the independent resolver ---------------------------------------------------
def members(stmt):
    """simple names a statement binds in its scope"""
    if isinstance(stmt, (ast.ClassDef, ast.FunctionDef, ast.AsyncFunctionDef)):
        return [stmt.name]
    if isinstance(stmt, ast.AnnAssign) and isinstance(stmt.target, ast.Name):
        return [stmt.target.id]
    if isinstance(stmt, ast.Assign) and all(isinstance(t, ast.Name) for t in stmt.targets):
        return [t.id for t in stmt.targets]
    return []


def fn_args(fn):
    return list(fn.args.args) + list(fn.args.kwonlyargs)


def resolve(body, loc, path=()):
    """-> list of (node, path) where path = tuple of ('body', idx) / ('args'|'kwonlyargs', idx) steps"""
    out = []
    head, rest = loc[0], loc[1:]
    for i, stmt in enumerate(body):
        if head not in members(stmt):
            continue
        p = path + (("body", i),)
        if not rest:
            out.append((stmt, p))
        elif isinstance(stmt, ast.ClassDef):
            out += resolve(stmt.body, rest, p)
        elif isinstance(stmt, ast.FunctionDef) and len(rest) == 1:
            for fld in ("args", "kwonlyargs"):
                for j, a in enumerate(getattr(stmt.args, fld)):
                    if a.arg == rest[0]:
                        out.append((a, p + ((fld, j),)))
    return out


def all_locations(body, prefix=()):
    out = []
    for stmt in body:
        for nm in members(stmt):
            out.append(list(prefix) + [nm])
            if isinstance(stmt, ast.ClassDef):
                out += all_locations(stmt.body, prefix + (nm,))
            elif isinstance(stmt, ast.FunctionDef):
                for a in fn_args(stmt):
                    out.append(list(prefix) + [nm, a.arg])
    return out


def node_at(module, path):
    cur = module
    for fld, i in path:
        cur = (cur.body if fld == "body" else getattr(cur.args, fld))[i]
    return cur


def replace_at(module, path, new):
    cur = module
    for fld, i in path[:-1]:
        cur = (cur.body if fld == "body" else getattr(cur.args, fld))[i]
    fld, i = path[-1]
    (cur.body if fld == "body" else getattr(cur.args, fld))[i] = new


def key(n):
    return [type(n).__name__, getattr(n, "lineno", None), getattr(n, "col_offset", None)]


# ---- replacement nodes -------------------------------------------------------------
def gen_repl(r):
    k = r.random()
    if k < 0.4:
        return ("arg", r.choice(["a", "z", "q"]), r.random() < 0.7)
    if k < 0.75:
        return ("annassign", r.choice(["a", "q", "attr", "z"]), r.choice([None, 7]))
    if k < 0.85:
        return ("assign", r.choice(["a", "q", "attr"]), 9)
    return ("classdef",)


def build_repl(spec):
    from doctrans.ast_utils import set_arg

    if spec[0] == "arg":
        return set_arg(spec[1], annotation=ast.Name("bytes", ast.Load()) if spec[2] else None)
    if spec[0] == "annassign":
        return ast.AnnAssign(
            annotation=ast.Name("bytes", ast.Load()),
            simple=1,
            target=ast.Name(spec[1], ast.Store()),
            value=None if spec[2] is None else ast.Constant(value=spec[2]),
        )
    if spec[0] == "assign":
        return ast.Assign(targets=[ast.Name(spec[1], ast.Store())], value=ast.Constant(value=spec[2]), lineno=None)
    return ast.parse("class Z(object):\n    zz: int = 1\n").body[0]


class C15(Prop):
    id = "C15"
    quick_cases = 1500
    thorough_cases = 30000
    rule = (
        "case = (generated module: functions before/between/after classes, nested classes to depth 3, repeated simple "
        "names across scopes, kw-only and **kwargs arguments, string constants equal to argument names; a location that "
        "exists in it (70%) or a mutated/absent one (30%); a replacement node of kind arg/AnnAssign/Assign/ClassDef). "
        "Non-trivial = module with at least 2 definitions; distinct by (source, location, replacement)."
    )

    def setup(self, run):
        from doctrans.ast_utils import RewriteAtQuery, find_in_ast
        from doctrans.source_transformer import ast_parse

        self.find_in_ast, self.RewriteAtQuery, self.ast_parse = find_in_ast, RewriteAtQuery, ast_parse

    def gen(self, r, i, run):
        for _ in range(20):
            src = srcgen.gen_module(random.Random(r.random()), p_func=r.choice([0.0, 0.2, 0.35]))
            try:
                base = ast.parse(src)
            except SyntaxError:
                continue
            break
        locs = all_locations(base.body)
        cand_absent = [l[:-1] + ["nope"] for l in locs[:3]] + [["nope"], ["C", "meth", "a"], ["f", "a"], ["helper", "a"], ["C", "attr"], ["D", "meth"]]
        if locs and r.random() < 0.7:
            search = r.choice(locs)
        else:
            search = r.choice(cand_absent)
        case = {"src": src, "search": search, "repl": list(gen_repl(r))}
        n_match = len(resolve(base.body, search))
        run.dist["matches"][min(n_match, 2)] += 1
        run.dist["depth"][len(search)] += 1
        run.dist["repl"][case["repl"][0]] += 1
        return case

    def nontrivial(self, c):
        return c["src"].count("def ") + c["src"].count("class ") >= 2

    def shrink_candidates(self, c):
        lines = c["src"].split("\n")
        # drop one top-level block at a time
        starts = [i for i, l in enumerate(lines) if l and not l[0].isspace()]
        for k, s in enumerate(starts):
            e = starts[k + 1] if k + 1 < len(starts) else len(lines)
            src = "\n".join(lines[:s] + lines[e:])
            try:
                ast.parse(src)
            except SyntaxError:
                continue
            d = dict(c)
            d["src"] = src
            yield d

    # ---- implementation --------------------------------------------------------------
    def py_find(self, src, search):
        m = self.ast_parse(src, skip_docstring_remit=True)
        try:
            f = self.find_in_ast(list(search), m)
        except Exception as e:
            return {"raises": exc_kind(e)}, None
        if f is None:
            return {"ok": None}, None
        return (
            {
                "ok": node_to_json(f),
                "loc": getattr(f, "_location", None),
                "default": None if not hasattr(f, "default") else item_to_json(f.default),
            },
            f,
        )

    def py_rewrite(self, src, search, repl):
        m = self.ast_parse(src, skip_docstring_remit=True)
        rw = self.RewriteAtQuery(search=list(search), replacement_node=repl)
        try:
            out = rw.visit(m)
        except Exception as e:
            return {"raises": exc_kind(e)}, None, None
        return {"ok": node_to_json(out), "replaced": rw.replaced}, out, rw.replaced

    def corr(self, c, run):
        base = ast.parse(c["src"])
        mj = node_to_json(base)
        res = []
        fr, _ = self.py_find(c["src"], c["search"])
        res.append(("find", {"op": "find", "module": mj, "search": c["search"]}, fr))
        repl = build_repl(c["repl"])
        rr, _, _ = self.py_rewrite(c["src"], c["search"], repl)
        res.append(("rewrite", {"op": "rewrite", "module": mj, "search": c["search"], "repl": node_to_json(build_repl(c["repl"]))}, rr))
        return res

    def canon_model(self, layer, op, ans):
        if layer == "find" and "ok" in ans and ans["ok"] is None:
            return {"ok": None}
        return ans

    # ---- the property on the real code -----------------------------------------------
    def oracle(self, c, run):
        src, search = c["src"], c["search"]
        base = ast.parse(src)
        matches = resolve(base.body, search)
        if len(matches) > 1:
            # several statements bind the addressed name: which one a lookup means is not decided here, but a
            # replacement must still change exactly ONE of the candidates and nothing else
            run.count("oracle:ambiguous-location")
            node = matches[0][0]
            repl = build_repl(["arg", "zz9", True] if isinstance(node, ast.arg) else ["annassign", "zz9", 7] if isinstance(node, (ast.AnnAssign, ast.Assign)) else ["classdef"])
            rr, out, _ = self.py_rewrite(src, search, repl)
            if "raises" in rr:
                return []
            wants = []
            for _, path in matches:
                e = ast.parse(src)
                replace_at(e, path, copy.deepcopy(repl))
                wants.append(ast.dump(e))
            try:
                got = ast.dump(out)
            except Exception:
                return []
            if got not in wants:
                return [{"what": "a replacement at a location several statements bind did not change exactly one of them", "candidates": len(matches), "got": _unparse(out)[:400]}]
            return []
        cls = classify(c, base, matches)
        run.count("oracle:" + (cls or "in-domain"))
        fails = []
        fr, f = self.py_find(src, search)
        if "raises" in fr:
            fails.append({"what": "find raised", "exc": fr["raises"]})
        elif not matches:
            if f is not None:
                fails.append({"what": "absent location resolved to a node", "got": key(f), "got_src": ast.unparse(f)[:80]})
        else:
            want = matches[0][0]
            if f is None:
                fails.append({"what": "existing location not found", "want": key(want)})
            elif key(f) != key(want):
                fails.append({"what": "location resolved to the wrong node", "want": key(want), "got": key(f), "got_src": ast.unparse(f)[:80]})
        # replacement: pick a replacement of the kind of the addressed node
        if matches:
            node, path = matches[0]
            if isinstance(node, ast.arg):
                repl = build_repl(["arg", "zz9", True])
            elif isinstance(node, (ast.AnnAssign, ast.Assign)):
                repl = build_repl(["annassign", "zz9", 7])
            else:
                repl = build_repl(["classdef"])
        elif len(search) > 1 and resolve(base.body, search[:-1]) and isinstance(resolve(base.body, search[:-1])[0][0], ast.FunctionDef):
            repl = build_repl(["arg", "zz9", True])
        else:
            repl = build_repl(c["repl"])
        rr, out, replaced = self.py_rewrite(src, search, repl)
        if "raises" in rr:
            if matches or rr["raises"] != "AssertionError":
                fails.append({"what": "replace raised", "exc": rr["raises"]})
            return fails
        expected = ast.parse(src)
        if matches:
            replace_at(expected, matches[0][1], copy.deepcopy(repl))
        if bool(replaced) != bool(matches):
            fails.append({"what": "replaced flag wrong", "want": bool(matches), "got": bool(replaced)})
        try:
            got_dump = ast.dump(out)
        except Exception as e:
            fails.append({"what": "rewritten tree malformed", "exc": exc_kind(e)})
            return fails
        fails += self.lookup_after_rewrite(src, search, repl)
        if got_dump != ast.dump(expected):
            fails.append(
                {
                    "what": "replacement changed the wrong nodes" if matches else "replacement at an absent location changed the tree",
                    "got": _unparse(out),
                    "want": _unparse(expected),
                }
            )
        return fails

    def lookup_after_rewrite(self, src, search, repl):
        """find -> rewrite -> find on ONE tree object: the second lookup must give what a lookup on a fresh parse of the
        rewritten program gives (nothing about the tree may be remembered across the change)"""
        from doctrans.ast_utils import annotate_ancestry

        try:
            m = self.ast_parse(src, skip_docstring_remit=True)
            self.find_in_ast(list(search), m)
            self.RewriteAtQuery(search=list(search), replacement_node=copy.deepcopy(repl)).visit(m)
            annotate_ancestry(m)
            again = self.find_in_ast(list(search), m)
            fresh = self.find_in_ast(list(search), self.ast_parse(ast.unparse(ast.fix_missing_locations(m)), skip_docstring_remit=True))
        except Exception:
            return []
        a = None if again is None else ast.dump(ast.parse(ast.unparse(again)) if not isinstance(again, ast.arg) else again)
        b = None if fresh is None else ast.dump(ast.parse(ast.unparse(fresh)) if not isinstance(fresh, ast.arg) else fresh)
        if a != b:
            return [{"what": "a lookup after the tree was rewritten differs from the lookup on a fresh parse of the rewritten program", "again": a and a[:200], "fresh": b and b[:200]}]
        return []

    def classify(self, c, fl):
        base = ast.parse(c["src"])
        return classify(c, base, resolve(base.body, c["search"]))


def _unparse(t):
    try:
        return ast.unparse(t)
    except Exception as e:
        return "<unparse failed: %s>" % exc_kind(e)


def classify(c, base, matches):
    """Known finding classes (DESIGN §6: D11, D12, D13, D25 and three more the resolver run exposed)."""
    search = c["search"]
    # (D25 - a string constant equal to the addressed name was replaced instead of it - is repaired: fix 8971591)
    if len(search) > 2 and _has_class_path(base.body, search[:2]):
        return "C15-D12-nesting-deeper-than-two"
    if _nested_collision(base, search):
        return "C15-D12-nesting-deeper-than-two"
    if matches and isinstance(matches[0][0], ast.FunctionDef):
        return "C15-D13-function-node-never-replaced"
    if matches and matches[0][1][-1][0] == "kwonlyargs":
        return "C15-D11-kwonly-argument-not-found"
    if _d11(base.body, search):
        return "C15-D11-function-before-target"
    if not matches and _falls_through(base.body, search):
        return "C15-absent-prefix-falls-through"
    if _dup_scope(base.body, search):
        return "C15-duplicate-name-in-scope"
    if _prefix_is_assignment(base.body, search):
        return "C15-prefix-segment-names-an-assignment"
    if _prefix_is_function(base.body, search):
        return "C15-prefix-segment-names-a-function"
    if not matches and _absent_arg_falls_through(base.body, search):
        return "C15-absent-argument-falls-through"
    return None


def _absent_arg_falls_through(body, search):
    """the last segment names no positional argument of the addressed function, yet a LATER statement of the same body
    is a function with an argument of that name, or binds that name: find_in_ast goes on and returns that"""
    if len(search) < 2:
        return False
    for i, stmt in enumerate(body):
        if search[0] in members(stmt):
            if isinstance(stmt, ast.ClassDef):
                return _absent_arg_falls_through(stmt.body, search[1:])
            if isinstance(stmt, ast.FunctionDef) and len(search) == 2 and search[1] not in [a.arg for a in stmt.args.args]:
                for later in body[i + 1 :]:
                    if isinstance(later, ast.FunctionDef) and search[1] in [a.arg for a in later.args.args]:
                        return True
                    if search[1] in members(later) and not isinstance(later, ast.Assign):
                        return True
            return False
    return False


def _prefix_is_function(body, search):
    """a segment that still has two or more segments after it names a FUNCTION: find_in_ast spends one further
    segment on every function definition it meets from there on and returns an argument of a later function"""
    if len(search) < 3:
        return False
    for stmt in body:
        if search[0] in members(stmt):
            if isinstance(stmt, ast.FunctionDef):
                return True
            if isinstance(stmt, ast.ClassDef):
                return _prefix_is_function(stmt.body, search[1:])
            return False
    return False


def _d11(body, search):
    """a FunctionDef is met in a body the search walks before the path element is reached"""
    if not search:
        return False
    for stmt in body:
        if search[0] in members(stmt) and not isinstance(stmt, ast.Assign):
            if isinstance(stmt, ast.ClassDef):
                return _d11(stmt.body, search[1:])
            return False
        if isinstance(stmt, ast.FunctionDef):
            return True
    return False


def _nested_collision(base, search):
    """a definition nested two or more levels deep is labelled with its last two names only, and that label
    equals the search (or the search minus its last segment, for an argument)"""

    def walk(body, depth, parent):
        for stmt in body:
            for nm in members(stmt):
                label = ([parent] if parent else []) + [nm]
                if depth >= 2 and (label == search or (isinstance(stmt, ast.FunctionDef) and label == search[:-1])):
                    return True
            if isinstance(stmt, ast.ClassDef) and walk(stmt.body, depth + 1, stmt.name):
                return True
        return False

    return walk(base.body, 0, None)


def _falls_through(body, search):
    """no statement binds the first segment, yet a later segment names something in the same body"""
    if not search:
        return False
    hits = [s for s in body if search[0] in members(s) and not isinstance(s, ast.Assign)]
    if not hits:
        later = set(search[1:])
        return any(later & set(members(s)) for s in body if not isinstance(s, ast.Assign))
    if isinstance(hits[0], ast.ClassDef):
        return _falls_through(hits[0].body, search[1:])
    return False


def _dup_scope(body, search):
    """two statements of one scope bind the same simple name on the path, or a member is named like its class"""
    if not search:
        return False
    hits = [s for s in body if search[0] in members(s)]
    if len(hits) > 1:
        return True
    if any(a == b for a, b in zip(search, search[1:])):
        return True
    if hits and isinstance(hits[0], ast.ClassDef):
        return _dup_scope(hits[0].body, search[1:])
    return False


def _prefix_is_assignment(body, search):
    """a non-final segment names an annotated assignment (find_in_ast returns it, ignoring the rest of the path)"""
    if len(search) < 2:
        return False
    for stmt in body:
        if search[0] in members(stmt):
            if isinstance(stmt, ast.AnnAssign):
                return True
            if isinstance(stmt, ast.ClassDef):
                return _prefix_is_assignment(stmt.body, search[1:])
            return False
    return False


def _has_class_path(body, segs):
    for stmt in body:
        if isinstance(stmt, ast.ClassDef) and stmt.name == segs[0]:
            if len(segs) == 1:
                return True
            if _has_class_path(stmt.body, segs[1:]):
                return True
    return False


PROP = C15()
